package main

// gosync for C11, second part: (1) the bodies of the policy constructors of /repo/redirect.go are
// TRANSLATED into Coq boolean functions (coq/Gen/RedirectPolicies.v) - Proofs/RedirectSyncProofs.v
// proves that Model/Redirect.v's `permits` is that function, so a rewrite of a constructor either
// cannot be translated (gosync fails, the check is red) or breaks the proof; (2) the shape of
// SetRedirectPolicy / Clone / C in client.go as a table of facts (coq/Gen/RedirectClientFacts.v)
// the client model (Model/RedirectClient.v) rests on.
//
// The translator understands exactly the subset the seven constructors are written in:
//   constructor:  [ m := make(map[string]struct{}) ; for _, h := range <param> { m[KEY] = struct{}{} } ]
//                 return func(req, via) error { BODY }
//   BODY:         x := EXPR | if COND { return <non-nil> } | if _, ok := m[KEY]; !ok { return <non-nil> }
//                 | return nil | return <non-nil>
//   EXPR:         req.URL.Host | via[0].URL.Host | len(via) | <int param> | <local> | <int literal>
//                 | getHostname(E) | getDomain(E) | strings.ToLower(E) | E != E | E == E | E >= E ...
// Anything else (a captured mutable variable, a method call on captured state, a loop, an assignment to
// something declared outside the closure ...) is refused with an error naming the construct.

import (
	"fmt"
	"go/ast"
	"go/parser"
	"go/token"
	"os"
	"path/filepath"
	"sort"
	"strings"
)

type polTr struct {
	reqName, viaName string
	env              map[string][2]string // ident -> (coq, type)
	sets             map[string]string    // set variable -> coq list expression
}

func (t *polTr) expr(e ast.Expr) (string, string, error) {
	switch x := e.(type) {
	case *ast.ParenExpr:
		return t.expr(x.X)
	case *ast.BasicLit:
		if x.Kind == token.INT {
			return "(" + x.Value + ")%Z", "int", nil
		}
	case *ast.Ident:
		if v, ok := t.env[x.Name]; ok {
			return v[0], v[1], nil
		}
		return "", "", fmt.Errorf("identifier %q is not a parameter or a local of the closure", x.Name)
	case *ast.SelectorExpr:
		// <r>.URL.Host
		if x.Sel.Name == "Host" {
			if u, ok := x.X.(*ast.SelectorExpr); ok && u.Sel.Name == "URL" {
				switch r := u.X.(type) {
				case *ast.Ident:
					if r.Name == t.reqName {
						return "target", "str", nil
					}
				case *ast.IndexExpr:
					if id, ok := r.X.(*ast.Ident); ok && id.Name == t.viaName {
						if bl, ok := r.Index.(*ast.BasicLit); ok && bl.Value == "0" {
							return "(hd [] via)", "str", nil
						}
					}
				}
			}
		}
	case *ast.CallExpr:
		name := ""
		switch f := x.Fun.(type) {
		case *ast.Ident:
			name = f.Name
		case *ast.SelectorExpr:
			if p, ok := f.X.(*ast.Ident); ok {
				name = p.Name + "." + f.Sel.Name
			}
		}
		if name == "len" && len(x.Args) == 1 {
			if id, ok := x.Args[0].(*ast.Ident); ok && id.Name == t.viaName {
				return "(Z.of_nat (length via))", "int", nil
			}
		}
		fn := map[string]string{"getHostname": "get_hostname", "getDomain": "get_domain", "strings.ToLower": "to_lower"}[name]
		if fn != "" && len(x.Args) == 1 {
			a, ty, err := t.expr(x.Args[0])
			if err != nil {
				return "", "", err
			}
			if ty != "str" {
				return "", "", fmt.Errorf("%s applied to a non-string", name)
			}
			return "(" + fn + " " + a + ")", "str", nil
		}
		return "", "", fmt.Errorf("call of %q is outside the translated subset", name)
	case *ast.BinaryExpr:
		a, ta, err := t.expr(x.X)
		if err != nil {
			return "", "", err
		}
		b, tb, err := t.expr(x.Y)
		if err != nil {
			return "", "", err
		}
		if ta != tb {
			return "", "", fmt.Errorf("operands of %s have different types", x.Op)
		}
		if ta == "str" {
			switch x.Op {
			case token.EQL:
				return "(bytes_eqb " + a + " " + b + ")", "bool", nil
			case token.NEQ:
				return "(negb (bytes_eqb " + a + " " + b + "))", "bool", nil
			}
		}
		if ta == "int" {
			op := map[token.Token]string{token.GEQ: "Z.geb", token.GTR: "Z.gtb", token.LEQ: "Z.leb", token.LSS: "Z.ltb", token.EQL: "Z.eqb"}[x.Op]
			if op != "" {
				return "(" + op + " " + a + " " + b + ")", "bool", nil
			}
			if x.Op == token.NEQ {
				return "(negb (Z.eqb " + a + " " + b + "))", "bool", nil
			}
		}
		return "", "", fmt.Errorf("operator %s on %s is outside the translated subset", x.Op, ta)
	}
	return "", "", fmt.Errorf("expression %T is outside the translated subset", e)
}

func isNil(e ast.Expr) bool {
	id, ok := e.(*ast.Ident)
	return ok && id.Name == "nil"
}

// a block that is exactly `return <non-nil>`
func refusingBlock(b *ast.BlockStmt) bool {
	if len(b.List) != 1 {
		return false
	}
	rs, ok := b.List[0].(*ast.ReturnStmt)
	return ok && len(rs.Results) == 1 && !isNil(rs.Results[0])
}

// closure body -> list of refusal conditions (the hop is permitted iff none holds)
func (t *polTr) body(b *ast.BlockStmt) ([]string, error) {
	var refuse []string
	for i, st := range b.List {
		last := i == len(b.List)-1
		switch s := st.(type) {
		case *ast.AssignStmt:
			if s.Tok != token.DEFINE || len(s.Lhs) != 1 || len(s.Rhs) != 1 {
				return nil, fmt.Errorf("assignment other than `x := expr` in a policy closure")
			}
			v, ty, err := t.expr(s.Rhs[0])
			if err != nil {
				return nil, err
			}
			t.env[s.Lhs[0].(*ast.Ident).Name] = [2]string{v, ty}
		case *ast.IfStmt:
			if s.Else != nil || !refusingBlock(s.Body) {
				return nil, fmt.Errorf("`if` in a policy closure that is not `if cond { return <error> }`")
			}
			if s.Init == nil {
				c, ty, err := t.expr(s.Cond)
				if err != nil {
					return nil, err
				}
				if ty != "bool" {
					return nil, fmt.Errorf("condition is not boolean")
				}
				refuse = append(refuse, c)
				continue
			}
			// if _, ok := m[KEY]; !ok { return err }
			as, ok := s.Init.(*ast.AssignStmt)
			if !ok || as.Tok != token.DEFINE || len(as.Lhs) != 2 || len(as.Rhs) != 1 {
				return nil, fmt.Errorf("unsupported `if` initialiser in a policy closure")
			}
			ix, ok := as.Rhs[0].(*ast.IndexExpr)
			if !ok {
				return nil, fmt.Errorf("unsupported `if` initialiser in a policy closure")
			}
			mid, ok := ix.X.(*ast.Ident)
			set, known := "", false
			if ok {
				set, known = t.sets[mid.Name]
			}
			okName := as.Lhs[1].(*ast.Ident).Name
			un, isUn := s.Cond.(*ast.UnaryExpr)
			if !known || as.Lhs[0].(*ast.Ident).Name != "_" || !isUn || un.Op != token.NOT {
				return nil, fmt.Errorf("unsupported membership test in a policy closure")
			}
			if id, ok := un.X.(*ast.Ident); !ok || id.Name != okName {
				return nil, fmt.Errorf("unsupported membership test in a policy closure")
			}
			k, ty, err := t.expr(ix.Index)
			if err != nil {
				return nil, err
			}
			if ty != "str" {
				return nil, fmt.Errorf("map key is not a string")
			}
			refuse = append(refuse, "(negb (existsb (bytes_eqb "+k+") "+set+"))")
		case *ast.ReturnStmt:
			if !last || len(s.Results) != 1 {
				return nil, fmt.Errorf("`return` in the middle of a policy closure")
			}
			if !isNil(s.Results[0]) {
				refuse = append(refuse, "true")
			}
			return refuse, nil
		default:
			return nil, fmt.Errorf("statement %T in a policy closure is outside the translated subset", st)
		}
	}
	return nil, fmt.Errorf("policy closure does not end in a return")
}

// constructor -> (coq parameter list, coq body)
func translateConstructor(fd *ast.FuncDecl) (string, string, error) {
	t := &polTr{env: map[string][2]string{}, sets: map[string]string{}}
	params := ""
	listParam := ""
	for _, f := range fd.Type.Params.List {
		for _, n := range f.Names {
			switch ty := f.Type.(type) {
			case *ast.Ident:
				if ty.Name == "int" {
					t.env[n.Name] = [2]string{"limit", "int"}
					params += "(limit : Z) "
					continue
				}
			case *ast.Ellipsis:
				if id, ok := ty.Elt.(*ast.Ident); ok && id.Name == "string" {
					listParam = n.Name
					params += "(hs : list bytes) "
					continue
				}
			}
			return "", "", fmt.Errorf("parameter %s has an unsupported type", n.Name)
		}
	}
	var lit *ast.FuncLit
	for i, st := range fd.Body.List {
		if i == len(fd.Body.List)-1 {
			rs, ok := st.(*ast.ReturnStmt)
			if !ok || len(rs.Results) != 1 {
				return "", "", fmt.Errorf("constructor does not end in `return func...`")
			}
			lit, ok = rs.Results[0].(*ast.FuncLit)
			if !ok {
				return "", "", fmt.Errorf("constructor does not return a function literal")
			}
			break
		}
		switch s := st.(type) {
		case *ast.AssignStmt:
			// m := make(map[string]struct{})
			call, ok := s.Rhs[0].(*ast.CallExpr)
			if s.Tok == token.DEFINE && len(s.Lhs) == 1 && ok {
				if f, ok := call.Fun.(*ast.Ident); ok && f.Name == "make" && len(call.Args) == 1 {
					if _, ok := call.Args[0].(*ast.MapType); ok {
						t.sets[s.Lhs[0].(*ast.Ident).Name] = "[]"
						continue
					}
				}
			}
			return "", "", fmt.Errorf("constructor prelude: only `m := make(map...)` is translated")
		case *ast.RangeStmt:
			// for _, h := range <listParam> { m[KEY] = struct{}{} }
			src, ok := s.X.(*ast.Ident)
			if !ok || src.Name != listParam || s.Value == nil || len(s.Body.List) != 1 {
				return "", "", fmt.Errorf("constructor prelude: unsupported loop")
			}
			as, ok := s.Body.List[0].(*ast.AssignStmt)
			if !ok || as.Tok != token.ASSIGN || len(as.Lhs) != 1 {
				return "", "", fmt.Errorf("constructor prelude: unsupported loop body")
			}
			ix, ok := as.Lhs[0].(*ast.IndexExpr)
			if !ok {
				return "", "", fmt.Errorf("constructor prelude: unsupported loop body")
			}
			mid, ok := ix.X.(*ast.Ident)
			if !ok || t.sets[mid.Name] != "[]" {
				return "", "", fmt.Errorf("constructor prelude: loop fills an unknown set")
			}
			vn := s.Value.(*ast.Ident).Name
			t.env[vn] = [2]string{"h", "str"}
			k, ty, err := t.expr(ix.Index)
			delete(t.env, vn)
			if err != nil {
				return "", "", err
			}
			if ty != "str" {
				return "", "", fmt.Errorf("constructor prelude: key is not a string")
			}
			t.sets[mid.Name] = "(map (fun h => " + k + ") hs)"
		default:
			return "", "", fmt.Errorf("constructor prelude: statement %T (state captured by the closure?) is outside the translated subset", st)
		}
	}
	if len(lit.Type.Params.List) != 2 {
		return "", "", fmt.Errorf("closure does not take (req, via)")
	}
	t.reqName = lit.Type.Params.List[0].Names[0].Name
	t.viaName = lit.Type.Params.List[1].Names[0].Name
	refuse, err := t.body(lit.Body)
	if err != nil {
		return "", "", err
	}
	b := "false"
	for i := len(refuse) - 1; i >= 0; i-- {
		if b == "false" {
			b = refuse[i]
		} else {
			b = "(" + refuse[i] + " || " + b + ")"
		}
	}
	return params, "negb " + b, nil
}

// AlwaysCopyHeaderRedirectPolicy: never refuses (every return in the closure returns nil) and
// assigns to nothing declared outside the closure
func alwaysCopyNeverRefuses(fd *ast.FuncDecl) error {
	if len(fd.Body.List) != 1 {
		return fmt.Errorf("AlwaysCopyHeaderRedirectPolicy: statements before the returned closure")
	}
	rs, ok := fd.Body.List[0].(*ast.ReturnStmt)
	if !ok || len(rs.Results) != 1 {
		return fmt.Errorf("AlwaysCopyHeaderRedirectPolicy: does not return a closure")
	}
	lit, ok := rs.Results[0].(*ast.FuncLit)
	if !ok {
		return fmt.Errorf("AlwaysCopyHeaderRedirectPolicy: does not return a function literal")
	}
	var err error
	ast.Inspect(lit.Body, func(n ast.Node) bool {
		switch s := n.(type) {
		case *ast.ReturnStmt:
			if len(s.Results) != 1 || !isNil(s.Results[0]) {
				err = fmt.Errorf("AlwaysCopyHeaderRedirectPolicy: a return that is not `return nil`")
			}
		case *ast.AssignStmt:
			if s.Tok != token.DEFINE {
				err = fmt.Errorf("AlwaysCopyHeaderRedirectPolicy: assignment to an existing variable")
			}
		case *ast.IncDecStmt, *ast.GoStmt:
			err = fmt.Errorf("AlwaysCopyHeaderRedirectPolicy: statement outside the expected shape")
		}
		return true
	})
	return err
}

func syncPolicies(repo string) (string, string, error) {
	fset := token.NewFileSet()
	f, err := parser.ParseFile(fset, filepath.Join(repo, "redirect.go"), nil, 0)
	if err != nil {
		return "", "", err
	}
	names := map[string]string{
		"MaxRedirectPolicy": "src_permits_max", "NoRedirectPolicy": "src_permits_no",
		"SameDomainRedirectPolicy": "src_permits_same_domain", "SameHostRedirectPolicy": "src_permits_same_host",
		"AllowedHostRedirectPolicy": "src_permits_allowed_host", "AllowedDomainRedirectPolicy": "src_permits_allowed_domain",
	}
	out := "(* GENERATED by harness/c11 gosync from /repo/redirect.go - do not edit.\n" +
		"   One boolean function per policy constructor, translated from the body of the closure it returns:\n" +
		"   the hop is permitted iff none of the closure's `return <error>` conditions holds. *)\n" +
		"From ReqV Require Import Lib.Bytes Model.Authority.\nFrom Coq Require Import ZArith.\n\n"
	seen := map[string]bool{}
	// package-level variables in redirect.go would be state shared by every policy value
	for _, d := range f.Decls {
		if gd, ok := d.(*ast.GenDecl); ok && gd.Tok == token.VAR {
			return "", "", fmt.Errorf("redirect.go declares package-level variables (state shared between policy values)")
		}
	}
	for _, d := range f.Decls {
		fd, ok := d.(*ast.FuncDecl)
		if !ok || fd.Recv != nil {
			continue
		}
		if fd.Name.Name == "AlwaysCopyHeaderRedirectPolicy" {
			if err := alwaysCopyNeverRefuses(fd); err != nil {
				return "", "", err
			}
			out += "(* AlwaysCopyHeaderRedirectPolicy: every return of the closure is `return nil` *)\n" +
				"Definition src_permits_always_copy (target : bytes) (via : list bytes) : bool := true.\n\n"
			seen[fd.Name.Name] = true
			continue
		}
		cn, ok := names[fd.Name.Name]
		if !ok {
			continue
		}
		params, body, err := translateConstructor(fd)
		if err != nil {
			return "", "", fmt.Errorf("%s: %v", fd.Name.Name, err)
		}
		out += "(* " + fd.Name.Name + " *)\nDefinition " + cn + " " + params + "(target : bytes) (via : list bytes) : bool :=\n  " + body + ".\n\n"
		seen[fd.Name.Name] = true
	}
	for n := range names {
		if !seen[n] {
			return "", "", fmt.Errorf("constructor %s not found in redirect.go", n)
		}
	}
	if !seen["AlwaysCopyHeaderRedirectPolicy"] {
		return "", "", fmt.Errorf("AlwaysCopyHeaderRedirectPolicy not found in redirect.go")
	}
	return "RedirectPolicies.v", out, nil
}

// ---- client.go: SetRedirectPolicy / Clone / C ----

func recvName(fd *ast.FuncDecl) string {
	if fd.Recv == nil || len(fd.Recv.List) != 1 || len(fd.Recv.List[0].Names) != 1 {
		return ""
	}
	return fd.Recv.List[0].Names[0].Name
}

func selPath(e ast.Expr) string {
	switch x := e.(type) {
	case *ast.Ident:
		return x.Name
	case *ast.SelectorExpr:
		return selPath(x.X) + "." + x.Sel.Name
	case *ast.StarExpr:
		return "*" + selPath(x.X)
	case *ast.UnaryExpr:
		return x.Op.String() + selPath(x.X)
	}
	return "?"
}

func syncClientFacts(repo string) (string, string, error) {
	fset := token.NewFileSet()
	ents, err := os.ReadDir(repo)
	if err != nil {
		return "", "", err
	}
	var files []string
	for _, e := range ents {
		n := e.Name()
		if strings.HasSuffix(n, ".go") && !strings.HasSuffix(n, "_test.go") && !strings.HasPrefix(n, "export_verif") {
			files = append(files, n)
		}
	}
	sort.Strings(files)
	checkRedirectAssignments, httpClientAssignments := 0, 0
	var setFn, cloneFn, newFn *ast.FuncDecl
	for _, n := range files {
		f, err := parser.ParseFile(fset, filepath.Join(repo, n), nil, 0)
		if err != nil {
			return "", "", err
		}
		if f.Name.Name != "req" {
			continue
		}
		ast.Inspect(f, func(nd ast.Node) bool {
			switch s := nd.(type) {
			case *ast.AssignStmt:
				for _, l := range s.Lhs {
					if se, ok := l.(*ast.SelectorExpr); ok && se.Sel.Name == "CheckRedirect" {
						checkRedirectAssignments++
					}
					if se, ok := l.(*ast.SelectorExpr); ok && se.Sel.Name == "httpClient" {
						httpClientAssignments++
					}
				}
			case *ast.KeyValueExpr:
				if id, ok := s.Key.(*ast.Ident); ok && id.Name == "CheckRedirect" {
					checkRedirectAssignments++
				}
			}
			return true
		})
		for _, d := range f.Decls {
			if fd, ok := d.(*ast.FuncDecl); ok {
				switch {
				case fd.Name.Name == "SetRedirectPolicy" && fd.Recv != nil:
					setFn = fd
				case fd.Name.Name == "Clone" && fd.Recv != nil && strings.Contains(selPath(fd.Recv.List[0].Type), "Client"):
					cloneFn = fd
				case fd.Name.Name == "C" && fd.Recv == nil:
					newFn = fd
				}
			}
		}
	}
	if setFn == nil || cloneFn == nil || newFn == nil {
		return "", "", fmt.Errorf("SetRedirectPolicy / Client.Clone / C not found")
	}
	b := func(x bool) string {
		if x {
			return "true"
		}
		return "false"
	}
	// SetRedirectPolicy
	rc := recvName(setFn)
	param := setFn.Type.Params.List[0].Names[0].Name
	emptyNoop, closureOverArg, firstErrWins, nilSkipped := false, false, false, false
	otherWrites, closureExtra := 0, 0
	if len(setFn.Body.List) > 0 {
		if is, ok := setFn.Body.List[0].(*ast.IfStmt); ok {
			if be, ok := is.Cond.(*ast.BinaryExpr); ok && be.Op == token.EQL && selPath(be.Y) == "?" {
				if call, ok := be.X.(*ast.CallExpr); ok && selPath(call.Fun) == "len" && len(call.Args) == 1 && selPath(call.Args[0]) == param {
					if bl, ok := be.Y.(*ast.BasicLit); ok && bl.Value == "0" && len(is.Body.List) == 1 {
						if rs, ok := is.Body.List[0].(*ast.ReturnStmt); ok && len(rs.Results) == 1 && selPath(rs.Results[0]) == rc {
							emptyNoop = true
						}
					}
				}
			}
		}
	}
	copiesArg := false
	for _, st := range setFn.Body.List {
		as, ok := st.(*ast.AssignStmt)
		if !ok {
			continue
		}
		for i, l := range as.Lhs {
			p := selPath(l)
			// policies = append([]RedirectPolicy(nil), policies...) BEFORE the closure is installed
			if p == param && as.Tok == token.ASSIGN && !closureOverArg {
				if call, ok := as.Rhs[i].(*ast.CallExpr); ok && selPath(call.Fun) == "append" && len(call.Args) == 2 && call.Ellipsis.IsValid() && selPath(call.Args[1]) == param {
					if conv, ok := call.Args[0].(*ast.CallExpr); ok && len(conv.Args) == 1 && isNil(conv.Args[0]) {
						if _, ok := conv.Fun.(*ast.ArrayType); ok {
							copiesArg = true
						}
					}
				}
			}
			if p == rc+".httpClient.CheckRedirect" {
				lit, ok := as.Rhs[i].(*ast.FuncLit)
				if !ok {
					continue // a method value, a named function ...: not a closure over the argument
				}
				for k2, s2 := range lit.Body.List {
					rs, ok := s2.(*ast.RangeStmt)
					if !ok || selPath(rs.X) != param || rs.Value == nil {
						// besides the loop only `if c.DebugLog { <one call> }` and the final `return nil`
						switch x := s2.(type) {
						case *ast.IfStmt:
							if selPath(x.Cond) == rc+".DebugLog" && x.Init == nil && x.Else == nil && len(x.Body.List) == 1 {
								if _, ok := x.Body.List[0].(*ast.ExprStmt); ok {
									continue
								}
							}
						case *ast.ReturnStmt:
							if k2 == len(lit.Body.List)-1 && len(x.Results) == 1 && isNil(x.Results[0]) {
								continue
							}
						}
						closureExtra++
						continue
					}
					closureOverArg = true
					fn := rs.Value.(*ast.Ident).Name
					for _, s3 := range rs.Body.List {
						is, ok := s3.(*ast.IfStmt)
						if !ok {
							continue
						}
						be, ok := is.Cond.(*ast.BinaryExpr)
						if !ok || len(is.Body.List) != 1 {
							continue
						}
						if be.Op == token.EQL && selPath(be.X) == fn && selPath(be.Y) == "nil" {
							if br, ok := is.Body.List[0].(*ast.BranchStmt); ok && br.Tok == token.CONTINUE {
								nilSkipped = true
							}
						}
						if be.Op == token.NEQ && selPath(be.Y) == "nil" {
							if ret, ok := is.Body.List[0].(*ast.ReturnStmt); ok && len(ret.Results) == 1 && selPath(ret.Results[0]) == selPath(be.X) {
								firstErrWins = true
							}
						}
					}
				}
			} else if strings.HasPrefix(p, rc+".") {
				otherWrites++
			}
		}
	}
	// Clone: `client := *c.httpClient` ... `cc.httpClient = &client`, CheckRedirect untouched
	cc := recvName(cloneFn)
	copyVar, byValue, touchesCR := "", false, false
	ast.Inspect(cloneFn.Body, func(nd ast.Node) bool {
		as, ok := nd.(*ast.AssignStmt)
		if !ok {
			return true
		}
		for i, l := range as.Lhs {
			if i >= len(as.Rhs) {
				break
			}
			lp, rp := selPath(l), selPath(as.Rhs[i])
			if as.Tok == token.DEFINE && rp == "*"+cc+".httpClient" {
				copyVar = lp
			}
			if strings.HasSuffix(lp, ".httpClient") && copyVar != "" && rp == "&"+copyVar {
				byValue = true
			}
			if strings.HasSuffix(lp, ".CheckRedirect") {
				touchesCR = true
			}
		}
		return true
	})
	// C(): c.SetRedirectPolicy(DefaultRedirectPolicy())
	installsDefault := false
	ast.Inspect(newFn.Body, func(nd ast.Node) bool {
		call, ok := nd.(*ast.CallExpr)
		if ok && strings.HasSuffix(selPath(call.Fun), ".SetRedirectPolicy") && len(call.Args) == 1 {
			if in, ok := call.Args[0].(*ast.CallExpr); ok && selPath(in.Fun) == "DefaultRedirectPolicy" {
				installsDefault = true
			}
		}
		return true
	})
	out := "(* GENERATED by harness/c11 gosync from /repo/*.go (package req) - do not edit.\n" +
		"   The shape of Client.SetRedirectPolicy, Client.Clone and C() that Model/RedirectClient.v rests on. *)\n" +
		fmt.Sprintf("(* assignments to a CheckRedirect field anywhere in package req *)\nDefinition checkredirect_assignments : nat := %d.\n", checkRedirectAssignments) +
		fmt.Sprintf("(* assignments to a client's httpClient field (Clone's `cc.httpClient = &client`): nothing else replaces the http.Client that holds CheckRedirect *)\nDefinition httpclient_field_assignments : nat := %d.\n", httpClientAssignments) +
		"(* SetRedirectPolicy starts with `if len(policies) == 0 { return c }` *)\nDefinition set_policy_empty_is_noop : bool := " + b(emptyNoop) + ".\n" +
		"(* it assigns c.httpClient.CheckRedirect a function literal that ranges over ITS OWN ARGUMENT *)\nDefinition set_policy_installs_closure_over_argument : bool := " + b(closureOverArg) + ".\n" +
		"(* before that it replaces its argument by a private copy: `policies = append([]RedirectPolicy(nil), policies...)` *)\nDefinition set_policy_copies_argument : bool := " + b(copiesArg) + ".\n" +
		fmt.Sprintf("(* other fields of the receiver it writes *)\nDefinition set_policy_other_receiver_writes : nat := %d.\n", otherWrites) +
		"(* inside the loop: `if f == nil { continue }` and `if err != nil { return err }` *)\nDefinition set_policy_skips_nil : bool := " + b(nilSkipped) + ".\nDefinition set_policy_first_error_wins : bool := " + b(firstErrWins) + ".\n" +
		fmt.Sprintf("(* statements of the closure besides the loop, `if c.DebugLog { log }` and the final `return nil` *)\nDefinition set_policy_closure_extra_statements : nat := %d.\n", closureExtra) +
		"(* Clone: `client := *c.httpClient` ... `cc.httpClient = &client`, no assignment to CheckRedirect *)\nDefinition clone_copies_http_client_by_value : bool := " + b(byValue && !touchesCR) + ".\n" +
		"(* C() calls c.SetRedirectPolicy(DefaultRedirectPolicy()) *)\nDefinition new_client_installs_default : bool := " + b(installsDefault) + ".\n"
	return "RedirectClientFacts.v", out, nil
}
