package main

// C11 end-to-end part: scripted redirect chains served by one local origin (every authority is
// dialled to it), driven through real clients in three ways:
//   (b1) one chain through a fresh client;
//   (b2) a sequence of client operations - req.C(), SetRedirectPolicy (also empty, also repeated),
//        Clone (also of a clone), requests through any of the clients so far;
//   (b3) several chains in flight through ONE client, the order of the CheckRedirect evaluations
//        fixed by the harness (the origin holds every response until the scheduler releases it).
// Oracle, independent of the Coq model: hop decisions re-evaluated with net/url + netip host identity
// against the policies THAT client was given (tracked here per client), Go's cross-origin header
// rule, Go's method rewriting.

import (
	"context"
	"fmt"
	"io"
	"net"
	"net/http"
	"net/http/cookiejar"
	"strings"
	"sync"
	"time"

	req "github.com/imroc/req/v3"
	"github.com/imroc/req/v3/verifharness/hk"
)

// the caller's headers the chains play with: net/http's four sensitive ones and a plain one
var c11Hdr = []string{"Authorization", "Www-Authenticate", "Cookie", "Cookie2", "X-Token"}
var c11HdrCoq = []string{"hAuth", "hWww", "hCookie", "hCookie2", "hToken"} // constants of Model/C11Run.v
var c11Sensitive = map[string]bool{"Authorization": true, "Www-Authenticate": true, "Cookie": true, "Cookie2": true}

type c11Hit struct {
	Range  string `json:"range,omitempty"` // Range header (parallel downloads)
	Step   int    `json:"-"`               // path index (parallel downloads)
	Host   string `json:"host"`
	H      [5]int `json:"headers"` // number of values received of each of c11Hdr
	Method string `json:"method"`
	Body   int    `json:"body"`
}

type c11Gate struct{ arrived, release chan struct{} }

type c11Script struct {
	loc    []string
	status []int
	gate   *c11Gate
}

type c11Origin struct {
	mu      sync.Mutex
	hits    map[string][]c11Hit
	scripts map[string]*c11Script
	addr    string
	srv     *http.Server
}

func newC11Origin() (*c11Origin, error) {
	o := &c11Origin{hits: map[string][]c11Hit{}, scripts: map[string]*c11Script{}}
	o.srv = &http.Server{Handler: http.HandlerFunc(func(w http.ResponseWriter, q *http.Request) {
		if strings.HasPrefix(q.URL.Path, "/pd/") {
			o.servePD(w, q)
			return
		}
		id := q.Header.Get("X-Chain")
		body, _ := io.ReadAll(q.Body)
		o.mu.Lock()
		step := len(o.hits[id])
		hit := c11Hit{Host: q.Host, Method: q.Method, Body: len(body)}
		for k, n := range c11Hdr {
			hit.H[k] = len(q.Header.Values(n))
		}
		o.hits[id] = append(o.hits[id], hit)
		sc := o.scripts[id]
		o.mu.Unlock()
		if sc != nil && sc.gate != nil {
			sc.gate.arrived <- struct{}{}
			select {
			case <-sc.gate.release:
			case <-time.After(120 * time.Second):
			}
		}
		if sc != nil && step < len(sc.loc) {
			if sc.loc[step] != "" {
				w.Header().Set("Location", sc.loc[step])
			} else if sc.status[step] == 401 { // a scripted final answer (503: retry; 401: digest challenge)
				w.Header().Set("WWW-Authenticate", `Digest realm="c11", nonce="abcdef0123456789", qop="auth", algorithm=MD5`)
			}
			w.WriteHeader(sc.status[step])
			return
		}
		w.WriteHeader(200)
	})}
	ln, err := net.Listen("tcp", "127.0.0.1:0")
	if err != nil {
		return nil, err
	}
	go o.srv.Serve(ln)
	o.addr = ln.Addr().String()
	return o, nil
}

func (o *c11Origin) dial(ctx context.Context, network, _ string) (net.Conn, error) {
	var d net.Dialer
	return d.DialContext(ctx, network, o.addr)
}

func (o *c11Origin) obs(id string) []c11Hit {
	o.mu.Lock()
	defer o.mu.Unlock()
	return append([]c11Hit(nil), o.hits[id]...)
}

// otherSetter applies one of the client's OTHER configuration methods - none of them is about redirects,
// each must leave the redirect policy the client holds alone - and says which
func otherSetter(rng *hk.Rand, c *req.Client, o *c11Origin) string {
	switch rng.Intn(18) {
	case 15, 16, 17:
		// debug logging (what DevMode switches on too), the log itself discarded
		c.SetLogger(req.NewLogger(io.Discard, "", 0)).EnableDebugLog()
		return "EnableDebugLog()"
	case 12, 13, 14:
		// a client-level round-trip middleware: the chain it builds ends in THIS client's exchange
		c.WrapRoundTripFunc(func(rt req.RoundTripper) req.RoundTripFunc {
			return func(rq *req.Request) (*req.Response, error) { return rt.RoundTrip(rq) }
		})
		return "WrapRoundTripFunc(pass-through)"
	case 0, 1, 2:
		d := time.Duration(20+rng.Intn(40)) * time.Second
		c.SetTimeout(d)
		return fmt.Sprintf("SetTimeout(%s)", d)
	case 3:
		j, _ := cookiejar.New(nil)
		c.SetCookieJar(j)
		return "SetCookieJar(new jar)"
	case 4:
		c.SetCookieJarFactory(func() *cookiejar.Jar { j, _ := cookiejar.New(nil); return j })
		return "SetCookieJarFactory(...)"
	case 5:
		c.SetUserAgent("c11-harness")
		return "SetUserAgent(...)"
	case 6:
		if rng.Bool() {
			c.DisableKeepAlives()
			return "DisableKeepAlives()"
		}
		c.EnableKeepAlives()
		return "EnableKeepAlives()"
	case 7:
		c.SetCommonHeader("X-Other", "1")
		return "SetCommonHeader(X-Other)"
	case 8:
		c.EnableForceHTTP1()
		return "EnableForceHTTP1()"
	case 9:
		c.SetTLSHandshakeTimeout(5 * time.Second)
		return "SetTLSHandshakeTimeout(5s)"
	case 10:
		c.SetCommonRetryCount(0)
		return "SetCommonRetryCount(0)"
	}
	c.SetDial(o.dial)
	return "SetDial(same)"
}

// applyOthers: 0-2 other configuration calls AFTER the policy was set (model: no effect)
func applyOthers(r *hk.Run, rng *hk.Rand, c *req.Client, o *c11Origin) []string {
	var done []string
	if rng.Chance(50) {
		for k, m := 0, rng.Range(1, 2); k < m; k++ {
			done = append(done, otherSetter(rng, c, o))
		}
		r.Count("client.other-config-after-policy")
	}
	if rng.Chance(15) {
		c.SetLogger(req.NewLogger(io.Discard, "", 0)).EnableDebugLog()
		done = append(done, "EnableDebugLog()")
		r.Count("client.debug-log")
	}
	return done
}

// ---- policies ----

type polSpec struct {
	coq     string                                   // Coq constructor application, no outer parens
	desc    string                                   // human-readable form for failure reports (default: coq)
	mk      func() req.RedirectPolicy                // the real policy value (nil entry allowed)
	permit  func(t authority, via []authority) bool  // independent oracle; nil = never refuses
	always  map[string]bool                          // canonical header names an AlwaysCopy policy re-adds
	limit   int                                      // >= 0 for hop limits (directs the hop count), else -1
}

func specMax(lim int) polSpec {
	return polSpec{coq: "PMax " + hk.CoqZ(int64(lim)), mk: func() req.RedirectPolicy { return req.MaxRedirectPolicy(lim) },
		permit: func(t authority, via []authority) bool { return len(via) < lim }, limit: lim}
}

func specDefault() polSpec {
	return polSpec{coq: "PDefault", mk: req.DefaultRedirectPolicy,
		permit: func(t authority, via []authority) bool { return len(via) < 10 }, limit: 10}
}

func specNo() polSpec {
	return polSpec{coq: "PNo", mk: req.NoRedirectPolicy, permit: func(t authority, via []authority) bool { return false }, limit: 0}
}

func specSameHost() polSpec {
	return polSpec{coq: "PSameHost", mk: req.SameHostRedirectPolicy, limit: -1,
		permit: func(t authority, via []authority) bool { return oracleHostname(t) == oracleHostname(via[0]) }}
}

func specSameDomain() polSpec {
	return polSpec{coq: "PSameDomain", mk: req.SameDomainRedirectPolicy, limit: -1,
		permit: func(t authority, via []authority) bool { return oracleDomain(t) == oracleDomain(via[0]) }}
}

// mkAllowed builds an AllowedHost/AllowedDomain policy the way callers do - from a slice - and then
// treats that slice as its own again: what a policy names is fixed when it is built.
//   mode 1: every entry overwritten and the slice appended to after the call
//   mode 2: two policies from slices sharing one backing array (append on a common prefix with spare capacity)
//   mode 3: the same slice used for two policies, the second one is returned
func mkAllowed(domain bool, hs []string, mode int) req.RedirectPolicy {
	f := req.AllowedHostRedirectPolicy
	if domain {
		f = req.AllowedDomainRedirectPolicy
	}
	arg := make([]string, len(hs), len(hs)+2)
	copy(arg, hs)
	switch mode {
	case 1:
		p := f(arg...)
		for i := range arg {
			arg[i] = "scribbled.invalid"
		}
		_ = append(arg, "scribbled.invalid")
		return p
	case 2:
		if len(hs) > 0 {
			base := arg[:len(arg)-1]
			p := f(append(base, hs[len(hs)-1])...)
			_ = f(append(base, "other.invalid")...)
			return p
		}
	case 3:
		_ = f(arg...)
	}
	return f(arg...)
}

// blank entries ("" / " ": what strings.Split leaves of an empty or blank configuration value) name no host
var c11Blank = 0 // set by genSpec: number of blank entries to add to the next allow-list

func specAllowed(domain bool, as []authority, mode int) polSpec {
	var hs []string
	for _, a := range as {
		hs = append(hs, a.render())
	}
	for ; c11Blank > 0; c11Blank-- {
		hs = append(hs, []string{"", " "}[c11Blank%2])
	}
	id, name := oracleHostname, "PAllowedHost "
	if domain {
		id, name = oracleDomain, "PAllowedDomain "
	}
	mk := func() req.RedirectPolicy { return mkAllowed(domain, hs, mode) }
	return polSpec{coq: name + hk.CoqStrList(hs), desc: name[1:] + "(" + strings.Join(hs, ",") + ")", mk: mk, limit: -1, permit: func(t authority, via []authority) bool {
		for _, a := range as {
			if id(a) == id(t) {
				return true
			}
		}
		return false
	}}
}

func specAlwaysCopy(rng *hk.Rand) polSpec {
	var names, canon []string
	always := map[string]bool{}
	for _, n := range []string{"Authorization", "authorization", "Cookie", "COOKIE", "Www-Authenticate", "cookie2", "X-Token", "X-Unrelated"} {
		if rng.Chance(30) {
			names = append(names, n)
			c := http.CanonicalHeaderKey(n)
			canon = append(canon, hk.CoqStr(c))
			always[c] = true
		}
	}
	return polSpec{coq: "PAlwaysCopy " + hk.CoqList(canon), desc: "AlwaysCopy(" + strings.Join(names, ",") + ")", mk: func() req.RedirectPolicy { return req.AlwaysCopyHeaderRedirectPolicy(names...) },
		always: always, limit: -1}
}

// a user-defined policy that faults on one particular hop (an "auditing" policy with a bug): it panics
// when asked about the hop with len(via) == k and permits every other hop.  A fault is no permission.
var c11AllowFault = true // not inside parallel downloads: their requests run on the library's own goroutines

func specFault(k int) polSpec {
	return polSpec{coq: "PFault " + hk.CoqNat(k), desc: fmt.Sprintf("user policy panicking at hop %d", k), limit: k,
		mk: func() req.RedirectPolicy {
			return func(rq *http.Request, via []*http.Request) error {
				if len(via) == k {
					panic(fmt.Sprintf("audit policy: fault at hop %d", k))
				}
				return nil
			}
		},
		permit: func(t authority, via []authority) bool { return len(via) != k }}
}

func specNil() polSpec {
	return polSpec{coq: "PNil", mk: func() req.RedirectPolicy { return nil }, limit: -1}
}

// genSpec draws one policy; host lists are taken from [pool] (the authorities the chains will visit).
func genSpec(rng *hk.Rand, pool []authority) polSpec {
	if c11AllowFault && rng.Chance(7) {
		return specFault(rng.Range(1, 3))
	}
	switch rng.Intn(8) {
	case 0:
		return specMax(rng.Range(-1, 5))
	case 1:
		return specSameHost()
	case 2:
		return specSameDomain()
	case 3, 4:
		n := rng.Range(1, len(pool))
		if rng.Chance(8) {
			n = 0 // no host named: everything is refused
		}
		if rng.Chance(12) {
			c11Blank = rng.Range(1, 2)
		}
		var as []authority
		for j := 0; j < n; j++ {
			as = append(as, pool[rng.Intn(len(pool))])
		}
		return specAllowed(rng.Bool(), as, rng.Intn(4))
	case 5:
		return specAlwaysCopy(rng)
	case 6:
		if rng.Chance(50) {
			return specNo()
		}
		return specNil()
	}
	return specMax(rng.Range(3, 6))
}

func genSpecs(rng *hk.Rand, pool []authority, lo, hi int) []polSpec {
	var ss []polSpec
	for n := rng.Range(lo, hi); len(ss) < n; {
		ss = append(ss, genSpec(rng, pool))
	}
	return ss
}

func specsCoq(ss []polSpec) (list string, plain []string) {
	var cp []string
	for _, s := range ss {
		cp = append(cp, "("+s.coq+")")
		if s.desc != "" {
			plain = append(plain, s.desc)
		} else {
			plain = append(plain, s.coq)
		}
	}
	return hk.CoqList(cp), plain
}

func specsMk(ss []polSpec) []req.RedirectPolicy {
	var ps []req.RedirectPolicy
	for _, s := range ss {
		ps = append(ps, s.mk())
	}
	return ps
}

// smallest hop limit among the policies, -1 if none
func specsLimit(ss []polSpec) int {
	lim := -1
	for _, s := range ss {
		if s.limit >= 0 && (lim < 0 || s.limit < lim) {
			lim = s.limit
		}
	}
	return lim
}

// ---- chains ----

type c11Plan struct {
	init       authority
	targetAuth []authority
	targets    []string // URL.Host of each redirected request, as net/http will hold it
	loc        []string // Location header values
	status     []int
	method     string
	body       string
	cred       int    // where Authorization and Cookie are set: 0 on the request, 1 client-level common headers, 2 client-level helpers
	hdr        [5]int // number of values of each of c11Hdr on the first request
	rel        []bool // hop j's Location is relative
	override   string // Host header override on the first request ("" = none)
}

// genOverride gives the first request a Host header naming another host - often the very host a
// later redirect points to.  Host identity is the URL's hostname: the override must not matter.
func genOverride(rng *hk.Rand, p *c11Plan, pct int) {
	if !rng.Chance(pct) {
		return
	}
	var a authority
	if len(p.targetAuth) > 0 && rng.Chance(60) {
		a = p.targetAuth[rng.Intn(len(p.targetAuth))]
	} else {
		a = noZone(rng, func() authority { return genAuthority(rng) })
	}
	if a.Port != nil && *a.Port == "" {
		a.Port = nil
	}
	if a.render() != p.init.render() {
		p.override = a.render()
	}
}

// genHdr draws the caller's header set: any subset of the sensitive headers, one or two values each
func genHdr(rng *hk.Rand, p *c11Plan, credChoices []int) {
	p.cred = hk.Pick(rng, credChoices)
	for k := range c11Hdr {
		switch x := rng.Intn(10); {
		case x < 3:
			p.hdr[k] = 0
		case x < 9:
			p.hdr[k] = 1
		default:
			p.hdr[k] = 2
		}
	}
	if p.cred != 0 {
		p.hdr[0], p.hdr[2] = 1, 1 // the client-level setters give one Authorization and one Cookie
	}
}

func (p c11Plan) coqHdr() string { return coqHdrs(p.hdr) }

func coqHdrs(h [5]int) string {
	// compact: H [a; b; c; d; e] = the five names of c11Hdr with these counts (Model/C11Run.v)
	return fmt.Sprintf("(H [%d; %d; %d; %d; %d]%%nat)", h[0], h[1], h[2], h[3], h[4])
}

func noZone(rng *hk.Rand, f func() authority) authority {
	// no zones end-to-end (net/http drops the zone from the Host header)
	for {
		a := f()
		if !strings.Contains(a.Host, "%") {
			return a
		}
	}
}

// hopsFor directs the number of scripted hops at the limit the client is configured with
// (limit-2 .. limit+1: the last permitted hop, the first refused one and one beyond).
func hopsFor(rng *hk.Rand, limit int) int {
	if limit >= 0 && rng.Chance(60) {
		h := limit - 2 + rng.Intn(4)
		if h < 0 {
			h = 0
		}
		return h
	}
	return rng.Range(0, 5)
}

// genPlan scripts a chain of [hops] redirects from [init]; targets are derived from the current or
// the initial authority (other case / port / label) or drawn from [others] (origins of other chains).
func genPlan(rng *hk.Rand, init authority, hops int, others []authority, friendly bool) c11Plan {
	p := c11Plan{init: init, method: "GET"}
	if rng.Chance(25) {
		p.method, p.body = "POST", "payload-of-the-first-request"
	}
	cur := init
	curPath := "/start"
	for j := 0; j < hops; j++ {
		var t authority
		rel := rng.Chance(15)
		// a "directory redirect": the previous path + "/" on the same host name, usually another port,
		// 307/308 so that method and body travel too.  It is a redirect like any other.
		dir := !rel && rng.Chance(12)
		switch {
		case rel:
			t = cur
		case dir:
			t = cur
			switch rng.Intn(3) {
			case 0:
				pt := hk.Pick(rng, []string{"81", "8443", "8080"})
				t.Port = &pt
			case 1:
				t.Port = nil
			}
		case friendly && rng.Chance(65):
			// the same host in another spelling: case, port
			t = cur
			switch rng.Intn(4) {
			case 0:
				t.Host = strings.ToUpper(cur.Host)
			case 1:
				t.Host = strings.ToLower(cur.Host)
			case 2:
				t.Port = nil
			case 3:
				pt := hk.Pick(rng, []string{"", "81", "8443"})
				t.Port = &pt
			}
		case len(others) > 0 && rng.Chance(40):
			t = noZone(rng, func() authority {
				a := others[rng.Intn(len(others))]
				if rng.Chance(30) {
					a = mutateAuthority(rng, a)
				}
				return a
			})
		case rng.Chance(60):
			t = noZone(rng, func() authority { return mutateAuthority(rng, cur) })
		default:
			t = noZone(rng, func() authority { return mutateAuthority(rng, init) })
		}
		p.targetAuth = append(p.targetAuth, t)
		p.targets = append(p.targets, t.render())
		p.rel = append(p.rel, rel)
		switch {
		case rel:
			curPath = fmt.Sprintf("/next%d", j)
			p.loc = append(p.loc, curPath)
		case dir:
			curPath += "/"
			p.loc = append(p.loc, "http://"+t.render()+curPath)
		default:
			curPath = fmt.Sprintf("/next%d", j)
			p.loc = append(p.loc, "http://"+t.render()+curPath)
		}
		if dir {
			p.status = append(p.status, hk.Pick(rng, []int{307, 308, 301}))
		} else {
			p.status = append(p.status, hk.Pick(rng, []int{302, 302, 301, 303, 307, 308}))
		}
		cur = t
	}
	return p
}

func (p c11Plan) desc() map[string]interface{} {
	return map[string]interface{}{"init": p.init.render(), "targets": p.targets, "location": p.loc, "status": p.status, "method": p.method, "cred": p.cred, "headers": p.hdr, "host-override": p.override}
}

type c11Result struct {
	obs     []c11Hit
	refused bool
	err     string
	urlHost []string // per hit: the URL host the request was for (filled by judgeChain when the Host header is as expected)
}

// runChain sends the plan's first request through [c] and reports what the origin saw.
func runChain(o *c11Origin, c *req.Client, id string, p c11Plan, gate *c11Gate) c11Result {
	return runChainWith(o, c, id, p, gate, nil)
}

func runChainWith(o *c11Origin, c *req.Client, id string, p c11Plan, gate *c11Gate, tweak func(*req.Request)) (out c11Result) {
	o.mu.Lock()
	o.scripts[id] = &c11Script{loc: p.loc, status: p.status, gate: gate}
	o.mu.Unlock()
	rq := c.R().SetHeader("X-Chain", id)
	if p.override != "" {
		rq.SetHeader("Host", p.override)
	}
	vals := [][2]string{{"Bearer secret", "Bearer second"}, {"Basic realm=x", "Basic realm=y"}, {"sid=secret", "lang=en"}, {"$Version=1", "$Version=2"}, {"tok", "tok2"}}
	for k, n := range c11Hdr {
		if p.cred != 0 && (k == 0 || k == 2) {
			continue // set at client level
		}
		for v := 0; v < p.hdr[k]; v++ {
			if v == 0 {
				rq.SetHeader(n, vals[k][0])
			} else {
				rq.Headers.Add(n, vals[k][v])
			}
		}
	}
	if tweak != nil {
		tweak(rq)
	}
	var resp *req.Response
	var err error
	// a faulting user policy panics out of CheckRedirect, net/http and the call: contained here,
	// for the oracle the call ended without a response
	defer func() {
		if x := recover(); x != nil {
			out = c11Result{obs: o.obs(id), refused: true, err: fmt.Sprint("panic: ", x)}
		}
	}()
	u := "http://" + p.init.render() + "/start"
	if p.method == "POST" {
		resp, err = rq.SetBodyString(p.body).Post(u)
	} else {
		resp, err = rq.Get(u)
	}
	res := c11Result{obs: o.obs(id)}
	if err != nil {
		res.err = err.Error()
	}
	res.refused = err != nil || (resp != nil && resp.StatusCode >= 300 && resp.StatusCode < 400)
	return res
}

func applyClientCreds(c *req.Client, cred int) {
	switch cred {
	case 1:
		c.SetCommonHeader("Authorization", "Bearer secret").SetCommonHeader("Cookie", "sid=secret")
	case 2:
		c.SetCommonBearerAuthToken("secret").SetCommonCookies(&http.Cookie{Name: "sid", Value: "secret"})
	}
}

// judgeChain: the property decided on the observation, without the model.
func judgeChain(r *hk.Run, kind string, specs []polSpec, p c11Plan, res *c11Result, input map[string]interface{}) {
	obs := res.obs
	fail := func(f hk.Failure) { r.Count("oracle-failures." + kind); r.Fail(f) } // counted beyond hk's cap of recorded failures
	// structure: the hosts contacted are the initial host followed by a prefix of the targets
	// the Host header on the wire: the URL's host - except that a Host override travels with the first
	// request and (net/http Client.do, issue 22233) on through an unbroken run of RELATIVE Locations: the
	// previous request's Host field is kept when it is set, differs from that request's URL host and the
	// Location is relative; an absolute Location clears it for the rest of the chain
	okPrefix := len(obs) >= 1 && len(obs) <= len(p.targets)+1
	if okPrefix {
		exp := append([]string{p.init.render()}, p.targets...)
		hostField := p.override
		for k, h := range obs {
			if k > 0 && !(p.rel[k-1] && hostField != "" && hostField != exp[k-1]) {
				hostField = ""
			}
			wire := exp[k]
			if hostField != "" {
				wire = hostField
			}
			if strings.TrimSuffix(wire, ":") != strings.TrimSuffix(h.Host, ":") {
				okPrefix = false
				res.urlHost = append(res.urlHost, h.Host)
			} else {
				res.urlHost = append(res.urlHost, exp[k])
			}
		}
	}
	if !okPrefix {
		fail(hk.Failure{Sig: kind + ":not-prefix", What: "hosts contacted are not the initial host followed by a prefix of the redirect targets", Input: input, Got: obs})
		return
	}
	if res.refused && len(obs) == len(p.targets)+1 && len(p.targets) != 0 {
		fail(hk.Failure{Sig: kind + ":refused-but-all-sent", What: "chain reported refused although every target received a request", Input: input, Got: obs})
	}
	// hop decisions: 1 + the number of leading hops EVERY policy of this client permits
	via := []authority{p.init}
	wantSent := 1
	for _, t := range p.targetAuth {
		ok := true
		for _, s := range specs {
			if s.permit != nil && !s.permit(t, via) {
				ok = false
				break
			}
		}
		if !ok {
			break
		}
		wantSent++
		via = append(via, t)
	}
	if len(obs) != wantSent {
		fail(hk.Failure{Sig: kind + ":hops-followed", What: "number of hops followed differs from what the policies configured on this client permit (every policy must permit each hop; a refused host receives nothing)",
			Input: input, Got: len(obs), Want: wantSent})
		return
	}
	if wantRefused := wantSent < len(p.targets)+1; res.refused != wantRefused {
		fail(hk.Failure{Sig: kind + ":refusal-reported", What: "the caller is told the chain was refused / completed contrary to what happened", Input: input, Got: fmt.Sprintf("refused=%v err=%q", res.refused, res.err), Want: wantRefused})
	}
	// headers: Go's cross-origin rule, sticky; AlwaysCopy re-adds what it names; never duplicated;
	// a non-sensitive header always travels; Go's method rewriting
	always := map[string]bool{}
	for _, s := range specs {
		for n := range s.always {
			always[n] = true
		}
	}
	if obs[0].H != p.hdr {
		fail(hk.Failure{Sig: kind + ":first-request-headers", What: "the first request does not carry the caller's headers as given", Input: input, Got: obs[0].H, Want: p.hdr})
		return
	}
	ih := urlHostname(p.init.render())
	stripped := false
	method, body := p.method, 0
	for k, h := range obs {
		if k == 0 {
			continue
		}
		th := urlHostname(p.targets[k-1])
		if p.targets[k-1] != p.init.render() && !(th == ih || (!strings.ContainsAny(th, ":%") && strings.HasSuffix(th, "."+ih))) {
			stripped = true
		}
		var want [5]int
		for j, n := range c11Hdr {
			want[j] = p.hdr[j]
			if c11Sensitive[n] && stripped && !always[n] {
				want[j] = 0
			}
		}
		if stripped {
			r.Count("hop.left-initial-domain")
			for j, n := range c11Hdr {
				if c11Sensitive[n] && p.hdr[j] > 0 {
					if always[n] {
						r.Count("hop.sensitive-restored-by-alwayscopy")
					} else {
						r.Count("hop.sensitive-withheld")
					}
				}
			}
		} else {
			r.Count("hop.within-initial-domain")
		}
		if h.H != want {
			fail(hk.Failure{Sig: fmt.Sprintf("%s:headers:hop%d", kind, k), What: "headers delivered to a followed hop (Authorization, Www-Authenticate, Cookie, Cookie2, X-Token) differ from Go's cross-origin rule + the AlwaysCopy policies: sensitive ones only while the chain stays with the initial host or its subdomains unless named by AlwaysCopy, never duplicated, the others always",
				Input: input, Got: h.H, Want: want})
			break
		}
		// net/http redirectBehavior: 301/302/303 turn anything but GET/HEAD into GET and drop the body;
		// 307/308 keep the method and re-send the FIRST request's body (also after an earlier rewrite to GET)
		switch st := p.status[k-1]; st {
		case 301, 302, 303:
			if method != "GET" && method != "HEAD" {
				method = "GET"
			}
			body = 0
		default:
			body = len(p.body)
		}
		if h.Method != method || h.Body != body {
			fail(hk.Failure{Sig: fmt.Sprintf("%s:method-body:hop%d", kind, k), What: "method/body of the redirected request differ from Go's rule (301/302/303: POST->GET without body, 307/308: method unchanged, body of the first request)",
				Input: input, Got: fmt.Sprintf("%s body=%d", h.Method, h.Body), Want: fmt.Sprintf("%s body=%d", method, body)})
			break
		}
	}
}

func coqObs(res c11Result) string {
	var xs []string
	for k, h := range res.obs {
		host := h.Host
		if k < len(res.urlHost) {
			host = res.urlHost[k] // = the Host header unless an override was (correctly) on the wire
		}
		xs = append(xs, hk.CoqPair(hk.CoqStr(host), coqHdrs(h.H)))
	}
	return hk.CoqList(xs)
}

func c11EndToEnd(r *hk.Run, rng *hk.Rand) {
	o, err := newC11Origin()
	if err != nil {
		r.Notes = append(r.Notes, "listen failed: "+err.Error())
		r.Fail(hk.Failure{Sig: "harness:listen", What: "cannot listen on loopback", Input: err.Error()})
		return
	}
	defer o.srv.Close()
	c11Single(r, rng, o, r.Scale(150, 3000))
	c11Clients(r, rng, o, r.Scale(70, 1400))
	c11Concurrent(r, rng, o, r.Scale(120, 2400))
	c11Retries(r, rng, o, r.Scale(60, 1200))
	c11Downloads(r, rng, o, r.Scale(60, 1200))
	c11Digests(r, rng, o, r.Scale(60, 1200))
}

// (b1) one chain through a fresh client
func c11Single(r *hk.Run, rng *hk.Rand, o *c11Origin, n int) {
	for i := 0; i < n; i++ {
		init := noZone(rng, func() authority { return genAuthority(rng) })
		// the hop limit is drawn first so that the chain length can be aimed at it
		var forced []polSpec
		if rng.Chance(35) {
			forced = append(forced, specMax(rng.Range(0, 5)))
		}
		p := genPlan(rng, init, hopsFor(rng, specsLimit(forced)), nil, false)
		pool := append([]authority{init}, p.targetAuth...)
		specs := append(forced, genSpecs(rng, pool, 1-len(forced), 3-len(forced))...)
		if len(specs) > 1 && rng.Bool() {
			specs[0], specs[len(specs)-1] = specs[len(specs)-1], specs[0]
		}
		genHdr(rng, &p, []int{0, 0, 1, 2})
		genOverride(rng, &p, 25)
		c := req.C().SetRedirectPolicy(specsMk(specs)...).SetDial(o.dial)
		applyClientCreds(c, p.cred)
		others := applyOthers(r, rng, c, o)
		res := runChain(o, c, fmt.Sprintf("s%d", i), p, nil)
		c.GetTransport().CloseIdleConnections()
		coqPs, plain := specsCoq(specs)
		in := p.desc()
		in["policies"] = plain
		in["then-configured"] = others
		judgeChain(r, "chain", specs, p, &res, in)
		r.Count(fmt.Sprintf("chain.credlevel=%d", p.cred))
		r.Count(fmt.Sprintf("chain.hops=%d", len(p.targets)))
		r.Count(fmt.Sprintf("chain.refused=%v", res.refused))
		r.Count(fmt.Sprintf("chain.sent=%d", len(res.obs)))
		r.Count("chain.method=" + p.method)
		if lim := specsLimit(specs); lim >= 0 {
			r.Count(fmt.Sprintf("chain.hops-limit=%+d", len(p.targets)-lim))
		}
		r.Add(hk.Case{Coq: fmt.Sprintf("ChainCase %s %s %s %s %s %s", coqPs, hk.CoqStr(p.init.render()), p.coqHdr(), hk.CoqStrList(p.targets), coqObs(res), hk.CoqBool(res.refused)),
			Desc: map[string]interface{}{"kind": "chain", "policies": plain, "plan": p.desc(), "observed": res.obs, "refused": res.refused}},
			"c|"+strings.Join(plain, ",")+"|"+p.init.render()+"|"+strings.Join(p.targets, ","), len(p.targets) >= 2)
	}
}

// strict / lax policy sets for the directed client sequences
func strictSpecs(rng *hk.Rand, pool []authority) []polSpec {
	switch rng.Intn(4) {
	case 0:
		return []polSpec{specNo()}
	case 1:
		return []polSpec{specMax(rng.Range(0, 1))}
	case 2:
		return []polSpec{specAllowed(false, pool[:1], rng.Intn(4))}
	}
	return []polSpec{specSameHost(), specMax(3)}
}

func laxSpecs(rng *hk.Rand) []polSpec {
	switch rng.Intn(3) {
	case 0:
		return []polSpec{specMax(rng.Range(4, 7))}
	case 1:
		return []polSpec{specNil(), specAlwaysCopy(rng)}
	}
	return []polSpec{specAlwaysCopy(rng), specMax(6)}
}

// (b2) sequences of client operations
func c11Clients(r *hk.Run, rng *hk.Rand, o *c11Origin, n int) {
	for i := 0; i < n; i++ {
		type cli struct {
			c     *req.Client
			specs []polSpec
		}
		var world []cli
		var ops, opsDesc []string
		var coqOuts []string
		nDo, nClone, setAfterClone := 0, 0, false
		// the authorities this sequence plays with
		pool := []authority{noZone(rng, func() authority { return genAuthority(rng) })}
		for len(pool) < 4 {
			pool = append(pool, noZone(rng, func() authority {
				if rng.Bool() {
					return mutateAuthority(rng, pool[0])
				}
				return genAuthority(rng)
			}))
		}
		opNew := func() {
			world = append(world, cli{req.C().SetDial(o.dial), []polSpec{specDefault()}})
			ops, opsDesc = append(ops, "ONew"), append(opsDesc, "C()")
		}
		opSet := func(k int, specs []polSpec) {
			ps := specsMk(specs)
			reusedNote := ""
			world[k].c.SetRedirectPolicy(ps...)
			if len(ps) > 0 && rng.Chance(40) {
				// the caller goes on using its slice: what the client enforces was fixed by the call
				for j := range ps {
					if rng.Bool() {
						ps[j] = nil
					} else {
						ps[j] = req.NoRedirectPolicy()
					}
				}
				r.Count("client.set.slice-reused")
				reusedNote = " - the caller then overwrites the slice it passed"
			}
			if len(specs) > 0 {
				world[k].specs = specs
			}
			l, plain := specsCoq(specs)
			ops = append(ops, fmt.Sprintf("OSet %s %s", hk.CoqNat(k), l))
			opsDesc = append(opsDesc, fmt.Sprintf("c%d.SetRedirectPolicy(%s)%s", k, strings.Join(plain, ", "), reusedNote))
			if nClone > 0 {
				setAfterClone = true
			}
		}
		opOther := func(k int) {
			what := otherSetter(rng, world[k].c, o)
			ops, opsDesc = append(ops, "OOther "+hk.CoqNat(k)), append(opsDesc, fmt.Sprintf("c%d.%s", k, what))
			r.Count("client.op.other")
		}
		opWrap := func(k int) {
			world[k].c.WrapRoundTripFunc(func(rt req.RoundTripper) req.RoundTripFunc {
				return func(rq *req.Request) (*req.Response, error) { return rt.RoundTrip(rq) }
			})
			ops, opsDesc = append(ops, "OOther "+hk.CoqNat(k)), append(opsDesc, fmt.Sprintf("c%d.WrapRoundTripFunc(pass-through)", k))
			r.Count("client.op.wrap")
		}
		opClone := func(k int) {
			world = append(world, cli{world[k].c.Clone(), world[k].specs})
			ops, opsDesc = append(ops, "OClone "+hk.CoqNat(k)), append(opsDesc, fmt.Sprintf("c%d := c%d.Clone()", len(world)-1, k))
			nClone++
		}
		opDo := func(k int) {
			init := pool[0]
			if rng.Chance(40) {
				init = pool[rng.Intn(len(pool))]
			}
			p := genPlan(rng, init, hopsFor(rng, specsLimit(world[k].specs)), pool, rng.Bool())
			genHdr(rng, &p, []int{0})
			genOverride(rng, &p, 15)
			res := runChain(o, world[k].c, fmt.Sprintf("q%d.%d", i, nDo), p, nil)
			nDo++
			_, plain := specsCoq(world[k].specs)
			opsDesc = append(opsDesc, fmt.Sprintf("c%d: %s http://%s/start -> %s", k, p.method, p.init.render(), strings.Join(p.loc, " -> ")))
			in := map[string]interface{}{"ops": append([]string(nil), opsDesc...), "client": k, "policies-of-that-client": plain, "plan": p.desc()}
			judgeChain(r, "client", world[k].specs, p, &res, in)
			ops = append(ops, fmt.Sprintf("ODo %s %s %s %s", hk.CoqNat(k), hk.CoqStr(p.init.render()), p.coqHdr(), hk.CoqStrList(p.targets)))
			coqOuts = append(coqOuts, hk.CoqPair(coqObs(res), hk.CoqBool(res.refused)))
			r.Count(fmt.Sprintf("client.do.sent=%d", len(res.obs)))
			r.Count(fmt.Sprintf("client.do.refused=%v", res.refused))
		}
		opNew()
		if rng.Chance(55) {
			// directed: configure, clone (perhaps twice), reconfigure ONE side the other way, request through every client
			first, second := strictSpecs(rng, pool), laxSpecs(rng)
			if rng.Bool() {
				first, second = second, first
			}
			opSet(0, first)
			if rng.Chance(50) {
				opOther(0)
			}
			if rng.Chance(35) {
				opWrap(0)
			}
			opClone(0)
			if rng.Chance(40) {
				opClone(rng.Intn(len(world)))
			}
			if rng.Chance(30) {
				opDo(rng.Intn(len(world)))
			}
			opSet(rng.Intn(len(world)), second)
			if rng.Chance(50) {
				opOther(rng.Intn(len(world)))
			}
			if rng.Chance(30) {
				opSet(rng.Intn(len(world)), nil) // SetRedirectPolicy(): keeps what is there
			}
			r.Count("client.seq=directed")
		} else {
			for k, m := 0, rng.Range(4, 9); k < m; k++ {
				switch x := rng.Intn(100); {
				case x < 30:
					opSet(rng.Intn(len(world)), genSpecs(rng, pool, 0, 3))
				case x < 55:
					opClone(rng.Intn(len(world)))
				case x < 60:
					opNew()
				case x < 75:
					opOther(rng.Intn(len(world)))
				default:
					opDo(rng.Intn(len(world)))
				}
			}
			r.Count("client.seq=random")
		}
		// finally a request through every client (at most 5)
		for k := 0; k < len(world) && k < 5; k++ {
			opDo(k)
		}
		for _, w := range world {
			w.c.GetTransport().CloseIdleConnections()
		}
		r.Count(fmt.Sprintf("client.clients=%d", len(world)))
		r.Count(fmt.Sprintf("client.clones=%d", nClone))
		r.Add(hk.Case{Coq: fmt.Sprintf("ClientCase %s %s", hk.CoqList(ops), hk.CoqList(coqOuts)),
			Desc: map[string]interface{}{"kind": "client", "ops": opsDesc}},
			"k|"+strings.Join(ops, ";"), nClone > 0 && setAfterClone && nDo >= 2)
	}
}

// (b3) several chains in flight through one client, CheckRedirect evaluations in a chosen order
func c11Concurrent(r *hk.Run, rng *hk.Rand, o *c11Origin, n int) {
	const patience = 60 * time.Second
	for i := 0; i < n; i++ {
		m := rng.Range(2, 4)
		var inits []authority
		for len(inits) < m {
			inits = append(inits, noZone(rng, func() authority {
				if len(inits) > 0 && rng.Chance(30) {
					return mutateAuthority(rng, inits[0])
				}
				return genAuthority(rng)
			}))
		}
		// policies: the ones that look at the chain's own origin / length come first
		var specs []polSpec
		switch x := rng.Intn(100); {
		case x < 30:
			specs = append(specs, specSameHost())
		case x < 50:
			specs = append(specs, specSameDomain())
		case x < 90:
			specs = append(specs, specMax(rng.Range(2, 4)))
		}
		specs = append(specs, genSpecs(rng, inits, 0, 2)...)
		if len(specs) == 0 {
			specs = append(specs, specMax(5))
		}
		c := req.C().SetRedirectPolicy(specsMk(specs)...).SetDial(o.dial)
		type chain struct {
			id   string
			p    c11Plan
			gate *c11Gate
			done chan c11Result
		}
		var chains []*chain
		for j := 0; j < m; j++ {
			p := genPlan(rng, inits[j], 1+hopsFor(rng, specsLimit(specs)), inits, true)
			genHdr(rng, &p, []int{0})
			genOverride(rng, &p, 15)
			ch := &chain{id: fmt.Sprintf("g%d.%d", i, j), p: p, gate: &c11Gate{arrived: make(chan struct{}, 64), release: make(chan struct{}, 64)}, done: make(chan c11Result, 1)}
			chains = append(chains, ch)
		}
		for _, ch := range chains {
			ch := ch
			go func() { ch.done <- runChain(o, c, ch.id, ch.p, ch.gate) }()
		}
		coqPs, plain := specsCoq(specs)
		groupIn := map[string]interface{}{"policies": plain}
		var planDesc []interface{}
		for _, ch := range chains {
			planDesc = append(planDesc, ch.p.desc())
		}
		groupIn["chains"] = planDesc
		stuck := false
		results := make([]*c11Result, m)
		// every first request is on the wire (held by the origin) before anything is answered
		for j, ch := range chains {
			select {
			case <-ch.gate.arrived:
			case res := <-ch.done:
				results[j] = &res // failed before reaching the origin
			case <-time.After(patience):
				stuck = true
			}
		}
		var sched []int
		for !stuck {
			var running []int
			for j := range chains {
				if results[j] == nil {
					running = append(running, j)
				}
			}
			if len(running) == 0 {
				break
			}
			j := running[rng.Intn(len(running))]
			sched = append(sched, j)
			chains[j].gate.release <- struct{}{}
			select {
			case <-chains[j].gate.arrived:
			case res := <-chains[j].done:
				results[j] = &res
			case <-time.After(patience):
				stuck = true
			}
		}
		if stuck {
			// let everything go and report: a request that neither arrives nor ends
			for _, ch := range chains {
				for k := 0; k < 32; k++ {
					ch.gate.release <- struct{}{}
				}
			}
			r.Fail(hk.Failure{Sig: "conc:stuck", What: "a request in a group of concurrent chains neither reached the origin nor returned within 60 s", Input: groupIn, Got: sched})
			c.GetTransport().CloseIdleConnections()
			continue
		}
		c.GetTransport().CloseIdleConnections()
		var coqChains, coqOuts, keyParts []string
		nHop := 0
		for j, ch := range chains {
			res := *results[j]
			in := map[string]interface{}{"policies": plain, "chains": planDesc, "schedule": sched, "chain": j}
			judgeChain(r, "conc", specs, ch.p, &res, in)
			coqChains = append(coqChains, "("+hk.CoqStr(ch.p.init.render())+", "+ch.p.coqHdr()+", "+hk.CoqStrList(ch.p.targets)+")")
			coqOuts = append(coqOuts, hk.CoqPair(coqObs(res), hk.CoqBool(res.refused)))
			keyParts = append(keyParts, ch.p.init.render()+">"+strings.Join(ch.p.targets, ","))
			if len(ch.p.targets) >= 1 {
				nHop++
			}
			r.Count(fmt.Sprintf("conc.chain.sent=%d", len(res.obs)))
		}
		var coqSched []string
		for _, j := range sched {
			coqSched = append(coqSched, hk.CoqNat(j))
		}
		r.Count(fmt.Sprintf("conc.chains=%d", m))
		r.Add(hk.Case{Coq: fmt.Sprintf("ConcCase %s %s %s %s", coqPs, hk.CoqList(coqChains), hk.CoqList(coqSched), hk.CoqList(coqOuts)),
			Desc: map[string]interface{}{"kind": "conc", "policies": plain, "chains": planDesc, "schedule": sched}},
			"g|"+strings.Join(plain, ",")+"|"+strings.Join(keyParts, "|")+"|"+fmt.Sprint(sched), nHop >= 2)
	}
}
