package main

// gosync for C11, third part: the bodies of getHostname and getDomain (/repo/redirect.go) are
// translated statement by statement into Coq functions (coq/Gen/RedirectHost.v);
// Proofs/RedirectSyncProofs.v proves that Model/Authority.v's get_hostname / get_domain are these
// functions.  Two library calls are mapped to their models: net.SplitHostPort -> split_host_port
// (Model/Authority.v, tied by the direct correspondence cases) and `netip.ParseAddr(x) succeeds` ->
// is_ip_literal x (the abstraction stated in design.d/C11.md).
//
// Subset: x = e | x := e | return [e] | if [init;] cond { ... } [else if ... | else { ... }] where the
// branches either all end in return or only assign ONE existing variable; init is
// `h, _, err := net.SplitHostPort(e)` or `_, err := netip.ParseAddr(e)` with cond `err == nil`.
// Expressions: variables, int/char literals, len, indexing, slicing, strings.ToLower/Split/Join with a
// one-byte separator, getHostname, &&, ==, >=, <, -.

import (
	"fmt"
	"go/ast"
	"go/parser"
	"go/token"
	"path/filepath"
	"strconv"
)

type fnTr struct {
	env   map[string]string // variable -> type: str | list | nat | byte | bool
	named string            // named result, "" if none
}

func coqByte(c byte) (string, error) {
	if c < 0x21 || c > 0x7e || c == '"' {
		return "", fmt.Errorf("byte literal %q not representable", c)
	}
	return "\"" + string(c) + "\"%byte", nil
}

func oneByteString(e ast.Expr) (string, error) {
	bl, ok := e.(*ast.BasicLit)
	if !ok || bl.Kind != token.STRING {
		return "", fmt.Errorf("separator is not a string literal")
	}
	v, err := strconv.Unquote(bl.Value)
	if err != nil || len(v) != 1 {
		return "", fmt.Errorf("separator is not a one-byte string")
	}
	return coqByte(v[0])
}

func callName(x *ast.CallExpr) string {
	switch f := x.Fun.(type) {
	case *ast.Ident:
		return f.Name
	case *ast.SelectorExpr:
		if p, ok := f.X.(*ast.Ident); ok {
			return p.Name + "." + f.Sel.Name
		}
	}
	return "?"
}

func (t *fnTr) expr(e ast.Expr) (string, string, error) {
	switch x := e.(type) {
	case *ast.ParenExpr:
		return t.expr(x.X)
	case *ast.Ident:
		if ty, ok := t.env[x.Name]; ok {
			return x.Name, ty, nil
		}
		return "", "", fmt.Errorf("unknown identifier %q", x.Name)
	case *ast.BasicLit:
		switch x.Kind {
		case token.INT:
			return x.Value + "%nat", "nat", nil
		case token.CHAR:
			v, _, _, err := strconv.UnquoteChar(x.Value[1:len(x.Value)-1], '\'')
			if err != nil || v > 0x7e {
				return "", "", fmt.Errorf("char literal %s", x.Value)
			}
			b, err := coqByte(byte(v))
			return b, "byte", err
		}
	case *ast.CallExpr:
		name := callName(x)
		var args []string
		var tys []string
		n := len(x.Args)
		if name == "strings.Split" || name == "strings.Join" || name == "strings.TrimSuffix" {
			n = 1
		}
		for _, a := range x.Args[:n] {
			s, ty, err := t.expr(a)
			if err != nil {
				return "", "", err
			}
			args, tys = append(args, s), append(tys, ty)
		}
		switch {
		case name == "len" && len(args) == 1 && (tys[0] == "str" || tys[0] == "list"):
			return "(length " + args[0] + ")", "nat", nil
		case name == "strings.ToLower" && len(args) == 1 && tys[0] == "str":
			return "(to_lower " + args[0] + ")", "str", nil
		case name == "getHostname" && len(args) == 1 && tys[0] == "str":
			return "(src_get_hostname " + args[0] + ")", "str", nil
		case name == "strings.TrimSuffix" && len(x.Args) == 2 && tys[0] == "str":
			sep, err := oneByteString(x.Args[1])
			if err != nil {
				return "", "", err
			}
			return "(trim_suffix_byte " + sep + " " + args[0] + ")", "str", nil
		case name == "strings.Split" && len(x.Args) == 2 && tys[0] == "str":
			sep, err := oneByteString(x.Args[1])
			if err != nil {
				return "", "", err
			}
			return "(split_byte " + sep + " " + args[0] + ")", "list", nil
		case name == "strings.Join" && len(x.Args) == 2 && tys[0] == "list":
			sep, err := oneByteString(x.Args[1])
			if err != nil {
				return "", "", err
			}
			return "(join_with [" + sep + "] " + args[0] + ")", "str", nil
		}
		return "", "", fmt.Errorf("call of %s is outside the translated subset", name)
	case *ast.IndexExpr:
		a, ta, err := t.expr(x.X)
		if err != nil {
			return "", "", err
		}
		i, ti, err := t.expr(x.Index)
		if err != nil {
			return "", "", err
		}
		if ta == "str" && ti == "nat" {
			return "(nth " + i + " " + a + " x00)", "byte", nil
		}
		return "", "", fmt.Errorf("indexing a %s", ta)
	case *ast.SliceExpr:
		a, ta, err := t.expr(x.X)
		if err != nil {
			return "", "", err
		}
		if (ta != "str" && ta != "list") || x.Slice3 || x.Low == nil {
			return "", "", fmt.Errorf("unsupported slice expression")
		}
		lo, tl, err := t.expr(x.Low)
		if err != nil || tl != "nat" {
			return "", "", fmt.Errorf("unsupported slice bound")
		}
		if x.High == nil {
			return "(skipn " + lo + " " + a + ")", ta, nil
		}
		hi, th, err := t.expr(x.High)
		if err != nil || th != "nat" {
			return "", "", fmt.Errorf("unsupported slice bound")
		}
		return "(firstn (Nat.sub " + hi + " " + lo + ") (skipn " + lo + " " + a + "))", ta, nil
	case *ast.BinaryExpr:
		a, ta, err := t.expr(x.X)
		if err != nil {
			return "", "", err
		}
		b, tb, err := t.expr(x.Y)
		if err != nil {
			return "", "", err
		}
		if ta != tb {
			return "", "", fmt.Errorf("operands of %s differ in type (%s, %s)", x.Op, ta, tb)
		}
		switch {
		case x.Op == token.LAND && ta == "bool":
			return "(andb " + a + " " + b + ")", "bool", nil
		case x.Op == token.SUB && ta == "nat":
			return "(Nat.sub " + a + " " + b + ")", "nat", nil
		case x.Op == token.GEQ && ta == "nat":
			return "(Nat.leb " + b + " " + a + ")", "bool", nil
		case x.Op == token.LSS && ta == "nat":
			return "(Nat.ltb " + a + " " + b + ")", "bool", nil
		case x.Op == token.EQL && ta == "nat":
			return "(Nat.eqb " + a + " " + b + ")", "bool", nil
		case x.Op == token.EQL && ta == "byte":
			return "(beqb " + a + " " + b + ")", "bool", nil
		}
		return "", "", fmt.Errorf("operator %s on %s is outside the translated subset", x.Op, ta)
	}
	return "", "", fmt.Errorf("expression %T is outside the translated subset", e)
}

func endsInReturn(b *ast.BlockStmt) bool {
	if len(b.List) == 0 {
		return false
	}
	_, ok := b.List[len(b.List)-1].(*ast.ReturnStmt)
	return ok
}

// the single variable a non-returning branch assigns (`v = e`), and e
func (t *fnTr) assignOnly(b *ast.BlockStmt) (string, string, error) {
	if len(b.List) != 1 {
		return "", "", fmt.Errorf("a branch that does not return must be one assignment")
	}
	as, ok := b.List[0].(*ast.AssignStmt)
	if !ok || as.Tok != token.ASSIGN || len(as.Lhs) != 1 || len(as.Rhs) != 1 {
		return "", "", fmt.Errorf("a branch that does not return must be one assignment")
	}
	id, ok := as.Lhs[0].(*ast.Ident)
	if !ok {
		return "", "", fmt.Errorf("assignment to a non-variable")
	}
	ty, known := t.env[id.Name]
	v, tv, err := t.expr(as.Rhs[0])
	if err != nil {
		return "", "", err
	}
	if !known || ty != tv {
		return "", "", fmt.Errorf("assignment changes the type of %s", id.Name)
	}
	return id.Name, v, nil
}

// cond: returns a function building the Coq conditional from its two arms, and the variables
// the init statement binds in the THEN arm
func (t *fnTr) cond(s *ast.IfStmt) (func(th, el string) string, map[string]string, error) {
	if s.Init == nil {
		c, ty, err := t.expr(s.Cond)
		if err != nil {
			return nil, nil, err
		}
		if ty != "bool" {
			return nil, nil, fmt.Errorf("condition is not boolean")
		}
		return func(th, el string) string { return "(if " + c + " then " + th + " else " + el + ")" }, nil, nil
	}
	as, ok := s.Init.(*ast.AssignStmt)
	if !ok || as.Tok != token.DEFINE || len(as.Rhs) != 1 {
		return nil, nil, fmt.Errorf("unsupported if-initialiser")
	}
	call, ok := as.Rhs[0].(*ast.CallExpr)
	if !ok || len(call.Args) != 1 {
		return nil, nil, fmt.Errorf("unsupported if-initialiser")
	}
	errName := as.Lhs[len(as.Lhs)-1].(*ast.Ident).Name
	be, ok := s.Cond.(*ast.BinaryExpr)
	if !ok || be.Op != token.EQL || selPath(be.X) != errName || selPath(be.Y) != "nil" {
		return nil, nil, fmt.Errorf("condition after a call must be `err == nil`")
	}
	arg, ty, err := t.expr(call.Args[0])
	if err != nil || ty != "str" {
		return nil, nil, fmt.Errorf("unsupported argument of %s", callName(call))
	}
	switch callName(call) {
	case "net.SplitHostPort":
		if len(as.Lhs) != 3 || selPath(as.Lhs[1]) != "_" {
			return nil, nil, fmt.Errorf("net.SplitHostPort: expected `h, _, err :=`")
		}
		h := selPath(as.Lhs[0])
		return func(th, el string) string {
			return "(match split_host_port " + arg + " with ShpOk " + h + " _ => " + th + " | ShpErr => " + el + " end)"
		}, map[string]string{h: "str"}, nil
	case "netip.ParseAddr":
		if len(as.Lhs) != 2 || selPath(as.Lhs[0]) != "_" {
			return nil, nil, fmt.Errorf("netip.ParseAddr: expected `_, err :=`")
		}
		return func(th, el string) string { return "(if is_ip_literal " + arg + " then " + th + " else " + el + ")" }, nil, nil
	}
	return nil, nil, fmt.Errorf("call of %s in an if-initialiser is outside the translated subset", callName(call))
}

// value of variable v after an assigning if/else-if/else chain
func (t *fnTr) assignChain(s *ast.IfStmt, v *string) (string, error) {
	mk, binds, err := t.cond(s)
	if err != nil {
		return "", err
	}
	for k, ty := range binds {
		t.env[k] = ty
	}
	name, val, err := t.assignOnly(s.Body)
	for k := range binds {
		delete(t.env, k)
	}
	if err != nil {
		return "", err
	}
	if *v == "" {
		*v = name
	}
	if name != *v {
		return "", fmt.Errorf("branches assign different variables")
	}
	el := *v
	switch e := s.Else.(type) {
	case nil:
	case *ast.IfStmt:
		if el, err = t.assignChain(e, v); err != nil {
			return "", err
		}
	case *ast.BlockStmt:
		n2, v2, err := t.assignOnly(e)
		if err != nil {
			return "", err
		}
		if n2 != *v {
			return "", fmt.Errorf("branches assign different variables")
		}
		el = v2
	}
	return mk(val, el), nil
}

func (t *fnTr) stmts(list []ast.Stmt) (string, error) {
	if len(list) == 0 {
		return "", fmt.Errorf("control reaches the end of the function without a return")
	}
	rest := list[1:]
	switch s := list[0].(type) {
	case *ast.ReturnStmt:
		if len(s.Results) == 0 && t.named != "" {
			return t.named, nil
		}
		if len(s.Results) != 1 {
			return "", fmt.Errorf("unsupported return")
		}
		v, _, err := t.expr(s.Results[0])
		return v, err
	case *ast.AssignStmt:
		if len(s.Lhs) != 1 || len(s.Rhs) != 1 || (s.Tok != token.ASSIGN && s.Tok != token.DEFINE) {
			return "", fmt.Errorf("unsupported assignment")
		}
		id, ok := s.Lhs[0].(*ast.Ident)
		if !ok {
			return "", fmt.Errorf("assignment to a non-variable")
		}
		v, ty, err := t.expr(s.Rhs[0])
		if err != nil {
			return "", err
		}
		if old, known := t.env[id.Name]; known && old != ty && s.Tok == token.ASSIGN {
			return "", fmt.Errorf("assignment changes the type of %s", id.Name)
		}
		t.env[id.Name] = ty
		k, err := t.stmts(rest)
		if err != nil {
			return "", err
		}
		return "let " + id.Name + " := " + v + " in\n  " + k, nil
	case *ast.IfStmt:
		if endsInReturn(s.Body) {
			if s.Else != nil {
				return "", fmt.Errorf("returning `if` with an else branch")
			}
			mk, binds, err := t.cond(s)
			if err != nil {
				return "", err
			}
			for k, ty := range binds {
				t.env[k] = ty
			}
			th, err := t.stmts(s.Body.List)
			for k := range binds {
				delete(t.env, k)
			}
			if err != nil {
				return "", err
			}
			el, err := t.stmts(rest)
			if err != nil {
				return "", err
			}
			return mk(th, "\n  "+el), nil
		}
		v := ""
		val, err := t.assignChain(s, &v)
		if err != nil {
			return "", err
		}
		k, err := t.stmts(rest)
		if err != nil {
			return "", err
		}
		return "let " + v + " := " + val + " in\n  " + k, nil
	}
	return "", fmt.Errorf("statement %T is outside the translated subset", list[0])
}

func translateStringFunc(fd *ast.FuncDecl) (string, error) {
	if len(fd.Type.Params.List) != 1 || len(fd.Type.Params.List[0].Names) != 1 || selPath(fd.Type.Params.List[0].Type) != "string" {
		return "", fmt.Errorf("expected one string parameter")
	}
	if fd.Type.Results == nil || len(fd.Type.Results.List) != 1 || selPath(fd.Type.Results.List[0].Type) != "string" {
		return "", fmt.Errorf("expected one string result")
	}
	p := fd.Type.Params.List[0].Names[0].Name
	t := &fnTr{env: map[string]string{p: "str"}}
	if ns := fd.Type.Results.List[0].Names; len(ns) == 1 {
		t.named = ns[0].Name
		t.env[t.named] = "str"
	}
	body, err := t.stmts(fd.Body.List)
	if err != nil {
		return "", err
	}
	pre := ""
	if t.named != "" {
		pre = "let " + t.named + " : bytes := [] in\n  " // a named result starts as ""
	}
	return "(" + p + " : bytes) : bytes :=\n  " + pre + body, nil
}

func syncHost(repo string) (string, string, error) {
	fset := token.NewFileSet()
	f, err := parser.ParseFile(fset, filepath.Join(repo, "redirect.go"), nil, 0)
	if err != nil {
		return "", "", err
	}
	defs := map[string]string{}
	for _, d := range f.Decls {
		fd, ok := d.(*ast.FuncDecl)
		if !ok || fd.Recv != nil || (fd.Name.Name != "getHostname" && fd.Name.Name != "getDomain") {
			continue
		}
		s, err := translateStringFunc(fd)
		if err != nil {
			return "", "", fmt.Errorf("%s: %v", fd.Name.Name, err)
		}
		defs[fd.Name.Name] = s
	}
	if defs["getHostname"] == "" || defs["getDomain"] == "" {
		return "", "", fmt.Errorf("getHostname / getDomain not found in redirect.go")
	}
	out := "(* GENERATED by harness/c11 gosync from /repo/redirect.go - do not edit.\n" +
		"   getHostname and getDomain translated statement by statement; net.SplitHostPort -> split_host_port,\n" +
		"   `netip.ParseAddr(x)` succeeds -> is_ip_literal x (both in Model/Authority.v). *)\n" +
		"From ReqV Require Import Lib.Bytes Model.Authority.\n\n" +
		"Definition src_get_hostname " + defs["getHostname"] + ".\n\n" +
		"Definition src_get_domain " + defs["getDomain"] + ".\n"
	return "RedirectHost.v", out, nil
}
