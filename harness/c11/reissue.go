package main

// C11 end-to-end, part 2: operations in which the CLIENT ITSELF issues several requests for one named
// URL - a retry attempt after a retryable answer, the probing HEAD and the ranged segment GETs of a
// parallel download.  Every one of them is a request to the NAMED authority (a fresh chain under the
// client's policies, with Go's cross-origin header rule), never a first-hop request to a host that was
// only learned from an earlier redirect.

import (
	"bytes"
	"fmt"
	"net/http"
	"os"
	"path/filepath"
	"sort"
	"strconv"
	"strings"
	"time"

	req "github.com/imroc/req/v3"
	"github.com/imroc/req/v3/verifharness/hk"
)

var c11Content = bytes.Repeat([]byte("0123456789"), 10) // the downloaded file: 100 bytes

// parallel downloads cannot carry per-request headers, so their scripts are addressed by the path:
// /pd/<id>/<j> answers with the j-th redirect of script <id>, the last one serves the file.
func (o *c11Origin) servePD(w http.ResponseWriter, q *http.Request) {
	parts := strings.Split(q.URL.Path, "/") // "", "pd", id, j
	if len(parts) != 4 {
		http.NotFound(w, q)
		return
	}
	id := parts[2]
	j, _ := strconv.Atoi(parts[3])
	hit := c11Hit{Host: q.Host, Method: q.Method, Range: q.Header.Get("Range"), Step: j}
	for k, n := range c11Hdr {
		hit.H[k] = len(q.Header.Values(n))
	}
	o.mu.Lock()
	o.hits[id] = append(o.hits[id], hit)
	sc := o.scripts[id]
	o.mu.Unlock()
	if sc != nil && j < len(sc.loc) {
		w.Header().Set("Location", sc.loc[j])
		w.WriteHeader(sc.status[j])
		return
	}
	if q.Method == http.MethodHead {
		w.Header().Set("Content-Length", strconv.Itoa(len(c11Content)))
		w.Header().Set("Accept-Ranges", "bytes")
		return
	}
	var a, b int
	if _, err := fmt.Sscanf(hit.Range, "bytes=%d-%d", &a, &b); err != nil || a < 0 || b >= len(c11Content) || a > b {
		w.Header().Set("Content-Length", strconv.Itoa(len(c11Content)))
		w.Write(c11Content)
		return
	}
	w.Header().Set("Content-Range", fmt.Sprintf("bytes %d-%d/%d", a, b, len(c11Content)))
	w.Header().Set("Content-Length", strconv.Itoa(b-a+1))
	w.WriteHeader(http.StatusPartialContent)
	w.Write(c11Content[a : b+1])
}

func coqScripts(ts [][]string) string {
	var xs []string
	for _, t := range ts {
		xs = append(xs, hk.CoqStrList(t))
	}
	return hk.CoqList(xs)
}

// (b4) retry attempts: the first attempt's chain ends in a 503, the request's retry condition asks for
// another attempt, the servers then script a second chain
func c11Retries(r *hk.Run, rng *hk.Rand, o *c11Origin, n int) {
	for i := 0; i < n; i++ {
		init := noZone(rng, func() authority { return genAuthority(rng) })
		var forced []polSpec
		if rng.Chance(35) {
			forced = append(forced, specMax(rng.Range(1, 5)))
		}
		p1 := genPlan(rng, init, hopsFor(rng, specsLimit(forced)), nil, true)
		p2 := genPlan(rng, init, hopsFor(rng, specsLimit(forced)), p1.targetAuth, rng.Bool())
		p2.method, p2.body = p1.method, p1.body
		pool := append(append([]authority{init}, p1.targetAuth...), p2.targetAuth...)
		specs := append(forced, genSpecs(rng, pool, 1-len(forced), 2)...)
		genHdr(rng, &p1, []int{0, 0, 1, 2})
		genOverride(rng, &p1, 20)
		p2.cred, p2.hdr, p2.override = p1.cred, p1.hdr, p1.override
		c := req.C().SetRedirectPolicy(specsMk(specs)...).SetDial(o.dial)
		applyClientCreds(c, p1.cred)
		applyOthers(r, rng, c, o)
		// one script: chain 1, the 503, chain 2
		whole := p1
		whole.loc = append(append(append([]string(nil), p1.loc...), ""), p2.loc...)
		whole.status = append(append(append([]int(nil), p1.status...), 503), p2.status...)
		id := fmt.Sprintf("t%d", i)
		res := runChainWith(o, c, id, whole, nil, func(rq *req.Request) {
			rq.SetRetryCount(1).SetRetryFixedInterval(time.Millisecond).
				SetRetryCondition(func(resp *req.Response, err error) bool { return err == nil && resp != nil && resp.StatusCode == 503 })
		})
		c.GetTransport().CloseIdleConnections()
		coqPs, plain := specsCoq(specs)
		in := map[string]interface{}{"policies": plain, "attempt1": p1.desc(), "attempt2": p2.desc(), "between": "503 + retry condition"}
		// split the hits into attempts: attempt 2 exists iff attempt 1 reached its 503
		n1 := 1 + len(p1.targets)
		var outs []string
		if len(res.obs) <= n1 {
			r1 := res
			if len(res.obs) == n1 && !res.refused {
				r.Fail(hk.Failure{Sig: "retry:no-second-attempt", What: "the first attempt reached its retryable 503 but no second attempt was made (harness expectation)", Input: in, Got: len(res.obs)})
			}
			judgeChain(r, "retry", specs, p1, &r1, in)
			outs = append(outs, hk.CoqPair(coqObs(r1), hk.CoqBool(r1.refused)))
			r.Count("retry.attempts=1")
		} else {
			r1 := c11Result{obs: res.obs[:n1]}
			r2 := c11Result{obs: res.obs[n1:], refused: res.refused, err: res.err}
			in1 := map[string]interface{}{"policies": plain, "attempt": 1, "plan": p1.desc()}
			in2 := map[string]interface{}{"policies": plain, "attempt": 2, "attempt1": p1.desc(), "plan": p2.desc()}
			judgeChain(r, "retry", specs, p1, &r1, in1)
			judgeChain(r, "retry", specs, p2, &r2, in2)
			outs = append(outs, hk.CoqPair(coqObs(r1), hk.CoqBool(false)), hk.CoqPair(coqObs(r2), hk.CoqBool(r2.refused)))
			r.Count("retry.attempts=2")
		}
		r.Add(hk.Case{Coq: fmt.Sprintf("ReissueCase %s %s %s %s %s", coqPs, hk.CoqStr(init.render()), p1.coqHdr(), coqScripts([][]string{p1.targets, p2.targets}), hk.CoqList(outs)),
			Desc: map[string]interface{}{"kind": "retry", "policies": plain, "attempt1": p1.desc(), "attempt2": p2.desc()}},
			"t|"+strings.Join(plain, ",")+"|"+init.render()+"|"+strings.Join(p1.targets, ",")+"|"+strings.Join(p2.targets, ","), len(outs) == 2 && len(p2.targets) >= 1)
	}
}

// (b5) parallel downloads: HEAD + three ranged GETs for ONE named URL
func c11Downloads(r *hk.Run, rng *hk.Rand, o *c11Origin, n int) {
	c11AllowFault = false
	defer func() { c11AllowFault = true }()
	tmpRoot := filepath.Join(r.OutDir, "pdtmp")
	os.MkdirAll(tmpRoot, 0o755)
	defer os.RemoveAll(tmpRoot)
	for i := 0; i < n; i++ {
		init := noZone(rng, func() authority { return genAuthority(rng) })
		var forced []polSpec
		if rng.Chance(25) {
			forced = append(forced, specMax(rng.Range(1, 5)))
		}
		p := genPlan(rng, init, 1+hopsFor(rng, specsLimit(forced))%4, nil, rng.Chance(40))
		p.method, p.body = "HEAD", ""
		pool := append([]authority{init}, p.targetAuth...)
		var specs []polSpec
		if rng.Chance(50) {
			specs = append(forced, genSpecs(rng, pool, 1-len(forced), 2)...)
		} else {
			// mostly permissive, so that the segments are actually fetched
			specs = append(forced, specAllowed(false, pool, rng.Intn(4)))
			if rng.Bool() {
				specs = append(specs, specAlwaysCopy(rng))
			}
		}
		id := fmt.Sprintf("d%d", i)
		// path-addressed script
		for j := range p.loc {
			path := fmt.Sprintf("/pd/%s/%d", id, j+1)
			if p.rel[j] {
				p.loc[j] = path
			} else {
				p.loc[j] = "http://" + p.targets[j] + path
			}
		}
		o.mu.Lock()
		o.scripts[id] = &c11Script{loc: p.loc, status: p.status}
		o.mu.Unlock()
		c := req.C().SetRedirectPolicy(specsMk(specs)...).SetDial(o.dial)
		applyOthers(r, rng, c, o)
		vals := []string{"Bearer secret", "Basic realm=x", "sid=secret", "$Version=1", "tok"}
		for k, name := range c11Hdr { // a download has client-level headers only
			p.hdr[k] = 0
			if rng.Chance(70) {
				p.hdr[k] = 1
				c.SetCommonHeader(name, vals[k])
			}
		}
		var out bytes.Buffer
		err := c.NewParallelDownload("http://" + init.render() + "/pd/" + id + "/0").
			SetSegmentSize(40).SetConcurrency(rng.Range(1, 3)).SetTempRootDir(tmpRoot).SetOutput(&out).Do()
		c.GetTransport().CloseIdleConnections()
		hits := o.obs(id)
		// one chain per request the download made: the HEAD, then the segments by offset
		groups := map[string][]c11Hit{}
		var keys []string
		for _, h := range hits {
			k := h.Method + " " + h.Range
			if _, ok := groups[k]; !ok {
				keys = append(keys, k)
			}
			groups[k] = append(groups[k], h)
		}
		sort.SliceStable(keys, func(a, b int) bool {
			ha, hb := strings.HasPrefix(keys[a], "HEAD"), strings.HasPrefix(keys[b], "HEAD")
			if ha != hb {
				return ha
			}
			var x, y int
			fmt.Sscanf(strings.TrimPrefix(keys[a], "GET bytes="), "%d", &x)
			fmt.Sscanf(strings.TrimPrefix(keys[b], "GET bytes="), "%d", &y)
			return x < y
		})
		coqPs, plain := specsCoq(specs)
		if len(keys) == 0 {
			r.Count("oracle-failures.pd")
			r.Fail(hk.Failure{Sig: "pd:no-request", What: "the download reached no origin", Input: p.desc(), Got: fmt.Sprint(err)})
			continue
		}
		in := map[string]interface{}{"policies": plain, "download": p.desc(), "segment-size": 40, "content-length": len(c11Content), "requests": keys}
		var outs []string
		var scripts [][]string
		complete := true
		for gi, k := range keys {
			g := groups[k]
			sort.SliceStable(g, func(a, b int) bool { return g[a].Step < g[b].Step })
			pk := p
			pk.method = strings.SplitN(k, " ", 2)[0]
			full := len(g) == len(p.targets)+1
			res := c11Result{obs: g, refused: !full}
			if gi == len(keys)-1 && !full && err == nil {
				res.refused = false // judgeChain reports the contradiction
			}
			ink := map[string]interface{}{"policies": plain, "download": p.desc(), "request": k, "all-requests": keys}
			if g[0].Step != 0 {
				r.Count("oracle-failures.pd")
				r.Fail(hk.Failure{Sig: "pd:request-not-to-the-named-url", What: "a request of the parallel download was not addressed to the URL the caller named: it went straight to a location learned from a redirect (no policy consulted, the caller's headers delivered as to a first hop)",
					Input: ink, Got: g})
			}
			judgeChain(r, "pd", specs, pk, &res, ink)
			outs = append(outs, hk.CoqPair(coqObs(res), hk.CoqBool(res.refused)))
			scripts = append(scripts, p.targets)
			complete = complete && full
		}
		want := 1
		if len(groups[keys[0]]) == len(p.targets)+1 {
			want = 4 // HEAD + ceil(100/40) segments
		}
		if len(keys) != want {
			r.Count("oracle-failures.pd")
			r.Fail(hk.Failure{Sig: "pd:requests", What: "the download made another number of requests than HEAD (+ 3 segments when the HEAD's chain was permitted to its end)", Input: in, Got: keys, Want: want})
		}
		if (err == nil) != (complete && want == 4) || (err == nil && !bytes.Equal(out.Bytes(), c11Content)) {
			r.Count("oracle-failures.pd")
			r.Fail(hk.Failure{Sig: "pd:result", What: "the download's result contradicts what its requests did", Input: in, Got: fmt.Sprintf("err=%v bytes=%d", err, out.Len())})
		}
		r.Count(fmt.Sprintf("pd.requests=%d", len(keys)))
		r.Count(fmt.Sprintf("pd.hops=%d", len(p.targets)))
		r.Add(hk.Case{Coq: fmt.Sprintf("ReissueCase %s %s %s %s %s", coqPs, hk.CoqStr(init.render()), p.coqHdr(), coqScripts(scripts), hk.CoqList(outs)),
			Desc: map[string]interface{}{"kind": "download", "policies": plain, "download": p.desc(), "requests": keys}},
			"d|"+strings.Join(plain, ",")+"|"+init.render()+"|"+strings.Join(p.targets, ","), len(keys) == 4)
	}
}

// (b6) digest auth: the chain, when it completes, ends in a 401 with a Digest challenge - answered by
// whichever host the chain ended on; the client then re-sends the FIRST request with the digest answer
func c11Digests(r *hk.Run, rng *hk.Rand, o *c11Origin, n int) {
	for i := 0; i < n; i++ {
		init := noZone(rng, func() authority { return genAuthority(rng) })
		var forced []polSpec
		if rng.Chance(25) {
			forced = append(forced, specMax(rng.Range(1, 5)))
		}
		p := genPlan(rng, init, hopsFor(rng, specsLimit(forced)), nil, rng.Chance(40))
		pool := append([]authority{init}, p.targetAuth...)
		var specs []polSpec
		if rng.Chance(50) {
			specs = append(forced, genSpecs(rng, pool, 1-len(forced), 2)...)
		} else {
			specs = append(forced, specAllowed(rng.Bool(), pool, rng.Intn(4))) // permissive: the 401 is reached
			if rng.Chance(30) {
				specs = append(specs, specAlwaysCopy(rng))
			}
		}
		genHdr(rng, &p, []int{0, 0, 1, 2})
		genOverride(rng, &p, 15)
		c := req.C().SetRedirectPolicy(specsMk(specs)...).SetDial(o.dial)
		applyClientCreds(c, p.cred)
		applyOthers(r, rng, c, o)
		whole := p
		whole.loc = append(append([]string(nil), p.loc...), "")
		whole.status = append(append([]int(nil), p.status...), 401)
		id := fmt.Sprintf("a%d", i)
		clientLevel := rng.Chance(30)
		if clientLevel {
			c.SetCommonDigestAuth("roc", "s3cret")
		}
		r.Count(fmt.Sprintf("digest.client-level=%v", clientLevel))
		res := runChainWith(o, c, id, whole, nil, func(rq *req.Request) {
			if !clientLevel {
				rq.SetDigestAuth("roc", "s3cret")
			}
		})
		c.GetTransport().CloseIdleConnections()
		coqPs, plain := specsCoq(specs)
		in := map[string]interface{}{"policies": plain, "plan": p.desc(), "last-answer": "401 + WWW-Authenticate: Digest", "digest": "Request.SetDigestAuth"}
		nChain := 1 + len(p.targets)
		chain := res
		var resend *c11Hit
		if len(res.obs) > nChain {
			chain = c11Result{obs: res.obs[:nChain]}
			resend = &res.obs[nChain]
		} else if len(res.obs) == nChain && !res.refused {
			r.Count("oracle-failures.digest")
			r.Fail(hk.Failure{Sig: "digest:no-resend", What: "the chain reached its 401 + Digest challenge but nothing was re-sent (harness expectation)", Input: in, Got: res.obs})
		}
		judgeChain(r, "digest", specs, p, &chain, in)
		hosts := append([]string(nil), chain.urlHost...)
		if resend != nil {
			// the re-send: the first request again - same URL host, same Host header, same method and body,
			// the caller's headers with Authorization SET to the digest answer - and nothing after it
			wire := init.render()
			if p.override != "" {
				wire = p.override
			}
			want := p.hdr
			want[0] = 1
			switch {
			case len(res.obs) > nChain+1:
				r.Count("oracle-failures.digest")
				r.Fail(hk.Failure{Sig: "digest:more-than-one-resend", What: "more than one request after the digest challenge", Input: in, Got: res.obs[nChain:]})
			case strings.TrimSuffix(resend.Host, ":") != strings.TrimSuffix(wire, ":"):
				r.Count("oracle-failures.digest")
				r.Fail(hk.Failure{Sig: "digest:resend-not-to-the-named-url", What: "the digest re-send (the first request's headers + the digest answer) was not addressed to the URL the caller named: it went to a host learned from a redirect, below the redirect policies and Go's cross-origin header rule",
					Input: in, Got: *resend, Want: wire})
				hosts = append(hosts, resend.Host)
			case resend.H != want || resend.Method != p.method || resend.Body != len(p.body):
				r.Count("oracle-failures.digest")
				r.Fail(hk.Failure{Sig: "digest:resend-shape", What: "the digest re-send is not the first request again with Authorization set to the digest answer", Input: in, Got: *resend, Want: want})
				hosts = append(hosts, init.render())
			default:
				hosts = append(hosts, init.render())
			}
			r.Count("digest.resend=yes")
		} else {
			r.Count("digest.resend=no")
		}
		all := c11Result{obs: res.obs, urlHost: hosts}
		if len(res.obs) > nChain+1 {
			all.obs = res.obs[:nChain+1]
		}
		r.Count(fmt.Sprintf("digest.hops=%d", len(p.targets)))
		r.Add(hk.Case{Coq: fmt.Sprintf("DigestCase %s %s %s %s %s %s", coqPs, hk.CoqStr(init.render()), p.coqHdr(), hk.CoqStrList(p.targets), coqObs(all), hk.CoqBool(res.refused)),
			Desc: map[string]interface{}{"kind": "digest", "policies": plain, "plan": p.desc(), "observed": res.obs, "refused": res.refused}},
			"a|"+strings.Join(plain, ",")+"|"+init.render()+"|"+strings.Join(p.targets, ","), resend != nil && len(p.targets) >= 1)
	}
}
