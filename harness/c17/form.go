package main

import (
	"bytes"
	"fmt"
	"mime"
	"net/http"
	"net/url"
	"reflect"
	"sort"
	"strings"

	"github.com/imroc/req/v3/verifharness/hk"
)

// ---- escape table / server-side parser ties (stdlib functions the code and the origin use) ----

func (g *gen) escapeCases() {
	r := g.r
	for b := 0; b < 256; b++ {
		s := string([]byte{byte(b)})
		e := url.QueryEscape(s)
		r.Count("escape:byte")
		r.Add(hk.Case{Coq: fmt.Sprintf("EscCase %s %s", hk.CoqStr(s), hk.CoqStr(e)),
			Desc: map[string]interface{}{"kind": "escape", "s": []byte(s)}}, "esc:"+s, true)
	}
	malformed := []string{"%", "%4", "%zz", "%4g", "a%", "a%4", "%%41", "%41%", "+%2B+", "%e4%b8%ad", "%E4%B8%AD", "a+b", "%00", "%7F%ff", "100%25", "%2", "x%2x"}
	n := g.r.Scale(150, 1500)
	for i := 0; i < n; i++ {
		var s string
		switch {
		case i < len(malformed):
			s = malformed[i]
		case i%3 == 0:
			s = url.QueryEscape(g.str())
		case i%3 == 1: // mutate an escaped string
			b := []byte(url.QueryEscape(g.str()) + "%41")
			b[g.rng.Intn(len(b))] = "%+gG&=;z0"[g.rng.Intn(9)]
			s = string(b)
		default:
			s = g.str()
		}
		u, err := url.QueryUnescape(s)
		r.Count("unescape")
		r.Add(hk.Case{Coq: fmt.Sprintf("UnescCase %s %s", hk.CoqStr(s), hk.CoqOpt(err == nil, hk.CoqStr(u))),
			Desc: map[string]interface{}{"kind": "unescape", "s": []byte(s)}}, "unesc:"+s, err != nil || u != s)
	}
	// url.ParseQuery on well-formed and malformed bodies
	n = g.r.Scale(150, 1500)
	for i := 0; i < n; i++ {
		var s string
		switch i % 4 {
		case 0:
			s = url.Values(valuesOfForm(g.form(g.rng.Range(0, 4)))).Encode()
		case 1:
			var parts []string
			for j := g.rng.Range(0, 5); j > 0; j-- {
				parts = append(parts, hk.Pick(g.rng, []string{"", "a", "a=", "=b", "a=b", "a=b=c", "a;b=c", "%zz=1", "k=%4", "a=1", "a=2", "+=+", "%26=%3D", "é=中"}))
			}
			s = strings.Join(parts, "&")
		case 2:
			b := []byte(url.Values(valuesOfForm(g.form(g.rng.Range(1, 3)))).Encode() + "&z=1")
			b[g.rng.Intn(len(b))] = "%+&=;a"[g.rng.Intn(6)]
			s = string(b)
		default:
			s = g.str() + "=" + g.str() + "&" + g.str()
		}
		v, err := url.ParseQuery(s)
		r.Count("parsequery")
		r.Add(hk.Case{Coq: fmt.Sprintf("ParseQueryCase %s %s %s", hk.CoqStr(s), coqForm(formOfValues(v)), hk.CoqBool(err != nil)),
			Desc: map[string]interface{}{"kind": "parsequery", "s": []byte(s)}}, "pq:"+s, len(v) > 0)
	}
}

// ---- end-to-end form bodies ----

type formIn struct {
	Method  string   `json:"method"`
	RForm   []kvs    `json:"request_form"`
	CForm   []kvs    `json:"client_form"`
	Ordered []string `json:"ordered"`
	RCT     string   `json:"request_content_type"`
	CCT     string   `json:"client_content_type"`
}

func (in formIn) key() string { return fmt.Sprintf("form:%q", fmt.Sprint(in)) }

type sent struct {
	Err     string
	Arrived *arrived
}

// serverForm: what a standard server-side handler gets from Request.ParseForm (PostForm) for the
// arrived body and Content-Type, plus the pairs in body order (split on '&', Cut on '=', QueryUnescape).
func serverForm(a *arrived) (url.Values, [][2]string, error) {
	// net/http parses a body only for POST, PUT and PATCH; the bytes that arrived with another method
	// (DELETE) are put through the same parser as a POST
	hr, _ := http.NewRequest("POST", "http://origin/", bytes.NewReader(a.Body))
	hr.Header = a.Header.Clone()
	if err := hr.ParseForm(); err != nil {
		return nil, nil, err
	}
	var seq [][2]string
	for _, seg := range strings.Split(string(a.Body), "&") {
		if seg == "" {
			continue
		}
		k, v, _ := strings.Cut(seg, "=")
		k1, e1 := url.QueryUnescape(k)
		v1, e2 := url.QueryUnescape(v)
		if e1 != nil || e2 != nil {
			return nil, nil, fmt.Errorf("bad segment %q", seg)
		}
		seq = append(seq, [2]string{k1, v1})
	}
	return hr.PostForm, seq, nil
}

func hasValues(f []kvs) bool {
	for _, e := range f {
		if len(e.Vs) > 0 {
			return true
		}
	}
	return false
}

// oracleForm decides the property on what arrived, from the property text only.
func (g *gen) oracleForm(in formIn, s sent) {
	r := g.r
	fail := func(sig, what string, got, want interface{}) {
		r.Fail(hk.Failure{Sig: sig, What: what, Input: in, Got: got, Want: want})
	}
	if len(in.Ordered)%2 != 0 {
		// a malformed ordered list is outside the property's quantifier; noted, not alarmed
		if s.Err == "" {
			g.oddOrderedSilent++
		}
		return
	}
	if s.Err != "" || s.Arrived == nil {
		fail("form:error", "a well-formed form request failed: "+s.Err, s.Err, nil)
		return
	}
	a := s.Arrived
	// expected multimap: for every key the request-level values and the client-level values, plus the ordered pairs
	want := map[string][]string{}
	for _, e := range in.RForm {
		want[e.K] = append(want[e.K], e.Vs...)
	}
	for _, e := range in.CForm {
		want[e.K] = append(want[e.K], e.Vs...)
	}
	plain := hasValues(in.RForm) || hasValues(in.CForm)
	for i := 0; i+1 < len(in.Ordered); i += 2 {
		want[in.Ordered[i]] = append(want[in.Ordered[i]], in.Ordered[i+1])
	}
	for k, v := range want {
		if len(v) == 0 {
			delete(want, k)
		}
	}
	if len(want) == 0 {
		return
	}
	mt, _, err := mime.ParseMediaType(a.Header.Get("Content-Type"))
	if err != nil || mt != "application/x-www-form-urlencoded" {
		fail("form:content-type", "form body sent under a Content-Type that is not application/x-www-form-urlencoded", a.Header.Get("Content-Type"), "application/x-www-form-urlencoded")
		return
	}
	got, seq, err := serverForm(a)
	if err != nil {
		fail("form:unparseable", "the server-side parser rejects the body: "+err.Error(), string(a.Body), nil)
		return
	}
	shape := "plain"
	if len(in.Ordered) > 0 && plain {
		shape = "ordered+plain"
		if len(in.CForm) > 0 && len(in.RForm) == 0 {
			shape = "ordered+client"
		}
	} else if len(in.Ordered) > 0 {
		shape = "ordered"
	}
	if !sameMultimap(got, want) {
		fail("form:lost:"+shape, "the form data that arrived differs from the data supplied (as a multimap)", formOfValues(got), formOfValues(want))
		return
	}
	if len(in.Ordered) > 0 {
		// the ordered pairs must appear in order within the body
		j := 0
		for _, p := range seq {
			if j+1 < len(in.Ordered) && p[0] == in.Ordered[j] && p[1] == in.Ordered[j+1] {
				j += 2
			}
		}
		if j != len(in.Ordered) {
			fail("form:order:"+shape, "ordered form data arrived in a different order", seq, in.Ordered)
		}
	}
}

// sameMultimap: equal key sets; per key the same values in the same order (when both levels
// contribute to one key the order between the levels is not prescribed: compare as multisets then).
func sameMultimap(got, want map[string][]string) bool {
	if len(got) != len(want) {
		return false
	}
	for k, w := range want {
		gv, ok := got[k]
		if !ok || len(gv) != len(w) {
			return false
		}
		if reflect.DeepEqual([]string(gv), w) {
			continue
		}
		a, b := append([]string{}, gv...), append([]string{}, w...)
		sort.Strings(a)
		sort.Strings(b)
		if !reflect.DeepEqual(a, b) {
			return false
		}
	}
	return true
}

func (g *gen) oneForm(in formIn) {
	g.oneBody(reqIn{Kind: "form", Method: in.Method, RForm: in.RForm, CForm: in.CForm, Ordered: in.Ordered, RCT: in.RCT, CCT: in.CCT})
}

func (g *gen) ordered(n int) []string {
	var o []string
	for i := 0; i < n; i++ {
		k := g.key()
		if i > 0 && g.rng.Chance(25) {
			k = o[2*g.rng.Intn(i)] // repeated key
		}
		o = append(o, k, g.str())
	}
	return o
}

func (g *gen) formCases() {
	r, rng := g.r, g.rng
	methods := []string{"POST", "POST", "POST", "PUT", "PATCH", "DELETE"}
	n := r.Scale(260, 4000)
	for i := 0; i < n; i++ {
		in := formIn{Method: hk.Pick(rng, methods)}
		switch k := i % 10; {
		case k < 3: // request-level only
			in.RForm = g.form(rng.Range(1, 5))
			r.Count("form:request")
		case k < 4: // client-level only
			in.CForm = g.form(rng.Range(1, 4))
			r.Count("form:client")
		case k < 6: // both levels, overlapping keys likely
			in.RForm = g.form(rng.Range(1, 4))
			in.CForm = g.form(rng.Range(1, 3))
			if rng.Bool() {
				in.CForm[0].K = in.RForm[0].K
				in.CForm = dedupKeys(in.CForm)
			}
			r.Count("form:client+request")
		case k < 8: // ordered
			in.Ordered = g.ordered(rng.Range(1, 6))
			r.Count("form:ordered")
		case k < 9: // ordered with a preset content type at either level
			in.Ordered = g.ordered(rng.Range(1, 4))
			if rng.Bool() {
				in.RCT = hk.Pick(rng, []string{"text/plain", "application/json", "application/x-www-form-urlencoded; charset=utf-8"})
			} else {
				in.CCT = hk.Pick(rng, []string{"text/plain", "application/xml"})
			}
			r.Count("form:ordered+preset-ct")
		default:
			switch rng.Intn(4) {
			case 0: // odd ordered list
				in.Ordered = append(g.ordered(rng.Range(0, 3)), g.key())
				r.Count("form:ordered-odd")
			case 1: // ordered + client-level plain
				in.Ordered = g.ordered(rng.Range(1, 3))
				in.CForm = g.form(rng.Range(1, 2))
				r.Count("form:ordered+client")
			case 2: // ordered + request-level plain
				in.Ordered = g.ordered(rng.Range(1, 3))
				in.RForm = g.form(rng.Range(1, 2))
				r.Count("form:ordered+request")
			default: // plain with preset content type
				in.RForm = g.form(rng.Range(1, 3))
				in.RCT = hk.Pick(rng, []string{"text/plain", "application/json", "multipart/form-data"})
				r.Count("form:request+preset-ct")
			}
		}
		g.oneForm(in)
	}
}

func dedupKeys(f []kvs) []kvs {
	seen := map[string]bool{}
	var o []kvs
	for _, e := range f {
		if !seen[e.K] {
			seen[e.K] = true
			o = append(o, e)
		}
	}
	return o
}
