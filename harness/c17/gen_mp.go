package main

import (
	"fmt"
	"strings"
	"sync"

	"github.com/imroc/req/v3/verifharness/hk"
)

var fileSizes = []int{0, 1, 2, 100, 511, 512, 513, 1000, 1024, 511, 512, 513, 2000}
var bigSizes = []int{32767, 32768, 32769, 33280, 65536, 70000}

// names a caller might give: plain, needing quoting, non-ASCII
var plainNames = []string{"file", "upload", "f1", "a.txt", "photo.JPG", "report-2024.final.pdf", "x", "data.bin"}
var quotedNames = []string{"a\"b.txt", "back\\slash.txt", "semi;colon.txt", "eq=sign", "sp ace.txt", "q'uote", "(paren).txt", "a,b", "name\"; filename=\"evil",
	"trailing\\", "\"", "\\\"", "percent%41", "é.txt", "中文.pdf", "emoji😀.png", "Ünï cödé", "a:b", "<tag>", "[x]", "a?b", "a@b", "plus+"}
var ctlNames = []string{"new\nline.txt", "cr\rlf\r\n.txt", "tab\tname", "nul\x00byte", "\x7fdel", "bell\a", "esc\x1b[0m", "\xff\xfe.bin", "\xc3\x28", " nbsp", "\ufeffbom.txt", "\r\nContent-Type: text/html\r\n\r\n<script>"}

func (g *gen) content(n int) ([]byte, string) {
	rng := g.rng
	switch rng.Intn(6) {
	case 0: // random binary
		return rng.Bytes(n), "random"
	case 1: // text
		b := make([]byte, n)
		for i := range b {
			b[i] = "the quick brown fox jumps over the lazy dog\n"[i%44]
		}
		return b, "text"
	case 2: // CRLF / dash heavy: looks like multipart framing but cannot contain the (random 60 hex digit) boundary
		b := make([]byte, n)
		pat := "\r\n--\r\n----\r\n--x--\r\n\r\n"
		for i := range b {
			b[i] = pat[i%len(pat)]
		}
		return b, "crlf-dashes"
	case 3: // known magic numbers followed by noise
		magic := hk.Pick(rng, []string{"%PDF-1.7\n", "\x89PNG\r\n\x1a\n", "GIF89a", "\xff\xd8\xff\xe0", "<html><body>", "<?xml version=\"1.0\"?>", "PK\x03\x04", "\x1f\x8b\x08", "{\"json\":true}", "\xef\xbb\xbftext with bom"})
		b := append([]byte(magic), rng.Bytes(n)...)
		return b[:n], "magic:" + fmt.Sprintf("%q", magic)
	case 4: // zeros
		return make([]byte, n), "zeros"
	default: // all byte values cycling
		b := make([]byte, n)
		for i := range b {
			b[i] = byte(i)
		}
		return b, "cycle"
	}
}

func (g *gen) fileName(class int) string {
	switch class {
	case 0:
		return hk.Pick(g.rng, plainNames)
	case 1:
		return hk.Pick(g.rng, quotedNames)
	default:
		return hk.Pick(g.rng, ctlNames)
	}
}

// file generates one upload. nameClass: 0 plain, 1 needs quoting, 2 control bytes / not printable
func (g *gen) file(size int, kind string, nameClass int) fileIn {
	rng := g.rng
	c, desc := g.content(size)
	f := fileIn{Kind: kind, Content: c, Desc: fmt.Sprintf("%s/%d", desc, size)}
	f.Param = hk.Pick(rng, []string{"file", "files", "upload", "f", "attachment"})
	if nameClass > 0 && rng.Chance(30) && kind != "path" {
		f.Param = g.fileName(nameClass)
	}
	f.Name = g.fileName(nameClass)
	if kind == "path" {
		// a real file name: no '/', no NUL, not "." or ".."
		f.Name = strings.NewReplacer("/", "_", "\x00", "_").Replace(f.Name)
		if len(f.Name) > 200 {
			f.Name = f.Name[:200]
		}
		f.Decl = int64(size)
	} else if strings.Contains(f.Name, "/") {
		f.Name = strings.ReplaceAll(f.Name, "/", "_") // a standard server keeps only the base name
	}
	if kind == "seek" {
		f.Prefix = hk.Pick(rng, []int{1, 3, 10, 511, 512, 600})
		f.Seeker = hk.Pick(rng, []string{"bytes", "strings", "section"})
	}
	if kind == "reader" || kind == "upload" {
		switch rng.Intn(5) {
		case 0:
			f.Sizes = []int{1}
		case 1:
			f.Sizes = []int{rng.Range(1, 600), rng.Range(1, 5000)}
		case 2:
			f.Sizes = []int{512, 32768}
		case 3:
			f.Sizes = []int{rng.Range(1, 511), 100000}
		}
		if size > 3000 && len(f.Sizes) > 0 && f.Sizes[len(f.Sizes)-1] < 64 {
			f.Sizes = append(f.Sizes, rng.Range(500, 40000)) // keep the number of reads bounded
		}
		f.EOFWith = rng.Bool()
	}
	if kind == "upload" {
		switch rng.Intn(4) {
		case 0:
			f.CT = hk.Pick(rng, []string{"text/plain", "application/octet-stream", "image/png", "application/json; charset=utf-8", "text/csv; header=present", "application/x-custom+thing"})
		case 1:
			f.CT = ""
		default:
			f.CT = hk.Pick(rng, []string{"application/pdf", "text/plain; charset=utf-8", "x/y"})
		}
		if rng.Chance(20) { // extra Content-Disposition parameters (token keys other than name / filename)
			f.Extra = [][2]string{{"creation-date", "Wed, 12 Feb 1997 16:29:51 -0500"}}
			if rng.Bool() {
				f.Extra = append(f.Extra, [2]string{"x-id", hk.Pick(rng, quotedNames)})
			}
		}
		switch rng.Intn(4) {
		case 0:
			f.Decl = int64(size)
		case 1:
			f.Decl = 0
		case 2:
			f.Decl = int64(size) + int64(rng.Range(1, 10))
		default:
			f.Decl = int64(size)
		}
	}
	return f
}

func (g *gen) multipartCases() {
	r := g.r
	kinds := []string{"path", "bytes", "reader", "upload", "path", "bytes", "reader", "upload", "seek"}
	methods := []string{"POST", "POST", "PUT", "PATCH"}
	n := r.Scale(330, 2400)
	for i := 0; i < n; i++ {
		g.oneBody(g.genMultipart(i, kinds, methods))
	}
}

// genMultipart: one multipart request description (i steers the rare shapes).
func (g *gen) genMultipart(i int, kinds, methods []string) reqIn {
	r, rng := g.r, g.rng
	{
		in := reqIn{Kind: "multipart", Method: hk.Pick(rng, methods)}
		nf := 0
		switch rng.Intn(10) {
		case 0:
			nf = 0
		case 1, 2, 3, 4:
			nf = 1
		case 5, 6:
			nf = 2
		case 7:
			nf = 3
		case 8:
			nf = 4
		default:
			nf = 5
		}
		big := i%r.Scale(55, 30) == 7 // a few cases with a file around the 32 KiB copy buffer
		nameClass := 0
		switch rng.Intn(10) {
		case 0, 1, 2:
			nameClass = 1
		case 3:
			nameClass = 2
		}
		for j := 0; j < nf; j++ {
			size := hk.Pick(rng, fileSizes)
			if big && j < r.Scale(1, 2) {
				size = hk.Pick(rng, bigSizes)
			}
			in.Files = append(in.Files, g.file(size, hk.Pick(rng, kinds), nameClass))
		}
		if nf == 0 {
			in.ForceMultipart = true
		}
		// fields
		switch rng.Intn(8) {
		case 0: // none
		case 1, 2:
			in.RForm = g.mpForm(rng.Range(1, 4), nameClass)
			r.Count("multipart:request-form")
		case 3:
			in.CForm = g.mpForm(rng.Range(1, 3), 0)
			r.Count("multipart:client-form")
		case 4:
			in.RForm = g.mpForm(rng.Range(1, 3), 0)
			in.CForm = g.mpForm(rng.Range(1, 2), 0)
			if rng.Bool() {
				in.CForm[0].K = in.RForm[0].K
				in.CForm = dedupKeys(in.CForm)
			}
			r.Count("multipart:client+request-form")
		case 5:
			in.Ordered = g.mpOrdered(rng.Range(1, 5))
			r.Count("multipart:ordered")
		case 6:
			in.Ordered = g.mpOrdered(rng.Range(1, 3))
			if rng.Bool() {
				in.RForm = g.mpForm(rng.Range(1, 2), 0)
			} else {
				in.CForm = g.mpForm(rng.Range(1, 2), 0)
			}
			r.Count("multipart:ordered+plain")
		default:
			if rng.Chance(30) {
				in.Ordered = append(g.mpOrdered(rng.Range(0, 2)), "odd")
				r.Count("multipart:ordered-odd")
			} else {
				in.RForm = g.mpForm(1, 0)
			}
		}
		if len(in.Files) == 0 && len(in.allFields()) == 0 && len(in.Ordered)%2 == 0 {
			in.RForm = g.mpForm(1, 0)
		}
		// transport shape
		switch rng.Intn(6) {
		case 0:
			in.Chunked = true
		case 1:
			in.Callback = hk.Pick(rng, []string{"0", "1ms", "1h"})
		case 2:
			in.Callback = hk.Pick(rng, []string{"0", "1h"})
			in.Chunked = true
		}
		switch rng.Intn(8) {
		case 0:
			in.Boundary = hk.Pick(rng, []string{"XyZ", "simple-boundary-123", "b", "with space inside", "quoted:bound/ary?=(x)", "----WebKitFormBoundary7MA4YWxkTrZu0gW", strings.Repeat("b", 70)})
			r.Count("multipart:custom-boundary")
		case 1: // rejected by SetBoundary (error ignored by the code): the random boundary stays
			in.Boundary = hk.Pick(rng, []string{"trailing space ", "bad\"quote", "new\nline", strings.Repeat("x", 71), "bäd", "semi;colon"})
			r.Count("multipart:invalid-custom-boundary")
		}
		switch rng.Intn(10) {
		case 0:
			in.RCT = hk.Pick(rng, []string{"application/json", "text/plain", "multipart/mixed"})
		case 1:
			in.CCT = hk.Pick(rng, []string{"application/xml", "application/x-www-form-urlencoded"})
		}
		// failing files (only fully customised uploads can fail after SetFile*)
		if nf > 0 && i%17 == 5 {
			k := rng.Intn(nf)
			in.Files[k].Kind = "upload"
			in.Files[k].Fail = hk.Pick(rng, []string{"open", "read0", "readmid"})
			if in.Files[k].Fail == "readmid" && len(in.Files[k].Content) < 2 {
				in.Files[k].Fail = "open"
			}
			r.Count("multipart:file-fails:" + in.Files[k].Fail)
		}
		r.Count(fmt.Sprintf("multipart:files=%d", nf))
		r.Count(fmt.Sprintf("multipart:name-class=%d", nameClass))
		for _, f := range in.Files {
			r.Count("multipart:file-kind:" + f.Kind)
			if len(f.Extra) > 0 {
				r.Count("multipart:extra-content-disposition")
			}
		}
		if in.Chunked || in.Callback != "" {
			r.Count("multipart:chunked")
		}
		if collides(in) { // a caller-chosen boundary that occurs in the content is outside the guard
			in.Boundary = ""
		}
		return in
	}
}

// ---- SetFiles: a map of parameter name -> path ----

func (g *gen) setFilesCases() {
	r, rng := g.r, g.rng
	n := r.Scale(30, 400)
	for i := 0; i < n; i++ {
		in := reqIn{Kind: "multipart", Method: "POST", SetFiles: true}
		nf := rng.Range(2, 5)
		for j := 0; j < nf; j++ {
			f := g.file(hk.Pick(rng, []int{0, 3, 511, 512, 513, 900}), "path", rng.Intn(2))
			f.Param = fmt.Sprintf("p%d-%s", j, hk.Pick(rng, []string{"a", "file", "x y", "é", "q\"uote"}))
			f.Name = fmt.Sprintf("%d-%s", j, f.Name)
			in.Files = append(in.Files, f)
		}
		if rng.Bool() {
			in.RForm = g.mpForm(rng.Range(1, 2), 0)
		}
		in.Chunked = rng.Chance(30)
		g.oneBody(in)
	}
}

// ---- io.Reader bodies of unknown size ----

func (g *gen) streamCases() {
	r, rng := g.r, g.rng
	n := r.Scale(40, 500)
	for i := 0; i < n; i++ {
		c, _ := g.content(hk.Pick(rng, []int{0, 1, 100, 511, 512, 513, 4096, 32768, 40000}))
		in := reqIn{Kind: "raw", Method: hk.Pick(rng, []string{"POST", "PUT", "PATCH"}), Raw: c, RawSet: true, Stream: true}
		switch rng.Intn(4) {
		case 0:
			in.StreamSizes = []int{1, 7, 4096}
		case 1:
			in.StreamSizes = []int{rng.Range(1, 600)}
		case 2:
			in.StreamSizes = []int{32768}
		}
		if len(c) > 3000 && len(in.StreamSizes) == 1 && in.StreamSizes[0] < 64 {
			in.StreamSizes = append(in.StreamSizes, 5000)
		}
		switch rng.Intn(4) {
		case 0:
			in.Callback = hk.Pick(rng, []string{"0", "1h"}) // the upload callback only exists for multipart files: never invoked here
		case 1:
			in.Chunked = true
		}
		if rng.Chance(30) {
			in.RCT = hk.Pick(rng, []string{"application/octet-stream", "text/plain"})
		}
		if i%10 == 9 {
			in.Method = hk.Pick(rng, []string{"GET", "HEAD", "OPTIONS"})
		}
		r.Count("stream")
		g.oneBody(in)
	}
}

// ---- the same bodies over HTTP/2 and HTTP/3 ----

func (g *gen) protoCases() {
	r, rng := g.r, g.rng
	kinds := []string{"path", "bytes", "reader", "upload", "seek"}
	methods := []string{"POST", "PUT"}
	n := r.Scale(120, 1500)
	for i := 0; i < n; i++ {
		proto := []string{"h2", "h3"}[i%2]
		if proto == "h3" && g.o.h3 == nil {
			continue
		}
		var in reqIn
		switch (i / 2) % 6 {
		case 0, 1, 2: // multipart, mostly through the pipe (forced chunked) with upload callbacks
			in = g.genMultipart(1000+i, kinds, methods)
			if (i/2)%6 != 2 {
				in.Chunked = true
				if rng.Bool() {
					in.Callback = hk.Pick(rng, []string{"0", "1ms", "1h"})
				}
			}
		case 3:
			in = reqIn{Kind: "form", Method: "POST", RForm: g.form(rng.Range(1, 3))}
			if rng.Bool() {
				in.CForm = g.form(1)
			}
			if rng.Bool() {
				in.Ordered = g.ordered(rng.Range(1, 3))
			}
		case 4:
			c, _ := g.content(hk.Pick(rng, []int{0, 1, 513, 20000, 70000}))
			in = reqIn{Kind: "raw", Method: "POST", Raw: c, RawSet: true, Stream: rng.Bool()}
			if in.Stream && rng.Bool() {
				in.StreamSizes = []int{rng.Range(1, 3000), 32768}
			}
		default:
			in = reqIn{Kind: "marshal", Method: "PUT", Marshal: hk.Pick(rng, []string{"doc", "docp", "struct"}), RCT: hk.Pick(rng, []string{"", "application/xml", "application/json"})}
			if i%12 == 5 {
				in.Method = hk.Pick(rng, []string{"GET", "HEAD", "OPTIONS"})
			}
		}
		in.Proto = proto
		r.Count("proto:" + proto + ":" + in.Kind)
		g.oneBody(in)
	}
}

// mpForm: form for multipart; nameClass 2 puts a control byte into the single key (the server then
// cannot parse the body, so the map order could not be observed with several keys)
func (g *gen) mpForm(n int, nameClass int) []kvs {
	if nameClass == 2 && g.rng.Chance(50) {
		return []kvs{{K: hk.Pick(g.rng, ctlNames), Vs: []string{g.mpValue()}}}
	}
	f := g.form(n)
	for i := range f {
		if hasCtl(f[i].K) {
			f[i].K = fmt.Sprintf("k%d", i)
		}
		for j := range f[i].Vs {
			f[i].Vs[j] = g.mpValue()
		}
	}
	return dedupKeys(f)
}

func (g *gen) mpValue() string {
	if g.rng.Chance(15) {
		return hk.Pick(g.rng, []string{"\r\n--", "--\r\n", "\r\n--XyZ", "line1\r\nline2", "\r\n\r\n", "--", "\r", "\n", "tail\r\n"})
	}
	return g.str()
}

func (g *gen) mpOrdered(n int) []string {
	o := g.ordered(n)
	for i := 0; i < len(o); i += 2 {
		if hasCtl(o[i]) {
			o[i] = fmt.Sprintf("o%d", i)
		}
	}
	return o
}

// ---- something else is uploaded between a request's set-up and its write ----
// (a round-trip wrapper making requests of its own; several goroutines uploading at the same time)

func (g *gen) nestedCases() {
	r, rng := g.r, g.rng
	kinds := []string{"path", "bytes", "reader", "upload", "seek"}
	methods := []string{"POST", "PUT"}
	n := r.Scale(50, 600)
	for i := 0; i < n; i++ {
		var in reqIn
		switch i % 5 {
		case 0, 1, 2: // buffered multipart outside, buffered multipart inside
			in = g.genMultipart(5000+i, kinds, methods)
			in.Chunked, in.Callback = false, ""
		case 3:
			in = g.genMultipart(5000+i, kinds, methods)
			in.Chunked = true
		default:
			// (client-level keys without control bytes: the wrapper's multipart uploads carry them too)
			in = reqIn{Kind: "form", Method: "POST", RForm: g.form(rng.Range(1, 3)), CForm: g.mpForm(1, 0)}
		}
		in.Nested = rng.Range(1, 3)
		r.Count("nested:" + in.Kind)
		g.oneBody(in)
	}
}

func (g *gen) concurrentCases() {
	r, rng := g.r, g.rng
	rounds := r.Scale(6, 60)
	for k := 0; k < rounds; k++ {
		par := rng.Range(4, 8)
		ins := make([]reqIn, par)
		for j := range ins {
			in := reqIn{Kind: "multipart", Method: "POST", RForm: []kvs{{K: "who", Vs: []string{fmt.Sprintf("round%d-worker%d", k, j)}}}}
			c, desc := g.content(hk.Pick(rng, []int{100, 600, 3000, 20000}))
			for i := range c {
				c[i] ^= byte(j + 1)
			}
			in.Files = []fileIn{{Param: "file", Name: fmt.Sprintf("w%d.bin", j), Kind: "bytes", Content: c, Desc: fmt.Sprintf("%s/%d^%d", desc, len(c), j+1)}}
			ins[j] = in
		}
		outs := make([]sentReq, par)
		start := make(chan struct{})
		var wg sync.WaitGroup
		for j := range ins {
			wg.Add(1)
			go func(j int) {
				defer wg.Done()
				<-start
				outs[j] = g.send(ins[j])
			}(j)
		}
		close(start)
		wg.Wait()
		for j := range ins {
			r.Count("concurrent:multipart")
			g.judge(ins[j], outs[j], fmt.Sprintf("|concurrent%d.%d", k, j))
		}
	}
}
