package main

// C17 - form, multipart and marshalled bodies round-trip; progress callbacks truthful.
//
// The real client (req.Client / req.Request, public API only) sends requests to a local net/http
// origin that records method, headers and the raw body.  The oracle is written from the property
// text and uses only stdlib server-side parsers on what arrived (Request.ParseForm,
// Request.ParseMultipartForm / multipart.Reader, encoding/json, encoding/xml, mime.ParseMediaType) -
// never /repo's middleware and never the Coq model.  Every observation is also emitted as a Coq
// case on which Model/C17Run.v evaluates the model.

import (
	"fmt"

	"github.com/imroc/req/v3/verifharness/hk"
)

func main() {
	hk.Main("C17", runC17, map[string]hk.Gosyncer{"PayloadForbid": syncPayloadForbid, "ContentTypes": syncContentTypes, "SniffBuf": syncSniffBuf})
}

func runC17(r *hk.Run) {
	r.Header = "From ReqV Require Import Model.C17Run.\nFrom Coq Require Import Uint63."
	r.CaseType = "c17_case"
	r.CheckFn = "c17_check"
	r.ShardSize = 80
	r.Rule = "requests of the real client to a local net/http origin. Kinds: url-encoded forms (plain, ordered, client+request level, preset content types), multipart (0-5 files by path / bytes / reader / custom upload, sizes around 512 B and 32 KiB, names needing quoting, custom boundaries, forced chunked, failing files), marshalled JSON/XML values, raw bodies, GET/HEAD/OPTIONS with AllowGetMethodPayload on/off, upload and download callbacks with intervals 0 / 1 ms / 1 h, plus the stdlib functions the code relies on (QueryEscape/Unescape, ParseQuery, %q, escapeQuotes, SetBoundary/FormDataContentType) and the progress wrappers driven directly. Non-trivial: every end-to-end exchange; table cases whose output differs from the input; progress scripts with more than one event. Distinct by canonical input."
	// hk.NewRand(seed) used to start the splitmix stream at seed*gamma (consecutive seeds = the same stream
	// shifted by one draw; hk scrambles the seed since c8e3218).  The spreading is kept: harmless.
	rng := hk.NewRand(r.Seed*1000003001 + 17)
	o := startOrigin()
	defer o.close()
	g := &gen{r: r, rng: rng, o: o}
	g.escapeCases()
	g.quoteCases()
	g.formCases()
	g.multipartCases()
	g.marshalCases()
	g.forbiddenCases()
	g.rerunCases()
	g.sessionCases()
	g.setterCases()
	g.nestedCases()
	g.concurrentCases()
	g.setFilesCases()
	g.streamCases()
	g.protoCases()
	g.progressUnitCases()
	g.downloadCases()
	g.downloadCallCases()
	r.Notes = append(r.Notes,
		fmt.Sprintf("ordered form data with an odd number of strings (outside the property): request sent without error %d time(s)", g.oddOrderedSilent),
		fmt.Sprintf("file/param names with control bytes or unprintable runes (outside the guard): arrived in altered form %d time(s), part structure intact", g.alteredNames))
}
