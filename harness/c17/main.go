package main

// C17 - form, multipart and marshalled bodies round-trip; progress callbacks truthful.
//
// The real client (req.Client / req.Request, public API only) sends requests to a local net/http
// origin that records method, headers and the raw body.  The oracle is written from the property
// text and uses only stdlib server-side parsers on what arrived (Request.ParseForm,
// Request.ParseMultipartForm / multipart.Reader, encoding/json, encoding/xml, mime.ParseMediaType) -
// never /repo's middleware and never the Coq model.  Every observation is also emitted as a Coq
// case on which Model/C17Run.v evaluates the model.

import (
	"fmt"

	"github.com/imroc/req/v3/verifharness/hk"
)

func main() {
	hk.Main("C17", runC17, map[string]hk.Gosyncer{})
}

func runC17(r *hk.Run) {
	r.Header = "From ReqV Require Import Model.C17Run."
	r.CaseType = "c17_case"
	r.CheckFn = "c17_check"
	r.ShardSize = 250
	r.Rule = "requests of the real client to a local net/http origin. Non-trivial: a form/ordered-form case with at least one key or value containing a byte QueryEscape must escape, an empty or repeated key, or client-level and request-level data together; an escape-table case. Distinct by canonical input."
	rng := hk.NewRand(r.Seed)
	o := startOrigin()
	defer o.close()
	g := &gen{r: r, rng: rng, o: o}
	g.escapeCases()
	g.formCases()
	r.Notes = append(r.Notes, fmt.Sprintf("ordered form data with an odd number of strings (outside the property): request sent without error and with an empty body %d time(s)", g.oddOrderedSilent))
}
