package main

// Sequences of body setters of different kinds on ONE Request: the last one wins - its body arrives,
// under a Content-Type that fits it, and nothing of an earlier setter (a value to marshal, bytes, a
// reader) is sent in its place.

import (
	"bytes"
	"fmt"
	"mime"
	"strings"
	"time"

	"github.com/imroc/req/v3"
	"github.com/imroc/req/v3/verifharness/hk"
)

type bodySetter struct {
	Kind  string `json:"kind"` // value bytes string jsonstr jsonbytes jsonmarshal xmlstr xmlbytes xmlmarshal reader
	Value string `json:"value,omitempty"`
	Data  []byte `json:"data,omitempty"`
}

var setterValues = []string{"doc", "docp", "struct"} // index+1 = the version number in the Coq case

func valueIndex(name string) int {
	for i, n := range setterValues {
		if n == name {
			return i + 1
		}
	}
	return 0
}

func (g *gen) setterCases() {
	r, rng := g.r, g.rng
	kinds := []string{"value", "value", "bytes", "string", "jsonstr", "jsonbytes", "jsonmarshal", "xmlstr", "xmlbytes", "xmlmarshal", "reader"}
	n := r.Scale(120, 1500)
	for i := 0; i < n; i++ {
		var seq []bodySetter
		for j := rng.Range(2, 4); j > 0; j-- {
			s := bodySetter{Kind: hk.Pick(rng, kinds)}
			switch s.Kind {
			case "value", "jsonmarshal", "xmlmarshal":
				s.Value = hk.Pick(rng, setterValues)
			case "jsonstr", "jsonbytes":
				s.Data = []byte(fmt.Sprintf(`{"raw":%d,"s":%q}`, rng.Intn(1000), g.str()))
			case "xmlstr", "xmlbytes":
				s.Data = []byte(fmt.Sprintf(`<raw n="%d">text</raw>`, rng.Intn(1000)))
			default:
				s.Data, _ = g.content(hk.Pick(rng, []int{0, 1, 20, 600}))
			}
			seq = append(seq, s)
		}
		g.oneSetterSeq(seq, rng.Chance(40))
	}
}

func (g *gen) oneSetterSeq(seq []bodySetter, twice bool) {
	r := g.r
	in := map[string]interface{}{"kind": "setters", "setters": seq, "sent_twice": twice}
	c := req.C()
	defer c.GetTransport().CloseIdleConnections()
	rq := c.R()
	var coqSet []string
	for _, s := range seq {
		switch s.Kind {
		case "value":
			rq.SetBody(marshalValues[s.Value].v)
			coqSet = append(coqSet, fmt.Sprintf("BsValue %s", hk.CoqN(uint64(valueIndex(s.Value)))))
		case "bytes":
			rq.SetBodyBytes(s.Data)
			coqSet = append(coqSet, fmt.Sprintf("BsBytes %s None", cb(s.Data)))
		case "string":
			rq.SetBodyString(string(s.Data))
			coqSet = append(coqSet, fmt.Sprintf("BsBytes %s None", cb(s.Data)))
		case "jsonstr":
			rq.SetBodyJsonString(string(s.Data))
			coqSet = append(coqSet, fmt.Sprintf("BsBytes %s (Some false)", cb(s.Data)))
		case "jsonbytes":
			rq.SetBodyJsonBytes(s.Data)
			coqSet = append(coqSet, fmt.Sprintf("BsBytes %s (Some false)", cb(s.Data)))
		case "xmlstr":
			rq.SetBodyXmlString(string(s.Data))
			coqSet = append(coqSet, fmt.Sprintf("BsBytes %s (Some true)", cb(s.Data)))
		case "xmlbytes":
			rq.SetBodyXmlBytes(s.Data)
			coqSet = append(coqSet, fmt.Sprintf("BsBytes %s (Some true)", cb(s.Data)))
		case "jsonmarshal":
			rq.SetBodyJsonMarshal(marshalValues[s.Value].v)
			coqSet = append(coqSet, fmt.Sprintf("BsMarshalled %s false", hk.CoqN(uint64(valueIndex(s.Value)))))
		case "xmlmarshal":
			rq.SetBodyXmlMarshal(marshalValues[s.Value].v)
			coqSet = append(coqSet, fmt.Sprintf("BsMarshalled %s true", hk.CoqN(uint64(valueIndex(s.Value)))))
		case "reader":
			rq.SetBody(&scriptReader{data: s.Data, failAt: -1})
			coqSet = append(coqSet, fmt.Sprintf("BsReader %s", cb(s.Data)))
		}
	}
	last := seq[len(seq)-1]
	sends := 1
	if twice && last.Kind != "reader" {
		sends = 2
	}
	var coqObs []string
	for k := 0; k < sends; k++ {
		x := g.nextX()
		done := make(chan error, 1)
		go func() {
			defer func() {
				if p := recover(); p != nil {
					done <- fmt.Errorf("panic: %v", p)
				}
			}()
			resp, err := rq.Post(g.o.url(x))
			if err == nil && resp.Err != nil {
				err = resp.Err
			}
			done <- err
		}()
		var err error
		select {
		case err = <-done:
		case <-time.After(60 * time.Second):
			err = fmt.Errorf("watchdog")
		}
		a := g.o.take(x)
		r.Count("setters:last=" + last.Kind)
		key := fmt.Sprintf("setters|%v|%v|%d", seq, twice, k)
		if err != nil || a == nil {
			r.Fail(hk.Failure{Sig: "setters:error:last=" + last.Kind, What: fmt.Sprintf("a request whose body was set several times failed: %v", err), Input: in})
			r.Add(hk.Case{Desc: in}, key, true)
			return
		}
		ct := a.Header.Get("Content-Type")
		mt, _, _ := mime.ParseMediaType(ct)
		bad := ""
		obs := ""
		switch last.Kind {
		case "value", "jsonmarshal", "xmlmarshal":
			seen, which := "", 0
			for _, name := range setterValues {
				if f := seenMarshal(name, a.Body); f != "" {
					seen, which = f, valueIndex(name)
					if name == last.Value {
						break
					}
				}
			}
			if f := seenMarshal(last.Value, a.Body); f != "" {
				seen, which = f, valueIndex(last.Value)
			}
			switch {
			case which != valueIndex(last.Value):
				bad = "stale-or-wrong-value"
			case last.Kind == "jsonmarshal" && (seen != "json" || mt != "application/json"):
				bad = "format"
			case last.Kind == "xmlmarshal" && (seen != "xml" || !strings.Contains(ct, "xml")):
				bad = "format"
			case last.Kind == "value" && (seen == "xml") != strings.Contains(ct, "xml"):
				bad = "format"
			}
			obs = fmt.Sprintf("BoValue %s %s", hk.CoqN(uint64(which)), hk.CoqBool(seen == "xml"))
		default:
			if !bytes.Equal(a.Body, last.Data) {
				bad = "bytes"
			}
			if (last.Kind == "jsonstr" || last.Kind == "jsonbytes") && mt != "application/json" {
				bad = "content-type"
			}
			if (last.Kind == "xmlstr" || last.Kind == "xmlbytes") && !strings.Contains(ct, "xml") {
				bad = "content-type"
			}
			obs = fmt.Sprintf("BoBytes %s", cb(a.Body))
		}
		if bad != "" {
			r.Fail(hk.Failure{Sig: "setters:" + bad + ":last=" + last.Kind, What: "the body that arrived is not the one the LAST body setter supplied (" + bad + ")", Input: in, Got: fmt.Sprintf("%q under %q", truncate(a.Body), ct)})
			r.Add(hk.Case{Desc: in}, key, true)
			return
		}
		coqObs = append(coqObs, obs)
	}
	coq := fmt.Sprintf("SetterCase %s %d %s", hk.CoqList(coqSet), sends, hk.CoqList(coqObs))
	r.Add(hk.Case{Coq: coq, Desc: in}, fmt.Sprintf("setters|%v|%v", seq, twice), true)
}

func truncate(b []byte) []byte {
	if len(b) > 200 {
		return b[:200]
	}
	return b
}
