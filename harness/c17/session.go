package main

// Sessions: several requests of ONE client, and values the caller keeps (a url.Values handed to more than
// one request, a payload behind a pointer), set up and sent one after the other - state carried from one
// request / execution / attempt to the next.  The oracle keeps its own books, written from the property
// text with value semantics: a request carries the form data the caller gave to THAT request (as the
// values were at the call) plus the client-level data as they are when it is sent; a marshalled body is
// the payload as it is when the attempt goes out.

import (
	"encoding/json"
	"fmt"
	"net/url"
	"sort"
	"strings"
	"sync/atomic"
	"time"

	"github.com/imroc/req/v3"
	"github.com/imroc/req/v3/verifharness/hk"
)

type seqDoc struct {
	N   int    `json:"n"`
	Tag string `json:"tag"`
}

type sessOp struct {
	Op   string   `json:"op"`          // cadd cclone radd raddv rset vmut rord rbody pmut send sendretry
	C    int      `json:"c,omitempty"` // cadd: the client added to; cclone: the client cloned
	I    int      `json:"i,omitempty"`
	Form []kvs    `json:"form,omitempty"`
	K    string   `json:"k,omitempty"`
	V    string   `json:"v,omitempty"`
	KVs  []string `json:"kvs,omitempty"`
	Ver  int      `json:"ver,omitempty"`
}

type sessOut struct {
	I      int
	Kind   string // body | marshal | none | err
	Body   []byte
	Ver    int
	Detail string
}

// books of the oracle for one request
type reqBooks struct {
	own     map[string][]string
	ordered []string
	body    bool
}

func cloneVals(m map[string][]string) map[string][]string {
	o := map[string][]string{}
	for k, v := range m {
		o[k] = append([]string{}, v...)
	}
	return o
}

func (g *gen) sessionCases() {
	r, rng := g.r, g.rng
	n := r.Scale(110, 1500)
	keys := []string{"a", "b", "c", "k[]", "a b", "é", "x=y"}
	val := func() string {
		return hk.Pick(rng, []string{"1", "2", "x y", "&", "v", "é", "+", "", "100%"}) + fmt.Sprint(rng.Intn(50))
	}
	smallForm := func(n int) []kvs {
		var f []kvs
		seen := map[string]bool{}
		for len(f) < n {
			k := hk.Pick(rng, keys)
			if seen[k] {
				continue
			}
			seen[k] = true
			e := kvs{K: k, Vs: []string{val()}}
			if rng.Chance(25) {
				e.Vs = append(e.Vs, val())
			}
			f = append(f, e)
		}
		return f
	}
	for s := 0; s < n; s++ {
		marshal := s%4 == 3
		nreq := rng.Range(1, 3)
		nclients := 1
		var ops []sessOp
		steps := rng.Range(3, 9)
		sends := 0
		if marshal {
			// payload sessions: no form data anywhere, the requests refer to one payload
			for i := 0; i < nreq; i++ {
				ops = append(ops, sessOp{Op: "rbody", I: i})
			}
			ver := 1
			ops = append(ops, sessOp{Op: "pmut", Ver: ver})
			for j := 0; j < steps; j++ {
				switch rng.Intn(4) {
				case 0:
					ver++
					ops = append(ops, sessOp{Op: "pmut", Ver: ver})
				case 1:
					ver++
					ops = append(ops, sessOp{Op: "sendretry", I: rng.Intn(nreq), Ver: ver})
					sends++
				default:
					ops = append(ops, sessOp{Op: "send", I: rng.Intn(nreq)})
					sends++
				}
			}
		} else {
			if s%5 == 1 {
				// a key built up value by value (len 3, cap 4), a clone, adds on clone and original in either
				// order, then forms through both: Clone must not share the value slices
				k := hk.Pick(rng, keys[:3])
				for j := hk.Pick(rng, []int{3, 3, 5, 6, 2, 3, 7, 1}); j > 0; j-- { // append leaves spare capacity at len 3, 5, 6, 7
					ops = append(ops, sessOp{Op: "cadd", C: 0, Form: []kvs{{K: k, Vs: []string{val()}}}})
				}
				ops = append(ops, sessOp{Op: "cclone", C: 0})
				nclients++
				a, b := 1, 0
				if rng.Bool() {
					a, b = 0, 1
				}
				ops = append(ops, sessOp{Op: "cadd", C: a, Form: []kvs{{K: k, Vs: []string{val()}}}},
					sessOp{Op: "cadd", C: b, Form: []kvs{{K: k, Vs: []string{val()}}}},
					sessOp{Op: "send", I: 0}, sessOp{Op: "send", I: nreq - 1})
				sends += 2
			}
			for j := 0; j < steps; j++ {
				i := rng.Intn(nreq)
				switch rng.Intn(14) {
				case 12:
					if nclients < 3 {
						ops = append(ops, sessOp{Op: "cclone", C: rng.Intn(nclients)})
						nclients++
					} else {
						ops = append(ops, sessOp{Op: "cadd", C: rng.Intn(nclients), Form: []kvs{{K: hk.Pick(rng, keys[:3]), Vs: []string{val()}}}})
					}
				case 13: // one value at a time: the slices of multi-valued keys grow with spare capacity
					ops = append(ops, sessOp{Op: "cadd", C: rng.Intn(nclients), Form: []kvs{{K: hk.Pick(rng, keys[:3]), Vs: []string{val()}}}})
				case 0:
					ops = append(ops, sessOp{Op: "cadd", C: rng.Intn(nclients), Form: smallForm(rng.Range(1, 2))})
				case 1:
					ops = append(ops, sessOp{Op: "radd", I: i, Form: smallForm(rng.Range(1, 2))})
				case 2, 3:
					ops = append(ops, sessOp{Op: "raddv", I: i}) // the shared url.Values of the caller
				case 4:
					ops = append(ops, sessOp{Op: "rset", I: i, K: hk.Pick(rng, keys), V: val()})
				case 5:
					ops = append(ops, sessOp{Op: "vmut", K: hk.Pick(rng, keys), V: val()})
				case 6:
					if rng.Chance(40) {
						ops = append(ops, sessOp{Op: "rord", I: i, KVs: []string{hk.Pick(rng, keys), val()}})
					} else {
						ops = append(ops, sessOp{Op: "cadd", C: rng.Intn(nclients), Form: smallForm(1)})
					}
				case 7:
					ops = append(ops, sessOp{Op: "sendretry", I: i})
					sends++
				default:
					ops = append(ops, sessOp{Op: "send", I: i})
					sends++
				}
			}
			if s%3 == 0 { // the pattern "client data only, same request sent twice, then another request"
				ops = append([]sessOp{{Op: "cadd", Form: smallForm(rng.Range(1, 2))}}, ops...)
				ops = append(ops, sessOp{Op: "send", I: 0}, sessOp{Op: "send", I: 0}, sessOp{Op: "send", I: nreq - 1})
				sends += 3
			}
		}
		if sends == 0 {
			ops = append(ops, sessOp{Op: "send", I: 0})
		}
		// every request belongs to one of the clients that exist when it is first used
		owners := make([]int, nreq)
		for i := range owners {
			owners[i] = -1
		}
		have := 1
		for _, o := range ops {
			switch o.Op {
			case "cclone":
				have++
			case "cadd", "vmut", "pmut":
			default:
				if owners[o.I] < 0 {
					owners[o.I] = rng.Intn(have)
				}
			}
		}
		for i := range owners {
			if owners[i] < 0 {
				owners[i] = 0
			}
		}
		if have > 1 {
			r.Count("session:with-clones")
		}
		r.Count(map[bool]string{true: "session:payload", false: "session:form"}[marshal])
		// some requests of a form session are multipart for their whole life (EnableForceMultipart)
		mp := make([]bool, nreq)
		if !marshal {
			for i := range mp {
				mp[i] = rng.Chance(25)
			}
		}
		g.oneSession(nreq, owners, mp, ops)
	}
}

func (g *gen) oneSession(nreq int, owners []int, mp []bool, ops []sessOp) {
	r := g.r
	in := map[string]interface{}{"kind": "session", "requests": nreq, "owners": owners, "multipart": mp, "ops": ops}
	c := req.C()
	clients := []*req.Client{c}
	clientBooksOf := []map[string][]string{{}}
	defer func() {
		for _, cl := range clients {
			cl.GetTransport().CloseIdleConnections()
		}
	}()
	rqs := make([]*req.Request, nreq)
	books := make([]*reqBooks, nreq)
	for i := range rqs {
		books[i] = &reqBooks{own: map[string][]string{}}
	}
	// a request is created from its client when it is first used
	need := func(i int) *req.Request {
		if rqs[i] == nil {
			rqs[i] = clients[owners[i]].R()
			if mp[i] {
				rqs[i].EnableForceMultipart()
			}
		}
		return rqs[i]
	}
	shared := url.Values{"shared": {"s0"}} // the caller's own url.Values, handed to several requests
	payload := &seqDoc{Tag: "payload"}
	var coqOps, coqObs []string
	fail := func(sig, what string, got, want interface{}) {
		r.Fail(hk.Failure{Sig: sig, What: what, Input: in, Got: got, Want: want})
	}
	failed := false
	// one execution of request i: returns what arrived per attempt
	send := func(i int, retryVer int, retry bool) []*arrived {
		x := g.nextX()
		u := g.o.url(x)
		rq := need(i)
		if retry {
			u += "&first=503"
			var fired int32
			rq.SetRetryCount(1).SetRetryFixedInterval(0).SetRetryCondition(func(resp *req.Response, err error) bool {
				return err == nil && resp.StatusCode == 503
			}).SetRetryHook(func(resp *req.Response, err error) {
				if atomic.AddInt32(&fired, 1) == 1 && retryVer > 0 {
					payload.N = retryVer // a hook that refreshes the payload before the next attempt
				}
			})
		} else {
			rq.SetRetryCount(0)
		}
		done := make(chan error, 1)
		go func() {
			defer func() {
				if p := recover(); p != nil {
					done <- fmt.Errorf("panic: %v", p)
				}
			}()
			resp, err := rq.Post(u)
			if err == nil && resp.Err != nil {
				err = resp.Err
			}
			done <- err
		}()
		var err error
		select {
		case err = <-done:
		case <-time.After(60 * time.Second):
			err = fmt.Errorf("watchdog")
		}
		first, last := g.o.take(x+"#1"), g.o.take(x)
		if err != nil {
			fail("session:error", "a request of the session failed: "+err.Error(), err.Error(), nil)
			failed = true
			return nil
		}
		if retry {
			return []*arrived{first, last}
		}
		return []*arrived{last}
	}
	for _, op := range ops {
		if failed {
			break
		}
		switch op.Op {
		case "cadd":
			clients[op.C].SetCommonFormDataFromValues(valuesOfForm(op.Form))
			for _, e := range op.Form {
				clientBooksOf[op.C][e.K] = append(clientBooksOf[op.C][e.K], e.Vs...)
			}
			coqOps = append(coqOps, fmt.Sprintf("SClientAdd %d %s", op.C, cForm(sortedForm(op.Form))))
		case "cclone":
			clients = append(clients, clients[op.C].Clone())
			clientBooksOf = append(clientBooksOf, cloneVals(clientBooksOf[op.C]))
			coqOps = append(coqOps, fmt.Sprintf("SClone %d", op.C))
		case "radd", "raddv":
			f := op.Form
			if op.Op == "raddv" {
				need(op.I).SetFormDataFromValues(shared)
				f = formOfValues(shared)
			} else {
				need(op.I).SetFormDataFromValues(valuesOfForm(f))
			}
			for _, e := range f {
				books[op.I].own[e.K] = append(books[op.I].own[e.K], e.Vs...)
			}
			coqOps = append(coqOps, fmt.Sprintf("SReqAdd %d %s", op.I, cForm(sortedForm(f))))
		case "rset":
			need(op.I).SetFormData(map[string]string{op.K: op.V})
			books[op.I].own[op.K] = []string{op.V}
			coqOps = append(coqOps, fmt.Sprintf("SReqSet %d %s %s", op.I, cs(op.K), cs(op.V)))
		case "vmut": // the caller goes on using its own map: no request may notice
			shared.Add(op.K, op.V)
		case "rord":
			need(op.I).SetOrderedFormData(op.KVs...)
			books[op.I].ordered = append(books[op.I].ordered, op.KVs...)
			coqOps = append(coqOps, fmt.Sprintf("SReqOrdered %d %s", op.I, csList(op.KVs)))
		case "rbody":
			need(op.I).SetBody(payload)
			books[op.I].body = true
			coqOps = append(coqOps, fmt.Sprintf("SReqBody %d", op.I))
		case "pmut":
			payload.N = op.Ver
			coqOps = append(coqOps, fmt.Sprintf("SCellSet %s", hk.CoqN(uint64(op.Ver))))
		case "send", "sendretry":
			retry := op.Op == "sendretry"
			ver1 := payload.N
			arr := send(op.I, op.Ver, retry)
			if arr == nil {
				break
			}
			b := books[op.I]
			for k, a := range arr {
				if a == nil {
					fail("session:not-sent", "an attempt did not reach the origin", nil, nil)
					failed = true
					break
				}
				wantVer := ver1
				if k == 1 && op.Ver > 0 {
					wantVer = op.Ver
				}
				hasForm := len(b.ordered) > 0
				want := map[string][]string{}
				for i := 0; i+1 < len(b.ordered); i += 2 {
					want[b.ordered[i]] = append(want[b.ordered[i]], b.ordered[i+1])
				}
				for _, m := range []map[string][]string{b.own, clientBooksOf[owners[op.I]]} {
					for key, vs := range m {
						if len(vs) > 0 {
							want[key] = append(want[key], vs...)
							hasForm = true
						}
					}
				}
				shape := fmt.Sprintf("attempt%d", k+1)
				switch {
				case mp[op.I]:
					_, parts, perr := serverParts(a)
					got := map[string][]string{}
					for _, p := range parts {
						got[p.Name] = append(got[p.Name], string(p.Body))
					}
					if perr != nil || !sameMultimap(got, want) {
						fail("session:multipart:"+shape, "a multipart request of the session did not carry exactly its own and the client's form data", formOfValues(got), formOfValues(want))
						failed = true
					}
				case hasForm:
					got, _, perr := serverForm(a)
					if perr != nil || !sameMultimap(got, want) {
						fail("session:form:"+shape, "a request of the session did not carry exactly its own and the client's form data (state leaked from another request / execution / the caller's map)", formOfValues(got), formOfValues(want))
						failed = true
					}
					coqObs = append(coqObs, fmt.Sprintf("OutBody %d %s", op.I, cb(a.Body)))
				case b.body:
					var d seqDoc
					if json.Unmarshal(a.Body, &d) != nil || d.N != wantVer || d.Tag != "payload" {
						fail("session:marshal:"+shape, "the marshalled body is not the payload as it was when the attempt was sent (stale marshalling)", string(a.Body), wantVer)
						failed = true
					}
					coqObs = append(coqObs, fmt.Sprintf("OutMarshal %d %s", op.I, hk.CoqN(uint64(d.N))))
				default:
					if len(a.Body) != 0 {
						fail("session:unexpected-body", "a request without any data sent a body", len(a.Body), 0)
						failed = true
					}
					coqObs = append(coqObs, fmt.Sprintf("OutNone %d", op.I))
				}
			}
			if mp[op.I] {
				// multipart bodies depend on map order and a random boundary: judged by the oracle, the model
				// sees the execution as a send whose output is not compared
				coqOps = append(coqOps, fmt.Sprintf("SSendQuiet %d", op.I))
			} else if retry {
				v2 := op.Ver
				if v2 == 0 {
					v2 = ver1
				}
				payload.N = v2
				coqOps = append(coqOps, fmt.Sprintf("SSendRetry %d %s", op.I, hk.CoqN(uint64(v2))))
			} else {
				coqOps = append(coqOps, fmt.Sprintf("SSend %d", op.I))
			}
		}
	}
	var ks []string
	for _, o := range ops {
		ks = append(ks, fmt.Sprintf("%s/%d/%d/%v/%s/%s/%v/%d", o.Op, o.C, o.I, o.Form, o.K, o.V, o.KVs, o.Ver))
	}
	sort.Strings(nil)
	key := "session|" + fmt.Sprint(nreq, owners, mp) + "|" + strings.Join(ks, ";")
	if failed {
		r.Add(hk.Case{Desc: in}, key, true)
		return
	}
	var ow []string
	for _, o := range owners {
		ow = append(ow, hk.CoqNat(o))
	}
	coq := fmt.Sprintf("SessionCase %s %s %s", hk.CoqList(ow), hk.CoqList(coqOps), hk.CoqList(coqObs))
	r.Add(hk.Case{Coq: coq, Desc: in}, key, true)
}
