package main

import (
	"fmt"
	"mime"
	"net/http"
	"strconv"
	"strings"
	"unicode/utf8"

	"github.com/imroc/req/v3/verifharness/hk"
)

// cb renders a byte string: short ones as hx "..", long ones packed.
func cb(b []byte) string {
	if len(b) <= 28 {
		return hk.CoqBytes(b)
	}
	return pk(b)
}
func cs(s string) string { return cb([]byte(s)) }
func csList(xs []string) string {
	o := make([]string, len(xs))
	for i, x := range xs {
		o[i] = cs(x)
	}
	return hk.CoqList(o)
}
func cForm(f []kvs) string {
	xs := make([]string, len(f))
	for i, e := range f {
		xs[i] = hk.CoqPair(cs(e.K), csList(e.Vs))
	}
	return hk.CoqList(xs)
}

func firstRead(f fileIn) int {
	n := len(f.Content)
	if n > 512 {
		n = 512
	}
	if (f.Kind == "reader" || f.Kind == "upload") && len(f.Sizes) > 0 && f.Sizes[0] < n {
		n = f.Sizes[0]
	}
	return n
}

func pad512(b []byte) []byte {
	o := make([]byte, 512)
	copy(o, b)
	return o
}

func coqFile(f fileIn) string {
	var ex []string
	for _, kv := range f.Extra {
		ex = append(ex, hk.CoqPair(cs(kv[0]), cs(kv[1])))
	}
	ct := f.CT
	if f.Kind != "upload" {
		ct = ""
	}
	return fmt.Sprintf("(Build_file_upload %s %s %s %s %s %s)", cs(f.Param), cs(f.Name), cs(ct), hk.CoqList(ex), cb(f.Content), hk.CoqNat(firstRead(f)))
}

// sniffTable: http.DetectContentType on the candidates the code could have looked at, for every
// file without a supplied content type: the zero-padded 512-byte buffer and the bytes alone.
func sniffTable(in reqIn) string {
	var rows []string
	seen := map[string]bool{}
	add := func(k []byte) {
		if seen[string(k)] {
			return
		}
		seen[string(k)] = true
		rows = append(rows, hk.CoqPair(cb(k), cs(http.DetectContentType(k))))
	}
	for _, f := range in.Files {
		if f.Kind == "upload" && f.CT != "" {
			continue
		}
		head := f.Content[:firstRead(f)]
		add(pad512(head))
		add(head)
	}
	return hk.CoqList(rows)
}

func coqOptStr(ok bool, s string) string { return hk.CoqOpt(ok, cs(s)) }

func coqParts(ps []seenPart) string {
	xs := make([]string, len(ps))
	for i, p := range ps {
		xs[i] = fmt.Sprintf("(Build_part_view %s %s %s [])", coqOptStr(p.HasName, p.Name), coqOptStr(p.HasFileName, p.RawFileName), coqOptStr(p.HasCT, p.CT))
	}
	return hk.CoqList(xs)
}

// keyOrder: the order in which the plain-form keys appear among the field parts that follow the
// ordered pairs (Go's map iteration order for this run).
func keyOrder(in reqIn, parts []seenPart) []string {
	var ks []string
	seen := map[string]bool{}
	skip := len(in.Ordered) / 2
	for _, p := range parts {
		if p.HasFileName {
			continue
		}
		if skip > 0 {
			skip--
			continue
		}
		if !seen[p.Name] {
			seen[p.Name] = true
			ks = append(ks, p.Name)
		}
	}
	return ks
}

func mergedKeys(in reqIn) []string {
	var ks []string
	seen := map[string]bool{}
	for _, f := range [][]kvs{in.RForm, in.CForm} {
		for _, e := range f {
			if !seen[e.K] && len(e.Vs) > 0 {
				seen[e.K] = true
				ks = append(ks, e.K)
			}
		}
	}
	return ks
}

// emitBody writes the BodyCase for one exchange.
func (g *gen) emitBody(in reqIn, s sentReq, parts []seenPart, orderOK, partsOK bool, marshalSeen string, nontrivial bool, keySuffix string) {
	var ct, body []byte
	arrivedOK := s.Arrived != nil
	boundary := ""
	if arrivedOK {
		ct, body = []byte(s.Arrived.Header.Get("Content-Type")), s.Arrived.Body
		if _, params, err := mime.ParseMediaType(string(ct)); err == nil {
			boundary = params["boundary"]
		}
	}
	ko := mergedKeys(in)
	if orderOK {
		if o := keyOrder(in, parts); len(o) == len(ko) {
			ko = o
		}
	}
	var files []string
	for _, f := range in.Files {
		files = append(files, coqFile(f))
	}
	raw, stream := "None", "None"
	if in.RawSet && in.Stream {
		stream = "(Some " + cb(in.Raw) + ")"
	} else if in.RawSet {
		raw = "(Some " + cb(in.Raw) + ")"
	}
	q := fmt.Sprintf("(Build_breq %s %s %s %s %s %s %s %s %s %s %s %s %s %s %s %s)",
		cs(in.Method), hk.CoqBool(in.AllowGet), hk.CoqBool(in.multipart()),
		cForm(sortedForm(in.RForm)), cForm(sortedForm(in.CForm)), csList(in.Ordered), csList(ko),
		hk.CoqList(files), hk.CoqBool(in.failing()), cs(in.Boundary), cs(boundary),
		hk.CoqBool(in.Marshal != ""), raw, stream, cs(in.RCT), cs(in.CCT))
	ms := "None"
	switch marshalSeen {
	case "json":
		ms = "(Some MJson)"
	case "xml":
		ms = "(Some MXml)"
	}
	op := "None"
	if partsOK {
		op = "(Some " + coqParts(parts) + ")"
	}
	o := fmt.Sprintf("(Build_body_obs %s %s %s %s %s %s)", hk.CoqBool(arrivedOK), hk.CoqBool(s.Err != ""), cb(ct), cb(body), ms, op)
	var quoted []string
	for _, f := range in.Files {
		quoted = append(quoted, f.Param, f.Name)
		for _, kv := range f.Extra {
			quoted = append(quoted, kv[1])
		}
	}
	coq := fmt.Sprintf("BodyCase %s %s %s %s", q, printTable(quoted...), sniffTable(in), o)
	desc := map[string]interface{}{"kind": in.Kind, "in": in}
	g.r.Add(hk.Case{Coq: coq, Desc: desc}, in.key()+keySuffix, nontrivial)
}

func trimmed(s string) string { return strings.TrimSpace(s) }

// printTable: the runes >= 0x80 occurring (validly encoded) in the strings that strconv.IsPrint accepts.
func printTable(ss ...string) string {
	seen := map[rune]bool{}
	var rows []string
	for _, s := range ss {
		for i := 0; i < len(s); {
			r, w := utf8.DecodeRuneInString(s[i:])
			if r >= 0x80 && !(r == utf8.RuneError && w == 1) && strconv.IsPrint(r) && !seen[r] {
				seen[r] = true
				rows = append(rows, hk.CoqN(uint64(r)))
			}
			i += w
		}
	}
	return hk.CoqList(rows)
}
