package main

import (
	"fmt"
	"sort"
	"strings"
	"sync"

	"github.com/imroc/req/v3/verifharness/hk"
)

type gen struct {
	r   *hk.Run
	rng *hk.Rand
	o   *origin
	n   int // exchange counter
	// things noted but not alarmed on
	xmu              sync.Mutex
	oddOrderedSilent int
	alteredNames     int
}

func (g *gen) nextX() string {
	g.xmu.Lock()
	defer g.xmu.Unlock()
	g.n++
	return fmt.Sprintf("c%d", g.n)
}

// kvs is one entry of a url.Values-shaped map.
type kvs struct {
	K  string   `json:"k"`
	Vs []string `json:"vs"`
}

func coqForm(f []kvs) string {
	xs := make([]string, len(f))
	for i, e := range f {
		xs[i] = hk.CoqPair(hk.CoqStr(e.K), hk.CoqStrList(e.Vs))
	}
	return hk.CoqList(xs)
}

func sortedForm(f []kvs) []kvs {
	o := append([]kvs(nil), f...)
	sort.SliceStable(o, func(i, j int) bool { return o[i].K < o[j].K })
	return o
}

func formOfValues(v map[string][]string) []kvs {
	var o []kvs
	for k, vs := range v {
		o = append(o, kvs{k, append([]string{}, vs...)})
	}
	return sortedForm(o)
}

func valuesOfForm(f []kvs) map[string][]string {
	m := map[string][]string{}
	for _, e := range f {
		m[e.K] = append(m[e.K], e.Vs...)
	}
	return m
}

// ---- string pools ----

var fixedStrings = []string{
	"", "a", "key", "value", "hello world", "a b+c", "a&b=c", "x=y", "semi;colon", "100%", "%41", "%zz", "%",
	"q?x#frag", "/path/to/../x", "sp ace", "+", "++", "&", "&&", "=", "==", ";", "~tilde_-.", "*star*", "(paren)", "!bang",
	"'single'", "\"double\"", "back\\slash", "<tag>", "[brackets]", "{braces}", "pipe|", "caret^", "`tick`", "@at", "$dollar",
	"comma,comma", "colon:colon", "é", "中文字符", "日本語", "emoji😀", "ß", "Ünïcödé", "\u00a0nbsp", "\u2028ls", "\ufeffbom",
	"tab\there", "new\nline", "cr\rlf\r\n", "nul\x00byte", "\x7f", "\x01\x02\x03", "\xff\xfe", "\x80", "\xc3", "\xc3\x28", "\xe2\x82",
	"a=b&c=d", "k[]", "k[0][name]", "user.name", "Content-Type", "name=\"x\"; filename=\"y\"",
}

func (g *gen) str() string {
	rng := g.rng
	switch rng.Intn(10) {
	case 0, 1, 2, 3:
		return hk.Pick(rng, fixedStrings)
	case 4:
		return hk.Pick(rng, fixedStrings) + hk.Pick(rng, fixedStrings)
	case 5: // random bytes
		return string(rng.Bytes(rng.Range(1, 12)))
	case 6: // random printable ASCII incl. reserved
		n := rng.Range(1, 16)
		b := make([]byte, n)
		for i := range b {
			b[i] = byte(rng.Range(0x20, 0x7e))
		}
		return string(b)
	case 7: // plain word
		n := rng.Range(1, 8)
		b := make([]byte, n)
		for i := range b {
			b[i] = "abcdefghijklmnopqrstuvwxyzABCXYZ0189-_.~"[rng.Intn(40)]
		}
		return string(b)
	case 8: // long
		return strings.Repeat(hk.Pick(rng, fixedStrings), rng.Range(2, 40))
	default:
		return string([]byte{byte(rng.Intn(256))})
	}
}

func (g *gen) key() string {
	if g.rng.Chance(60) {
		return hk.Pick(g.rng, []string{"a", "b", "c", "k", "name", "z", "A", "", "k[]", "a b", "é", "a&b", "x=y"})
	}
	return g.str()
}

// form: a map with distinct keys (n entries), each 0..3 values.
func (g *gen) form(n int) []kvs {
	seen := map[string]bool{}
	var f []kvs
	for len(f) < n {
		k := g.key()
		if seen[k] {
			k = g.str()
			if seen[k] {
				continue
			}
		}
		seen[k] = true
		nv := 1
		switch g.rng.Intn(8) {
		case 0:
			nv = 2
		case 1:
			nv = 3
		case 2:
			nv = g.rng.Range(1, 5)
		}
		e := kvs{K: k, Vs: []string{}}
		for i := 0; i < nv; i++ {
			if g.rng.Chance(12) && i > 0 {
				e.Vs = append(e.Vs, e.Vs[i-1]) // repeated value
			} else {
				e.Vs = append(e.Vs, g.str())
			}
		}
		f = append(f, e)
	}
	return f
}

func needsEscape(s string) bool {
	for i := 0; i < len(s); i++ {
		c := s[i]
		if !('a' <= c && c <= 'z' || 'A' <= c && c <= 'Z' || '0' <= c && c <= '9' || c == '-' || c == '_' || c == '.' || c == '~') {
			return true
		}
	}
	return false
}
