package main

import (
	"bytes"
	"encoding/json"
	"encoding/xml"
	"fmt"
	"mime"
	"reflect"
	"strings"

	"github.com/imroc/req/v3/verifharness/hk"
)

// ---- values to marshal ----

type inner struct {
	A string  `json:"a" xml:"a"`
	B []int   `json:"b" xml:"b"`
	C float64 `json:"c" xml:"c,attr"`
}
type doc struct {
	XMLName xml.Name `json:"-" xml:"doc"`
	Name    string   `json:"name" xml:"name"`
	N       int      `json:"n" xml:"n"`
	Flag    bool     `json:"flag" xml:"flag,attr"`
	Tags    []string `json:"tags" xml:"tags>tag"`
	In      inner    `json:"in" xml:"in"`
	P       *inner   `json:"p,omitempty" xml:"p,omitempty"`
}

type mval struct {
	v   interface{}
	xml bool // encoding/xml can marshal it
	new func() interface{}
}

var marshalValues = map[string]mval{
	"doc":    {v: &doc{Name: "Ünï <c&d> \"q\"", N: -7, Flag: true, Tags: []string{"a", "", "b c"}, In: inner{A: "x\ty", B: []int{1, 2, 3}, C: 1.5}}, xml: true, new: func() interface{} { return &doc{} }},
	"docp":   {v: &doc{Name: "", N: 1 << 40, Tags: []string{"t"}, In: inner{A: "é中😀", B: []int{0}}, P: &inner{A: "p", B: []int{4}, C: -0.25}}, xml: true, new: func() interface{} { return &doc{} }},
	"struct": {v: doc{Name: "by value", Tags: []string{"only"}}, xml: true, new: func() interface{} { return &doc{} }},
	"map":    {v: map[string]interface{}{"k": "v", "n": 3.0, "nested": map[string]interface{}{"x": []interface{}{1.0, "two", nil, true}}}, xml: false, new: func() interface{} { return &map[string]interface{}{} }},
	"slice":  {v: []inner{{A: "1"}, {A: "2", B: []int{9}}}, xml: false, new: func() interface{} { return &[]inner{} }},
	"array":  {v: [2]string{"x", "y<z>"}, xml: false, new: func() interface{} { return &[2]string{} }},
}

// seenMarshal: which reference marshalling the arrived body is, decided by decoding it with the
// stdlib decoder and comparing with the value supplied.
func seenMarshal(name string, body []byte) string {
	mv := marshalValues[name]
	want := reflect.Indirect(reflect.ValueOf(mv.v)).Interface()
	j := mv.new()
	if json.Unmarshal(body, j) == nil && reflect.DeepEqual(normalize(reflect.Indirect(reflect.ValueOf(j)).Interface()), normalize(want)) {
		return "json"
	}
	if mv.xml {
		x := mv.new()
		if xml.Unmarshal(body, x) == nil && reflect.DeepEqual(normalize(reflect.Indirect(reflect.ValueOf(x)).Interface()), normalize(want)) {
			return "xml"
		}
	}
	return ""
}

// normalize: nil and empty slices are the same thing to both encodings
func normalize(v interface{}) interface{} {
	b, _ := json.Marshal(v)
	var o interface{}
	json.Unmarshal(b, &o)
	return o
}

// ---- one exchange ----

func (g *gen) oneBody(in reqIn) {
	r := g.r
	s := g.send(in)
	if in.Rerun != "" && !strings.HasPrefix(s.Err, "harness:") {
		// the exchange is sent twice (retry after a 503 / digest re-send after a 401): both attempts must
		// carry what the caller supplied; each is judged and emitted like a single exchange
		unrewindable := false
		for _, f := range in.Files {
			unrewindable = unrewindable || f.Kind == "reader"
		}
		if unrewindable && s.Err != "" {
			// a file given as a plain io.Reader cannot be uploaded a second time: the library refuses the
			// second attempt with an error instead of sending an empty file - the right answer
			r.Count("rerun:" + in.Rerun + ":unrewindable-reader-refused")
			r.Add(hk.Case{Desc: map[string]interface{}{"kind": in.Kind, "in": in}}, in.key(), true)
			return
		}
		if s.First == nil || s.Arrived == nil {
			r.Fail(hk.Failure{Sig: "rerun:" + in.Rerun + ":not-resent:" + in.Kind, What: "the request was not sent twice: " + s.Err, Input: in})
			return
		}
		ups := splitUploads(in, s.Ups)
		for i, a := range []*arrived{s.First, s.Arrived} {
			n0 := len(r.Failures)
			one := in
			// the upload callbacks of this attempt: every attempt uploads the files anew, from zero
			g.judge(one, sentReq{Err: s.Err, Arrived: a, Ups: ups[i]}, fmt.Sprintf("|attempt%d", i+1))
			for j := n0; j < len(r.Failures); j++ {
				r.Failures[j].Sig = fmt.Sprintf("rerun:%s:attempt%d:%s", in.Rerun, i+1, r.Failures[j].Sig)
			}
		}
		return
	}
	g.judge(in, s, "")
}

// judge: oracle + Coq case for one arrived request.
func (g *gen) judge(in reqIn, s sentReq, keySuffix string) {
	r := g.r
	if strings.HasPrefix(s.Err, "harness:") {
		r.Fail(hk.Failure{Sig: "harness:" + in.Kind, What: s.Err, Input: in})
		return
	}
	a := s.Arrived
	var parts []seenPart
	var perr error
	partsOK, orderOK := false, false
	marshalSeen := ""
	nt := true
	switch {
	case forbidden(in):
		// methods that must not carry a payload send none
		if s.Err != "" || a == nil {
			r.Fail(hk.Failure{Sig: "forbidden:error", What: "request with a payload-forbidden method failed: " + s.Err, Input: in})
		} else if len(a.Body) != 0 || len(a.TE) != 0 || a.CL > 0 {
			r.Fail(hk.Failure{Sig: "forbidden:payload-sent:" + in.Method + ":" + in.Kind, What: "a method that must not carry a payload sent one", Input: in, Got: fmt.Sprintf("%d body bytes, Content-Length %d, Transfer-Encoding %v", len(a.Body), a.CL, a.TE)})
		}
	case in.multipart():
		if a != nil && s.Err == "" {
			_, parts, perr = serverParts(a)
		}
		if in.SetFiles && perr == nil && a != nil && s.Err == "" {
			// SetFiles attaches the files in map iteration order: take the order in which they arrived
			// (every supplied file exactly once), then judge as usual
			in = reorderFiles(in, parts)
			r.Count("multipart:SetFiles")
		}
		g.oracleMultipart(in, s, parts, perr)
		g.oracleUploads(in, s)
		orderOK = perr == nil && a != nil && s.Err == "" && len(parts) > 0
		partsOK = orderOK
		if in.Chunked || in.Callback != "" {
			// unknown length: chunked on HTTP/1.1, no content-length on h2 / h3 (DATA frames until END_STREAM / FIN)
			if a != nil && s.Err == "" {
				ok := len(a.TE) == 1 && a.TE[0] == "chunked"
				if in.Proto != "" {
					ok = a.CL == -1
				}
				if !ok {
					r.Fail(hk.Failure{Sig: "multipart:not-chunked", What: "forced chunked encoding (unknown length) was not used", Input: in, Got: fmt.Sprint(a.TE, a.CL)})
				}
			}
		}
	case in.Kind == "form":
		g.oracleForm(formIn{Method: in.Method, RForm: in.RForm, CForm: in.CForm, Ordered: in.Ordered, RCT: in.RCT, CCT: in.CCT}, sent{Err: s.Err, Arrived: a})
	case in.Kind == "marshal":
		if s.Err != "" || a == nil {
			r.Fail(hk.Failure{Sig: "marshal:error", What: "request with a marshalled body failed: " + s.Err, Input: in})
			break
		}
		marshalSeen = seenMarshal(in.Marshal, a.Body)
		ct := a.Header.Get("Content-Type")
		mt, _, _ := mime.ParseMediaType(ct)
		switch marshalSeen {
		case "":
			// with a preset XML content type and a value encoding/xml cannot marshal the client fails earlier; anything else is a loss
			r.Fail(hk.Failure{Sig: "marshal:lost:" + in.Marshal, What: "the body that arrived does not decode (json / xml) to the value supplied", Input: in, Got: string(a.Body)})
		case "json":
			preset := in.RCT != "" || in.CCT != ""
			if !preset && mt != "application/json" {
				r.Fail(hk.Failure{Sig: "marshal:content-type", What: "JSON body under a Content-Type that is not JSON although the caller set none", Input: in, Got: ct})
			}
			if preset && strings.Contains(ct, "xml") {
				r.Fail(hk.Failure{Sig: "marshal:content-type", What: "JSON body under an XML Content-Type", Input: in, Got: ct})
			}
		case "xml":
			if !strings.Contains(ct, "xml") {
				r.Fail(hk.Failure{Sig: "marshal:content-type", What: "XML body under a Content-Type that does not say xml", Input: in, Got: ct})
			}
		}
	case in.Kind == "raw" && in.Stream:
		if s.Err != "" || a == nil {
			r.Fail(hk.Failure{Sig: "stream:error", What: "request with an io.Reader body failed: " + s.Err, Input: in})
		} else if !bytes.Equal(a.Body, in.Raw) {
			r.Fail(hk.Failure{Sig: "stream:bytes", What: "io.Reader body arrived altered", Input: in, Got: len(a.Body), Want: len(in.Raw)})
		} else if len(s.Ups) > 0 {
			for _, u := range s.Ups {
				if u.Up > int64(len(in.Raw)) {
					r.Fail(hk.Failure{Sig: "stream:upload-progress:exceeds", What: "upload callback reported more than was sent", Input: in, Got: u.Up})
				}
			}
		}
	case in.Kind == "raw":
		if s.Err != "" || a == nil {
			r.Fail(hk.Failure{Sig: "raw:error", What: "request with a raw body failed: " + s.Err, Input: in})
		} else if !bytes.Equal(a.Body, in.Raw) {
			r.Fail(hk.Failure{Sig: "raw:bytes", What: "raw body arrived altered", Input: in, Got: len(a.Body), Want: len(in.Raw)})
		}
	}
	if a != nil && s.Err == "" {
		want := map[string]string{"": "HTTP/1.1", "h2": "HTTP/2.0", "h3": "HTTP/3.0"}[in.Proto]
		if a.Proto != want {
			r.Fail(hk.Failure{Sig: "harness:proto", What: "the exchange did not use the intended protocol", Input: in, Got: a.Proto, Want: want})
		}
	}
	if s.InnerErr != "" {
		r.Fail(hk.Failure{Sig: "nested:inner-upload", What: "an upload made between this request's set-up and its write did not arrive as supplied: " + s.InnerErr, Input: in})
	}
	g.emitBody(in, s, parts, orderOK, partsOK, marshalSeen, nt, keySuffix)
	g.emitUploads(in, s)
}

// emitUploads: the callback stream of every file whose write sizes are determined by the input.
func (g *gen) emitUploads(in reqIn, s sentReq) {
	if in.Callback == "" || s.Err != "" || in.failing() || forbidden(in) || len(in.Ordered)%2 != 0 {
		return
	}
	names := map[string]int{}
	for _, f := range in.Files {
		names[f.Param+"\x00"+f.Name]++
	}
	for _, f := range in.Files {
		if names[f.Param+"\x00"+f.Name] > 1 {
			continue
		}
		var obs []int64
		for _, u := range s.Ups {
			if u.Param == f.Param && u.Name == f.Name {
				obs = append(obs, u.Up)
			}
		}
		ns := writeSizes(f)
		decl := f.Decl
		if f.Kind == "path" {
			decl = int64(len(f.Content))
		} else if f.Kind != "upload" {
			decl = 0
		}
		var coq string
		switch in.Callback {
		case "0", "1h":
			iv := int64(0)
			if in.Callback == "1h" {
				iv = 3600e9
			}
			var evs []string
			for _, n := range ns {
				evs = append(evs, hk.CoqPair(hk.CoqZ(int64(n)), "0%Z"))
			}
			coq = fmt.Sprintf("WriterCase %s %s 0%%Z %s %s", hk.CoqZ(decl), hk.CoqZ(iv), hk.CoqList(evs), coqZs(obs))
		default:
			var zs []string
			for _, n := range ns {
				zs = append(zs, hk.CoqZ(int64(n)))
			}
			coq = fmt.Sprintf("WriterAnyClock %s %s %s", hk.CoqZ(decl), hk.CoqList(zs), coqZs(obs))
		}
		g.r.Count("upload-callback:" + in.Callback + ":" + f.Kind)
		g.r.Add(hk.Case{Coq: coq, Desc: map[string]interface{}{"kind": "upload-callback", "in": in, "file": f.Name, "reports": obs}},
			"up|"+in.key()+"|"+f.Name, len(ns) > 1)
	}
}

func coqZs(xs []int64) string {
	o := make([]string, len(xs))
	for i, x := range xs {
		o[i] = hk.CoqZ(x)
	}
	return hk.CoqList(o)
}

// writeSizes: the sizes of the Write calls writeMultipartFormFile makes for this file: the first
// Read into the 512-byte buffer, then io.Copy (32 KiB buffer; bytes.Reader writes the rest at once).
func writeSizes(f fileIn) []int {
	total := len(f.Content)
	first := firstRead(f)
	ns := []int{first}
	rem := total - first
	switch f.Kind {
	case "bytes", "seek":
		if f.Kind == "seek" && f.Seeker == "section" {
			// io.SectionReader has no WriteTo: io.Copy moves it through its 32 KiB buffer
			for rem > 0 {
				n := 32768
				if rem < n {
					n = rem
				}
				ns = append(ns, n)
				rem -= n
			}
			return ns
		}
		if first == total {
			// Read returned (n, nil); io.Copy then finds EOF
			return ns
		}
		return append(ns, rem)
	case "path":
		for rem > 0 {
			n := 32768
			if rem < n {
				n = rem
			}
			ns = append(ns, n)
			rem -= n
		}
		return ns
	default:
		i := 1
		for rem > 0 {
			n := 32768
			if len(f.Sizes) > 0 {
				k := f.Sizes[len(f.Sizes)-1]
				if i < len(f.Sizes) {
					k = f.Sizes[i]
				}
				if k < n {
					n = k
				}
			}
			i++
			if rem < n {
				n = rem
			}
			ns = append(ns, n)
			rem -= n
		}
		return ns
	}
}

// reorderFiles: in.Files in the order in which their form names arrived (SetFiles: params are map keys, distinct).
func reorderFiles(in reqIn, parts []seenPart) reqIn {
	by := map[string]fileIn{}
	for _, f := range in.Files {
		by[f.Param] = f
	}
	var out []fileIn
	seen := map[string]bool{}
	for _, p := range parts {
		if !p.HasFileName {
			continue
		}
		if f, ok := by[p.Name]; ok && !seen[p.Name] {
			seen[p.Name] = true
			out = append(out, f)
		}
	}
	if len(out) != len(in.Files) {
		return in // something is missing: judged (and reported) in the supplied order
	}
	in.Files = out
	return in
}

// splitUploads: the upload reports of the first and of the second attempt.  A retry is told apart by
// Request.RetryAttempt; a digest re-send (same RetryAttempt) starts where a file that has already
// reported is reported again with a count that is not larger.
func splitUploads(in reqIn, ups []upInfo) [2][]upInfo {
	var out [2][]upInfo
	if in.Rerun == "retry" {
		for _, u := range ups {
			k := u.Attempt
			if k > 1 {
				k = 1
			}
			out[k] = append(out[k], u)
		}
		return out
	}
	last := map[string]int64{}
	cut := len(ups)
	for i, u := range ups {
		k := u.Param + "\x00" + u.Name
		if v, ok := last[k]; ok && u.Up <= v {
			cut = i
			break
		}
		last[k] = u.Up
	}
	out[0], out[1] = ups[:cut], ups[cut:]
	return out
}
