package main

import (
	"bytes"
	"errors"
	"fmt"
	"io"
	"mime"
	"mime/multipart"
	"net/http"
	"os"
	"path/filepath"
	"sort"
	"strconv"
	"strings"
	"sync"
	"time"
	"unicode/utf8"

	"github.com/imroc/req/v3"
	"github.com/imroc/req/v3/verifharness/hk"
)

// fileIn: one upload as the caller describes it.
type fileIn struct {
	Param   string      `json:"param"`
	Name    string      `json:"name"`
	CT      string      `json:"content_type"`              // "" = let the library sniff
	Kind    string      `json:"kind"`                      // path | bytes | reader | upload | seek
	Prefix  int         `json:"consumed_prefix,omitempty"` // seek: bytes of the seekable reader the caller has read before handing it over
	Seeker  string      `json:"seeker,omitempty"`          // seek: bytes | strings | section
	Content []byte      `json:"-"`
	Desc    string      `json:"content"`                 // description of Content
	Sizes   []int       `json:"read_sizes,omitempty"`    // reader/upload: the i-th Read returns at most Sizes[i] bytes (last repeats)
	EOFWith bool        `json:"eof_with_data,omitempty"` // reader returns io.EOF together with the last bytes
	Fail    string      `json:"fail,omitempty"`          // "" | open | read0 | readmid
	Decl    int64       `json:"declared_size"`           // FileUpload.FileSize
	Extra   [][2]string `json:"extra,omitempty"`
}

type reqIn struct {
	Kind           string   `json:"kind"` // form | multipart | marshal | raw
	Method         string   `json:"method"`
	AllowGet       bool     `json:"allow_get_payload"`
	RForm          []kvs    `json:"request_form,omitempty"`
	CForm          []kvs    `json:"client_form,omitempty"`
	Ordered        []string `json:"ordered,omitempty"`
	Files          []fileIn `json:"files,omitempty"`
	ForceMultipart bool     `json:"force_multipart,omitempty"`
	Chunked        bool     `json:"force_chunked,omitempty"`
	Boundary       string   `json:"boundary,omitempty"`
	RCT            string   `json:"request_content_type,omitempty"`
	CCT            string   `json:"client_content_type,omitempty"`
	Marshal        string   `json:"marshal,omitempty"` // name of a value in marshalValues
	Raw            []byte   `json:"raw,omitempty"`
	RawSet         bool     `json:"raw_set,omitempty"`
	Callback       string   `json:"upload_callback,omitempty"` // "" | 0 | 1ms | 1h
	Rerun          string   `json:"rerun,omitempty"`           // "" | retry (first attempt answered 503) | digest (first attempt answered 401)
	Proto          string   `json:"proto,omitempty"`           // "" = HTTP/1.1 | h2 | h3
	SetFiles       bool     `json:"set_files,omitempty"`       // the (path) files are given as one SetFiles map
	Stream         bool     `json:"stream,omitempty"`          // Raw is handed over as SetBody(io.Reader)
	StreamSizes    []int    `json:"stream_read_sizes,omitempty"`
	Nested         int      `json:"nested_uploads,omitempty"` // buffered multipart uploads a round-trip wrapper makes between this request's set-up and its write
}

func (in reqIn) key() string {
	var sb strings.Builder
	fmt.Fprintf(&sb, "%d|%s|%v|%v|%v|%s|%s|%s|%v|%q|%q|%q|%v|%v|%q|%q|%q|%s|%x|%v|%s", in.Nested, in.Proto, in.SetFiles, in.Stream, in.StreamSizes, in.Rerun, in.Kind, in.Method, in.AllowGet, fmt.Sprint(in.RForm), fmt.Sprint(in.CForm),
		in.Ordered, in.ForceMultipart, in.Chunked, in.Boundary, in.RCT, in.CCT, in.Marshal, in.Raw, in.RawSet, in.Callback)
	for _, f := range in.Files {
		fmt.Fprintf(&sb, "|%q %q %q %s %d %s %v %v %s %d %v %d %s", f.Param, f.Name, f.CT, f.Kind, len(f.Content), f.Desc, f.Sizes, f.EOFWith, f.Fail, f.Decl, f.Extra, f.Prefix, f.Seeker)
	}
	return sb.String()
}

func (in reqIn) multipart() bool { return len(in.Files) > 0 || in.ForceMultipart }

// scriptReader: io.Reader (no WriterTo, no Seeker) whose i-th Read returns at most sizes[i] bytes.
type scriptReader struct {
	data    []byte
	sizes   []int
	i       int
	eofWith bool
	failAt  int // -1 = never; otherwise return an error once this many bytes were delivered
	off     int
}

var errInjected = errors.New("injected read error")

func (s *scriptReader) Read(p []byte) (int, error) {
	if s.failAt >= 0 && s.off >= s.failAt {
		return 0, errInjected
	}
	if s.off >= len(s.data) {
		return 0, io.EOF
	}
	n := len(p)
	if len(s.sizes) > 0 {
		k := s.sizes[len(s.sizes)-1]
		if s.i < len(s.sizes) {
			k = s.sizes[s.i]
		}
		s.i++
		if k < n {
			n = k
		}
	}
	if rem := len(s.data) - s.off; rem < n {
		n = rem
	}
	if s.failAt >= 0 && s.off+n > s.failAt {
		n = s.failAt - s.off
	}
	copy(p, s.data[s.off:s.off+n])
	s.off += n
	if s.eofWith && s.off >= len(s.data) {
		return n, io.EOF
	}
	return n, nil
}

type upInfo struct {
	Param, Name string
	Size, Up    int64
	Attempt     int // Request.RetryAttempt when the callback ran
}

type sentReq struct {
	Err      string
	Arrived  *arrived // the last attempt
	First    *arrived // the first attempt when the exchange was scripted to be sent twice
	InnerErr string   // an upload made by the round-trip wrapper did not arrive as supplied
	Ups      []upInfo
}

var intervals = map[string]time.Duration{"0": 0, "1ms": time.Millisecond, "1h": time.Hour}

// send builds client and request through the public API exactly as a caller would and fires it.
func (g *gen) send(in reqIn) sentReq {
	c := req.C()
	defer c.GetTransport().CloseIdleConnections()
	switch in.Proto {
	case "h2":
		c.EnableInsecureSkipVerify().EnableForceHTTP2()
	case "h3":
		c.EnableInsecureSkipVerify().EnableForceHTTP3()
	}
	if in.Rerun == "digest" {
		c.SetCommonDigestAuth("user", "secret")
	}
	if in.AllowGet {
		c.EnableAllowGetMethodPayload()
	} else {
		c.DisableAllowGetMethodPayload()
	}
	if len(in.CForm) > 0 {
		c.SetCommonFormDataFromValues(valuesOfForm(in.CForm))
	}
	if in.CCT != "" {
		c.SetCommonContentType(in.CCT)
	}
	if in.Boundary != "" {
		b := in.Boundary
		c.SetMultipartBoundaryFunc(func() string { return b })
	}
	rq := c.R()
	if in.Rerun == "retry" {
		rq.SetRetryCount(1).SetRetryFixedInterval(0).SetRetryCondition(func(resp *req.Response, err error) bool {
			return err == nil && resp.StatusCode == 503
		})
	}
	if len(in.RForm) > 0 {
		rq.SetFormDataFromValues(valuesOfForm(in.RForm))
	}
	if len(in.Ordered) > 0 {
		rq.SetOrderedFormData(in.Ordered...)
	}
	if in.RCT != "" {
		rq.SetContentType(in.RCT)
	}
	if in.Marshal != "" {
		rq.SetBody(marshalValues[in.Marshal].v)
	}
	if in.RawSet && in.Stream {
		rq.SetBody(&scriptReader{data: in.Raw, sizes: in.StreamSizes, failAt: -1})
	} else if in.RawSet {
		rq.SetBodyBytes(in.Raw)
	}
	setFiles := map[string]string{}
	for i := range in.Files {
		f := in.Files[i]
		switch f.Kind {
		case "path":
			if in.SetFiles {
				dir := filepath.Join(g.r.OutDir, "files", strconv.Itoa(g.n), strconv.Itoa(i))
				os.MkdirAll(dir, 0o755)
				p := filepath.Join(dir, f.Name)
				if err := os.WriteFile(p, f.Content, 0o644); err != nil {
					return sentReq{Err: "harness: " + err.Error()}
				}
				setFiles[f.Param] = p
				continue
			}
			dir := filepath.Join(g.r.OutDir, "files", strconv.Itoa(g.n), strconv.Itoa(i))
			os.MkdirAll(dir, 0o755)
			p := filepath.Join(dir, f.Name)
			if err := os.WriteFile(p, f.Content, 0o644); err != nil {
				return sentReq{Err: "harness: " + err.Error()}
			}
			rq.SetFile(f.Param, p)
		case "bytes":
			rq.SetFileBytes(f.Param, f.Name, f.Content)
		case "seek":
			// a seekable reader the caller has already read a prefix of: what is supplied is the rest
			all := append(bytes.Repeat([]byte("#consumed#"), f.Prefix/10+1)[:f.Prefix:f.Prefix], f.Content...)
			var rd io.ReadSeeker
			switch f.Seeker {
			case "strings":
				rd = strings.NewReader(string(all))
			case "section":
				rd = io.NewSectionReader(bytes.NewReader(all), 0, int64(len(all)))
			default:
				rd = bytes.NewReader(all)
			}
			io.CopyN(io.Discard, rd, int64(f.Prefix))
			rq.SetFileReader(f.Param, f.Name, rd)
		case "reader":
			rq.SetFileReader(f.Param, f.Name, &scriptReader{data: f.Content, sizes: f.Sizes, eofWith: f.EOFWith, failAt: -1})
		default: // upload: fully customised FileUpload
			up := req.FileUpload{ParamName: f.Param, FileName: f.Name, ContentType: f.CT, FileSize: f.Decl}
			if len(f.Extra) > 0 {
				cd := new(req.ContentDisposition)
				for _, kv := range f.Extra {
					cd.Add(kv[0], kv[1])
				}
				up.ExtraContentDisposition = cd
			}
			ff := f
			up.GetFileContent = func() (io.ReadCloser, error) {
				if ff.Fail == "open" {
					return nil, errors.New("injected open error")
				}
				sr := &scriptReader{data: ff.Content, sizes: ff.Sizes, eofWith: ff.EOFWith, failAt: -1}
				switch ff.Fail {
				case "read0":
					sr.failAt = 0
				case "readmid":
					sr.failAt = len(ff.Content) / 2
				}
				return io.NopCloser(sr), nil
			}
			rq.SetFileUpload(up)
		}
	}
	if in.SetFiles {
		rq.SetFiles(setFiles)
	}
	if in.ForceMultipart {
		rq.EnableForceMultipart()
	}
	var out sentReq
	var mu sync.Mutex
	if in.Nested > 0 {
		// a round-trip wrapper that uploads something of its own before it lets the request through: the
		// outer request's body has been set up by then and has not been written yet
		k := in.Nested
		c.WrapRoundTripFunc(func(rt req.RoundTripper) req.RoundTripFunc {
			return func(r *req.Request) (*req.Response, error) {
				if r == rq {
					for j := 0; j < k; j++ {
						if msg := g.innerUpload(c, j); msg != "" {
							mu.Lock()
							out.InnerErr = msg
							mu.Unlock()
						}
					}
				}
				return rt.RoundTrip(r)
			}
		})
	}
	if in.Callback != "" {
		rq.SetUploadCallbackWithInterval(func(info req.UploadInfo) {
			mu.Lock()
			out.Ups = append(out.Ups, upInfo{info.ParamName, info.FileName, info.FileSize, info.UploadedSize, rq.RetryAttempt})
			mu.Unlock()
		}, intervals[in.Callback])
	}
	if in.Chunked {
		rq.EnableForceChunkedEncoding()
	}
	x := g.nextX()
	done := make(chan struct{})
	go func() {
		defer close(done)
		defer func() {
			if p := recover(); p != nil {
				out.Err = fmt.Sprint("panic: ", p)
			}
		}()
		u := g.o.urlFor(in.Proto, x)
		switch in.Rerun {
		case "retry":
			u += "&first=503"
		case "digest":
			u += "&first=401"
		}
		resp, err := rq.Send(in.Method, u)
		if err == nil && resp.Err == nil && in.Rerun != "" && resp.StatusCode != 200 {
			out.Err = fmt.Sprintf("final status %d", resp.StatusCode)
		}
		if err != nil {
			out.Err = err.Error()
		} else if resp.Err != nil {
			out.Err = resp.Err.Error()
		}
	}()
	select {
	case <-done:
	case <-time.After(60 * time.Second):
		return sentReq{Err: "harness: watchdog (60 s)"}
	}
	out.Arrived = g.o.take(x)
	out.First = g.o.take(x + "#1")
	mu.Lock()
	defer mu.Unlock()
	return out
}

// ---- the server side: stdlib parsers on what arrived ----

type seenPart struct {
	Name, FileName       string // Part.FormName(), Part.FileName()
	HasName, HasFileName bool
	RawFileName          string // the filename parameter as mime.ParseMediaType returns it
	CT                   string
	HasCT                bool
	Body                 []byte
}

func serverParts(a *arrived) (string, []seenPart, error) {
	mt, params, err := mime.ParseMediaType(a.Header.Get("Content-Type"))
	if err != nil {
		return "", nil, fmt.Errorf("request Content-Type: %v", err)
	}
	if mt != "multipart/form-data" {
		return "", nil, fmt.Errorf("request Content-Type is %q", mt)
	}
	b := params["boundary"]
	mr := multipart.NewReader(bytes.NewReader(a.Body), b)
	var ps []seenPart
	for {
		p, err := mr.NextPart()
		if err == io.EOF {
			break
		}
		if err != nil {
			return b, ps, err
		}
		body, err := io.ReadAll(p)
		if err != nil {
			return b, ps, err
		}
		sp := seenPart{Name: p.FormName(), FileName: p.FileName(), Body: body}
		if _, cdp, err := mime.ParseMediaType(p.Header.Get("Content-Disposition")); err == nil {
			_, sp.HasName = cdp["name"]
			sp.RawFileName, sp.HasFileName = cdp["filename"]
		} else {
			return b, ps, fmt.Errorf("part Content-Disposition: %v", err)
		}
		if v, ok := p.Header["Content-Type"]; ok && len(v) > 0 {
			sp.CT, sp.HasCT = v[0], true
		}
		ps = append(ps, sp)
	}
	// the convenience API a handler would normally use must accept the body as well
	hr, _ := http.NewRequest("POST", "http://origin/", bytes.NewReader(a.Body))
	hr.Header = a.Header.Clone()
	if err := hr.ParseMultipartForm(64 << 20); err != nil {
		return b, ps, fmt.Errorf("ParseMultipartForm: %v", err)
	}
	return b, ps, nil
}

// fieldNameBad: a byte net/textproto refuses in a header value (control bytes except TAB)
func fieldNameBad(s string) bool {
	for i := 0; i < len(s); i++ {
		if (s[i] < 0x20 && s[i] != '\t') || s[i] == 0x7f {
			return true
		}
	}
	return false
}

func hasCtl(s string) bool {
	for i := 0; i < len(s); i++ {
		if s[i] < 0x20 || s[i] == 0x7f {
			return true
		}
	}
	return false
}

// quoteModelled: strconv.Quote passes every non-ASCII rune of s through unchanged (valid UTF-8, printable)
func quoteModelled(s string) bool {
	for i := 0; i < len(s); {
		r, w := utf8.DecodeRuneInString(s[i:])
		if r >= 0x80 && !strconv.IsPrint(r) {
			return false
		}
		if r == utf8.RuneError && w == 1 {
			return false
		}
		i += w
	}
	return true
}

func (in reqIn) allFields() [][2]string {
	var fs [][2]string
	for i := 0; i+1 < len(in.Ordered); i += 2 {
		fs = append(fs, [2]string{in.Ordered[i], in.Ordered[i+1]})
	}
	for _, f := range [][]kvs{in.RForm, in.CForm} {
		for _, e := range f {
			for _, v := range e.Vs {
				fs = append(fs, [2]string{e.K, v})
			}
		}
	}
	return fs
}

func forbidden(in reqIn) bool {
	// from the property text: GET (unless the caller allowed a payload), HEAD, OPTIONS carry none
	return in.Method == "HEAD" || in.Method == "OPTIONS" || (in.Method == "GET" && !in.AllowGet)
}

func (in reqIn) failing() bool {
	for _, f := range in.Files {
		if f.Fail != "" {
			return true
		}
	}
	return false
}

// oracleMultipart decides the property for a multipart request from what arrived.
func (g *gen) oracleMultipart(in reqIn, s sentReq, parts []seenPart, perr error) {
	r := g.r
	fail := func(sig, what string, got, want interface{}) {
		r.Fail(hk.Failure{Sig: sig, What: what, Input: in, Got: got, Want: want})
	}
	if len(in.Ordered)%2 != 0 {
		if s.Err == "" {
			g.oddOrderedSilent++
		}
		return
	}
	for _, f := range in.allFields() {
		if fieldNameBad(f[0]) {
			// a field name no part header can carry (control byte other than TAB): the request must not
			// go out as if all was well; refusing it is the answer
			if s.Err == "" {
				fail("multipart:bad-field-name-sent", "a form field name with a control byte was sent (the server cannot read the part headers) and success reported", describeParts(parts), "an error")
			}
			return
		}
	}
	if in.failing() {
		// a file that cannot be opened or read: the caller must learn about it
		if s.Err == "" {
			fail("multipart:file-error-swallowed:"+failKinds(in), "a file whose content cannot be opened/read is silently dropped or truncated: the request reports success", describeParts(parts), "an error")
		}
		return
	}
	if s.Err != "" || s.Arrived == nil {
		fail("multipart:error", "a well-formed multipart request failed: "+s.Err, s.Err, nil)
		return
	}
	ctlField, ctlFile := false, false
	for _, f := range in.Files {
		ctlFile = ctlFile || hasCtl(f.Param) || hasCtl(f.Name) || !quoteModelled(f.Param) || !quoteModelled(f.Name)
	}
	guardClass := ""
	if ctlField {
		guardClass = "field-name-ctl"
	} else if ctlFile {
		guardClass = "file-name-ctl"
	}
	if perr != nil {
		if guardClass != "" {
			fail("multipart:structure:"+guardClass, "a name containing control bytes changes the part structure: the server-side parser rejects the body ("+perr.Error()+")", perr.Error(), nil)
		} else {
			fail("multipart:unparseable", "the server-side multipart parser rejects the body: "+perr.Error(), perr.Error(), nil)
		}
		return
	}
	fields := in.allFields()
	if len(parts) != len(fields)+len(in.Files) {
		sig := "multipart:lost:" + lostShape(in)
		if guardClass != "" {
			sig = "multipart:structure:" + guardClass
		}
		fail(sig, "the number of parts that arrived differs from the number of fields and files supplied", describeParts(parts), fmt.Sprintf("%d fields + %d files", len(fields), len(in.Files)))
		return
	}
	// files: in order, after or between fields; fields: as a multimap, ordered pairs in order
	var gotFiles, gotFields []seenPart
	for _, p := range parts {
		if p.HasFileName {
			gotFiles = append(gotFiles, p)
		} else {
			gotFields = append(gotFields, p)
		}
	}
	if len(gotFiles) != len(in.Files) {
		sig := "multipart:lost:" + lostShape(in)
		if guardClass != "" {
			sig = "multipart:structure:" + guardClass
		}
		fail(sig, "the number of file parts differs from the number of files supplied", describeParts(parts), len(in.Files))
		return
	}
	for i, f := range in.Files {
		p := gotFiles[i]
		if !bytes.Equal(p.Body, f.Content) {
			fail("multipart:file-bytes", fmt.Sprintf("file %d arrived with different bytes (%d vs %d supplied)", i, len(p.Body), len(f.Content)), len(p.Body), len(f.Content))
			return
		}
		if f.CT != "" && strings.TrimSpace(f.CT) != "" && (!p.HasCT || p.CT != f.CT) {
			fail("multipart:file-content-type", fmt.Sprintf("file %d arrived under a content type other than the one supplied", i), p.CT, f.CT)
			return
		}
		if guardClass != "file-name-ctl" || (!hasCtl(f.Param) && quoteModelled(f.Param)) {
			if p.Name != f.Param {
				fail("multipart:file-param", fmt.Sprintf("file %d arrived under a different form name", i), p.Name, f.Param)
				return
			}
		}
		if !hasCtl(f.Name) && quoteModelled(f.Name) {
			if p.RawFileName != f.Name || p.FileName != filepath.Base(f.Name) {
				fail("multipart:file-name", fmt.Sprintf("file %d arrived under a different file name", i), p.RawFileName, f.Name)
				return
			}
		} else {
			g.alteredNames++
		}
	}
	if ctlField {
		return // field names with control bytes: structure intact is all that is asked
	}
	want := map[string][]string{}
	for _, f := range fields {
		want[f[0]] = append(want[f[0]], f[1])
	}
	got := map[string][]string{}
	for _, p := range gotFields {
		got[p.Name] = append(got[p.Name], string(p.Body))
	}
	if !sameMultimap(got, want) {
		fail("multipart:lost:"+lostShape(in), "the form fields that arrived differ from the fields supplied (as a multimap)", formOfValues(got), formOfValues(want))
		return
	}
	j := 0
	for _, p := range gotFields {
		if j+1 < len(in.Ordered) && p.Name == in.Ordered[j] && string(p.Body) == in.Ordered[j+1] {
			j += 2
		}
	}
	if j != len(in.Ordered) {
		fail("multipart:order", "ordered form data arrived in a different order", describeParts(parts), in.Ordered)
	}
}

func failKinds(in reqIn) string {
	var ks []string
	for _, f := range in.Files {
		if f.Fail != "" {
			ks = append(ks, f.Fail)
		}
	}
	sort.Strings(ks)
	return strings.Join(ks, ",")
}

func lostShape(in reqIn) string {
	var s []string
	if len(in.Ordered) > 0 {
		s = append(s, "ordered")
	}
	if len(in.RForm) > 0 {
		s = append(s, "request")
	}
	if len(in.CForm) > 0 {
		s = append(s, "client")
	}
	if len(in.Files) > 0 {
		s = append(s, "files")
	}
	return strings.Join(s, "+")
}

func describeParts(ps []seenPart) []string {
	var o []string
	for _, p := range ps {
		o = append(o, fmt.Sprintf("name=%q filename=%q ct=%q len=%d", p.Name, p.RawFileName, p.CT, len(p.Body)))
	}
	return o
}

// oracleUploads: the upload callbacks of one request, per file.
func (g *gen) oracleUploads(in reqIn, s sentReq) {
	if in.Callback == "" || s.Err != "" || in.failing() || forbidden(in) || len(in.Ordered)%2 != 0 {
		return
	}
	by := map[string][]int64{}
	announced := map[string]int64{}
	for _, u := range s.Ups {
		k := u.Param + "\x00" + u.Name
		by[k] = append(by[k], u.Up)
		if u.Size != 0 {
			announced[k] = u.Size
		}
	}
	// a total the LIBRARY works out (file by path, positioned seekable reader ...) must be the size of the
	// content supplied - the rest of a reader from where it stood, not its whole extent; totals the caller
	// declares himself (FileUpload.FileSize) are his business
	dupKey := map[string]int{}
	for _, f := range in.Files {
		dupKey[f.Param+"\x00"+f.Name]++
	}
	for _, f := range in.Files {
		if f.Kind == "upload" || dupKey[f.Param+"\x00"+f.Name] > 1 {
			continue
		}
		if a, ok := announced[f.Param+"\x00"+f.Name]; ok && a != int64(len(f.Content)) {
			g.r.Fail(hk.Failure{Sig: "upload-progress:announced-total:" + f.Kind, What: "the total announced to the upload callback (UploadInfo.FileSize) is not the size of the content supplied", Input: in, Got: a, Want: len(f.Content)})
			return
		}
	}
	seen := map[string]bool{}
	for i, f := range in.Files {
		k := f.Param + "\x00" + f.Name
		if seen[k] {
			continue // two files under the same names cannot be told apart in the callback stream
		}
		seen[k] = true
		dup := false
		for j, f2 := range in.Files {
			if j != i && f2.Param == f.Param && f2.Name == f.Name {
				dup = true
			}
		}
		if dup {
			continue
		}
		seq := by[k]
		total := int64(len(f.Content))
		for j, v := range seq {
			if j > 0 && v < seq[j-1] {
				g.r.Fail(hk.Failure{Sig: "upload-progress:decreasing", What: "upload callback reported a smaller count than before", Input: in, Got: seq})
				return
			}
			if v > total {
				g.r.Fail(hk.Failure{Sig: "upload-progress:exceeds", What: "upload callback reported more than the file's size", Input: in, Got: seq, Want: total})
				return
			}
		}
		declared := f.Decl
		if f.Kind == "path" {
			declared = total
		}
		if declared == total && total > 0 {
			if len(seq) == 0 || seq[len(seq)-1] != total {
				g.r.Fail(hk.Failure{Sig: "upload-progress:final:" + f.Kind, What: "upload of known size: the last callback does not report the full size", Input: in, Got: seq, Want: total})
				return
			}
		}
	}
}

// innerUpload: a buffered multipart upload made from inside a round-trip wrapper; returns "" when it arrived as supplied.
func (g *gen) innerUpload(c *req.Client, j int) string {
	x := g.nextX()
	content := bytes.Repeat([]byte{byte('A' + j)}, 300+700*j)
	val := fmt.Sprintf("inner-%d-%s", j, x)
	resp, err := c.R().SetFormData(map[string]string{"inner": val}).SetFileBytes("innerfile", "inner.bin", content).Post(g.o.url(x))
	a := g.o.take(x)
	if err != nil || resp.Err != nil || a == nil {
		return fmt.Sprintf("inner upload %d failed: %v", j, err)
	}
	_, parts, perr := serverParts(a)
	okField, okFile := false, false
	for _, p := range parts { // (client-level form fields of the outer request's client come along: fine)
		if !p.HasFileName && p.Name == "inner" && string(p.Body) == val {
			okField = true
		}
		if p.HasFileName && p.Name == "innerfile" && bytes.Equal(p.Body, content) {
			okFile = true
		}
	}
	if perr != nil || !okField || !okFile {
		return fmt.Sprintf("inner upload %d arrived altered (%v, %v)", j, perr, describeParts(parts))
	}
	return ""
}
