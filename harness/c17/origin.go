package main

import (
	"bytes"
	"crypto/tls"
	"io"
	"net"
	"net/http"
	"net/http/httptest"
	"strconv"
	"sync"

	"github.com/imroc/req/v3/internal/testcert"
	qh3 "github.com/quic-go/quic-go/http3"
)

// arrived: what the origin saw for one exchange.
type arrived struct {
	Method  string
	Proto   string // HTTP/1.1, HTTP/2.0, HTTP/3.0 as the server saw it
	Header  http.Header
	CL      int64
	TE      []string
	Body    []byte
	ReadErr string
}

type origin struct {
	mu    sync.Mutex
	seen  map[string]*arrived
	serve map[string][]byte // download payloads by id
	srv   *httptest.Server  // HTTP/1.1
	h2    *httptest.Server  // TLS, HTTP/2 (net/http's bundled x/net/http2 server)
	h3    *qh3.Server       // quic-go http3.Server on loopback UDP
	h3url string
}

func startOrigin() *origin {
	o := &origin{seen: map[string]*arrived{}, serve: map[string][]byte{}}
	hf := http.HandlerFunc(o.handle)
	o.srv = httptest.NewServer(hf)
	o.h2 = httptest.NewUnstartedServer(hf)
	o.h2.EnableHTTP2 = true
	o.h2.StartTLS()
	if cert, err := tls.X509KeyPair(testcert.LocalhostCert, testcert.LocalhostKey); err == nil {
		if pc, err := net.ListenPacket("udp", "127.0.0.1:0"); err == nil {
			o.h3 = &qh3.Server{TLSConfig: qh3.ConfigureTLSConfig(&tls.Config{Certificates: []tls.Certificate{cert}}), Handler: hf}
			go o.h3.Serve(pc)
			o.h3url = "https://" + pc.LocalAddr().String()
		}
	}
	return o
}

func (o *origin) close() {
	o.srv.Close()
	o.h2.Close()
	if o.h3 != nil {
		o.h3.Close()
	}
}

func (o *origin) handle(w http.ResponseWriter, r *http.Request) {
	x := r.URL.Query().Get("x")
	a := &arrived{Method: r.Method, Proto: r.Proto, Header: r.Header.Clone(), CL: r.ContentLength, TE: append([]string(nil), r.TransferEncoding...)}
	b, err := io.ReadAll(r.Body)
	a.Body = b
	if err != nil {
		a.ReadErr = err.Error()
	}
	first := r.URL.Query().Get("first") // scripted answer to the first attempt of this exchange: 503 | 401
	if h, _ := strconv.Atoi(r.URL.Query().Get("hops")); h > 0 && first == "401" {
		first = "" // the challenge is issued by the redirect target (a digest re-send is not redirected again)
	}
	o.mu.Lock()
	attempt := 1
	if first != "" {
		if _, again := o.seen[x+"#1"]; again {
			attempt = 2
		} else {
			o.seen[x+"#1"] = a
		}
	}
	if first == "" || attempt == 2 {
		o.seen[x] = a
	}
	pay, isDL := o.serve[r.URL.Query().Get("dl")]
	o.mu.Unlock()
	if first != "" && attempt == 1 {
		switch first {
		case "401":
			w.Header().Set("WWW-Authenticate", `Digest realm="c17", nonce="dcd98b7102dd2f0e8b11d0f600bfb0c093", qop="auth", algorithm=MD5, opaque="5ccc069c403ebaf9f0171e9517f40e41"`)
			cb := []byte("challenge")
			if n, err := strconv.Atoi(r.URL.Query().Get("fb")); err == nil {
				cb = bytes.Repeat([]byte("C"), n) // the 401 page
			}
			w.Header().Set("Content-Length", strconv.Itoa(len(cb)))
			w.WriteHeader(401)
			w.Write(cb)
		default:
			fb := []byte("try again")
			if n, err := strconv.Atoi(r.URL.Query().Get("fb")); err == nil {
				fb = bytes.Repeat([]byte("F"), n)
			}
			w.Header().Set("Content-Length", strconv.Itoa(len(fb)))
			w.WriteHeader(503)
			w.Write(fb)
		}
		return
	}
	if hops, _ := strconv.Atoi(r.URL.Query().Get("hops")); hops > 0 {
		// a redirect hop with a body of its own (the usual "Moved" page), to the same URL with one hop less
		q := r.URL.Query()
		q.Set("hops", strconv.Itoa(hops-1))
		rb, _ := strconv.Atoi(q.Get("rb"))
		st, _ := strconv.Atoi(q.Get("rs"))
		if st == 0 {
			st = 302
		}
		w.Header().Set("Location", "/c17?"+q.Encode())
		w.Header().Set("Content-Type", "text/html")
		if q.Get("rcl") != "0" {
			w.Header().Set("Content-Length", strconv.Itoa(rb))
		}
		w.WriteHeader(st)
		if q.Get("rcl") == "0" {
			if f, ok := w.(http.Flusher); ok {
				f.Flush()
			}
		}
		w.Write(bytes.Repeat([]byte("R"), rb))
		return
	}
	if isDL {
		w.Header().Set("Content-Type", "application/octet-stream")
		if r.URL.Query().Get("cl") != "0" {
			w.Header().Set("Content-Length", strconv.Itoa(len(pay)))
		} else if f, ok := w.(http.Flusher); ok {
			w.WriteHeader(200)
			f.Flush()
		}
		w.Write(pay)
		return
	}
	w.Header().Set("Content-Type", "text/plain")
	w.Write([]byte("ok"))
}

func (o *origin) take(x string) *arrived {
	o.mu.Lock()
	defer o.mu.Unlock()
	a := o.seen[x]
	delete(o.seen, x)
	return a
}

func (o *origin) url(x string) string { return o.srv.URL + "/c17?x=" + x }

func (o *origin) urlFor(proto, x string) string {
	switch proto {
	case "h2":
		return o.h2.URL + "/c17?x=" + x
	case "h3":
		return o.h3url + "/c17?x=" + x
	}
	return o.url(x)
}
