package main

import (
	"io"
	"net/http"
	"net/http/httptest"
	"strconv"
	"sync"
)

// arrived: what the origin saw for one exchange.
type arrived struct {
	Method  string
	Header  http.Header
	CL      int64
	TE      []string
	Body    []byte
	ReadErr string
}

type origin struct {
	mu    sync.Mutex
	seen  map[string]*arrived
	serve map[string][]byte // download payloads by id
	srv   *httptest.Server
}

func startOrigin() *origin {
	o := &origin{seen: map[string]*arrived{}, serve: map[string][]byte{}}
	o.srv = httptest.NewServer(http.HandlerFunc(o.handle))
	return o
}

func (o *origin) close() { o.srv.Close() }

func (o *origin) handle(w http.ResponseWriter, r *http.Request) {
	x := r.URL.Query().Get("x")
	a := &arrived{Method: r.Method, Header: r.Header.Clone(), CL: r.ContentLength, TE: append([]string(nil), r.TransferEncoding...)}
	b, err := io.ReadAll(r.Body)
	a.Body = b
	if err != nil {
		a.ReadErr = err.Error()
	}
	o.mu.Lock()
	o.seen[x] = a
	pay, isDL := o.serve[r.URL.Query().Get("dl")]
	o.mu.Unlock()
	if isDL {
		w.Header().Set("Content-Type", "application/octet-stream")
		if r.URL.Query().Get("cl") != "0" {
			w.Header().Set("Content-Length", strconv.Itoa(len(pay)))
		} else if f, ok := w.(http.Flusher); ok {
			w.WriteHeader(200)
			f.Flush()
		}
		w.Write(pay)
		return
	}
	w.Header().Set("Content-Type", "text/plain")
	w.Write([]byte("ok"))
}

func (o *origin) take(x string) *arrived {
	o.mu.Lock()
	defer o.mu.Unlock()
	a := o.seen[x]
	delete(o.seen, x)
	return a
}

func (o *origin) url(x string) string { return o.srv.URL + "/c17?x=" + x }
