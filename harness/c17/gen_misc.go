package main

import (
	"errors"
	"fmt"
	"io"
	"mime"
	"mime/multipart"
	"path/filepath"
	"strings"
	"sync"
	"time"

	"github.com/imroc/req/v3"
	"github.com/imroc/req/v3/verifharness/hk"
)

func collides(in reqIn) bool {
	if in.Boundary == "" {
		return false
	}
	d := "\r\n--" + in.Boundary
	for _, f := range in.allFields() {
		if strings.Contains(f[1], d) || strings.Contains(f[0], d) {
			return true
		}
	}
	for _, f := range in.Files {
		if strings.Contains(string(f.Content), d) {
			return true
		}
	}
	return false
}

// ---- marshalled and raw bodies, Content-Type presets ----

func (g *gen) marshalCases() {
	r, rng := g.r, g.rng
	names := []string{"doc", "docp", "struct", "map", "slice", "array"}
	presets := []string{"", "", "application/json", "application/xml", "text/xml; charset=utf-8", "application/soap+xml", "text/plain", "application/vnd.api+json", "application/x-custom", "APPLICATION/XML", "image/svg+xml"}
	n := r.Scale(90, 1200)
	for i := 0; i < n; i++ {
		in := reqIn{Kind: "marshal", Method: hk.Pick(rng, []string{"POST", "PUT", "PATCH", "DELETE"}), Marshal: names[i%len(names)]}
		switch rng.Intn(4) {
		case 0:
			in.RCT = hk.Pick(rng, presets)
		case 1:
			in.CCT = hk.Pick(rng, presets)
		case 2:
			in.RCT = hk.Pick(rng, presets)
			in.CCT = hk.Pick(rng, presets)
		}
		ct := in.RCT
		if ct == "" {
			ct = in.CCT
		}
		if strings.Contains(ct, "xml") && !marshalValues[in.Marshal].xml {
			// encoding/xml cannot marshal maps / bare slices: the client returns the marshaller's error; nothing to observe
			in.Marshal = "doc"
		}
		r.Count("marshal:" + map[bool]string{true: "preset", false: "default"}[ct != ""])
		g.oneBody(in)
	}
	// raw bodies
	n = r.Scale(40, 400)
	for i := 0; i < n; i++ {
		c, _ := g.content(hk.Pick(rng, []int{0, 1, 10, 511, 512, 513, 2000}))
		in := reqIn{Kind: "raw", Method: hk.Pick(rng, []string{"POST", "PUT"}), Raw: c, RawSet: true}
		switch rng.Intn(3) {
		case 0:
			in.RCT = hk.Pick(rng, presets)
		case 1:
			in.CCT = hk.Pick(rng, presets)
		}
		r.Count("raw")
		g.oneBody(in)
	}
}

// ---- methods that must not carry a payload ----

func (g *gen) forbiddenCases() {
	r, rng := g.r, g.rng
	n := r.Scale(120, 1500)
	for i := 0; i < n; i++ {
		in := reqIn{Method: []string{"GET", "HEAD", "OPTIONS", "GET", "GET"}[i%5], AllowGet: i%2 == 0}
		switch (i / 10) % 5 {
		case 0:
			in.Kind = "form"
			in.RForm = g.form(rng.Range(1, 3))
			if rng.Bool() {
				in.CForm = g.form(1)
			}
		case 1:
			in.Kind = "form"
			in.Ordered = g.ordered(rng.Range(1, 3))
		case 2:
			in.Kind = "multipart"
			in.Files = []fileIn{g.file(hk.Pick(rng, []int{0, 10, 600}), hk.Pick(rng, []string{"bytes", "reader", "upload", "path"}), 0)}
			in.RForm = g.mpForm(1, 0)
			if rng.Chance(30) {
				in.Chunked = true
			}
			if rng.Chance(20) {
				in.Callback = "0"
			}
		case 3:
			in.Kind = "marshal"
			in.Marshal = hk.Pick(rng, []string{"doc", "map", "slice"})
		default:
			in.Kind = "raw"
			in.RawSet = true
			in.Raw = []byte("raw payload " + g.str())
		}
		r.Count(fmt.Sprintf("forbidden:%s:allow=%v:%s", in.Method, in.AllowGet, in.Kind))
		g.oneBody(in)
	}
}

// ---- quoting and boundary functions (stdlib pieces the code relies on) ----

func (g *gen) quoteCases() {
	r := g.r
	var ss []string
	for b := 0; b < 128; b++ {
		ss = append(ss, string([]byte{byte(b)}), "x"+string([]byte{byte(b)})+"y")
	}
	ss = append(ss, plainNames...)
	ss = append(ss, quotedNames...)
	ss = append(ss, ctlNames...)
	ss = append(ss, "\xc0\xaf", "\xe0\x80\xaf", "\xed\xa0\x80", "\xf4\x90\x80\x80", "\xf0\x9f\x98\x80", "\xf0\x9f\x98", "\xef\xbf\xbd", "\xc2\x85", "\xc2\xad", "\xe2\x80\xa8",
		"\xf3\xa0\x80\x81", "\xf4\x8f\xbf\xbf", "\xed\x9f\xbf", "\xee\x80\x80", "\xe0\xa0\x80", "\xf0\x90\x80\x80", "a\xffb\xc3", "\xc3\xa9\xc3", "\xf8\x88\x80\x80\x80")
	for i := r.Scale(120, 1500); i > 0; i-- {
		ss = append(ss, g.str())
	}
	for i := r.Scale(60, 600); i > 0; i-- { // random bytes biased towards UTF-8 lead / continuation bytes
		n := g.rng.Range(1, 6)
		b := make([]byte, n)
		for j := range b {
			b[j] = hk.Pick(g.rng, []byte{0x80, 0xbf, 0xc2, 0xc3, 0xe0, 0xe2, 0xed, 0xef, 0xf0, 0xf4, 0xa0, 0x9f, 0x90, 0x8f, 0x41, 0x22, 0x5c, byte(g.rng.Intn(256))})
		}
		ss = append(ss, string(b))
	}
	for _, s := range ss {
		q := fmt.Sprintf("%q", s)
		// escapeQuotes is unexported: observe it through Writer.CreateFormField
		var sb strings.Builder
		w := multipart.NewWriter(&sb)
		w.SetBoundary("B")
		w.CreateFormField(s)
		out := sb.String()
		pre, suf := "--B\r\nContent-Disposition: form-data; name=\"", "\"\r\n\r\n"
		if !strings.HasPrefix(out, pre) || !strings.HasSuffix(out, suf) {
			r.Fail(hk.Failure{Sig: "harness:quote", What: "unexpected CreateFormField output", Input: s, Got: out})
			continue
		}
		e := out[len(pre) : len(out)-len(suf)]
		// what a server recovers from the %q form
		back, hasBack := "", false
		if _, params, err := mime.ParseMediaType("form-data; filename=" + q); err == nil {
			back, hasBack = params["filename"]
		}
		r.Count("quote")
		r.Add(hk.Case{Coq: fmt.Sprintf("QuoteCase %s %s %s %s %s", printTable(s), cs(s), cs(q), cs(e), coqOptStr(hasBack, back)), Desc: map[string]interface{}{"kind": "quote", "s": []byte(s)}}, "quote:"+s, q != "\""+s+"\"")
	}
	bs := []string{"", "b", "XyZ", "with space", "trailing ", " leading", "quoted:bound/ary?=(x)", strings.Repeat("b", 70), strings.Repeat("b", 71), "a\"b", "a\\b", "new\nline", "bäd", "semi;colon",
		"'()+_,-./:=?", "0123456789abcdefABCDEF", "----WebKitFormBoundary7MA4YWxkTrZu0gW", "<angle>", "[sq]", "a@b", "x*y", "t\tab"}
	for i := r.Scale(40, 400); i > 0; i-- {
		bs = append(bs, g.str())
	}
	for _, b := range bs {
		var sb strings.Builder
		w := multipart.NewWriter(&sb)
		err := w.SetBoundary(b)
		ct, back, hasBack := "", "", false
		if err == nil {
			ct = w.FormDataContentType()
			if _, p, e := mime.ParseMediaType(ct); e == nil {
				back, hasBack = p["boundary"]
			}
		}
		r.Count("boundary")
		r.Add(hk.Case{Coq: fmt.Sprintf("BoundaryCase %s %s %s %s", cs(b), hk.CoqBool(err == nil), cs(ct), coqOptStr(hasBack, back)),
			Desc: map[string]interface{}{"kind": "boundary", "b": []byte(b)}}, "boundary:"+b, true)
	}
}

// ---- progress wrappers driven directly (hook), every clock the real time.Now allows deterministically ----

type scriptWriter struct {
	ns []int
	i  int
}

func (w *scriptWriter) Write(p []byte) (int, error) {
	n := len(p)
	if w.i < len(w.ns) {
		n = w.ns[w.i]
	}
	w.i++
	if n < len(p) {
		return n, io.ErrShortWrite
	}
	return n, nil
}

type rdEv struct {
	n   int
	err error
}
type scriptRC struct {
	evs []rdEv
	i   int
}

func (s *scriptRC) Read(p []byte) (int, error) {
	if s.i >= len(s.evs) {
		return 0, io.EOF
	}
	e := s.evs[s.i]
	s.i++
	return e.n, e.err
}
func (s *scriptRC) Close() error { return nil }

var errOther = errors.New("other")

func (g *gen) progressUnitCases() {
	r, rng := g.r, g.rng
	type clock struct {
		interval, lastAgo time.Duration
		name              string
	}
	clocks := []clock{{0, 0, "0"}, {time.Hour, 0, "1h"}, {time.Hour, 2 * time.Hour, "1h-due"}, {-time.Second, 0, "negative"}, {1 << 62, 0, "huge"}}
	n := r.Scale(150, 2000)
	for i := 0; i < n; i++ {
		ck := clocks[i%len(clocks)]
		k := rng.Range(0, 8)
		// writer
		var ns []int
		sum := 0
		for j := 0; j < k; j++ {
			v := hk.Pick(rng, []int{0, 1, 2, 511, 512, 513, 4096, 32768, -1, 7})
			ns = append(ns, v)
			if v > 0 {
				sum += v
			}
		}
		total := int64(sum)
		switch rng.Intn(4) {
		case 0:
			total = 0
		case 1:
			total = int64(sum) + 1
		case 2:
			if len(ns) > 1 && ns[0] > 0 {
				total = int64(ns[0]) // reached mid-way
			}
		}
		var obs []int64
		cw := req.VerifC17CallbackWriter(&scriptWriter{ns: ns}, total, ck.interval, ck.lastAgo, func(w int64) { obs = append(obs, w) })
		buf := make([]byte, 40000)
		for _, v := range ns {
			sz := v
			if sz < 0 {
				sz = 1
			}
			cw.Write(buf[:sz])
		}
		var evs []string
		for _, v := range ns {
			evs = append(evs, hk.CoqPair(hk.CoqZ(int64(v)), "0%Z"))
		}
		r.Count("callbackWriter:" + ck.name)
		r.Add(hk.Case{Coq: fmt.Sprintf("WriterCase %s %s %s %s %s", hk.CoqZ(total), hk.CoqZ(int64(ck.interval)), hk.CoqZ(-int64(ck.lastAgo)), hk.CoqList(evs), coqZs(obs)),
			Desc: map[string]interface{}{"kind": "callbackWriter", "writes": ns, "total": total, "clock": ck.name}}, fmt.Sprintf("cw|%v|%d|%s", ns, total, ck.name), len(ns) > 1)

		// reader
		var evr []rdEv
		k = rng.Range(0, 8)
		for j := 0; j < k; j++ {
			e := rdEv{n: hk.Pick(rng, []int{0, 1, 2, 512, 4096, 32768, 0, 100})}
			switch rng.Intn(8) {
			case 0:
				e.err = io.EOF
			case 1:
				e.err = errOther
			}
			evr = append(evr, e)
		}
		if rng.Chance(70) {
			evr = append(evr, rdEv{n: hk.Pick(rng, []int{0, 0, 5}), err: io.EOF})
			if rng.Chance(30) {
				evr = append(evr, rdEv{n: 0, err: io.EOF}) // reading again after EOF
			}
		}
		var obr []int64
		cr := req.VerifC17CallbackReader(&scriptRC{evs: evr}, ck.interval, ck.lastAgo, func(n int64) { obr = append(obr, n) })
		for range evr {
			cr.Read(buf)
		}
		var evc []string
		for _, e := range evr {
			evc = append(evc, fmt.Sprintf("(%s, %s, 0%%Z)", hk.CoqZ(int64(e.n)), hk.CoqBool(e.err == io.EOF)))
		}
		r.Count("callbackReader:" + ck.name)
		r.Add(hk.Case{Coq: fmt.Sprintf("ReaderCase %s %s %s %s", hk.CoqZ(int64(ck.interval)), hk.CoqZ(-int64(ck.lastAgo)), hk.CoqList(evc), coqZs(obr)),
			Desc: map[string]interface{}{"kind": "callbackReader", "reads": fmt.Sprint(evr), "clock": ck.name}}, fmt.Sprintf("cr|%v|%s", evr, ck.name), len(evr) > 1)
	}
}

// ---- downloads through the real client ----

type sizeWriter struct {
	mu sync.Mutex
	ns []int
	n  int
}

func (w *sizeWriter) Write(p []byte) (int, error) {
	w.mu.Lock()
	w.ns = append(w.ns, len(p))
	w.n += len(p)
	w.mu.Unlock()
	return len(p), nil
}

func (g *gen) downloadCases() {
	r, rng := g.r, g.rng
	sizes := []int{0, 1, 511, 512, 513, 4096, 32767, 32768, 32769, 100000, 300000}
	n := r.Scale(45, 600)
	for i := 0; i < n; i++ {
		size := sizes[i%len(sizes)]
		iv := []string{"0", "1ms", "1h"}[(i/len(sizes))%3]
		withCL := rng.Bool()
		id := fmt.Sprintf("d%d", i)
		pay := rng.Bytes(size)
		g.o.mu.Lock()
		g.o.serve[id] = pay
		g.o.mu.Unlock()
		c := req.C().DisableAutoDecode()
		sw := &sizeWriter{}
		var obs []int64
		var mu sync.Mutex
		x := g.nextX()
		url := g.o.url(x) + "&dl=" + id
		if !withCL {
			url += "&cl=0"
		}
		resp, err := c.R().SetOutput(sw).SetDownloadCallbackWithInterval(func(info req.DownloadInfo) {
			mu.Lock()
			obs = append(obs, info.DownloadedSize)
			mu.Unlock()
		}, intervals[iv]).Get(url)
		c.GetTransport().CloseIdleConnections()
		g.o.take(x)
		g.o.mu.Lock()
		delete(g.o.serve, id)
		g.o.mu.Unlock()
		in := map[string]interface{}{"kind": "download", "size": size, "interval": iv, "content_length": withCL}
		if err != nil || resp.Err != nil || sw.n != size {
			r.Fail(hk.Failure{Sig: "download:error", What: fmt.Sprintf("download failed or short: err=%v got %d of %d bytes", err, sw.n, size), Input: in})
			continue
		}
		mu.Lock()
		// oracle: non-decreasing, never above the true total, finishes at it
		bad := ""
		for j, v := range obs {
			if j > 0 && v < obs[j-1] {
				bad = "decreasing"
			}
			if v > int64(size) {
				bad = "exceeds"
			}
		}
		if size > 0 && (len(obs) == 0 || obs[len(obs)-1] != int64(size)) {
			bad = "final"
		}
		if bad != "" {
			r.Fail(hk.Failure{Sig: "download-progress:" + bad, What: "download callback sequence violates the property (" + bad + ")", Input: in, Got: obs, Want: size})
		}
		var coq string
		switch iv {
		case "0", "1h":
			ivz := int64(0)
			if iv == "1h" {
				ivz = 3600e9
			}
			var evs []string
			for _, k := range sw.ns {
				evs = append(evs, fmt.Sprintf("(%s, false, 0%%Z)", hk.CoqZ(int64(k))))
			}
			evs = append(evs, "(0%Z, true, 0%Z)")
			coq = fmt.Sprintf("ReaderCase %s 0%%Z %s %s", hk.CoqZ(ivz), hk.CoqList(evs), coqZs(obs))
		default:
			var zs []string
			for _, k := range sw.ns {
				zs = append(zs, hk.CoqZ(int64(k)))
			}
			coq = fmt.Sprintf("ReaderAnyClock %s %s", hk.CoqList(zs), coqZs(obs))
		}
		mu.Unlock()
		r.Count("download:" + iv)
		r.Add(hk.Case{Coq: coq, Desc: in}, fmt.Sprintf("dl|%d|%s|%v", size, iv, withCL), size > 512)
	}
}

// ---- requests that are sent twice: retry after a 503, digest re-send after a 401 ----

func (g *gen) rerunCases() {
	r, rng := g.r, g.rng
	n := r.Scale(80, 1000)
	for i := 0; i < n; i++ {
		in := reqIn{Method: hk.Pick(rng, []string{"POST", "PUT"}), Rerun: []string{"retry", "digest"}[i%2]}
		switch (i / 2) % 4 {
		case 0: // url-encoded, client + request level
			in.Kind = "form"
			in.CForm = g.form(rng.Range(1, 2))
			if rng.Bool() {
				in.RForm = g.form(rng.Range(1, 3))
			}
		case 1: // url-encoded ordered (+ client)
			in.Kind = "form"
			in.Ordered = g.ordered(rng.Range(1, 3))
			if rng.Bool() {
				in.CForm = g.form(1)
			}
		default: // multipart with client-level fields and replayable files
			in.Kind = "multipart"
			in.CForm = g.mpForm(rng.Range(1, 2), 0)
			if rng.Bool() {
				in.RForm = g.mpForm(1, 0)
			}
			nf := rng.Range(0, 3)
			for j := 0; j < nf; j++ {
				f := g.file(hk.Pick(rng, []int{0, 5, 511, 512, 513, 1500}), hk.Pick(rng, []string{"path", "bytes", "upload", "path", "bytes", "upload", "reader", "seek", "seek"}), rng.Intn(2))
				in.Files = append(in.Files, f)
			}
			if nf == 0 {
				in.ForceMultipart = true
			}
			in.Chunked = rng.Chance(35)
			if nf > 0 && rng.Chance(40) { // upload callbacks across the attempts: each attempt counts from zero
				in.Callback = hk.Pick(rng, []string{"0", "1h"})
				for j := range in.Files { // distinct names, so that the per-file streams can be told apart
					in.Files[j].Name = fmt.Sprintf("%d-%s", j, in.Files[j].Name)
				}
				r.Count("rerun:" + in.Rerun + ":upload-callback")
			}
		}
		r.Count("rerun:" + in.Rerun + ":" + in.Kind)
		g.oneBody(in)
	}
}

// ---- downloads reached through redirect hops with bodies of their own, and retried downloads ----
// One call = several response bodies read through the download wrapper: the 3xx bodies net/http drains
// before following, the body of an attempt that is retried, the body that is finally saved.  What the
// caller is told must concern the body being saved: per attempt (DownloadInfo.Response) the counts are
// non-decreasing, never above that body's size, and finish at it.

type dlReport struct {
	Attempt int   `json:"attempt"` // index of the *req.Response the report came with (1, 2 ...)
	Inter   bool  `json:"intermediate"`
	Size    int64 `json:"size"`
}

type dlCall struct {
	Kind     string `json:"kind"`
	Hops     int    `json:"hops"`
	RB       int    `json:"redirect_body"`
	RCL      bool   `json:"redirect_content_length"`
	Status   int    `json:"redirect_status"`
	Size     int    `json:"size"`
	CL       bool   `json:"content_length"`
	Interval string `json:"interval"`
	Mode     string `json:"mode"` // output | file | autoread
	Retry    bool   `json:"retry"`
	Digest   bool   `json:"digest"` // first answer: 401 with a Digest challenge and a body of FB bytes; the client re-sends with credentials
	FB       int    `json:"first_attempt_body"`
	Proto    string `json:"proto,omitempty"`
}

func (g *gen) downloadCallCases() {
	r, rng := g.r, g.rng
	rbs := []int{0, 1, 150, 2048, 2049, 5000}
	sizes := []int{0, 1, 10, 100, 513, 40000}
	n := r.Scale(110, 1500)
	for i := 0; i < n; i++ {
		in := dlCall{Kind: "download-call", Hops: []int{1, 2, 3, 0, 1}[i%5], RB: rbs[(i/5)%len(rbs)], RCL: rng.Chance(70), Status: hk.Pick(rng, []int{301, 302, 303, 307, 308}),
			Size: hk.Pick(rng, sizes), CL: rng.Bool(), Interval: []string{"0", "1h", "1ms"}[i%3], Mode: []string{"output", "output", "file", "autoread"}[(i/3)%4]}
		if i%7 == 3 {
			in.Retry = true
			in.FB = hk.Pick(rng, []int{0, 9, 600})
		}
		if i%7 == 5 || i%7 == 6 {
			// digest challenge with a page of its own (no redirect hops: the library re-sends the ORIGINAL
			// request after a 401, so a challenge behind a redirect is answered at the first URL again)
			in.Digest = true
			in.FB = hk.Pick(rng, []int{0, 1, 315, 4096, 5000})
			in.Hops = 0
		}
		if i%11 == 6 {
			in.Proto = hk.Pick(rng, []string{"h2", "h3"})
			if in.Proto == "h3" && g.o.h3 == nil {
				in.Proto = ""
			}
		}
		g.oneDownloadCall(in)
	}
}

func (g *gen) oneDownloadCall(in dlCall) {
	r := g.r
	id := fmt.Sprintf("c%d", g.n)
	pay := g.rng.Bytes(in.Size)
	g.o.mu.Lock()
	g.o.serve[id] = pay
	g.o.mu.Unlock()
	defer func() {
		g.o.mu.Lock()
		delete(g.o.serve, id)
		g.o.mu.Unlock()
	}()
	c := req.C().DisableAutoDecode()
	switch in.Proto {
	case "h2":
		c.EnableInsecureSkipVerify().EnableForceHTTP2()
	case "h3":
		c.EnableInsecureSkipVerify().EnableForceHTTP3()
	}
	if in.Digest {
		c.SetCommonDigestAuth("user", "secret")
	}
	defer c.GetTransport().CloseIdleConnections()
	x := g.nextX()
	u := g.o.urlFor(in.Proto, x) + fmt.Sprintf("&dl=%s&hops=%d&rb=%d&rs=%d", id, in.Hops, in.RB, in.Status)
	if in.Digest {
		u += fmt.Sprintf("&first=401&fb=%d", in.FB)
	}
	if !in.CL {
		u += "&cl=0"
	}
	if !in.RCL {
		u += "&rcl=0"
	}
	rq := c.R()
	if in.Retry {
		u += fmt.Sprintf("&first=503&fb=%d", in.FB)
		rq.SetRetryCount(1).SetRetryFixedInterval(0).SetRetryCondition(func(resp *req.Response, err error) bool {
			return err == nil && resp.StatusCode == 503
		})
	}
	var mu sync.Mutex
	var reps []dlReport
	attempts := map[*req.Response]int{}
	rq.SetDownloadCallbackWithInterval(func(info req.DownloadInfo) {
		mu.Lock()
		k, ok := attempts[info.Response]
		if !ok {
			k = len(attempts) + 1
			attempts[info.Response] = k
		}
		reps = append(reps, dlReport{Attempt: k, Inter: info.Response == nil || info.Response.Response == nil, Size: info.DownloadedSize})
		mu.Unlock()
	}, intervals[in.Interval])
	sw := &sizeWriter{}
	var file string
	switch in.Mode {
	case "output":
		rq.SetOutput(sw)
	case "file":
		file = filepath.Join(g.r.OutDir, "files", "dl", x)
		rq.SetOutputFile(file)
	}
	var err error
	var resp *req.Response
	done := make(chan struct{})
	go func() {
		defer close(done)
		defer func() {
			if p := recover(); p != nil {
				err = fmt.Errorf("panic: %v", p)
			}
		}()
		resp, err = rq.Get(u)
	}()
	select {
	case <-done:
	case <-time.After(60 * time.Second):
		r.Fail(hk.Failure{Sig: "harness:download-call:watchdog", What: "watchdog", Input: in})
		return
	}
	g.o.take(x)
	g.o.take(x + "#1")
	r.Count(fmt.Sprintf("download-call:hops=%d:%s", in.Hops, in.Mode))
	if in.Retry {
		r.Count("download-call:retried")
	}
	if in.Digest {
		r.Count("download-call:digest")
	}
	if err != nil || resp == nil || resp.Err != nil || resp.StatusCode != 200 {
		r.Fail(hk.Failure{Sig: "download-call:error", What: fmt.Sprintf("download through %d redirect hop(s) failed: %v", in.Hops, err), Input: in})
		return
	}
	mu.Lock()
	defer mu.Unlock()
	key := fmt.Sprintf("dlc|%+v", in)
	if in.Mode == "autoread" {
		// no output target: the download callback does not apply
		if len(reps) != 0 {
			r.Fail(hk.Failure{Sig: "download-call:autoread-reports", What: "download callback invoked although the response is not saved", Input: in, Got: reps})
		}
		r.Add(hk.Case{Desc: in}, key, true)
		return
	}
	// per attempt: the body that attempt saved
	// (attempts are numbered by their first report: an attempt that saved an empty body makes none)
	var totals []int64
	if in.Retry && in.FB > 0 {
		totals = append(totals, int64(in.FB))
	}
	if in.Size > 0 {
		totals = append(totals, int64(in.Size))
	}
	by := map[int][]int64{}
	for _, p := range reps {
		by[p.Attempt] = append(by[p.Attempt], p.Size)
	}
	for k := 1; k <= len(totals); k++ {
		seq, total := by[k], totals[k-1]
		bad := ""
		for j, v := range seq {
			if j > 0 && v < seq[j-1] {
				bad = "decreasing"
			}
			if v > total {
				bad = "exceeds"
			}
		}
		if bad == "" && total > 0 && (len(seq) == 0 || seq[len(seq)-1] != total) {
			bad = "final"
		}
		if bad != "" {
			shape := "direct"
			if in.Hops > 0 {
				shape = "redirected"
			}
			if in.Retry {
				shape += "+retried"
			}
			if in.Digest {
				shape += "+digest"
			}
			r.Fail(hk.Failure{Sig: "download-call:" + bad + ":" + shape, What: fmt.Sprintf("download callback reports of attempt %d violate the property (%s): the body saved has %d bytes", k, bad, total), Input: in, Got: reps, Want: total})
			r.Add(hk.Case{Desc: in}, key, true)
			return
		}
	}
	if len(by) > len(totals) {
		r.Fail(hk.Failure{Sig: "download-call:extra-attempt", What: "reports for more responses than were saved", Input: in, Got: reps})
	}
	// Coq: the reports of the last attempt are those of its final body alone, whatever was drained before
	if in.Mode != "output" || in.Interval == "1ms" {
		r.Add(hk.Case{Desc: in}, key, true)
		return
	}
	// sizeWriter saw every body that was saved (first attempt's, then the final one): the final body's reads are the tail
	rem, tail := in.Size, []int{}
	for j := len(sw.ns) - 1; j >= 0 && rem > 0; j-- {
		tail = append([]int{sw.ns[j]}, tail...)
		rem -= sw.ns[j]
	}
	if rem != 0 {
		r.Add(hk.Case{Desc: in}, key, true)
		return
	}
	ivz := int64(0)
	if in.Interval == "1h" {
		ivz = 3600e9
	}
	body := func(ns []int) string {
		var evs []string
		for _, k := range ns {
			evs = append(evs, fmt.Sprintf("(%s, false, 0%%Z)", hk.CoqZ(int64(k))))
		}
		evs = append(evs, "(0%Z, true, 0%Z)")
		return hk.CoqPair("0%Z", hk.CoqList(evs))
	}
	var bodies []string
	for h := 0; h < in.Hops; h++ {
		d := in.RB
		if d > 2048 {
			d = 2048
		}
		bodies = append(bodies, body([]int{d}))
	}
	if in.Digest { // the 401 page: wrapped like every body of the call, closed without being read
		bodies = append(bodies, hk.CoqPair("0%Z", "[]"))
	}
	bodies = append(bodies, body(tail))
	var last []int64
	if in.Size > 0 {
		last = by[len(totals)]
	}
	coq := fmt.Sprintf("CallCase %s %s %s", hk.CoqZ(ivz), hk.CoqList(bodies), coqZs(last))
	r.Add(hk.Case{Coq: coq, Desc: in}, key, true)
}
