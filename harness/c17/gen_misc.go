package main

import (
	"errors"
	"fmt"
	"io"
	"mime"
	"mime/multipart"
	"strings"
	"sync"
	"time"

	"github.com/imroc/req/v3"
	"github.com/imroc/req/v3/verifharness/hk"
)

func collides(in reqIn) bool {
	if in.Boundary == "" {
		return false
	}
	d := "\r\n--" + in.Boundary
	for _, f := range in.allFields() {
		if strings.Contains(f[1], d) || strings.Contains(f[0], d) {
			return true
		}
	}
	for _, f := range in.Files {
		if strings.Contains(string(f.Content), d) {
			return true
		}
	}
	return false
}

// ---- marshalled and raw bodies, Content-Type presets ----

func (g *gen) marshalCases() {
	r, rng := g.r, g.rng
	names := []string{"doc", "docp", "struct", "map", "slice", "array"}
	presets := []string{"", "", "application/json", "application/xml", "text/xml; charset=utf-8", "application/soap+xml", "text/plain", "application/vnd.api+json", "application/x-custom", "APPLICATION/XML", "image/svg+xml"}
	n := r.Scale(90, 1200)
	for i := 0; i < n; i++ {
		in := reqIn{Kind: "marshal", Method: hk.Pick(rng, []string{"POST", "PUT", "PATCH", "DELETE"}), Marshal: names[i%len(names)]}
		switch rng.Intn(4) {
		case 0:
			in.RCT = hk.Pick(rng, presets)
		case 1:
			in.CCT = hk.Pick(rng, presets)
		case 2:
			in.RCT = hk.Pick(rng, presets)
			in.CCT = hk.Pick(rng, presets)
		}
		ct := in.RCT
		if ct == "" {
			ct = in.CCT
		}
		if strings.Contains(ct, "xml") && !marshalValues[in.Marshal].xml {
			// encoding/xml cannot marshal maps / bare slices: the client returns the marshaller's error; nothing to observe
			in.Marshal = "doc"
		}
		r.Count("marshal:" + map[bool]string{true: "preset", false: "default"}[ct != ""])
		g.oneBody(in)
	}
	// raw bodies
	n = r.Scale(40, 400)
	for i := 0; i < n; i++ {
		c, _ := g.content(hk.Pick(rng, []int{0, 1, 10, 511, 512, 513, 2000}))
		in := reqIn{Kind: "raw", Method: hk.Pick(rng, []string{"POST", "PUT"}), Raw: c, RawSet: true}
		switch rng.Intn(3) {
		case 0:
			in.RCT = hk.Pick(rng, presets)
		case 1:
			in.CCT = hk.Pick(rng, presets)
		}
		r.Count("raw")
		g.oneBody(in)
	}
}

// ---- methods that must not carry a payload ----

func (g *gen) forbiddenCases() {
	r, rng := g.r, g.rng
	n := r.Scale(120, 1500)
	for i := 0; i < n; i++ {
		in := reqIn{Method: []string{"GET", "HEAD", "OPTIONS", "GET", "GET"}[i%5], AllowGet: i%2 == 0}
		switch (i / 10) % 5 {
		case 0:
			in.Kind = "form"
			in.RForm = g.form(rng.Range(1, 3))
			if rng.Bool() {
				in.CForm = g.form(1)
			}
		case 1:
			in.Kind = "form"
			in.Ordered = g.ordered(rng.Range(1, 3))
		case 2:
			in.Kind = "multipart"
			in.Files = []fileIn{g.file(hk.Pick(rng, []int{0, 10, 600}), hk.Pick(rng, []string{"bytes", "reader", "upload", "path"}), 0)}
			in.RForm = g.mpForm(1, 0)
			if rng.Chance(30) {
				in.Chunked = true
			}
			if rng.Chance(20) {
				in.Callback = "0"
			}
		case 3:
			in.Kind = "marshal"
			in.Marshal = hk.Pick(rng, []string{"doc", "map", "slice"})
		default:
			in.Kind = "raw"
			in.RawSet = true
			in.Raw = []byte("raw payload " + g.str())
		}
		r.Count(fmt.Sprintf("forbidden:%s:allow=%v:%s", in.Method, in.AllowGet, in.Kind))
		g.oneBody(in)
	}
}

// ---- quoting and boundary functions (stdlib pieces the code relies on) ----

func (g *gen) quoteCases() {
	r := g.r
	var ss []string
	for b := 0; b < 128; b++ {
		ss = append(ss, string([]byte{byte(b)}), "x"+string([]byte{byte(b)})+"y")
	}
	ss = append(ss, plainNames...)
	ss = append(ss, quotedNames...)
	ss = append(ss, ctlNames...)
	ss = append(ss, "\xc0\xaf", "\xe0\x80\xaf", "\xed\xa0\x80", "\xf4\x90\x80\x80", "\xf0\x9f\x98\x80", "\xf0\x9f\x98", "\xef\xbf\xbd", "\xc2\x85", "\xc2\xad", "\xe2\x80\xa8",
		"\xf3\xa0\x80\x81", "\xf4\x8f\xbf\xbf", "\xed\x9f\xbf", "\xee\x80\x80", "\xe0\xa0\x80", "\xf0\x90\x80\x80", "a\xffb\xc3", "\xc3\xa9\xc3", "\xf8\x88\x80\x80\x80")
	for i := r.Scale(120, 1500); i > 0; i-- {
		ss = append(ss, g.str())
	}
	for i := r.Scale(60, 600); i > 0; i-- { // random bytes biased towards UTF-8 lead / continuation bytes
		n := g.rng.Range(1, 6)
		b := make([]byte, n)
		for j := range b {
			b[j] = hk.Pick(g.rng, []byte{0x80, 0xbf, 0xc2, 0xc3, 0xe0, 0xe2, 0xed, 0xef, 0xf0, 0xf4, 0xa0, 0x9f, 0x90, 0x8f, 0x41, 0x22, 0x5c, byte(g.rng.Intn(256))})
		}
		ss = append(ss, string(b))
	}
	for _, s := range ss {
		q := fmt.Sprintf("%q", s)
		// escapeQuotes is unexported: observe it through Writer.CreateFormField
		var sb strings.Builder
		w := multipart.NewWriter(&sb)
		w.SetBoundary("B")
		w.CreateFormField(s)
		out := sb.String()
		pre, suf := "--B\r\nContent-Disposition: form-data; name=\"", "\"\r\n\r\n"
		if !strings.HasPrefix(out, pre) || !strings.HasSuffix(out, suf) {
			r.Fail(hk.Failure{Sig: "harness:quote", What: "unexpected CreateFormField output", Input: s, Got: out})
			continue
		}
		e := out[len(pre) : len(out)-len(suf)]
		// what a server recovers from the %q form
		back, hasBack := "", false
		if _, params, err := mime.ParseMediaType("form-data; filename=" + q); err == nil {
			back, hasBack = params["filename"]
		}
		r.Count("quote")
		r.Add(hk.Case{Coq: fmt.Sprintf("QuoteCase %s %s %s %s %s", printTable(s), cs(s), cs(q), cs(e), coqOptStr(hasBack, back)), Desc: map[string]interface{}{"kind": "quote", "s": []byte(s)}}, "quote:"+s, q != "\""+s+"\"")
	}
	bs := []string{"", "b", "XyZ", "with space", "trailing ", " leading", "quoted:bound/ary?=(x)", strings.Repeat("b", 70), strings.Repeat("b", 71), "a\"b", "a\\b", "new\nline", "bäd", "semi;colon",
		"'()+_,-./:=?", "0123456789abcdefABCDEF", "----WebKitFormBoundary7MA4YWxkTrZu0gW", "<angle>", "[sq]", "a@b", "x*y", "t\tab"}
	for i := r.Scale(40, 400); i > 0; i-- {
		bs = append(bs, g.str())
	}
	for _, b := range bs {
		var sb strings.Builder
		w := multipart.NewWriter(&sb)
		err := w.SetBoundary(b)
		ct, back, hasBack := "", "", false
		if err == nil {
			ct = w.FormDataContentType()
			if _, p, e := mime.ParseMediaType(ct); e == nil {
				back, hasBack = p["boundary"]
			}
		}
		r.Count("boundary")
		r.Add(hk.Case{Coq: fmt.Sprintf("BoundaryCase %s %s %s %s", cs(b), hk.CoqBool(err == nil), cs(ct), coqOptStr(hasBack, back)),
			Desc: map[string]interface{}{"kind": "boundary", "b": []byte(b)}}, "boundary:"+b, true)
	}
}

// ---- progress wrappers driven directly (hook), every clock the real time.Now allows deterministically ----

type scriptWriter struct {
	ns []int
	i  int
}

func (w *scriptWriter) Write(p []byte) (int, error) {
	n := len(p)
	if w.i < len(w.ns) {
		n = w.ns[w.i]
	}
	w.i++
	if n < len(p) {
		return n, io.ErrShortWrite
	}
	return n, nil
}

type rdEv struct {
	n   int
	err error
}
type scriptRC struct {
	evs []rdEv
	i   int
}

func (s *scriptRC) Read(p []byte) (int, error) {
	if s.i >= len(s.evs) {
		return 0, io.EOF
	}
	e := s.evs[s.i]
	s.i++
	return e.n, e.err
}
func (s *scriptRC) Close() error { return nil }

var errOther = errors.New("other")

func (g *gen) progressUnitCases() {
	r, rng := g.r, g.rng
	type clock struct {
		interval, lastAgo time.Duration
		name              string
	}
	clocks := []clock{{0, 0, "0"}, {time.Hour, 0, "1h"}, {time.Hour, 2 * time.Hour, "1h-due"}, {-time.Second, 0, "negative"}, {1 << 62, 0, "huge"}}
	n := r.Scale(150, 2000)
	for i := 0; i < n; i++ {
		ck := clocks[i%len(clocks)]
		k := rng.Range(0, 8)
		// writer
		var ns []int
		sum := 0
		for j := 0; j < k; j++ {
			v := hk.Pick(rng, []int{0, 1, 2, 511, 512, 513, 4096, 32768, -1, 7})
			ns = append(ns, v)
			if v > 0 {
				sum += v
			}
		}
		total := int64(sum)
		switch rng.Intn(4) {
		case 0:
			total = 0
		case 1:
			total = int64(sum) + 1
		case 2:
			if len(ns) > 1 && ns[0] > 0 {
				total = int64(ns[0]) // reached mid-way
			}
		}
		var obs []int64
		cw := req.VerifC17CallbackWriter(&scriptWriter{ns: ns}, total, ck.interval, ck.lastAgo, func(w int64) { obs = append(obs, w) })
		buf := make([]byte, 40000)
		for _, v := range ns {
			sz := v
			if sz < 0 {
				sz = 1
			}
			cw.Write(buf[:sz])
		}
		var evs []string
		for _, v := range ns {
			evs = append(evs, hk.CoqPair(hk.CoqZ(int64(v)), "0%Z"))
		}
		r.Count("callbackWriter:" + ck.name)
		r.Add(hk.Case{Coq: fmt.Sprintf("WriterCase %s %s %s %s %s", hk.CoqZ(total), hk.CoqZ(int64(ck.interval)), hk.CoqZ(-int64(ck.lastAgo)), hk.CoqList(evs), coqZs(obs)),
			Desc: map[string]interface{}{"kind": "callbackWriter", "writes": ns, "total": total, "clock": ck.name}}, fmt.Sprintf("cw|%v|%d|%s", ns, total, ck.name), len(ns) > 1)

		// reader
		var evr []rdEv
		k = rng.Range(0, 8)
		for j := 0; j < k; j++ {
			e := rdEv{n: hk.Pick(rng, []int{0, 1, 2, 512, 4096, 32768, 0, 100})}
			switch rng.Intn(8) {
			case 0:
				e.err = io.EOF
			case 1:
				e.err = errOther
			}
			evr = append(evr, e)
		}
		if rng.Chance(70) {
			evr = append(evr, rdEv{n: hk.Pick(rng, []int{0, 0, 5}), err: io.EOF})
			if rng.Chance(30) {
				evr = append(evr, rdEv{n: 0, err: io.EOF}) // reading again after EOF
			}
		}
		var obr []int64
		cr := req.VerifC17CallbackReader(&scriptRC{evs: evr}, ck.interval, ck.lastAgo, func(n int64) { obr = append(obr, n) })
		for range evr {
			cr.Read(buf)
		}
		var evc []string
		for _, e := range evr {
			evc = append(evc, fmt.Sprintf("(%s, %s, 0%%Z)", hk.CoqZ(int64(e.n)), hk.CoqBool(e.err == io.EOF)))
		}
		r.Count("callbackReader:" + ck.name)
		r.Add(hk.Case{Coq: fmt.Sprintf("ReaderCase %s %s %s %s", hk.CoqZ(int64(ck.interval)), hk.CoqZ(-int64(ck.lastAgo)), hk.CoqList(evc), coqZs(obr)),
			Desc: map[string]interface{}{"kind": "callbackReader", "reads": fmt.Sprint(evr), "clock": ck.name}}, fmt.Sprintf("cr|%v|%s", evr, ck.name), len(evr) > 1)
	}
}

// ---- downloads through the real client ----

type sizeWriter struct {
	mu sync.Mutex
	ns []int
	n  int
}

func (w *sizeWriter) Write(p []byte) (int, error) {
	w.mu.Lock()
	w.ns = append(w.ns, len(p))
	w.n += len(p)
	w.mu.Unlock()
	return len(p), nil
}

func (g *gen) downloadCases() {
	r, rng := g.r, g.rng
	sizes := []int{0, 1, 511, 512, 513, 4096, 32767, 32768, 32769, 100000, 300000}
	n := r.Scale(45, 600)
	for i := 0; i < n; i++ {
		size := sizes[i%len(sizes)]
		iv := []string{"0", "1ms", "1h"}[(i/len(sizes))%3]
		withCL := rng.Bool()
		id := fmt.Sprintf("d%d", i)
		pay := rng.Bytes(size)
		g.o.mu.Lock()
		g.o.serve[id] = pay
		g.o.mu.Unlock()
		c := req.C().DisableAutoDecode()
		sw := &sizeWriter{}
		var obs []int64
		var mu sync.Mutex
		x := g.nextX()
		url := g.o.url(x) + "&dl=" + id
		if !withCL {
			url += "&cl=0"
		}
		resp, err := c.R().SetOutput(sw).SetDownloadCallbackWithInterval(func(info req.DownloadInfo) {
			mu.Lock()
			obs = append(obs, info.DownloadedSize)
			mu.Unlock()
		}, intervals[iv]).Get(url)
		c.GetTransport().CloseIdleConnections()
		g.o.take(x)
		g.o.mu.Lock()
		delete(g.o.serve, id)
		g.o.mu.Unlock()
		in := map[string]interface{}{"kind": "download", "size": size, "interval": iv, "content_length": withCL}
		if err != nil || resp.Err != nil || sw.n != size {
			r.Fail(hk.Failure{Sig: "download:error", What: fmt.Sprintf("download failed or short: err=%v got %d of %d bytes", err, sw.n, size), Input: in})
			continue
		}
		mu.Lock()
		// oracle: non-decreasing, never above the true total, finishes at it
		bad := ""
		for j, v := range obs {
			if j > 0 && v < obs[j-1] {
				bad = "decreasing"
			}
			if v > int64(size) {
				bad = "exceeds"
			}
		}
		if size > 0 && (len(obs) == 0 || obs[len(obs)-1] != int64(size)) {
			bad = "final"
		}
		if bad != "" {
			r.Fail(hk.Failure{Sig: "download-progress:" + bad, What: "download callback sequence violates the property (" + bad + ")", Input: in, Got: obs, Want: size})
		}
		var coq string
		switch iv {
		case "0", "1h":
			ivz := int64(0)
			if iv == "1h" {
				ivz = 3600e9
			}
			var evs []string
			for _, k := range sw.ns {
				evs = append(evs, fmt.Sprintf("(%s, false, 0%%Z)", hk.CoqZ(int64(k))))
			}
			evs = append(evs, "(0%Z, true, 0%Z)")
			coq = fmt.Sprintf("ReaderCase %s 0%%Z %s %s", hk.CoqZ(ivz), hk.CoqList(evs), coqZs(obs))
		default:
			var zs []string
			for _, k := range sw.ns {
				zs = append(zs, hk.CoqZ(int64(k)))
			}
			coq = fmt.Sprintf("ReaderAnyClock %s %s", hk.CoqList(zs), coqZs(obs))
		}
		mu.Unlock()
		r.Count("download:" + iv)
		r.Add(hk.Case{Coq: coq, Desc: in}, fmt.Sprintf("dl|%d|%s|%v", size, iv, withCL), size > 512)
	}
}

// ---- requests that are sent twice: retry after a 503, digest re-send after a 401 ----

func (g *gen) rerunCases() {
	r, rng := g.r, g.rng
	n := r.Scale(80, 1000)
	for i := 0; i < n; i++ {
		in := reqIn{Method: hk.Pick(rng, []string{"POST", "PUT"}), Rerun: []string{"retry", "digest"}[i%2]}
		switch (i / 2) % 4 {
		case 0: // url-encoded, client + request level
			in.Kind = "form"
			in.CForm = g.form(rng.Range(1, 2))
			if rng.Bool() {
				in.RForm = g.form(rng.Range(1, 3))
			}
		case 1: // url-encoded ordered (+ client)
			in.Kind = "form"
			in.Ordered = g.ordered(rng.Range(1, 3))
			if rng.Bool() {
				in.CForm = g.form(1)
			}
		default: // multipart with client-level fields and replayable files
			in.Kind = "multipart"
			in.CForm = g.mpForm(rng.Range(1, 2), 0)
			if rng.Bool() {
				in.RForm = g.mpForm(1, 0)
			}
			nf := rng.Range(0, 3)
			for j := 0; j < nf; j++ {
				f := g.file(hk.Pick(rng, []int{0, 5, 511, 512, 513, 1500}), hk.Pick(rng, []string{"path", "bytes", "upload"}), rng.Intn(2))
				in.Files = append(in.Files, f)
			}
			if nf == 0 {
				in.ForceMultipart = true
			}
			in.Chunked = rng.Chance(35)
		}
		r.Count("rerun:" + in.Rerun + ":" + in.Kind)
		g.oneBody(in)
	}
}
