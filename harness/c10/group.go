package main

// Groups: several requests built from ONE client before any of them is sent, each with
// request-level retry setters of its own (and client-level setters in between), then sent in
// some order.  Every request must be governed by its own option - the client's at the moment
// the request was created plus its own setters - whatever the other requests did to theirs
// (the options share no condition/hook storage: retryOption.Clone copies both slices).

import (
	"context"
	"encoding/json"
	"fmt"
	"strings"

	req "github.com/imroc/req/v3"
	"github.com/imroc/req/v3/verifharness/hk"
)

type groupStep struct {
	Kind   string `json:"kind"` // client | new | req
	Ops    []rop  `json:"ops,omitempty"`
	Member int    `json:"member,omitempty"`
}

type group struct {
	Steps   []groupStep `json:"steps"`
	Members []*program  `json:"members"` // ClientOps = the client-level setters applied before the member was created
	Order   []int       `json:"order"`   // the order in which the members are sent
}

func genGroup(r *hk.Rand) *group {
	g := &group{}
	base := genProgram(r)
	id := 100
	next := func() int { id++; return id }
	clientStatuses := []int{502, 503, 504, 500, 429}
	var clientOps []rop
	add := func(ops ...rop) {
		clientOps = append(clientOps, ops...)
		g.Steps = append(g.Steps, groupStep{Kind: "client", Ops: ops})
	}
	add(rop{Op: "interval", Interval: next()*3 + 1}, rop{Op: "count", N: hk.Pick(r, []int{2, 3, 5, -1})})
	// 0..5 client-level conditions and hooks: lengths at and below the capacities Go's append
	// produces (1, 2, 4, 8), so that the client's slices do and do not have spare room
	var init []rop
	for i, n := 0, r.Intn(6); i < n; i++ {
		init = append(init, rop{Op: "addcond", Cond: &condSpec{ID: next(), Kind: "eq", Arg: clientStatuses[i%len(clientStatuses)]}})
	}
	for i, n := 0, r.Intn(6); i < n; i++ {
		init = append(init, rop{Op: "addhook", Hook: &hookSpec{ID: next(), Kind: "nop"}})
	}
	if len(init) > 0 {
		add(init...)
	}
	nm := r.Range(2, 3)
	for m := 0; m < nm; m++ {
		if m > 0 && r.Chance(30) { // client-level setters between two requests
			var ops []rop
			if r.Bool() {
				ops = append(ops, rop{Op: "addcond", Cond: &condSpec{ID: next(), Kind: "eq", Arg: 501}})
			}
			if r.Bool() || len(ops) == 0 {
				ops = append(ops, rop{Op: "addhook", Hook: &hookSpec{ID: next(), Kind: "nop"}})
			}
			add(ops...)
		}
		p := genProgram(r)
		sh := &p.Shape
		bs := &base.Shape
		sh.CHeaders, sh.CCookies, sh.CForm, sh.CQuery, sh.DenyGetPay, sh.CPParams, sh.MPBoundary = bs.CHeaders, bs.CCookies, bs.CForm, bs.CQuery, bs.DenyGetPay, bs.CPParams, bs.MPBoundary
		sh.Method = hk.Pick(r, []string{"POST", "PUT", "GET", "DELETE"})
		if sh.BodyKind == "multipart" || sh.BodyKind == "reader" || sh.BodyKind == "readcloser" {
			sh.BodyKind, sh.MPFiles, sh.Chunked = "bytes", nil, false
			sh.Body = hk.Pick(r, bodies)
		}
		p.After, p.Reexec, p.Wrap = nil, nil, base.Wrap
		p.CtxVia = "" // the options are probed through the request's context before anything is sent
		p.ClientOps = append([]rop{}, clientOps...)
		own := 410 + m
		p.ReqOps = nil
		for i, n := 0, r.Range(1, 3); i < n; i++ {
			switch k := r.Intn(10); {
			case k < 4 || i == 0:
				p.ReqOps = append(p.ReqOps, rop{Op: "addcond", Cond: &condSpec{ID: next(), Kind: "eq", Arg: own}})
			case k < 8:
				p.ReqOps = append(p.ReqOps, rop{Op: "addhook", Hook: &hookSpec{ID: next(), Kind: "nop"}})
			case k < 9:
				p.ReqOps = append(p.ReqOps, rop{Op: "setcond", Cond: &condSpec{ID: next(), Kind: "eq", Arg: own}})
			default:
				p.ReqOps = append(p.ReqOps, rop{Op: "sethook", Hook: &hookSpec{ID: next(), Kind: "nop"}})
			}
		}
		if r.Chance(70) {
			p.ReqOps = append(p.ReqOps, rop{Op: "addhook", Hook: &hookSpec{ID: next(), Kind: "nop"}})
		}
		// outcomes that only the request's OWN condition, a client-level one, or none asks to retry
		p.Script = nil
		for i, n := 0, r.Range(1, 3); i < n; i++ {
			switch k := r.Intn(10); {
			case k < 6:
				p.Script = append(p.Script, outcome{Kind: "status", Status: own})
			case k < 8:
				p.Script = append(p.Script, outcome{Kind: "status", Status: hk.Pick(r, clientStatuses)})
			default:
				p.Script = append(p.Script, outcome{Kind: "status", Status: 410 + (m+1)%nm}) // another member's status
			}
		}
		for i := range p.Script {
			if r.Chance(20) {
				p.Script[i].SetCookie = [][2]string{{hk.Pick(r, []string{"srv", "sid", "a"}), hk.Pick(r, tokVals)}}
			}
		}
		p.Script = append(p.Script, outcome{Kind: "status", Status: 200}, outcome{Kind: "ctxcancel"})
		g.Members = append(g.Members, p)
		g.Steps = append(g.Steps, groupStep{Kind: "new", Member: m}, groupStep{Kind: "req", Member: m, Ops: p.ReqOps})
	}
	for i := 0; i < nm; i++ {
		g.Order = append(g.Order, i)
	}
	for i := nm - 1; i > 0; i-- { // a permutation
		j := r.Intn(i + 1)
		g.Order[i], g.Order[j] = g.Order[j], g.Order[i]
	}
	return g
}

// probe: which conditions / hooks does the option hold?  Each function is called with a probe
// response; the harness's closures then only record their id.
type probed struct {
	Conds, Hooks []int
	CondShape    [2]int // len, cap
	HookShape    [2]int
	Has          bool
}

func probeFuncs(rs *runState, conds []req.RetryConditionFunc, hooks []req.RetryHookFunc, ok bool) probed {
	pr := probed{Has: ok, CondShape: [2]int{len(conds), cap(conds)}, HookShape: [2]int{len(hooks), cap(hooks)}}
	resp := &req.Response{Request: rs.r}
	var ids []int
	rs.probe = &ids
	for _, f := range conds {
		f(resp, nil)
	}
	pr.Conds, ids = ids, nil
	for _, f := range hooks {
		f(resp, nil)
	}
	pr.Hooks = ids
	rs.probe = nil
	return pr
}

func idsOfConds(cs []*condSpec) []int {
	var out []int
	for _, c := range cs {
		out = append(out, c.ID)
	}
	return out
}

func idsOfHooks(hs []*hookSpec) []int {
	var out []int
	for _, h := range hs {
		out = append(out, h.ID)
	}
	return out
}

func runGroup(r *hk.Run, g *group) {
	c := newClient(g.Members[0])
	states := make([]*runState, len(g.Members))
	for _, st := range g.Steps {
		switch st.Kind {
		case "client":
			applyClientOps(c, st.Ops)
		case "new":
			states[st.Member] = buildRequest(c, g.Members[st.Member]) // applies the member's request-level setters
		}
	}
	// what every option holds once everything is built
	probes := make([]probed, len(states))
	for i, rs := range states {
		cs, hs, ok := req.VerifC10RetryFuncs(rs.r)
		probes[i] = probeFuncs(rs, cs, hs, ok)
	}
	dummy := &runState{p: g.Members[0], ctx: newScriptCtx(), attempt: -1}
	dummy.ctx.rs = dummy
	dummy.r = req.C().R().SetContext(dummy.ctx)
	ccs, chs, cok := req.VerifC10ClientRetryFuncs(c)
	cprobe := probeFuncs(dummy, ccs, chs, cok)
	dummy.ctx.end(context.Canceled)

	in := map[string]interface{}{"group": g}
	tag := fmt.Sprintf("[group,members=%d]", len(g.Members))
	for i, p := range g.Members {
		e := effectiveOf(p)
		if fmt.Sprint(probes[i].Conds) != fmt.Sprint(idsOfConds(e.Conds)) {
			failCapped(r, hk.Failure{Sig: "options:foreign-conditions" + tag, What: fmt.Sprintf("request %d does not hold the conditions it was given (the client's at its creation, then its own)", i), Input: in, Got: probes[i].Conds, Want: idsOfConds(e.Conds)})
		}
		if fmt.Sprint(probes[i].Hooks) != fmt.Sprint(idsOfHooks(e.Hooks)) {
			failCapped(r, hk.Failure{Sig: "options:foreign-hooks" + tag, What: fmt.Sprintf("request %d does not hold the hooks it was given (the client's at its creation, then its own)", i), Input: in, Got: probes[i].Hooks, Want: idsOfHooks(e.Hooks)})
		}
	}
	// send in the chosen order; every request is judged by the single-request oracle against
	// its own effective policy
	var jar [][2]string // the client's cookie jar is shared by the members, in the order they are sent
	for _, i := range g.Order {
		states[i].o.Jar0 = append([][2]string{}, jar...)
		states[i].send()
		_, jar = g.Members[i].jarsBefore(jar, len(states[i].o.Wires))
	}
	for i, p := range g.Members {
		o := &states[i].o
		n0 := len(r.Failures)
		oracle(r, p, o)
		for j := n0; j < len(r.Failures); j++ {
			r.Failures[j].Sig = "group:" + r.Failures[j].Sig
			r.Failures[j].Input = map[string]interface{}{"group": g, "member": i}
		}
		key, _ := json.Marshal(p)
		coq, _ := coqCase(p, o)
		r.Add(hk.Case{Coq: coq, Desc: map[string]interface{}{"kind": "run", "program": p, "attempts": len(o.Wires), "final": []int{o.Status, o.Err}, "group_member": i}},
			"g|"+string(key), len(o.Wires) >= 2)
		r.Count(fmt.Sprintf("group.member-attempts=%d", len(o.Wires)))
		addCookieCase(r, p, o, "g|"+string(key))
	}
	r.Count(fmt.Sprintf("group.client-conds(len,cap)=%v", cprobe.CondShape))
	r.Count("group.programs")
	// the slice model: the build steps as operations on option slots (0 = client, i+1 = member i)
	gk, _ := json.Marshal(g)
	r.Add(hk.Case{Coq: coqGroup(g, cprobe, probes), Desc: map[string]interface{}{"kind": "group", "group": g}}, "G|"+string(gk), true)
}

// coqGroup: GroupCase cond_ops cond_views hook_ops hook_views.
func coqGroup(g *group, cp probed, ps []probed) string {
	var cops, hops []string
	emit := func(slot int, ops []rop) {
		for _, op := range ops {
			switch op.Op {
			case "addcond":
				cops = append(cops, fmt.Sprintf("SAdd %d %s", slot, hk.CoqZ(int64(op.Cond.ID))))
			case "setcond":
				cops = append(cops, fmt.Sprintf("SSet %d %s", slot, hk.CoqZ(int64(op.Cond.ID))))
			case "addhook":
				hops = append(hops, fmt.Sprintf("SAdd %d %s", slot, hk.CoqZ(int64(op.Hook.ID))))
			case "sethook":
				hops = append(hops, fmt.Sprintf("SSet %d %s", slot, hk.CoqZ(int64(op.Hook.ID))))
			}
		}
	}
	for _, st := range g.Steps {
		switch st.Kind {
		case "client":
			emit(0, st.Ops)
		case "new":
			cops = append(cops, "SNew")
			hops = append(hops, "SNew")
		case "req":
			emit(st.Member+1, st.Ops)
		}
	}
	zl := func(ids []int) string {
		var xs []string
		for _, i := range ids {
			xs = append(xs, hk.CoqZ(int64(i)))
		}
		return hk.CoqList(xs)
	}
	cv, hv := []string{zl(cp.Conds)}, []string{zl(cp.Hooks)}
	for _, p := range ps {
		cv = append(cv, zl(p.Conds))
		hv = append(hv, zl(p.Hooks))
	}
	return fmt.Sprintf("GroupCase %s %s %s %s", hk.CoqList(cops), hk.CoqList(cv), hk.CoqList(hops), hk.CoqList(hv))
}

var _ = strings.Join
