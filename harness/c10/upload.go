package main

// Multipart file uploads under retry: the kinds of file source a caller can hand to the
// request (SetFileBytes, SetFile by path, SetFileReader with several kinds of reader), the
// files on disk they need, and the part-level expectations of the oracle.

import (
	"fmt"
	"io"
	"mime"
	"mime/multipart"
	"net/http"
	"os"
	"path/filepath"
	"sort"
	"strings"

	"github.com/imroc/req/v3/verifharness/hk"
)

// nopSeekCloser: an io.ReadSeeker + io.Closer whose Close does nothing (the request closes a
// file's content after every attempt).
type nopSeekCloser struct{ *strings.Reader }

func (nopSeekCloser) Close() error { return nil }

var uploadDir string

// setupUploads writes one file per (content, name) combination under dir.
func setupUploads(dir string) error {
	uploadDir = dir
	for i, b := range bodies {
		for _, n := range []string{"a.txt", "b.bin"} {
			d := filepath.Join(dir, fmt.Sprint(i))
			if err := os.MkdirAll(d, 0o755); err != nil {
				return err
			}
			if err := os.WriteFile(filepath.Join(d, n), []byte(b), 0o644); err != nil {
				return err
			}
		}
	}
	return nil
}

func uploadPath(f mpFile) string {
	for i, b := range bodies {
		if b == f.Content {
			return filepath.Join(uploadDir, fmt.Sprint(i), f.Name)
		}
	}
	return filepath.Join(uploadDir, "missing", f.Name)
}

// bodySig: body kind for failure signatures; multipart bodies list the kinds of file source
// other than SetFileBytes.
func bodySig(sh *shape) string {
	if sh.BodyKind != "multipart" {
		return sh.BodyKind
	}
	set := map[string]bool{}
	for _, f := range sh.MPFiles {
		if f.Kind != "bytes" {
			set[f.Kind] = true
		}
	}
	var ks []string
	for k := range set {
		ks = append(ks, k)
	}
	sort.Strings(ks)
	s := "multipart"
	for _, k := range ks {
		s += "+" + k
	}
	return s
}

type filePart struct{ Param, Name, Content string }

// fileParts extracts the file parts of a multipart body in order.
func fileParts(ct, body string) ([]filePart, bool) {
	_, params, err := mime.ParseMediaType(ct)
	if err != nil || params["boundary"] == "" {
		return nil, false
	}
	mr := multipart.NewReader(strings.NewReader(body), params["boundary"])
	var out []filePart
	for {
		p, err := mr.NextRawPart()
		if err == io.EOF {
			return out, true
		}
		if err != nil {
			return out, false
		}
		b, _ := io.ReadAll(p)
		if p.FileName() != "" {
			out = append(out, filePart{p.FormName(), p.FileName(), string(b)})
		}
	}
}

// pad512: writeMultipartFormFile detects the content type on its whole zeroed 512-byte buffer.
func pad512(c string) []byte {
	b := make([]byte, 512)
	copy(b, c)
	return b
}

var coqKind = map[string]string{"bytes": "FBytes", "path": "FPath", "seekcloser": "FSeekNoClose", "reader": "FSeekReader", "buffer": "FPlainReader", "customseek": "FCustomSeek", "customplain": "FCustomPlain", "osfile": "FOsFile"}

// coqUpload renders a multipart program as an UploadCase: the request-level form fields, the
// file sources, the content-type oracle table, and per attempt the parts seen on the wire
// (fields sorted by name, then the file parts in order).
func coqUpload(p *program, o *observation) (string, bool) {
	sh := &p.Shape
	if (p.payloadForbidden() || len(o.Wires) == 0) && !o.UpFront {
		return "", false
	}
	var files, tab []string
	seen := map[string]bool{}
	addTab := func(c string) {
		if !seen[c] {
			seen[c] = true
			k := pad512(c)
			tab = append(tab, hk.CoqPair(hk.CoqStr(c), hk.CoqStr(http.DetectContentType(k)))) // keyed by the content; Coq pads
		}
	}
	addTab("")
	for _, f := range sh.MPFiles {
		if f.Skip > 0 { // the model computes what is left of the source at hand-over
			files = append(files, fmt.Sprintf("mfile_at %s %s %s (mkSrc %s %d%%nat) %s", hk.CoqStr(f.Param), hk.CoqStr(f.Name), coqKind[f.Kind], hk.CoqStr(f.handedOver()), f.Skip, hk.CoqBool(p.Exec > 0)))
		} else {
			files = append(files, fmt.Sprintf("mkFile %s %s %s %s %s", hk.CoqStr(f.Param), hk.CoqStr(f.Name), coqKind[f.Kind], hk.CoqStr(f.Content), hk.CoqBool(p.Exec > 0))) // used by an earlier execution
		}
		addTab(f.Content)
	}
	var obs []string
	for _, w := range o.Wires {
		ct := ""
		if vs := w.Header["Content-Type"]; len(vs) == 1 {
			ct = vs[0]
		}
		obs = append(obs, hk.CoqPair(coqParts(ct, w.Body, len(sh.Ordered)), hk.CoqBool(!w.BodyErr)))
	}
	// a retry was counted (RetryAttempt) that never reached the wire: the retry was refused
	e := effectiveOf(p)
	failed := !o.UpFront && o.Attempt == len(o.Wires)
	if n := len(o.Wires); failed && n > 0 && n <= len(p.Script) && p.Script[n-1].WaitCancel && e.Interval > 0 {
		failed = false // the retry was abandoned because the context ended, not because an upload failed
	}
	return fmt.Sprintf("UploadCase %s %s %s %s %s %s %s %s %s %s", hk.CoqBool(e.Has && e.N != 0), hk.CoqBool(sh.Chunked), coqCookies(sh.Ordered), coqAmap(sh.CForm), coqAmap(sh.RForm),
		hk.CoqList(files), hk.CoqList(tab), hk.CoqList(obs), hk.CoqBool(failed), hk.CoqBool(o.UpFront)), true
}

func coqParts(ct, body string, nOrdered int) string {
	_, params, err := mime.ParseMediaType(ct)
	if err != nil || params["boundary"] == "" {
		return "[PField [] []]" // not a multipart body: never equal to what the model builds
	}
	mr := multipart.NewReader(strings.NewReader(body), params["boundary"])
	type fld struct{ k, v string }
	var fields []fld
	var filesOut []string
	for {
		pt, err := mr.NextRawPart()
		if err == io.EOF {
			break
		}
		if err != nil {
			return "[PField [] []]"
		}
		b, _ := io.ReadAll(pt)
		if pt.FileName() != "" {
			filesOut = append(filesOut, fmt.Sprintf("PFile %s %s %s %s", hk.CoqStr(pt.FormName()), hk.CoqStr(pt.FileName()), hk.CoqStr(pt.Header.Get("Content-Type")), hk.CoqBytes(b)))
		} else {
			fields = append(fields, fld{pt.FormName(), string(b)})
		}
	}
	// the ordered pairs come first, in the caller's order; the plain form fields after them are in
	// Go map order: sorted by name here
	if nOrdered > len(fields) {
		nOrdered = len(fields)
	}
	rest := fields[nOrdered:]
	sort.SliceStable(rest, func(i, j int) bool { return rest[i].k < rest[j].k })
	var out []string
	for _, f := range fields {
		out = append(out, fmt.Sprintf("PField %s %s", hk.CoqStr(f.k), hk.CoqStr(f.v)))
	}
	return hk.CoqList(append(out, filesOut...))
}
