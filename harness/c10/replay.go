package main

import (
	"encoding/json"
	"os"

	"github.com/imroc/req/v3/verifharness/hk"
)

// replayC10 re-runs the inputs recorded in a replay file (bin/check --replay): programs
// (oracle failures and model mismatches of kind "run") and backoff triples.  Raw-origin
// programs are regenerated from the seed only.
func replayC10(r *hk.Run) bool {
	b, err := os.ReadFile(r.Replay)
	if err != nil {
		return false
	}
	var rep struct {
		FailingInputs   []struct{ Input json.RawMessage } `json:"failing_inputs"`
		ModelMismatches []struct{ Input json.RawMessage } `json:"model_mismatches"`
	}
	if json.Unmarshal(b, &rep) != nil {
		return false
	}
	n := 0
	one := func(raw json.RawMessage) {
		var desc struct {
			Program *program        `json:"program"`
			Input   json.RawMessage `json:"input"`
		}
		if json.Unmarshal(raw, &desc) == nil {
			if desc.Program != nil && len(desc.Program.Script) > 0 {
				runProgram(r, desc.Program)
				n++
				return
			}
			if len(desc.Input) > 0 {
				raw = desc.Input
			}
		}
		var p program
		if json.Unmarshal(raw, &p) == nil && len(p.Script) > 0 {
			runProgram(r, &p)
			n++
			return
		}
		var t struct {
			Min     *int64 `json:"min_ns"`
			Max     *int64 `json:"max_ns"`
			Attempt *int   `json:"attempt"`
		}
		if json.Unmarshal(raw, &t) == nil && t.Min != nil && t.Max != nil && t.Attempt != nil {
			backoffOne(r, *t.Min, *t.Max, *t.Attempt)
			n++
		}
	}
	for _, f := range rep.FailingInputs {
		one(f.Input)
	}
	for _, f := range rep.ModelMismatches {
		one(f.Input)
	}
	r.Notes = append(r.Notes, "replayed inputs from "+r.Replay)
	return n > 0
}

var _ = hk.NewRand
