package main

// A slice of programs over a REAL local origin: the request is captured as the server
// parsed it off the socket (request line, every header, complete body); a scripted error is
// a connection closed without an answer.  Keep-alives are off so that the transport's own
// transparent retry of requests on reused connections cannot add requests of its own.
// Dump and trace are switched on for half of the programs (per-attempt cleanup code).

import (
	"fmt"
	"io"
	"net"
	"net/http"
	"sort"
	"strings"
	"sync"
	"time"

	req "github.com/imroc/req/v3"
	"github.com/imroc/req/v3/verifharness/hk"
)

type rawHit struct {
	Line   string
	Header string
	Body   string
}

func rawOrigin(r *hk.Run, rng *hk.Rand) {
	var mu sync.Mutex
	hits := map[string][]rawHit{}
	scripts := map[string][]int{} // status, or 0 = close the connection without answering
	srv := &http.Server{Handler: http.HandlerFunc(func(w http.ResponseWriter, q *http.Request) {
		id := q.Header.Get("X-Case")
		b, _ := io.ReadAll(q.Body)
		var hs []string
		for k, vs := range q.Header {
			hs = append(hs, fmt.Sprintf("%s=%q", k, vs))
		}
		sort.Strings(hs)
		mu.Lock()
		step := len(hits[id])
		hits[id] = append(hits[id], rawHit{Line: q.Method + " " + q.RequestURI + " host=" + q.Host + fmt.Sprintf(" te=%v cl=%d", q.TransferEncoding, q.ContentLength), Header: strings.Join(hs, "\n"), Body: string(b)})
		sc := scripts[id]
		mu.Unlock()
		st := 200
		if step < len(sc) {
			st = sc[step]
		}
		if st == 0 {
			if hj, ok := w.(http.Hijacker); ok {
				if conn, _, err := hj.Hijack(); err == nil {
					conn.Close()
					return
				}
			}
			st = 500
		}
		w.Header().Set("Content-Type", "text/plain")
		w.WriteHeader(st)
		io.WriteString(w, "body")
	})}
	ln, err := net.Listen("tcp", "127.0.0.1:0")
	if err != nil {
		r.Notes = append(r.Notes, "rawOrigin: listen failed: "+err.Error())
		return
	}
	go srv.Serve(ln)
	defer srv.Close()
	base := "http://" + ln.Addr().String()

	n := r.Scale(60, 1200)
	for i := 0; i < n; i++ {
		id := fmt.Sprintf("raw%d", i)
		N := hk.Pick(rng, []int{1, 2, 3, 5})
		depth := rng.Range(1, 5)
		var sc []int
		for j := 0; j < depth; j++ {
			sc = append(sc, hk.Pick(rng, []int{0, 0, 500, 503, 429, 200, 404}))
		}
		sc = append(sc, 200)
		method := hk.Pick(rng, []string{"GET", "POST", "PUT", "DELETE"})
		withCookies, withForm, withDump := rng.Chance(70), rng.Chance(40), rng.Bool()
		bodyKind := hk.Pick(rng, []string{"none", "bytes", "func", "multipart"})
		useCond := rng.Chance(70)
		mu.Lock()
		scripts[id] = sc
		mu.Unlock()

		c := req.C().DisableKeepAlives().SetCommonRetryCount(N).SetCommonRetryFixedInterval(0).
			SetCommonHeader("X-Common", "cv").SetCommonQueryParam("cq", "1")
		if withCookies {
			c.SetCommonCookies(&http.Cookie{Name: "a", Value: "1"}, &http.Cookie{Name: "b", Value: "2"})
		}
		if withForm {
			c.SetCommonFormData(map[string]string{"k": "v"})
		}
		if withDump {
			c.EnableDumpAll().EnableTraceAll()
			c.SetLogger(nil)
			c.EnableDumpAllTo(io.Discard)
		}
		rq := c.R().SetHeader("X-Case", id).SetHeader("X-Req", "rv").SetCookies(&http.Cookie{Name: "rc", Value: "9"}).SetQueryParam("rq", "2")
		reqDump := !withDump && rng.Chance(60)
		if reqDump { // request-level dump buffer and trace: reset before every retry
			rq.EnableDump().EnableTrace()
		}
		if useCond {
			rq.SetRetryCondition(func(resp *req.Response, err error) bool {
				return err != nil || (resp.Response != nil && resp.StatusCode >= 429)
			})
		}
		if !withForm {
			switch bodyKind {
			case "bytes":
				rq.SetBodyString("raw-body-0123456789")
			case "func":
				rq.SetBody(func() (io.ReadCloser, error) { return io.NopCloser(strings.NewReader("func-body")), nil })
			case "multipart":
				rq.SetFileBytes("file", "a.txt", []byte("file-content")).SetFormData(map[string]string{"f": "1"})
			}
		}
		done := make(chan struct{})
		var resp *req.Response
		var rerr error
		var pan string
		go func() {
			defer close(done)
			defer func() {
				if e := recover(); e != nil {
					pan = fmt.Sprint(e)
				}
			}()
			resp, rerr = rq.Send(method, base+"/raw/path")
		}()
		select {
		case <-done:
		case <-time.After(60 * time.Second):
			pan = "watchdog"
		}
		c.GetTransport().CloseIdleConnections()
		mu.Lock()
		obs := hits[id]
		mu.Unlock()
		in := map[string]interface{}{"N": N, "script": sc, "method": method, "client_cookies": withCookies, "client_form": withForm, "dump_trace": withDump, "body": bodyKind, "custom_condition": useCond}
		tag := fmt.Sprintf("[raw,ccookies=%v,cform=%v,body=%s]", withCookies, withForm, bodyKind)
		if pan != "" {
			failCapped(r, hk.Failure{Sig: "raw:panic" + tag, What: "call panicked or hung", Input: in, Got: pan})
			continue
		}
		// expected number of attempts from the property's rule
		want := 0
		for k := 0; k < len(sc); k++ {
			want = k + 1
			if k >= N {
				break
			}
			need := sc[k] == 0
			if useCond {
				need = sc[k] == 0 || sc[k] >= 429
			}
			if !need {
				break
			}
		}
		if len(obs) != want {
			failCapped(r, hk.Failure{Sig: "raw:attempts:count" + tag, What: "number of requests received by the origin differs from the property's rule", Input: in, Got: len(obs), Want: want})
		} else {
			for k := 1; k < len(obs); k++ {
				a, b := obs[0], obs[k]
				if bodyKind == "multipart" && !withForm {
					a, b = rawCanonMP(a), rawCanonMP(b)
				}
				if a != b {
					failCapped(r, hk.Failure{Sig: "raw:identical" + tag, What: fmt.Sprintf("attempt %d received by the origin differs from attempt 0", k), Input: in, Got: b, Want: a})
					break
				}
			}
			last := sc[len(obs)-1]
			if last == 0 {
				if rerr == nil {
					failCapped(r, hk.Failure{Sig: "raw:final" + tag, What: "last attempt failed but no error returned", Input: in})
				}
			} else if rerr != nil || resp.StatusCode != last {
				failCapped(r, hk.Failure{Sig: "raw:final" + tag, What: "final response is not the last attempt's", Input: in, Got: fmt.Sprint(rerr), Want: last})
			}
			// the request-level dump buffer is reset before every retry: what Dump() returns
			// afterwards is the last attempt only (one request head, the last status line)
			if reqDump && resp != nil {
				d := resp.Dump()
				nreq := strings.Count(d, method+" /raw/path")
				nresp := strings.Count(d, "HTTP/1.1 ") // status lines only: the request line ends in "HTTP/1.1\r\n"
				wantResp := 1
				if last == 0 {
					wantResp = 0
				}
				okStatus := last == 0 || strings.Contains(d, fmt.Sprintf("HTTP/1.1 %d", last))
				if nreq != 1 || nresp != wantResp || !okStatus {
					failCapped(r, hk.Failure{Sig: "raw:dump-not-last-attempt" + tag, What: "Dump() after a retried call is not the dump of the last attempt alone", Input: in,
						Got: map[string]interface{}{"request_heads": nreq, "http_lines": nresp, "last_status_seen": okStatus}, Want: "1 request head, last attempt's status line"})
				}
				r.Count("raw.request-dump-checked")
			}
		}
		r.Count("raw.programs")
		r.Count(fmt.Sprintf("raw.attempts=%d", len(obs)))
		r.Add(hk.Case{Desc: map[string]interface{}{"kind": "raw", "input": in, "attempts": len(obs)}}, fmt.Sprint("raw|", in), len(obs) >= 2)
	}
}

// rawCanonMP: multipart attempts are compared by parts (fresh random boundary per attempt).
func rawCanonMP(h rawHit) rawHit {
	var ct string
	var lines []string
	for _, l := range strings.Split(h.Header, "\n") {
		if strings.HasPrefix(l, "Content-Type=") {
			ct = strings.TrimSuffix(strings.TrimPrefix(l, `Content-Type=["`), `"]`)
			l = "Content-Type=multipart"
		}
		lines = append(lines, l)
	}
	if cb, ok := canonMultipart(ct, h.Body, nil); ok {
		return rawHit{Line: h.Line, Header: strings.Join(lines, "\n"), Body: cb}
	}
	return h
}
