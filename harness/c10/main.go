package main

// C10 - retry: bounded, condition-driven, every attempt sends the same request.
//
// A generated *program* = client-level and request-level retry setters (count, conditions,
// hooks, interval function; Set vs Add), a request shape (client+request headers, cookies,
// query, form data, a body of some kind, a method), request-level after-response
// middlewares, and a script of per-attempt transport outcomes.  The program is executed on
// a real req.Client whose transport is replaced (Transport.WrapRoundTripFunc) by a stub that
// captures every outgoing *http.Request completely (body read to EOF) and answers from the
// script.  A slice of programs runs against a real local origin instead (rawnet.go).
//
// Oracle (Go, from the property text, independent of the Coq model): see oracle().

import (
	"bytes"
	"context"
	"encoding/json"
	"encoding/xml"
	"errors"
	"fmt"
	"io"
	"net/http"
	"net/url"
	"os"
	"runtime/debug"
	"sort"
	"strings"
	"sync"
	"sync/atomic"
	"time"

	req "github.com/imroc/req/v3"
	"github.com/imroc/req/v3/verifharness/hk"
)

func main() { hk.Main("C10", runC10, syncers) }

// ---------- program ----------

type kvs struct {
	K  string   `json:"k"`
	Vs []string `json:"vs"`
}

type condSpec struct {
	ID   int    `json:"id"`
	Kind string `json:"kind"` // err | ge | eq | errorge | true | false
	Arg  int    `json:"arg"`
}

type hookSpec struct {
	ID   int    `json:"id"`
	Kind string `json:"kind"` // nop | sethdr | newctx
	Key  string `json:"key,omitempty"`
	Val  string `json:"val,omitempty"`
}

type rop struct {
	Op       string    `json:"op"` // count | interval | setcond | addcond | sethook | addhook
	N        int       `json:"n,omitempty"`
	Interval int       `json:"interval,omitempty"` // id > 0: logging zero-duration function; -2: built-in backoff 1..3ms
	Cond     *condSpec `json:"cond,omitempty"`
	Hook     *hookSpec `json:"hook,omitempty"`
}

type outcome struct {
	Kind   string `json:"kind"` // status | statuscancel | statusexpired (response in, then the context ends) | bodyerr (the response head arrives, the body breaks off while it is read) | wrapnil (the wrapper answers (nil, err)) | wrapboth (the wrapper hands back the response and an unrecorded error) | err | wrapcancel | ctxcancel | deadline (error only) | expired (context past its deadline)
	Status int    `json:"status,omitempty"`
	// cookies the response sets (Path=/): stored in the client's jar, sent with later attempts
	SetCookie [][2]string `json:"setcookie,omitempty"`
	// the request's context is cancelled while the loop is between this attempt and the next
	// (done by the logging interval function when it is asked for the wait after this attempt)
	WaitCancel bool `json:"waitcancel,omitempty"`
	// the transport answers after taking only the first bytes of the request body and goes on
	// uploading the rest while the next attempt is already under way (as an HTTP/2 transport
	// does when the peer answers early)
	LateBody bool `json:"latebody,omitempty"`
	// after this attempt another user of the shared client sets this client-level header
	ClientHdr *[2]string `json:"client_hdr,omitempty"`
}

type shape struct {
	Method     string      `json:"method"`
	RawQuery   string      `json:"rawquery"`
	CHeaders   []kvs       `json:"cheaders"`
	RHeaders   []kvs       `json:"rheaders"`
	CCookies   [][2]string `json:"ccookies"`
	RCookies   [][2]string `json:"rcookies"`
	CForm      []kvs       `json:"cform"`
	RForm      []kvs       `json:"rform"`
	CQuery     []kvs       `json:"cquery"`
	RQuery     []kvs       `json:"rquery"`
	BodyKind   string      `json:"bodykind"` // none | bytes | string | func | marshal | reader | readcloser | multipart
	Body       string      `json:"body"`
	DenyGetPay bool        `json:"denygetpayload"`
	MPFiles    []mpFile    `json:"mpfiles,omitempty"`
	MPBoundary string      `json:"mpboundary,omitempty"`
	Chunked    bool        `json:"chunked,omitempty"`   // EnableForceChunkedEncoding (multipart written into a pipe)
	CloseConn  bool        `json:"closeconn,omitempty"` // EnableCloseConnection: every attempt asks for "Connection: close"
	Debug      string      `json:"debug,omitempty"`     // debuglog (EnableDebugLog) | dumptrace (dump + trace on for every request)
	Path       string      `json:"path,omitempty"`      // path of the URL with {name} placeholders (default /p/a)
	CPParams   [][2]string `json:"cpparams,omitempty"`  // client-level path parameters
	RPParams   [][2]string `json:"rpparams,omitempty"`  // request-level path parameters
	Ordered    [][2]string `json:"ordered,omitempty"`   // SetOrderedFormData pairs
}

type mpFile struct {
	Param, Name, Content string
	Kind                 string // bytes | path | seekcloser | reader | buffer | osfile | customseek | customplain
	// SetFileReader kinds: the caller has already read this many bytes (a header, a magic
	// number) from the reader before handing it over; Content is what is left to upload
	Skip int `json:"skip,omitempty"`
}

// handedOver: the text a SetFileReader source is built over - Skip bytes the caller consumes
// first, then the content to upload.
func (f mpFile) handedOver() string { return strings.Repeat("#", f.Skip) + f.Content }

func consume(rd io.Reader, n int) {
	if n > 0 {
		io.CopyN(io.Discard, rd, int64(n))
	}
}

type afterSpec struct {
	FailAt int `json:"failat"` // attempt index at which the middleware returns an error; -1 = never
}

type program struct {
	ClientOps []rop       `json:"client_ops"`
	ReqOps    []rop       `json:"request_ops"`
	Shape     shape       `json:"shape"`
	After     []afterSpec `json:"after"`
	Script    []outcome   `json:"script"`
	// a client-level WrapRoundTrip wrapper is installed (it passes the inner result on, except
	// for the outcome kinds wrapnil / wrapboth)
	Wrap bool `json:"wrap,omitempty"`
	// how the request is executed: send (Send-based verbs) | do (Do(ctx)) | doplain (SetContext + Do())
	Via string `json:"via,omitempty"`
	// the SAME Request object executed again afterwards, each time with a script of its own
	Reexec []reexecSpec `json:"reexec,omitempty"`
	// RetryAttempt the request object carries into this execution (left by the previous one)
	Stale int `json:"stale_attempt,omitempty"`
	// which execution of the Request object this is (0 = the first)
	Exec int `json:"exec,omitempty"`
	// how the request gets its context: "" = SetContext / Do(ctx) before the execution starts;
	// "middleware" = a client OnBeforeRequest middleware installs it after Do has started
	CtxVia string `json:"ctx_via,omitempty"`
}

type reexecSpec struct {
	Via    string    `json:"via"`
	Script []outcome `json:"script"`
}

// ---------- observation ----------

type wireObs struct {
	Method  string              `json:"method"`
	URL     string              `json:"url"`
	Path    string              `json:"path"`
	Query   string              `json:"query"`
	Header  map[string][]string `json:"header"`
	Cookies [][2]string         `json:"cookies"`
	HasBody bool                `json:"hasbody"`
	Body    string              `json:"body"`
	CLen    int64               `json:"clen"`
	BodyErr bool                `json:"bodyerr,omitempty"` // reading the body ended with an error
	// the fields of the outgoing http.Request that are not headers
	Close    bool     `json:"close,omitempty"` // Request.Close: "Connection: close" on the wire
	Host     string   `json:"host,omitempty"`
	TE       []string `json:"te,omitempty"` // TransferEncoding
	Proto    string   `json:"proto,omitempty"`
	Trailers []string `json:"trailers,omitempty"`
}

type callObs struct {
	ID, Attempt, Status, Err int
}

type observation struct {
	Wires      []wireObs
	Conds      []callObs
	Hooks      []callObs
	Ivals      []callObs
	Status     int
	Err        int
	ErrText    string
	Attempt    int
	UpFront    bool
	RespNil    bool
	Panicked   string
	PanicStack string
	ErrVsResp  bool        // resp.Err == returned err
	Jar0       [][2]string // what the client's cookie jar held when the request was sent (groups)
}

func errCode(err error) int {
	if err == nil {
		return 0
	}
	s := err.Error()
	for _, c := range []int{1, 2, 4, 5, 6, 7, 8} {
		if strings.Contains(s, fmt.Sprintf("E%d!", c)) {
			return c
		}
	}
	if i := strings.Index(s, "AFTER"); i >= 0 {
		var n int
		fmt.Sscanf(s[i:], "AFTER%d", &n)
		return 90 + n
	}
	if errors.Is(err, context.Canceled) {
		return 3
	}
	if err == req.VerifC10ErrUnreplayable {
		return -1
	}
	return 100
}

func viewOf(resp *req.Response, err error) (int, int) {
	st := -1
	if resp != nil && resp.Response != nil {
		st = resp.StatusCode
	}
	return st, errCode(err)
}

func condEval(c *condSpec, st int, hasErr bool) bool {
	switch c.Kind {
	case "err":
		return hasErr
	case "ge":
		return st >= 0 && st >= c.Arg
	case "eq":
		return st >= 0 && st == c.Arg
	case "errorge":
		return hasErr || (st >= 0 && st >= c.Arg)
	case "true":
		return true
	}
	return false
}

const baseHost = "http://c10.test"

func toValues(l []kvs) url.Values {
	v := url.Values{}
	for _, e := range l {
		v[e.K] = append([]string{}, e.Vs...)
	}
	return v
}

func toHeader(l []kvs) http.Header {
	h := http.Header{}
	for _, e := range l {
		h[e.K] = append([]string{}, e.Vs...)
	}
	return h
}

func toCookies(l [][2]string) []*http.Cookie {
	var cs []*http.Cookie
	for _, e := range l {
		cs = append(cs, &http.Cookie{Name: e[0], Value: e[1]})
	}
	return cs
}

// One request of a program run: its observation, scripted context and attempt counter.  Every
// closure handed to the client or the request (conditions, hooks, interval functions, the
// transport stub) finds the run state of the request it is working for through the
// request's context, so that several requests can be built from ONE client first and sent
// afterwards.
type runState struct {
	p       *program
	o       observation
	ctx     *scriptCtx
	attempt int        // index of the attempt in flight
	opened  []*os.File // *os.File upload sources handed to SetFileReader
	r       *req.Request
	c       *req.Client
	probe   *[]int        // non-nil: conditions / hooks only record their id here (see probeFuncs)
	pending io.ReadCloser // the rest of an earlier attempt's body, still being "uploaded"
	pendIdx int
}

// the run state of a request, for code that cannot go through the request's context (the
// middleware that installs the context)
var reqStates sync.Map // *req.Request -> *runState

// drainPending finishes the upload of the earlier attempt's body.
func (rs *runState) drainPending() {
	if rs.pending == nil {
		return
	}
	b, rerr := io.ReadAll(rs.pending)
	rs.pending.Close()
	w := &rs.o.Wires[rs.pendIdx]
	w.Body += string(b)
	w.BodyErr = w.BodyErr || rerr != nil
	rs.pending = nil
}

type rsKey struct{}

func stateOfCtx(ctx context.Context) *runState {
	rs, _ := ctx.Value(rsKey{}).(*runState)
	return rs
}

func stateOf(resp *req.Response) *runState { return stateOfCtx(resp.Request.Context()) }

// roundTrip: the scripted transport for one request.
func (rs *runState) roundTrip(q *http.Request) (*http.Response, error) {
	p := rs.p
	_ = p
	rs.attempt++
	if rs.attempt >= len(rs.p.Script)+2 {
		// runaway retry loop (every script ends in a cancellation that must stop it): end it
		// the hard way; the oracle reports attempts:beyond-script
		if rs.attempt >= len(rs.p.Script)+40 {
			panic("harness: runaway retry loop")
		}
		return nil, fmt.Errorf("E2! harness stop: %w", context.Canceled)
	}
	w := wireObs{Method: q.Method, URL: q.URL.Scheme + "://" + q.URL.Host + q.URL.Path, Path: q.URL.Path, Query: q.URL.RawQuery,
		Header: map[string][]string{}, CLen: q.ContentLength, Close: q.Close, Host: q.Host, TE: append([]string{}, q.TransferEncoding...),
		Proto: fmt.Sprintf("%s/%d.%d", q.Proto, q.ProtoMajor, q.ProtoMinor)}
	for k := range q.Trailer {
		w.Trailers = append(w.Trailers, k)
	}
	sort.Strings(w.Trailers)
	for k, vs := range q.Header {
		w.Header[k] = append([]string{}, vs...)
	}
	for _, ck := range q.Cookies() {
		w.Cookies = append(w.Cookies, [2]string{ck.Name, ck.Value})
	}
	var oc outcome
	if rs.attempt < len(rs.p.Script) {
		oc = rs.p.Script[rs.attempt]
	} else {
		oc = outcome{Kind: "ctxcancel"} // never reached: every script ends with a cancel
	}
	if q.Body != nil {
		// the first bytes of this attempt's body, then whatever an earlier attempt still has to
		// upload, then the rest - unless this attempt's rest is left for later too
		head := make([]byte, 3)
		n, rerr := io.ReadFull(q.Body, head)
		w.HasBody, w.Body = true, string(head[:n])
		rs.o.Wires = append(rs.o.Wires, w)
		idx := len(rs.o.Wires) - 1
		rs.drainPending()
		if rerr == nil && oc.LateBody {
			rs.pending, rs.pendIdx = q.Body, idx
		} else {
			if rerr == nil {
				var b []byte
				b, rerr = io.ReadAll(q.Body)
				rs.o.Wires[idx].Body += string(b)
			} else if rerr == io.EOF || rerr == io.ErrUnexpectedEOF {
				rerr = nil // a body shorter than the first read
			}
			q.Body.Close()
			rs.o.Wires[idx].BodyErr = rerr != nil
		}
	} else {
		rs.o.Wires = append(rs.o.Wires, w)
		rs.drainPending()
	}
	if oc.ClientHdr != nil && rs.c != nil {
		rs.c.SetCommonHeader(oc.ClientHdr[0], oc.ClientHdr[1]) // "another party", between this attempt and the next
	}
	switch oc.Kind {
	case "status":
		return statusResponse(oc, q), nil
	case "statuscancel", "statusexpired":
		// the response arrives complete and without error; the request's context ends
		// before the loop decides about a retry
		if oc.Kind == "statuscancel" {
			rs.ctx.end(context.Canceled)
		} else {
			rs.ctx.end(context.DeadlineExceeded)
		}
		return statusResponse(oc, q), nil
	case "bodyerr": // the head arrives; the body breaks off while the client reads it
		resp := statusResponse(oc, q)
		resp.Body, resp.ContentLength = &brokenBody{data: []byte("part")}, 10
		return resp, nil
	case "wrapnil", "wrapboth": // the transport answers; the client-level wrapper changes the result
		if oc.Status == 0 {
			oc.Status = 200
		}
		return statusResponse(oc, q), nil
	case "err":
		return nil, errors.New("E1! transport failure")
	case "wrapcancel":
		return nil, fmt.Errorf("E2! wrapped: %w", context.Canceled)
	case "deadline":
		return nil, fmt.Errorf("E4! wrapped: %w", context.DeadlineExceeded)
	case "expired": // the request's context passes its deadline during this attempt
		rs.ctx.end(context.DeadlineExceeded)
		return nil, fmt.Errorf("E5! wrapped: %w", context.DeadlineExceeded)
	default: // ctxcancel
		rs.ctx.end(context.Canceled)
		return nil, rs.ctx.Err() // context.Canceled (q.Context() may be a derived context that learns of it asynchronously)
	}
}

// newClient: a fresh real client whose transport is the scripted stub, with the program's
// client-level configuration (headers, cookies, form, query, path parameters ...).
func newClient(p *program) *req.Client {
	c := req.C()
	c.GetTransport().WrapRoundTripFunc(func(rt http.RoundTripper) req.HttpRoundTripFunc {
		return func(q *http.Request) (*http.Response, error) {
			rs := stateOfCtx(q.Context())
			if rs == nil {
				return nil, errors.New("harness: request without run state")
			}
			return rs.roundTrip(q)
		}
	})
	// the usual way to give every request its context: a client middleware, run after Do started
	c.OnBeforeRequest(func(_ *req.Client, r *req.Request) error {
		if v, ok := reqStates.Load(r); ok {
			if rs := v.(*runState); rs.p.CtxVia == "middleware" {
				r.SetContext(rs.ctx)
			}
		}
		return nil
	})
	if p.Wrap {
		c.WrapRoundTripFunc(func(rt req.RoundTripper) req.RoundTripFunc {
			return func(rq *req.Request) (*req.Response, error) {
				resp, err := rt.RoundTrip(rq)
				if rs := stateOfCtx(rq.Context()); rs != nil && rs.attempt >= 0 && rs.attempt < len(rs.p.Script) {
					switch rs.p.Script[rs.attempt].Kind {
					case "wrapnil":
						return nil, errors.New("E6! wrapper gives no response")
					case "wrapboth":
						return resp, errors.New("E7! wrapper error next to the response")
					}
				}
				return resp, err
			}
		})
	}
	sh := &p.Shape
	if len(sh.CHeaders) > 0 {
		c.Headers = toHeader(sh.CHeaders)
	}
	if len(sh.CCookies) > 0 {
		c.SetCommonCookies(toCookies(sh.CCookies)...)
	}
	if len(sh.CForm) > 0 {
		c.SetCommonFormDataFromValues(toValues(sh.CForm))
	}
	for _, e := range sh.CQuery {
		c.AddCommonQueryParams(e.K, e.Vs...)
	}
	if sh.DenyGetPay {
		c.AllowGetMethodPayload = false
	}
	switch sh.Debug {
	case "debuglog":
		c.SetLogger(discardLogger{}).EnableDebugLog()
	case "dumptrace":
		c.EnableDumpAllTo(io.Discard).EnableTraceAll()
	}
	for _, e := range sh.CPParams {
		c.SetCommonPathParam(e[0], e[1])
	}
	if sh.MPBoundary != "" {
		b := sh.MPBoundary
		c.SetMultipartBoundaryFunc(func() string { return b })
	}
	return c
}

func mkCond(cs *condSpec) req.RetryConditionFunc {
	return func(resp *req.Response, err error) bool {
		rs := stateOf(resp)
		if rs.probe != nil {
			*rs.probe = append(*rs.probe, cs.ID)
			return false
		}
		st, ec := viewOf(resp, err)
		rs.o.Conds = append(rs.o.Conds, callObs{cs.ID, rs.attempt, st, ec})
		return condEval(cs, st, err != nil)
	}
}

func mkHook(hs *hookSpec) req.RetryHookFunc {
	return func(resp *req.Response, err error) {
		rs := stateOf(resp)
		if rs.probe != nil {
			*rs.probe = append(*rs.probe, hs.ID)
			return
		}
		st, ec := viewOf(resp, err)
		rs.o.Hooks = append(rs.o.Hooks, callObs{hs.ID, resp.Request.RetryAttempt, st, ec})
		if hs.Kind == "sethdr" {
			resp.Request.SetHeader(hs.Key, hs.Val)
		}
		if hs.Kind == "newctx" { // the caller replaces the request's context before the retry
			nc := newScriptCtx()
			nc.rs = rs
			rs.ctx = nc
			resp.Request.SetContext(nc)
		}
	}
}

func mkIval(id int) req.GetRetryIntervalFunc {
	return func(resp *req.Response, att int) time.Duration {
		rs := stateOf(resp)
		st, _ := viewOf(resp, resp.Err)
		rs.o.Ivals = append(rs.o.Ivals, callObs{id, att, st, errCode(resp.Err)})
		if rs.attempt >= 0 && rs.attempt < len(rs.p.Script) && rs.p.Script[rs.attempt].WaitCancel {
			rs.ctx.end(context.Canceled) // the caller gives up while the retry is being prepared
			if id%3 == 0 {
				// ... and the goroutine is held up until the (positive) interval is over as well: the
				// wait then finds the interval elapsed AND the context ended, and must not go on
				// (sleepContext's select took either case at random; seen once on a loaded machine)
				rs.ctx.slowDone.Store(int64(6 * time.Millisecond))
			}
		}
		if id%3 == 0 {
			return 2 * time.Millisecond // a positive wait (interruptible by the context)
		}
		return 0
	}
}

// applyClientOps: client-level retry setters.
func applyClientOps(c *req.Client, ops []rop) {
	for _, op := range ops {
		switch op.Op {
		case "count":
			c.SetCommonRetryCount(op.N)
		case "interval":
			if op.Interval == -2 {
				c.SetCommonRetryBackoffInterval(time.Millisecond, 3*time.Millisecond)
			} else {
				c.SetCommonRetryInterval(mkIval(op.Interval))
			}
		case "setcond":
			c.SetCommonRetryCondition(mkCond(op.Cond))
		case "addcond":
			c.AddCommonRetryCondition(mkCond(op.Cond))
		case "sethook":
			c.SetCommonRetryHook(mkHook(op.Hook))
		case "addhook":
			c.AddCommonRetryHook(mkHook(op.Hook))
		}
	}
}

// buildRequest: c.R() with the program's request-level setters, shape and middlewares.
func buildRequest(c *req.Client, p *program) *runState {
	rs := &runState{p: p, ctx: newScriptCtx(), attempt: -1, c: c}
	rs.ctx.rs = rs
	sh := &p.Shape
	r := c.R()
	if p.CtxVia != "middleware" {
		r.SetContext(rs.ctx)
	}
	rs.r = r
	reqStates.Store(r, rs)
	for _, op := range p.ReqOps {
		switch op.Op {
		case "count":
			r.SetRetryCount(op.N)
		case "interval":
			if op.Interval == -2 {
				r.SetRetryBackoffInterval(time.Millisecond, 3*time.Millisecond)
			} else {
				r.SetRetryInterval(mkIval(op.Interval))
			}
		case "setcond":
			r.SetRetryCondition(mkCond(op.Cond))
		case "addcond":
			r.AddRetryCondition(mkCond(op.Cond))
		case "sethook":
			r.SetRetryHook(mkHook(op.Hook))
		case "addhook":
			r.AddRetryHook(mkHook(op.Hook))
		}
	}
	if len(sh.RHeaders) > 0 {
		r.Headers = toHeader(sh.RHeaders)
	}
	if len(sh.RCookies) > 0 {
		r.SetCookies(toCookies(sh.RCookies)...)
	}
	if len(sh.RForm) > 0 {
		r.SetFormDataFromValues(toValues(sh.RForm))
	}
	for _, e := range sh.RQuery {
		r.AddQueryParams(e.K, e.Vs...)
	}
	for _, e := range sh.RPParams {
		r.SetPathParam(e[0], e[1])
	}
	if sh.CloseConn {
		r.EnableCloseConnection()
	}
	for _, e := range sh.Ordered {
		r.SetOrderedFormData(e[0], e[1])
	}
	switch sh.BodyKind {
	case "bytes":
		r.SetBodyBytes([]byte(sh.Body))
	case "string":
		r.SetBody(sh.Body)
	case "marshal": // a struct: marshalled by the request middleware on every attempt
		r.SetBody(marshalDoc{A: 7, B: sh.Body})
	case "func":
		b := sh.Body
		r.SetBody(func() (io.ReadCloser, error) { return io.NopCloser(strings.NewReader(b)), nil })
	case "reader":
		r.SetBody(bytes.NewBufferString(sh.Body))
	case "readcloser":
		r.SetBody(io.NopCloser(strings.NewReader(sh.Body)))
	case "multipart":
		r.EnableForceMultipart()
		if sh.Chunked {
			r.EnableForceChunkedEncoding()
		}
		for _, f := range sh.MPFiles {
			switch f.Kind {
			case "reader":
				rd := strings.NewReader(f.handedOver())
				consume(rd, f.Skip)
				r.SetFileReader(f.Param, f.Name, rd)
			case "buffer":
				rd := bytes.NewBufferString(f.handedOver())
				consume(rd, f.Skip)
				r.SetFileReader(f.Param, f.Name, rd)
			case "seekcloser":
				rd := nopSeekCloser{strings.NewReader(f.handedOver())}
				consume(rd, f.Skip)
				r.SetFileReader(f.Param, f.Name, rd)
			case "customseek": // the caller's own FileUpload: the same seekable reader on every call
				rd := nopSeekCloser{strings.NewReader(f.Content)}
				r.SetFileUpload(req.FileUpload{ParamName: f.Param, FileName: f.Name, GetFileContent: func() (io.ReadCloser, error) { return rd, nil }})
			case "customplain": // the caller's own FileUpload: the same plain reader on every call
				rd := io.NopCloser(bytes.NewBufferString(f.Content))
				r.SetFileUpload(req.FileUpload{ParamName: f.Param, FileName: f.Name, GetFileContent: func() (io.ReadCloser, error) { return rd, nil }})
			case "path":
				r.SetFile(f.Param, uploadPath(f))
			case "osfile":
				if f.Skip > 0 { // a file of its own: the bytes the caller reads first, then the content
					if fh, err := os.CreateTemp(uploadDir, "skip-*"); err == nil {
						fh.WriteString(f.handedOver())
						fh.Seek(int64(f.Skip), io.SeekStart)
						rs.opened = append(rs.opened, fh)
						r.SetFileReader(f.Param, f.Name, fh)
					}
				} else if fh, err := os.Open(uploadPath(f)); err == nil {
					rs.opened = append(rs.opened, fh)
					r.SetFileReader(f.Param, f.Name, fh)
				}
			default:
				r.SetFileBytes(f.Param, f.Name, []byte(f.Content))
			}
		}
	}
	for i := range p.After {
		a, id := p.After[i], i
		r.OnAfterResponse(func(_ *req.Client, resp *req.Response) error {
			if a.FailAt == rs.attempt {
				return fmt.Errorf("AFTER%d failed", id)
			}
			return nil
		})
	}
	return rs
}

// send fires the request and records the result.
func (rs *runState) send() {
	defer func() {
		rs.ctx.end(context.Canceled)
		for _, fh := range rs.opened {
			fh.Close()
		}
	}()
	sh := &rs.p.Shape
	u := baseHost + sh.path()
	if sh.RawQuery != "" {
		u += "?" + sh.RawQuery
	}
	done := make(chan struct{})
	var resp *req.Response
	var err error
	go func() {
		defer close(done)
		defer func() {
			if e := recover(); e != nil {
				rs.o.Panicked = fmt.Sprint(e)
				rs.o.PanicStack = string(debug.Stack())
			}
		}()
		late := rs.p.CtxVia == "middleware" // the context is installed by the client middleware
		if late {
			rs.r.SetContext(context.Background())
		} else if rs.p.Via != "do" {
			rs.r.SetContext(rs.ctx)
		}
		switch rs.p.Via {
		case "do":
			rs.r.Method, rs.r.RawURL = sh.Method, u
			if late {
				resp = rs.r.Do()
			} else {
				resp = rs.r.Do(rs.ctx)
			}
			err = resp.Err
		case "doplain":
			rs.r.Method, rs.r.RawURL = sh.Method, u
			resp = rs.r.Do()
			err = resp.Err
		default:
			resp, err = rs.r.Send(sh.Method, u)
		}
		rs.drainPending()
	}()
	select {
	case <-done:
	case <-time.After(60 * time.Second):
		rs.o.Panicked = "watchdog: call did not return within 60s"
		rs.ctx.end(context.Canceled)
		<-done
	}
	if resp == nil {
		rs.o.RespNil = true
		rs.o.Status, rs.o.Err = -1, errCode(err)
		return
	}
	rs.o.Status, rs.o.Err = viewOf(resp, resp.Err)
	if resp.Err != nil {
		rs.o.ErrText = resp.Err.Error()
	}
	rs.o.ErrVsResp = resp.Err == err
	rs.o.Attempt = rs.r.RetryAttempt
	rs.o.UpFront = resp.Err == req.VerifC10ErrUnreplayable
}

// execute runs the program on a fresh real client and returns what happened.
func execute(p *program) observation {
	c := newClient(p)
	applyClientOps(c, p.ClientOps)
	rs := buildRequest(c, p)
	rs.send()
	return rs.o
}

// again: the same Request object executed once more as program q (same settings, another
// script / entry point), with a fresh scripted context and a fresh observation.
func (rs *runState) again(q *program, jar0 [][2]string) observation {
	rs.p = q
	rs.o = observation{Jar0: jar0}
	rs.ctx = newScriptCtx()
	rs.ctx.rs = rs
	rs.attempt = -1
	rs.send()
	return rs.o
}

// executions: the program's first execution and its re-executions as programs of their own
// (what the oracle and the Coq model judge: every execution starts afresh).
func (p *program) executions() []*program {
	first := *p
	first.Reexec = nil
	out := []*program{&first}
	for _, re := range p.Reexec {
		q := first
		q.Via, q.Script, q.Exec = re.Via, re.Script, len(out)
		out = append(out, &q)
	}
	return out
}

// ---------- oracle: the property, decided on the observation without the Coq model ----------

type effective struct {
	Has      bool // a retry option exists at all
	N        int
	Conds    []*condSpec
	Hooks    []*hookSpec
	Interval int
}

// effectiveOf: the caller's effective policy. Request.Set* replaces what the request
// inherited from the client, Add* appends to it.
func effectiveOf(p *program) effective {
	var e effective
	for _, ops := range [][]rop{p.ClientOps, p.ReqOps} {
		for _, op := range ops {
			e.Has = true
			switch op.Op {
			case "count":
				e.N = op.N
			case "interval":
				e.Interval = op.Interval
			case "setcond":
				e.Conds = []*condSpec{op.Cond}
			case "addcond":
				e.Conds = append(e.Conds, op.Cond)
			case "sethook":
				e.Hooks = []*hookSpec{op.Hook}
			case "addhook":
				e.Hooks = append(e.Hooks, op.Hook)
			}
		}
	}
	return e
}

func outcomeView(oc outcome) (st int, ec int, cancelled bool) {
	switch oc.Kind {
	case "status":
		return oc.Status, 0, false
	case "statuscancel", "statusexpired":
		return oc.Status, 0, true
	case "bodyerr":
		return oc.Status, 8, false
	case "wrapnil":
		return -1, 6, false
	case "wrapboth":
		return oc.Status, 7, false
	case "err":
		return -1, 1, false
	case "wrapcancel":
		return -1, 2, true
	case "deadline":
		return -1, 4, false
	case "expired":
		return -1, 5, true
	}
	return -1, 3, true
}

func (p *program) unreplayable() bool {
	if p.Shape.BodyKind == "multipart" {
		// SetFileReader with a reader that is not an io.Seeker, or with an *os.File (closed
		// after the first upload): can be uploaded only once
		for _, f := range p.Shape.MPFiles {
			if f.Kind == "buffer" || f.Kind == "osfile" {
				return true
			}
		}
		return false
	}
	return p.Shape.BodyKind == "reader" || p.Shape.BodyKind == "readcloser"
}

func (p *program) mutatingHook(e effective) bool {
	for _, h := range e.Hooks {
		if h.Kind == "sethdr" {
			return true
		}
	}
	return false
}

// canonWire renders an outgoing request canonically (multipart bodies are compared by their
// parts, since each attempt may legitimately pick a fresh random boundary and Go map order
// decides the order of form fields).
func canonWire(w wireObs, mask map[[2]string]bool) string {
	var sb strings.Builder
	fmt.Fprintf(&sb, "%s %s?%s\n", w.Method, w.URL, w.Query)
	keys := make([]string, 0, len(w.Header))
	for k := range w.Header {
		keys = append(keys, k)
	}
	sort.Strings(keys)
	body := w.Body
	for _, k := range keys {
		vs := w.Header[k]
		if k == "Content-Type" && len(vs) == 1 && strings.HasPrefix(vs[0], "multipart/form-data") {
			if cb, ok := canonMultipart(vs[0], w.Body, mask); ok {
				vs, body = []string{"multipart/form-data"}, cb
			}
		}
		fmt.Fprintf(&sb, "%s: %q\n", k, vs)
	}
	fmt.Fprintf(&sb, "cookies=%q hasbody=%v clen=%d close=%v host=%s te=%v proto=%s trailers=%v\n%s", w.Cookies, w.HasBody, w.CLen, w.Close, w.Host, w.TE, w.Proto, w.Trailers, body)
	return sb.String()
}

// unreplayedUploads: (param, filename) of multipart file sources whose caller-supplied
// GetFileContent hands out the same plain reader on every call: nothing the request could
// rewind; what such a source yields on a retry is the caller's business (interpretation (g)).
func (p *program) unreplayedUploads() map[[2]string]bool {
	m := map[[2]string]bool{}
	if p.Shape.BodyKind != "multipart" {
		return m
	}
	for _, f := range p.Shape.MPFiles {
		if f.Kind == "customplain" {
			m[[2]string{f.Param, f.Name}] = true
		}
	}
	return m
}

// canonWireNoLen: canonWire with the masked file parts left out and without the
// Content-Length (which changes with them).
func canonWireNoLen(w wireObs, mask map[[2]string]bool) string {
	w.CLen = 0
	h := map[string][]string{}
	for k, vs := range w.Header {
		if k != "Content-Length" {
			h[k] = vs
		}
	}
	w.Header = h
	return canonWire(w, mask)
}

type sig struct{ parts []string }

func (s *sig) add(f string, a ...interface{}) { s.parts = append(s.parts, fmt.Sprintf(f, a...)) }

func shapeSig(p *program) string {
	sh := &p.Shape
	var t []string
	if len(sh.CCookies) > 0 {
		t = append(t, "ccookies")
	}
	if len(sh.CForm) > 0 {
		t = append(t, "cform")
	}
	if len(p.After) > 0 {
		t = append(t, "after")
	}
	t = append(t, "body="+bodySig(sh))
	return strings.Join(t, ",")
}

func oracle(r *hk.Run, p *program, o *observation) {
	e := effectiveOf(p)
	fail := func(sg, what string, got, want interface{}) {
		failCapped(r, hk.Failure{Sig: sg + "[" + shapeSig(p) + "]", What: what, Input: p, Got: got, Want: want})
	}
	if o.Panicked != "" {
		fail("run:panic", "the call panicked or hung", o.Panicked, nil)
		return
	}
	if o.RespNil {
		fail("run:nil-response", "nil response returned", nil, nil)
		return
	}
	n := len(o.Wires)
	// a body that cannot be replayed makes a retryable call fail up front
	if p.unreplayable() && e.Has && e.N != 0 {
		if n != 0 || !o.UpFront {
			fail("unreplayable:not-up-front", "retryable request with an unreplayable body must fail before anything is sent", map[string]interface{}{"attempts": n, "err": o.ErrText}, "0 attempts, errRetryableWithUnReplayableBody")
		}
		return
	}
	if n == 0 {
		fail("run:no-attempt", "no request was attempted", o.ErrText, nil)
		return
	}
	if n > len(p.Script) {
		fail("attempts:beyond-script", "more attempts than the script allows (a cancelled context must stop the loop)", n, len(p.Script))
		return
	}
	// bounded
	if e.N >= 0 && n > e.N+1 {
		fail("attempts:unbounded", "more than N+1 attempts", n, e.N+1)
	}
	// exact: walk the script and decide, from the property text, how many attempts there must be
	want := 0
	var wantHooks, wantIvals, wantConds []callObs
	waitCancelled := false
	afterErr := 0
	for k := 0; k < len(p.Script); k++ {
		want = k + 1
		st, ec, cancelled := outcomeView(p.Script[k])
		stop := false
		for i, a := range p.After {
			if a.FailAt == k {
				afterErr = 90 + i
				stop = true
				break
			}
		}
		if stop || cancelled || !e.Has || (e.N >= 0 && k >= e.N) {
			break
		}
		need := ec != 0
		if len(e.Conds) > 0 {
			// some condition asks for it; they are consulted from the last registered to the
			// first, up to the first that says yes (documented order, visible to the caller
			// through the conditions' side effects)
			need = false
			for i := len(e.Conds) - 1; i >= 0; i-- {
				wantConds = append(wantConds, callObs{e.Conds[i].ID, k, st, ec})
				if condEval(e.Conds[i], st, ec != 0) {
					need = true
					break
				}
			}
		}
		if !need {
			break
		}
		for i := len(e.Hooks) - 1; i >= 0; i-- {
			wantHooks = append(wantHooks, callObs{e.Hooks[i].ID, k + 1, st, ec})
		}
		if e.Interval > 0 {
			wantIvals = append(wantIvals, callObs{e.Interval, k + 1, st, ec})
			if p.Script[k].WaitCancel {
				// the context ended before the next attempt: none is made; the call reports the
				// last attempt's response with the context's error
				waitCancelled = true
				break
			}
		}
	}
	if n != want {
		fail(fmt.Sprintf("attempts:count:%s", cmpWord(n, want)), "number of attempts differs from: retry iff not cancelled, count not exhausted and the conditions (default: an error occurred) ask for it",
			n, want)
		return // the remaining comparisons presuppose the right number of attempts
	}
	// hooks / interval: once per retry, reverse order, attempt number, the attempt's (resp, err)
	if fmt.Sprint(o.Hooks) != fmt.Sprint(wantHooks) {
		fail("hooks:calls", "retry hooks must run once per retry, last registered first, with the attempt number and the attempt's outcome", o.Hooks, wantHooks)
	}
	if fmt.Sprint(o.Ivals) != fmt.Sprint(wantIvals) {
		fail("interval:calls", "the interval function must be called once per retry with the attempt number", o.Ivals, wantIvals)
	}
	// which conditions are consulted, in which order
	if fmt.Sprint(o.Conds) != fmt.Sprint(wantConds) {
		same := len(o.Conds) == len(wantConds)
		if same { // same calls in another order?
			cnt := map[callObs]int{}
			for _, c := range o.Conds {
				cnt[c]++
			}
			for _, c := range wantConds {
				cnt[c]--
			}
			for _, v := range cnt {
				if v != 0 {
					same = false
				}
			}
		}
		sg := "conds:calls"
		if same {
			sg = "conds:order"
		}
		fail(sg, "retry conditions must be consulted for every judged attempt from the last registered to the first, stopping at the first that asks for a retry", o.Conds, wantConds)
	}
	// conditions see the outcome of the attempt they judge
	for _, cc := range o.Conds {
		if cc.Attempt < 0 || cc.Attempt >= len(p.Script) {
			continue
		}
		st, ec, _ := outcomeView(p.Script[cc.Attempt])
		if cc.Status != st || cc.Err != ec {
			fail("conds:args", "a retry condition was not shown the outcome of the attempt it judges", cc, callObs{cc.ID, cc.Attempt, st, ec})
			break
		}
	}
	// every attempt sends the same request
	// cookies: the caller's cookies first, the same on every attempt, then what the client's
	// cookie jar holds (the cookies earlier responses set - server-driven state, not part of
	// "the same request")
	jars, _ := p.jarsBefore(o.Jar0, n)
	callerLen := len(o.Wires[0].Cookies) - len(jars[0])
	if callerLen < 0 || fmt.Sprint(o.Wires[0].Cookies[callerLen:]) != fmt.Sprint(jars[0]) {
		fail("cookies:jar", "first attempt does not carry the jar's cookies after the caller's", o.Wires[0].Cookies, jars[0])
	} else {
		caller := o.Wires[0].Cookies[:callerLen]
		for k := 1; k < n; k++ {
			want := append(append([][2]string{}, caller...), jars[k]...)
			if fmt.Sprint(o.Wires[k].Cookies) != fmt.Sprint(want) {
				sg := "cookies:jar"
				if len(o.Wires[k].Cookies) < callerLen || fmt.Sprint(o.Wires[k].Cookies[:callerLen]) != fmt.Sprint(caller) {
					sg = "identical:cookies"
				}
				fail(sg, fmt.Sprintf("attempt %d does not carry the caller's cookies followed by the cookies set by earlier responses", k), o.Wires[k].Cookies, want)
				break
			}
		}
	}
	if !p.mutatingHook(e) {
		first := canonWire(stripCookies(o.Wires[0]), nil)
		mask := p.unreplayedUploads()
		for k := 1; k < n; k++ {
			if ck := canonWire(stripCookies(o.Wires[k]), nil); ck != first {
				sg := "identical:" + diffField(stripCookies(o.Wires[0]), stripCookies(o.Wires[k]))
				if len(mask) > 0 && canonWireNoLen(stripCookies(o.Wires[k]), mask) == canonWireNoLen(stripCookies(o.Wires[0]), mask) {
					// the only difference is in file parts fed from the caller's own shared plain reader
					r.Count("accepted.caller-reader-drained")
					continue
				}
				fail(sg, fmt.Sprintf("attempt %d does not send the same request as attempt 0", k), ck, first)
				break
			}
		}
	}
	// "Connection: close" exactly when the caller asked for it
	if o.Wires[0].Close != p.Shape.CloseConn {
		fail("connection:close-flag", "first attempt's Close flag is not what the caller set (EnableCloseConnection)", o.Wires[0].Close, p.Shape.CloseConn)
	}
	// the URL path with the caller's path parameters filled in
	if o.Wires[0].Path != p.Shape.expectedPath() {
		fail("url:path-params", "first attempt's URL path is not the template with the path parameters filled in", o.Wires[0].Path, p.Shape.expectedPath())
	}
	// complete body on the first attempt
	if wb, ok := p.expectedBody(); ok && o.Wires[0].Body != wb {
		fail("body:first-attempt", "first attempt does not carry the complete body", o.Wires[0].Body, wb)
	}
	// multipart: the first attempt carries every file, complete and in order
	if p.Shape.BodyKind == "multipart" && !p.payloadForbidden() {
		var wantParts []filePart
		for _, f := range p.Shape.MPFiles {
			wantParts = append(wantParts, filePart{f.Param, f.Name, f.Content})
		}
		ct := ""
		if vs := o.Wires[0].Header["Content-Type"]; len(vs) == 1 {
			ct = vs[0]
		}
		got, ok := fileParts(ct, o.Wires[0].Body)
		if !ok || fmt.Sprint(got) != fmt.Sprint(wantParts) {
			fail("body:first-attempt-files", "first attempt does not carry the complete files of the multipart upload", got, wantParts)
		}
	}
	// the response and error returned are those of the last attempt
	st, ec, _ := outcomeView(p.Script[n-1])
	wantErr := ec
	if wantErr == 0 {
		wantErr = afterErr
	}
	wantAttempt := n - 1
	if waitCancelled {
		wantErr, wantAttempt = 3, n
	}
	if o.Status != st || o.Err != wantErr {
		fail("final:not-last-attempt", "final (status, error) are not those of the last attempt", []int{o.Status, o.Err}, []int{st, wantErr})
	}
	if !o.ErrVsResp {
		fail("final:err-vs-resp", "returned error differs from resp.Err", nil, nil)
	}
	if o.Attempt != wantAttempt {
		fail("final:retry-attempt", "Request.RetryAttempt is not the number of retries made", o.Attempt, wantAttempt)
	}
}

func cmpWord(a, b int) string {
	if a < b {
		return "fewer"
	}
	return "more"
}

func diffField(a, b wireObs) string {
	switch {
	case a.Method != b.Method:
		return "method"
	case a.URL != b.URL || a.Query != b.Query:
		return "url"
	case fmt.Sprint(a.Cookies) != fmt.Sprint(b.Cookies):
		return "cookies"
	case a.Body != b.Body || a.HasBody != b.HasBody || a.CLen != b.CLen:
		return "body"
	case a.Close != b.Close || a.Host != b.Host || fmt.Sprint(a.TE) != fmt.Sprint(b.TE) || a.Proto != b.Proto || fmt.Sprint(a.Trailers) != fmt.Sprint(b.Trailers):
		return "connection-fields"
	}
	return "headers"
}

// expectedBody: the complete body the caller supplied, for the kinds where it is literal.
func (p *program) payloadForbidden() bool {
	sh := &p.Shape
	return sh.Method == "HEAD" || sh.Method == "OPTIONS" || (sh.Method == "GET" && sh.DenyGetPay)
}

func (p *program) expectedBody() (string, bool) {
	sh := &p.Shape
	if p.payloadForbidden() {
		return "", true
	}
	if sh.BodyKind == "multipart" {
		return "", false
	}
	if len(sh.CForm) > 0 || len(sh.RForm) > 0 || len(sh.Ordered) > 0 {
		// url-encoded form: the ordered pairs in the caller's order, then every plain value
		// (request level first, then client level, keys sorted as url.Values.Encode does)
		v := toValues(sh.RForm)
		for _, e := range sh.CForm {
			for _, x := range e.Vs {
				v.Add(e.K, x)
			}
		}
		var parts []string
		for _, e := range sh.Ordered {
			parts = append(parts, url.QueryEscape(e[0])+"="+url.QueryEscape(e[1]))
		}
		if enc := v.Encode(); enc != "" {
			parts = append(parts, enc)
		}
		return strings.Join(parts, "&"), true
	}
	switch sh.BodyKind {
	case "none":
		return "", true
	case "marshal":
		js, xm := marshalRenderings(sh.Body)
		if strings.Contains(sh.effectiveContentType(), "xml") {
			return xm, true
		}
		return js, true
	}
	return sh.Body, true
}

// scriptCtx: a context the script ends - cancelled or past its deadline - at a chosen attempt.
type scriptCtx struct {
	context.Context
	rs   *runState
	mu   sync.Mutex
	err  error
	done chan struct{}
	// slowDone: the next Done() call takes this long (once) - stands for a goroutine that is
	// descheduled between arming the retry timer and looking at the context
	slowDone atomic.Int64
}

func newScriptCtx() *scriptCtx {
	return &scriptCtx{Context: context.Background(), done: make(chan struct{})}
}

func (c *scriptCtx) Done() <-chan struct{} {
	if d := c.slowDone.Swap(0); d > 0 {
		time.Sleep(time.Duration(d))
	}
	return c.done
}

func (c *scriptCtx) Value(k interface{}) interface{} {
	if _, ok := k.(rsKey); ok {
		return c.rs
	}
	return c.Context.Value(k)
}

func (c *scriptCtx) Err() error {
	c.mu.Lock()
	defer c.mu.Unlock()
	return c.err
}

func (c *scriptCtx) end(err error) {
	c.mu.Lock()
	defer c.mu.Unlock()
	if c.err == nil {
		c.err = err
		close(c.done)
	}
}

func (sh *shape) path() string {
	if sh.Path == "" {
		return "/p/a"
	}
	return sh.Path
}

// expectedPath: every {name} replaced by the request-level value, else the client-level one.
func (sh *shape) expectedPath() string {
	t := sh.path()
	for _, ps := range [][][2]string{sh.RPParams, sh.CPParams} {
		for _, e := range ps {
			t = strings.ReplaceAll(t, "{"+e[0]+"}", e[1])
		}
	}
	return t
}

// marshalDoc: the value handed to SetBody for "marshal" bodies.
type marshalDoc struct {
	XMLName xml.Name `json:"-" xml:"doc"`
	A       int      `json:"a" xml:"a"`
	B       string   `json:"b" xml:"b"`
}

func marshalRenderings(b string) (js, xm string) {
	v := marshalDoc{A: 7, B: b}
	j, _ := json.Marshal(v)
	x, _ := xml.Marshal(v)
	return string(j), string(x)
}

// effectiveContentType: the request-level Content-Type, else the client-level one.
func (sh *shape) effectiveContentType() string {
	for _, l := range [][]kvs{sh.RHeaders, sh.CHeaders} {
		for _, e := range l {
			if e.K == "Content-Type" && len(e.Vs) > 0 {
				return e.Vs[0]
			}
		}
	}
	return ""
}

// statusResponse: the scripted answer, with the cookies it sets.
func statusResponse(oc outcome, q *http.Request) *http.Response {
	h := http.Header{"Content-Type": {"text/plain"}}
	for _, c := range oc.SetCookie {
		h.Add("Set-Cookie", (&http.Cookie{Name: c[0], Value: c[1], Path: "/"}).String())
	}
	return &http.Response{StatusCode: oc.Status, Status: fmt.Sprintf("%d X", oc.Status), Proto: "HTTP/1.1", ProtoMajor: 1, ProtoMinor: 1,
		Header: h, Body: io.NopCloser(strings.NewReader("ok")), ContentLength: 2, Request: q}
}

// jarSet: net/http/cookiejar for cookies of one host with Path=/: same name replaces in place,
// a new name is appended.
func jarSet(j [][2]string, cs [][2]string) [][2]string {
	out := append([][2]string{}, j...)
	for _, c := range cs {
		found := false
		for i := range out {
			if out[i][0] == c[0] {
				out[i][1], found = c[1], true
				break
			}
		}
		if !found {
			out = append(out, c)
		}
	}
	return out
}

func (oc outcome) sets() [][2]string {
	switch oc.Kind {
	case "status", "statuscancel", "statusexpired":
		return oc.SetCookie
	}
	return nil
}

// jarsBefore: what the jar holds before each of the first n attempts, and after them.
func (p *program) jarsBefore(jar0 [][2]string, n int) (before [][][2]string, after [][2]string) {
	j := append([][2]string{}, jar0...)
	for k := 0; k < n; k++ {
		before = append(before, j)
		if k < len(p.Script) {
			j = jarSet(j, p.Script[k].sets())
		}
	}
	return before, j
}

func (p *program) setsCookies() bool {
	for _, oc := range p.Script {
		if len(oc.sets()) > 0 {
			return true
		}
	}
	return false
}

func stripCookies(w wireObs) wireObs {
	h := map[string][]string{}
	for k, vs := range w.Header {
		if k != "Cookie" {
			h[k] = vs
		}
	}
	w.Header, w.Cookies = h, nil
	return w
}

// brokenBody: a response body that breaks off after its first bytes.
type brokenBody struct {
	data []byte
	done bool
}

func (b *brokenBody) Read(p []byte) (int, error) {
	if !b.done {
		b.done = true
		return copy(p, b.data), nil
	}
	return 0, errors.New("E8! response body broke off")
}

func (b *brokenBody) Close() error { return nil }

type discardLogger struct{}

func (discardLogger) Errorf(string, ...interface{}) {}
func (discardLogger) Warnf(string, ...interface{})  {}
func (discardLogger) Debugf(string, ...interface{}) {}
