package main

import (
	"bytes"
	"encoding/json"
	"fmt"
	"io"
	"mime"
	"mime/multipart"
	"net/http"
	"path/filepath"
	"sort"
	"strings"
	"time"

	req "github.com/imroc/req/v3"
	"github.com/imroc/req/v3/verifharness/hk"
)

var (
	hdrKeys    = []string{"X-A", "X-B", "X-C", "Accept", "Content-Type"}
	hdrVals    = []string{"v1", "v2", "text/plain", "application/json", "w3", "application/xml"}
	cookieKeys = []string{"a", "b", "c", "sid"}
	formKeys   = []string{"f", "g", "k", "z1"}
	queryKeys  = []string{"p", "q", "r", "a0"}
	tokVals    = []string{"1", "2", "x", "yy", "v9"}
	statuses   = []int{200, 200, 204, 101, 199, 301, 304, 400, 404, 429, 499, 500, 500, 502, 503, 599}
	counts     = []int{-1, 0, 1, 2, 3, 5, -2, -7} // every negative count means "without bound", at both levels
	methods    = []string{"GET", "POST", "POST", "PUT", "PATCH", "DELETE", "HEAD", "OPTIONS"}
	bodies     = []string{"hello", "{\"a\":1}", "<x>1</x>", "0123456789abcdef0123456789abcdef", "b"}
)

func genKvs(r *hk.Rand, keys []string, vals []string, max int, allowEmpty bool) []kvs {
	n := r.Intn(max + 1)
	seen := map[string]bool{}
	var out []kvs
	for i := 0; i < n; i++ {
		k := hk.Pick(r, keys)
		if seen[k] {
			continue
		}
		seen[k] = true
		m := 1
		if r.Chance(25) {
			m = 2
		}
		if allowEmpty && r.Chance(4) {
			m = 0
		}
		e := kvs{K: k, Vs: []string{}}
		for j := 0; j < m; j++ {
			e.Vs = append(e.Vs, hk.Pick(r, vals))
		}
		out = append(out, e)
	}
	sort.Slice(out, func(i, j int) bool { return out[i].K < out[j].K })
	return out
}

// withHeader sets one header value in a key-sorted list.
func withHeader(l []kvs, k, v string) []kvs {
	var out []kvs
	for _, e := range l {
		if e.K != k {
			out = append(out, e)
		}
	}
	out = append(out, kvs{K: k, Vs: []string{v}})
	sort.Slice(out, func(i, j int) bool { return out[i].K < out[j].K })
	return out
}

func genCookies(r *hk.Rand, max int) [][2]string {
	n := r.Intn(max + 1)
	var out [][2]string
	for i := 0; i < n; i++ {
		out = append(out, [2]string{hk.Pick(r, cookieKeys), hk.Pick(r, tokVals)})
	}
	return out
}

func genCond(r *hk.Rand, id *int) *condSpec {
	*id++
	c := &condSpec{ID: *id}
	switch r.Intn(10) {
	case 0, 1:
		c.Kind = "err"
	case 2, 3:
		c.Kind, c.Arg = "ge", hk.Pick(r, []int{400, 500, 200})
	case 4:
		c.Kind, c.Arg = "eq", hk.Pick(r, []int{429, 503, 200})
	case 5, 6:
		c.Kind, c.Arg = "errorge", hk.Pick(r, []int{400, 500})
	case 7, 8:
		c.Kind = "true"
	default:
		c.Kind = "false"
	}
	return c
}

func genHook(r *hk.Rand, id *int) *hookSpec {
	*id++
	h := &hookSpec{ID: *id, Kind: "nop"}
	if r.Chance(6) {
		h.Kind = "newctx"
		return h
	}
	if r.Chance(12) {
		h.Kind, h.Key, h.Val = "sethdr", hk.Pick(r, []string{"X-Hook", "X-A"}), hk.Pick(r, []string{"h1", "h2"})
	}
	return h
}

func genOps(r *hk.Rand, id *int, level string) []rop {
	var ops []rop
	n := r.Intn(5)
	if level == "client" && r.Chance(30) {
		n = 0
	}
	for i := 0; i < n; i++ {
		switch r.Intn(9) {
		case 0, 1:
			ops = append(ops, rop{Op: "count", N: hk.Pick(r, counts)})
		case 2:
			ops = append(ops, rop{Op: "setcond", Cond: genCond(r, id)})
		case 3, 4:
			ops = append(ops, rop{Op: "addcond", Cond: genCond(r, id)})
		case 5:
			ops = append(ops, rop{Op: "sethook", Hook: genHook(r, id)})
		case 6, 7:
			ops = append(ops, rop{Op: "addhook", Hook: genHook(r, id)})
		case 8:
			*id++
			ops = append(ops, rop{Op: "interval", Interval: *id})
		}
	}
	return ops
}

func genProgram(r *hk.Rand) *program {
	p := &program{}
	id := 0
	p.ClientOps = genOps(r, &id, "client")
	p.ReqOps = genOps(r, &id, "request")
	// most programs set a count somewhere, so that retries actually happen
	if r.Chance(75) {
		op := rop{Op: "count", N: hk.Pick(r, counts)}
		if r.Bool() {
			p.ClientOps = append(p.ClientOps, op)
		} else {
			p.ReqOps = append(p.ReqOps, op)
		}
	}
	// keep the run fast: unless an interval function was chosen, install a logging
	// zero-duration one first (the default sleeps 100ms per retry); a few programs keep
	// the default or the built-in backoff
	hasIval := false
	for _, op := range append(append([]rop{}, p.ClientOps...), p.ReqOps...) {
		if op.Op == "interval" {
			hasIval = true
		}
	}
	if len(p.ClientOps)+len(p.ReqOps) > 0 && !hasIval {
		switch k := r.Intn(100); {
		case k < 2: // default interval (100 ms per retry)
		case k < 8:
			p.ClientOps = append([]rop{{Op: "interval", Interval: -2}}, p.ClientOps...)
		default:
			id++
			p.ClientOps = append([]rop{{Op: "interval", Interval: id}}, p.ClientOps...)
		}
	}
	sh := &p.Shape
	sh.Method = hk.Pick(r, methods)
	if r.Chance(20) {
		sh.RawQuery = hk.Pick(r, []string{"z=9", "z=9&y=8", "flag"})
	}
	sh.CHeaders = genKvs(r, hdrKeys, hdrVals, 2, true)
	sh.RHeaders = genKvs(r, hdrKeys, hdrVals, 2, true)
	if r.Chance(60) {
		sh.CCookies = genCookies(r, 2)
	}
	if r.Chance(60) {
		sh.RCookies = genCookies(r, 2)
	}
	if r.Chance(35) {
		sh.CForm = genKvs(r, formKeys, tokVals, 2, false)
	}
	if r.Chance(30) {
		sh.RForm = genKvs(r, formKeys, tokVals, 2, false)
	}
	if r.Chance(25) {
		sh.Path = hk.Pick(r, []string{"/p/{id}", "/{v}/items/{id}", "/p/{id}/{id}", "/p/{name}/a", "/p/a"})
		for _, k := range []string{"id", "v", "name"} {
			if r.Chance(55) {
				sh.RPParams = append(sh.RPParams, [2]string{k, hk.Pick(r, tokVals)})
			}
			if r.Chance(45) {
				sh.CPParams = append(sh.CPParams, [2]string{k, hk.Pick(r, []string{"c1", "c2", "cx"})})
			}
		}
	}
	sh.CQuery = genKvs(r, queryKeys, tokVals, 2, false)
	sh.RQuery = genKvs(r, queryKeys, tokVals, 2, false)
	switch k := r.Intn(100); {
	case k < 25:
		sh.BodyKind = "none"
	case k < 45:
		sh.BodyKind = "bytes"
	case k < 60:
		sh.BodyKind = "string"
	case k < 66:
		sh.BodyKind = "func"
	case k < 72:
		sh.BodyKind = "marshal"
	case k < 80:
		sh.BodyKind = "reader"
	case k < 86:
		sh.BodyKind = "readcloser"
	default:
		sh.BodyKind = "multipart"
		nf := r.Range(0, 2)
		for i := 0; i < nf; i++ {
			f := mpFile{Param: hk.Pick(r, []string{"file", "doc"}), Name: hk.Pick(r, []string{"a.txt", "b.bin"}), Content: hk.Pick(r, bodies), Kind: "bytes"}
			switch k := r.Intn(100); {
			case k < 45: // SetFileBytes
			case k < 60:
				f.Kind = "path" // SetFile: opened when set, reopened on every retry
			case k < 70:
				f.Kind = "seekcloser" // SetFileReader with an io.ReadSeeker whose Close is a no-op
			case k < 82:
				f.Kind = "reader" // SetFileReader(strings.Reader)
			case k < 87:
				f.Kind = "buffer" // SetFileReader(bytes.Buffer): cannot be rewound
			case k < 92:
				f.Kind = "customseek" // SetFileUpload, GetFileContent shares one io.ReadSeeker
			case k < 96:
				f.Kind = "customplain" // SetFileUpload, GetFileContent shares one plain reader
			default:
				f.Kind = "osfile" // SetFileReader(*os.File)
			}
			if (f.Kind == "reader" || f.Kind == "buffer" || f.Kind == "seekcloser" || f.Kind == "osfile") && r.Chance(40) {
				f.Skip = hk.Pick(r, []int{1, 4, 9})
			}
			sh.MPFiles = append(sh.MPFiles, f)
		}
		if r.Chance(50) {
			sh.MPBoundary = "XXboundaryXX"
		}
		sh.Chunked = r.Chance(30)
	}
	if sh.BodyKind != "none" && sh.BodyKind != "multipart" {
		sh.Body = hk.Pick(r, bodies)
	}
	if sh.BodyKind == "marshal" && r.Chance(60) {
		// the content type decides between the XML and the JSON rendering - on every attempt
		ct := hk.Pick(r, []string{"application/xml", "text/xml; charset=utf-8", "application/json", "application/xml"})
		if r.Bool() {
			sh.RHeaders = withHeader(sh.RHeaders, "Content-Type", ct)
		} else {
			sh.CHeaders = withHeader(sh.CHeaders, "Content-Type", ct)
		}
	}
	if r.Chance(15) {
		for i, n := 0, r.Range(1, 3); i < n; i++ {
			sh.Ordered = append(sh.Ordered, [2]string{hk.Pick(r, formKeys), hk.Pick(r, tokVals)})
		}
	}
	if sh.Method == "GET" && r.Chance(30) {
		sh.DenyGetPay = true
	}
	sh.CloseConn = r.Chance(15)
	switch k := r.Intn(100); { // configuration that must not change how often the caller's callbacks run
	case k < 15:
		sh.Debug = "debuglog"
	case k < 25:
		sh.Debug = "dumptrace"
	}
	na := 0
	if r.Chance(30) {
		na = r.Range(1, 2)
	}
	for i := 0; i < na; i++ {
		a := afterSpec{FailAt: -1}
		if r.Chance(25) {
			a.FailAt = r.Intn(4)
		}
		p.After = append(p.After, a)
	}
	clientMutated := false
	lateBodyOK := false
	switch sh.BodyKind {
	case "none", "bytes", "string", "marshal", "func": // bodies every attempt gets a reader of its own for
		lateBodyOK = true
	}
	depth := r.Range(0, 6)
	for i := 0; i < depth; i++ {
		var oc outcome
		switch k := r.Intn(100); {
		case k < 4:
			oc = outcome{Kind: hk.Pick(r, []string{"statuscancel", "statusexpired"}), Status: hk.Pick(r, statuses)}
		case k < 50:
			oc = outcome{Kind: "status", Status: hk.Pick(r, statuses)}
		case k < 58:
			oc = outcome{Kind: "status", Status: r.Range(100, 599)}
		case k < 86:
			oc = outcome{Kind: "err"}
		case k < 92:
			oc = outcome{Kind: "deadline"}
		case k < 96:
			oc = outcome{Kind: "wrapcancel"}
		case k < 98:
			oc = outcome{Kind: "expired"}
		default:
			oc = outcome{Kind: "ctxcancel"}
		}
		if (oc.Kind == "status" || oc.Kind == "err" || oc.Kind == "deadline") && r.Chance(6) {
			oc.WaitCancel = true
		}
		if oc.Kind == "status" && oc.Status >= 200 && r.Chance(8) {
			oc.Kind = "bodyerr" // the head is in, the body breaks off while the client reads it
		}
		if oc.Kind == "status" && lateBodyOK && r.Chance(12) {
			oc.LateBody = true
		}
		if strings.HasPrefix(oc.Kind, "status") && r.Chance(12) {
			for i, n := 0, r.Range(1, 2); i < n; i++ {
				oc.SetCookie = append(oc.SetCookie, [2]string{hk.Pick(r, []string{"srv", "sid", "a", "tok"}), hk.Pick(r, tokVals)})
			}
		}
		p.Script = append(p.Script, oc)
	}
	// terminal outcome: the context is cancelled, which ends every loop
	p.Script = append(p.Script, outcome{Kind: "ctxcancel"})
	// another party using the shared client changes a client-level header while this call is
	// between two attempts (a key the request inherited, one it set itself, or a new one)
	if r.Chance(15) && len(p.Script) > 1 {
		i := r.Intn(len(p.Script) - 1)
		p.Script[i].ClientHdr = &[2]string{hk.Pick(r, hdrKeys[:4]), hk.Pick(r, []string{"other1", "other2"})}
		clientMutated = true
	}
	// a client-level round-trip wrapper; it may answer an attempt with (nil, err) or hand back
	// the response together with an error the response does not record
	if r.Chance(40) {
		p.Wrap = true
		for i := range p.Script[:len(p.Script)-1] {
			if r.Chance(12) {
				if r.Bool() {
					p.Script[i] = outcome{Kind: "wrapnil"}
				} else {
					p.Script[i] = outcome{Kind: "wrapboth", Status: hk.Pick(r, statuses)}
				}
			}
		}
	}
	p.Via = hk.Pick(r, []string{"send", "send", "do", "doplain"})
	if r.Chance(30) {
		p.CtxVia = "middleware"
	}
	// the same Request object executed again (both entry points), when nothing one-shot is involved
	mut := false
	for _, ops := range [][]rop{p.ClientOps, p.ReqOps} {
		for _, op := range ops {
			if op.Hook != nil && op.Hook.Kind == "sethdr" {
				mut = true
			}
		}
	}
	replayableUpload := true // SetFileBytes, SetFile, SetFileReader with a reader that can be rewound
	for _, f := range sh.MPFiles {
		switch f.Kind {
		case "bytes", "path", "seekcloser", "reader":
		default:
			replayableUpload = false
		}
	}
	if (sh.BodyKind != "multipart" || replayableUpload) && !p.unreplayable() && !mut && !clientMutated && r.Chance(25) {
		for i, n := 0, r.Range(1, 2); i < n; i++ {
			re := reexecSpec{Via: hk.Pick(r, []string{"send", "do", "doplain"})}
			for j, d := 0, r.Range(0, 4); j < d; j++ {
				switch k := r.Intn(10); {
				case k < 5:
					re.Script = append(re.Script, outcome{Kind: "status", Status: hk.Pick(r, statuses)})
				case k < 9:
					re.Script = append(re.Script, outcome{Kind: "err"})
				default:
					re.Script = append(re.Script, outcome{Kind: "deadline"})
				}
			}
			re.Script = append(re.Script, outcome{Kind: "ctxcancel"})
			p.Reexec = append(p.Reexec, re)
		}
	}
	return p
}

// genUploadProgram: a multipart upload with 1-3 files whose first 1-3 attempts fail under the
// default rule (or a status condition) with a count that allows the retries.
func genUploadProgram(r *hk.Rand) *program {
	p := genProgram(r)
	p.ClientOps = []rop{{Op: "interval", Interval: 1}, {Op: "count", N: hk.Pick(r, []int{2, 3, 5, -1})}}
	p.ReqOps = nil
	p.After = nil
	sh := &p.Shape
	sh.Method = hk.Pick(r, []string{"POST", "PUT", "PATCH"})
	sh.BodyKind, sh.Body, sh.MPFiles = "multipart", "", nil
	p.Reexec = nil
	kinds := []string{"bytes", "path", "seekcloser", "reader", "customseek", "customplain", "buffer", "osfile"}
	sh.Chunked = r.Chance(40)
	for i, nf := 0, r.Range(1, 3); i < nf; i++ {
		k := hk.Pick(r, kinds)
		if r.Chance(50) {
			k = hk.Pick(r, kinds[:5]) // replayable kinds more often, so that all attempts happen
		}
		f := mpFile{Param: hk.Pick(r, []string{"file", "doc", "img"}), Name: hk.Pick(r, []string{"a.txt", "b.bin"}), Content: hk.Pick(r, bodies), Kind: k}
		if (k == "reader" || k == "buffer" || k == "seekcloser" || k == "osfile") && r.Chance(40) {
			f.Skip = hk.Pick(r, []int{1, 4, 9})
		}
		sh.MPFiles = append(sh.MPFiles, f)
	}
	p.Script = nil
	fails := r.Range(1, 3)
	if r.Chance(30) {
		p.ReqOps = []rop{{Op: "setcond", Cond: &condSpec{ID: 9, Kind: "errorge", Arg: 500}}}
	}
	for i := 0; i < fails; i++ {
		if len(p.ReqOps) > 0 && r.Bool() {
			p.Script = append(p.Script, outcome{Kind: "status", Status: hk.Pick(r, []int{500, 502, 503})})
		} else {
			p.Script = append(p.Script, outcome{Kind: "err"})
		}
	}
	p.Script = append(p.Script, outcome{Kind: "status", Status: 200}, outcome{Kind: "ctxcancel"})
	return p
}

// ---------- multipart canonical form ----------

// canonMultipart: mask = (form name, file name) pairs whose parts are left out.
func canonMultipart(ct, body string, mask map[[2]string]bool) (string, bool) {
	_, params, err := mime.ParseMediaType(ct)
	if err != nil || params["boundary"] == "" {
		return "", false
	}
	mr := multipart.NewReader(strings.NewReader(body), params["boundary"])
	type part struct {
		name, hdr, content string
		file               bool
		idx                int
	}
	var parts []part
	for i := 0; ; i++ {
		p, err := mr.NextRawPart()
		if err == io.EOF {
			break
		}
		if err != nil {
			return "", false
		}
		b, _ := io.ReadAll(p)
		if mask[[2]string{p.FormName(), p.FileName()}] {
			continue
		}
		var hk []string
		for k, vs := range p.Header {
			hk = append(hk, fmt.Sprintf("%s=%q", k, vs))
		}
		sort.Strings(hk)
		parts = append(parts, part{name: p.FormName(), hdr: strings.Join(hk, ";"), content: string(b), file: p.FileName() != "", idx: i})
	}
	// form fields with different names come out in Go map order: sort them by name (stable);
	// file parts keep their position after the fields
	sort.SliceStable(parts, func(i, j int) bool {
		if parts[i].file != parts[j].file {
			return !parts[i].file
		}
		if parts[i].file {
			return false
		}
		return parts[i].name < parts[j].name
	})
	var sb strings.Builder
	for _, p := range parts {
		fmt.Fprintf(&sb, "--part %s\n%s\n", p.hdr, p.content)
	}
	return sb.String(), true
}

// ---------- Coq emission ----------

func coqAmap(l []kvs) string {
	var xs []string
	for _, e := range l {
		xs = append(xs, hk.CoqPair(hk.CoqStr(e.K), hk.CoqStrList(e.Vs)))
	}
	return hk.CoqList(xs)
}

func coqCookies(l [][2]string) string {
	var xs []string
	for _, e := range l {
		xs = append(xs, hk.CoqPair(hk.CoqStr(e[0]), hk.CoqStr(e[1])))
	}
	return hk.CoqList(xs)
}

func coqCond(c *condSpec) string {
	switch c.Kind {
	case "err":
		return "KErr"
	case "ge":
		return "(KStatusGe " + hk.CoqZ(int64(c.Arg)) + ")"
	case "eq":
		return "(KStatusEq " + hk.CoqZ(int64(c.Arg)) + ")"
	case "errorge":
		return "(KErrOrGe " + hk.CoqZ(int64(c.Arg)) + ")"
	case "true":
		return "KTrue"
	}
	return "KFalse"
}

func coqHook(h *hookSpec) string {
	if h.Kind == "sethdr" {
		return "(HSetHeader " + hk.CoqStr(h.Key) + " " + hk.CoqStr(h.Val) + ")"
	}
	return "HNop"
}

func coqOps(ops []rop) string {
	var xs []string
	for _, op := range ops {
		switch op.Op {
		case "count":
			xs = append(xs, "PCount "+hk.CoqZ(int64(op.N)))
		case "interval":
			xs = append(xs, "PInterval "+hk.CoqZ(int64(op.Interval)))
		case "setcond":
			xs = append(xs, fmt.Sprintf("PSetCond %s %s", hk.CoqZ(int64(op.Cond.ID)), coqCond(op.Cond)))
		case "addcond":
			xs = append(xs, fmt.Sprintf("PAddCond %s %s", hk.CoqZ(int64(op.Cond.ID)), coqCond(op.Cond)))
		case "sethook":
			xs = append(xs, fmt.Sprintf("PSetHook %s %s", hk.CoqZ(int64(op.Hook.ID)), coqHook(op.Hook)))
		case "addhook":
			xs = append(xs, fmt.Sprintf("PAddHook %s %s", hk.CoqZ(int64(op.Hook.ID)), coqHook(op.Hook)))
		}
	}
	return hk.CoqList(xs)
}

func coqCalls(cs []callObs) string {
	var xs []string
	for _, c := range cs {
		xs = append(xs, fmt.Sprintf("(%s, %s, %s, %s)", hk.CoqZ(int64(c.ID)), hk.CoqZ(int64(c.Attempt)), hk.CoqZ(int64(c.Status)), hk.CoqZ(int64(c.Err))))
	}
	return hk.CoqList(xs)
}

// coqCase renders the program and its observation as a c10_case; ok=false when the shape is
// outside the Coq model (multipart bodies), which then is covered by the Go oracle only.
func coqCase(p *program, o *observation) (string, bool) {
	sh := &p.Shape
	if o.Panicked != "" || o.RespNil {
		return "", false
	}
	if sh.BodyKind == "multipart" {
		return coqUpload(p, o)
	}
	client := fmt.Sprintf("(mkClient %s %s %s %s %s %s)", coqAmap(sh.CHeaders), coqCookies(sh.CCookies), coqAmap(sh.CForm), coqAmap(sh.CQuery), hk.CoqBool(!sh.DenyGetPay), coqCookies(sh.CPParams))
	body, gb, reader, unrep := "None", "GBNil", "[]", "false"
	marshal := "None"
	if sh.BodyKind == "marshal" {
		js, xm := marshalRenderings(sh.Body)
		marshal = "(Some " + hk.CoqPair(hk.CoqStr(js), hk.CoqStr(xm)) + ")"
	}
	switch sh.BodyKind {
	case "bytes", "string":
		body, gb = "(Some "+hk.CoqStr(sh.Body)+")", "(GBStatic "+hk.CoqStr(sh.Body)+")"
	case "func":
		gb = "(GBStatic " + hk.CoqStr(sh.Body) + ")"
	case "reader", "readcloser":
		gb, reader, unrep = "GBReader", hk.CoqStr(sh.Body), "true"
	}
	rs := fmt.Sprintf("(mkR %s %s %s %s %s %s %s %s %s %s %s %s %s %s %s %s)", hk.CoqStr(sh.Method), hk.CoqStr(sh.RawQuery), coqAmap(sh.RHeaders), coqCookies(sh.RCookies),
		coqAmap(sh.RForm), coqAmap(sh.RQuery), body, gb, reader, unrep, hk.CoqZ(int64(p.Stale)), hk.CoqStr(sh.path()), coqCookies(sh.RPParams), coqCookies(sh.Ordered), marshal, hk.CoqBool(sh.CloseConn))
	waitCancelEffective := effectiveOf(p).Interval > 0 // only the logging interval functions end the context
	var script []string
	for k, oc := range p.Script {
		var out string
		switch oc.Kind {
		case "status":
			out = "(OStatus " + hk.CoqZ(int64(oc.Status)) + ")"
		case "statuscancel", "statusexpired":
			out = "(OStatusEnded " + hk.CoqZ(int64(oc.Status)) + ")"
		case "bodyerr":
			out = fmt.Sprintf("(OStatusErr %s 8%%Z)", hk.CoqZ(int64(oc.Status)))
		case "wrapboth":
			st := oc.Status
			if st == 0 {
				st = 200
			}
			out = fmt.Sprintf("(OStatusErr %s 7%%Z)", hk.CoqZ(int64(st)))
		default:
			_, ec, canc := outcomeView(oc)
			out = fmt.Sprintf("(OErr %s %s)", hk.CoqZ(int64(ec)), hk.CoqBool(canc))
		}
		var after []string
		for i, a := range p.After {
			if a.FailAt == k {
				after = append(after, "Some "+hk.CoqZ(int64(90+i)))
			} else {
				after = append(after, "None")
			}
		}
		script = append(script, fmt.Sprintf("mkAin %s %s %s", out, hk.CoqList(after), hk.CoqBool(oc.WaitCancel && waitCancelEffective)))
	}
	// header keys on which the outgoing requests are compared with the model
	keyset := map[string]bool{"Content-Type": true}
	for _, e := range sh.CHeaders {
		keyset[e.K] = true
	}
	for _, e := range sh.RHeaders {
		keyset[e.K] = true
	}
	for _, ops := range [][]rop{p.ClientOps, p.ReqOps} {
		for _, op := range ops {
			if op.Hook != nil && op.Hook.Kind == "sethdr" {
				keyset[op.Hook.Key] = true
			}
		}
	}
	var hkeys []string
	for k := range keyset {
		hkeys = append(hkeys, k)
	}
	sort.Strings(hkeys)
	jars, _ := p.jarsBefore(o.Jar0, len(o.Wires))
	var wires []string
	for k, w := range o.Wires {
		// the jar's cookies (after the caller's) are the subject of the CookieCase
		if n := len(w.Cookies) - len(jars[k]); n >= 0 && fmt.Sprint(w.Cookies[n:]) == fmt.Sprint(jars[k]) {
			w.Cookies = w.Cookies[:n]
		}
		var hs []kvs
		for _, k := range hkeys {
			if vs := w.Header[k]; len(vs) > 0 {
				hs = append(hs, kvs{k, vs})
			}
		}
		wires = append(wires, fmt.Sprintf("mkW %s %s %s %s %s %s %s", hk.CoqStr(w.Method), hk.CoqStr(w.Path), hk.CoqStr(w.Query), coqAmap(hs), coqCookies(w.Cookies), hk.CoqOpt(w.HasBody, hk.CoqStr(w.Body)), hk.CoqBool(w.Close)))
	}
	detect := ""
	if sh.Body != "" {
		detect = http.DetectContentType([]byte(sh.Body))
	}
	obs := fmt.Sprintf("(mkObs %s %s %s %s %s %s %s %s)", hk.CoqList(wires), coqCalls(o.Conds), coqCalls(o.Hooks), coqCalls(o.Ivals),
		hk.CoqZ(int64(o.Status)), hk.CoqZ(int64(o.Err)), hk.CoqZ(int64(o.Attempt)), hk.CoqBool(o.UpFront))
	return fmt.Sprintf("RunCase %s %s %s %s %s %s %s %s", client, coqOps(p.ClientOps), coqOps(p.ReqOps), rs, hk.CoqList(script), hk.CoqStr(detect), hk.CoqStrList(hkeys), obs), true
}

// ---------- driver ----------

func runC10(r *hk.Run) {
	r.Header = "From ReqV Require Import Model.C10Run."
	r.CaseType = "c10_case"
	r.CheckFn = "c10_check"
	r.ShardSize = 150 // small shards: a few hundred MB per coqc, so that a loaded machine does not kill one
	r.Rule = "programs = client-level + request-level retry setters (count in {-1,0,1,2,3,5}, Set/Add condition, Set/Add hook, interval function) x request shape (client/request headers, cookies, query, form; body none/bytes/string/func/reader/readcloser/multipart; 8 methods) x 0-2 request-level after-response middlewares x outcome script of depth <= 6 (+ terminal cancel) executed on a real client over a scripted transport; backoff triples. Non-trivial: at least one retry happened (>= 2 attempts), or the call was refused up front, or a backoff triple with min,max > 0. Distinct by the program's JSON."
	rng := hk.NewRand(r.Seed)
	if err := setupUploads(filepath.Join(r.OutDir, "upload")); err != nil {
		r.Notes = append(r.Notes, "upload files could not be written: "+err.Error())
	}
	if r.Replay != "" && replayC10(r) {
		return
	}
	n := r.Scale(1500, 30000)
	for i := 0; i < n; i++ {
		runProgram(r, genProgram(rng))
	}
	// upload slice: multipart programs that are sure to be retried, every kind of file source
	for i, m := 0, r.Scale(200, 4000); i < m; i++ {
		runProgram(r, genUploadProgram(rng))
	}
	// groups: two or three requests built from one client before any is sent
	for i, m := 0, r.Scale(150, 3000); i < m; i++ {
		runGroup(r, genGroup(rng))
	}
	backoffCases(r, rng)
	rawOrigin(r, rng)
}

// runProgram executes one program on the real client, applies the oracle, emits the Coq case.
func runProgram(r *hk.Run, p *program) {
	execs := p.executions()
	c := newClient(p)
	applyClientOps(c, p.ClientOps)
	rs := buildRequest(c, execs[0])
	var jar [][2]string
	stale := 0
	for i, q := range execs {
		var o observation
		if i == 0 {
			rs.send()
			o = rs.o
		} else {
			q.Stale = stale
			o = rs.again(q, jar)
			r.Count("reexec.via=" + q.Via)
		}
		_, jar = q.jarsBefore(jar, len(o.Wires))
		stale = o.Attempt
		oracle(r, q, &o)
		e := effectiveOf(q)
		if i == 0 {
			r.Count(fmt.Sprintf("N=%s", func() string {
				if !e.Has {
					return "unset"
				}
				return fmt.Sprint(e.N)
			}()))
			r.Count("body=" + bodySig(&q.Shape))
			r.Count(fmt.Sprintf("conds=%d", len(e.Conds)))
			r.Count(fmt.Sprintf("hooks=%d", len(e.Hooks)))
			if len(q.After) > 0 {
				r.Count("after-response=yes")
			}
			if q.Wrap {
				r.Count("wrapper=yes")
			}
		}
		r.Count(fmt.Sprintf("attempts=%d", len(o.Wires)))
		if o.UpFront {
			r.Count("upfront-refusal")
		}
		key, _ := json.Marshal(q)
		key = append(key, fmt.Sprintf("#%d", i)...)
		coq, _ := coqCase(q, &o)
		r.Add(hk.Case{Coq: coq, Desc: map[string]interface{}{"kind": "run", "program": q, "execution": i, "attempts": len(o.Wires), "final": []int{o.Status, o.Err}}},
			string(key), len(o.Wires) >= 2 || o.UpFront)
		addCookieCase(r, q, &o, string(key))
	}
}

// addCookieCase: programs in which the jar matters get a CookieCase besides.
func addCookieCase(r *hk.Run, p *program, o *observation, key string) {
	if len(o.Wires) == 0 || o.Panicked != "" || (!p.setsCookies() && len(o.Jar0) == 0) {
		return
	}
	r.Count("jar.programs")
	r.Add(hk.Case{Coq: coqCookieCase(p, o), Desc: map[string]interface{}{"kind": "cookies", "program": p, "jar0": o.Jar0, "attempts": len(o.Wires)}},
		"J|"+key, len(o.Wires) >= 2)
}

// backoffCases: the built-in interval function on (min, max, attempt) triples.
func backoffCases(r *hk.Run, rng *hk.Rand) {
	vals := []int64{0, 1, 2, 3, 4, 5, 7, 10, 100, 1000, 1e6, 1e9, 3e9, 60e9, 1 << 40, 1<<53 - 1, -1, -5, -1e9}
	atts := []int{0, 1, 2, 3, 4, 5, 8, 10, 16, 31, 32, 33, 52, 53, 62, 63, 64, 100, 500, 1000}
	n := r.Scale(1200, 20000)
	for i := 0; i < n; i++ {
		var mn, mx int64
		var a int
		if i < len(vals)*len(vals) {
			mn, mx, a = vals[i/len(vals)], vals[i%len(vals)], atts[i%len(atts)]
		} else {
			mn, mx, a = hk.Pick(rng, vals), hk.Pick(rng, vals), hk.Pick(rng, atts)
			if rng.Chance(40) {
				mn = int64(rng.Intn(5000))
				mx = int64(rng.Intn(100000))
			}
		}
		backoffOne(r, mn, mx, a)
	}
}

// backoffOne: one (min, max, attempt) triple of the built-in interval function.
func backoffOne(r *hk.Run, mn, mx int64, a int) {
	for once := true; once; once = false {
		d, pan := req.VerifC10Backoff(time.Duration(mn), time.Duration(mx), a)
		in := map[string]interface{}{"min_ns": mn, "max_ns": mx, "attempt": a}
		shape := func() string {
			switch {
			case mn <= 0:
				return "min<=0"
			case mx < 2:
				return "max<2ns"
			}
			return "regular"
		}()
		r.Count("backoff." + shape)
		if pan != "" {
			failCapped(r, hk.Failure{Sig: "backoff:panic:" + shape, What: "the built-in backoff interval function panics", Input: in, Got: pan})
			r.Add(hk.Case{Desc: in}, fmt.Sprint("b|", mn, mx, a), false)
			continue
		}
		// within its configured bounds: never above max (for max >= 0), never negative for
		// non-negative settings, and at least half the capped exponential when jitter applies
		if mx >= 0 && int64(d) > mx {
			failCapped(r, hk.Failure{Sig: "backoff:above-max:" + shape, What: "backoff interval exceeds the configured maximum", Input: in, Got: int64(d), Want: mx})
		}
		if mn >= 0 && mx >= 0 && d < 0 {
			failCapped(r, hk.Failure{Sig: "backoff:negative:" + shape, What: "negative backoff interval", Input: in, Got: int64(d)})
		}
		if mn >= 1 && mx >= 2 && a >= 1 {
			capped := mx
			if a < 62 && mn < (1<<62)>>uint(a) && mn<<uint(a) < mx {
				capped = mn << uint(a)
			}
			// "capped exponential backoff with jitter": never above min(max, min * 2^attempt)
			if int64(d) > capped {
				failCapped(r, hk.Failure{Sig: "backoff:above-capped-exponential:" + shape, What: "backoff interval above min(max, min * 2^attempt)", Input: in, Got: int64(d), Want: capped})
			}
			if int64(d) < capped/2 {
				failCapped(r, hk.Failure{Sig: "backoff:below-half:" + shape, What: "backoff interval below half the capped exponential", Input: in, Got: int64(d), Want: capped / 2})
			}
		}
		coq := fmt.Sprintf("BackoffCase %s %s %s %s", hk.CoqZ(mn), hk.CoqZ(mx), hk.CoqZ(int64(a)), hk.CoqZ(int64(d)))
		if mn < 0 && a > 9 {
			// outside the model's exactness domain (|min|,|max| < 2^53 and the float64 ->
			// int64 conversion in range): a negative minimum scaled by 2^attempt may
			// overflow int64; such triples are covered by the Go oracle only
			coq = ""
			r.Count("backoff.oracle-only")
		}
		r.Add(hk.Case{Coq: coq,
			Desc: map[string]interface{}{"kind": "backoff", "input": in, "interval_ns": int64(d)}}, fmt.Sprint("b|", mn, mx, a), mn > 0 && mx > 0)
	}
}

var _ = bytes.NewReader

// coqCookieCase: the caller's cookies, the jar before the first attempt, what each attempt's
// response sets, and the cookies every attempt carried.
func coqCookieCase(p *program, o *observation) string {
	sh := &p.Shape
	caller := append(append([][2]string{}, sh.RCookies...), sh.CCookies...)
	var resps, obs []string
	for k, w := range o.Wires {
		var set [][2]string
		if k < len(p.Script) {
			set = p.Script[k].sets()
		}
		resps = append(resps, coqCookies(set))
		obs = append(obs, coqCookies(w.Cookies))
	}
	return fmt.Sprintf("CookieCase %s %s %s %s", coqCookies(caller), coqCookies(o.Jar0), hk.CoqList(resps), hk.CoqList(obs))
}
