package main

import "github.com/imroc/req/v3/verifharness/hk"

// hk.Run keeps at most 200 failures per run.  One defect class hit by hundreds of programs
// would fill that budget and hide a different class that shows up later in the run (the
// backoff triples and the raw-origin programs come last), so at most failPerSig failures
// are recorded per signature; every further occurrence is only counted.
const failPerSig = 2

var failSeen = map[string]int{}

func failCapped(r *hk.Run, f hk.Failure) {
	failSeen[f.Sig]++
	r.Count("oracle-failure." + f.Sig)
	if failSeen[f.Sig] <= failPerSig {
		r.Fail(f)
	}
}
