package main

// gosync for C10: Gen/RetryClone.v regenerated from the Go source - how retryOption.Clone
// copies the condition/hook slices (deep = a fresh array, shallow = the same slice header),
// whether Client.R() clones the client's option, and what each of the eight Set/Add
// condition/hook setters does to its slice (a fresh one-element literal / append to itself).

import (
	"fmt"
	"go/ast"
	"go/parser"
	"go/token"
	"path/filepath"
	"sort"
	"strings"

	"github.com/imroc/req/v3/verifharness/hk"
)

var syncers = map[string]hk.Gosyncer{"RetryClone": syncRetryClone}

func exprString(e ast.Expr) string {
	switch x := e.(type) {
	case *ast.Ident:
		return x.Name
	case *ast.SelectorExpr:
		return exprString(x.X) + "." + x.Sel.Name
	case *ast.CallExpr:
		var as []string
		for _, a := range x.Args {
			as = append(as, exprString(a))
		}
		s := exprString(x.Fun) + "(" + strings.Join(as, ",") + ")"
		if x.Ellipsis != token.NoPos {
			s = strings.TrimSuffix(s, ")") + "...)"
		}
		return s
	case *ast.StarExpr:
		return "*" + exprString(x.X)
	case *ast.UnaryExpr:
		return x.Op.String() + exprString(x.X)
	case *ast.CompositeLit:
		var es []string
		for _, el := range x.Elts {
			es = append(es, exprString(el))
		}
		return exprString(x.Type) + "{" + strings.Join(es, ",") + "}"
	case *ast.KeyValueExpr:
		return exprString(x.Key) + ":" + exprString(x.Value)
	case *ast.ArrayType:
		return "[]" + exprString(x.Elt)
	}
	return "?"
}

func findFunc(files map[string]*ast.File, recv, name string) *ast.FuncDecl {
	for _, f := range files {
		for _, d := range f.Decls {
			fd, ok := d.(*ast.FuncDecl)
			if !ok || fd.Name.Name != name {
				continue
			}
			r := ""
			if fd.Recv != nil && len(fd.Recv.List) == 1 {
				r = exprString(fd.Recv.List[0].Type)
			}
			if r == recv {
				return fd
			}
		}
	}
	return nil
}

// cloneMode: how Clone fills field `field` of its result.
func cloneMode(fd *ast.FuncDecl, field string) string {
	if fd == nil || fd.Body == nil {
		return "CloneShallow"
	}
	// the result variable must start from a literal that does not mention the field ...
	fresh := map[string]bool{}
	mode := "CloneShallow"
	ast.Inspect(fd.Body, func(n ast.Node) bool {
		as, ok := n.(*ast.AssignStmt)
		if !ok || len(as.Lhs) != 1 || len(as.Rhs) != 1 {
			return true
		}
		lhs, rhs := exprString(as.Lhs[0]), exprString(as.Rhs[0])
		if id, ok := as.Lhs[0].(*ast.Ident); ok {
			if strings.HasPrefix(rhs, "&retryOption{") && !strings.Contains(rhs, field+":") {
				fresh[id.Name] = true
			}
			return true
		}
		// ... and the field is then filled by append(<fresh>.F (nil), ro.F...): a new array
		for v := range fresh {
			if lhs == v+"."+field && rhs == "append("+v+"."+field+",ro."+field+"...)" {
				mode = "CloneDeep"
			}
		}
		return true
	})
	return mode
}

// setterKind: KSet (field = []T{arg}), KAdd (field = append(field, arg)), KOther.
func setterKind(fd *ast.FuncDecl, field string) string {
	if fd == nil || fd.Body == nil || fd.Type.Params == nil || len(fd.Type.Params.List) != 1 || len(fd.Type.Params.List[0].Names) != 1 {
		return "KOther"
	}
	arg := fd.Type.Params.List[0].Names[0].Name
	kind := "KOther"
	ast.Inspect(fd.Body, func(n ast.Node) bool {
		as, ok := n.(*ast.AssignStmt)
		if !ok || len(as.Lhs) != 1 || len(as.Rhs) != 1 {
			return true
		}
		lhs, rhs := exprString(as.Lhs[0]), exprString(as.Rhs[0])
		if !strings.HasSuffix(lhs, "."+field) {
			return true
		}
		switch {
		case strings.HasPrefix(rhs, "[]") && strings.HasSuffix(rhs, "{"+arg+"}"):
			kind = "KSet"
		case rhs == "append("+lhs+","+arg+")":
			kind = "KAdd"
		}
		return true
	})
	return kind
}

func syncRetryClone(repo string) (string, string, error) {
	fset := token.NewFileSet()
	files := map[string]*ast.File{}
	for _, n := range []string{"retry.go", "client.go", "request.go", "middleware.go"} {
		f, err := parser.ParseFile(fset, filepath.Join(repo, n), nil, 0)
		if err != nil {
			return "", "", err
		}
		files[n] = f
	}
	clone := findFunc(files, "*retryOption", "Clone")
	if clone == nil {
		return "", "", fmt.Errorf("retryOption.Clone not found")
	}
	rClones := false
	if r := findFunc(files, "*Client", "R"); r != nil {
		ast.Inspect(r.Body, func(n ast.Node) bool {
			if kv, ok := n.(*ast.KeyValueExpr); ok && exprString(kv.Key) == "retryOption" && exprString(kv.Value) == "c.retryOption.Clone()" {
				rClones = true
			}
			return true
		})
	}
	// Request.do starts with r.unmergeClientSettings(), and that function sets r.RetryAttempt = 0
	// unconditionally (a top-level statement with no return / branch before it)
	resets := false
	if do := findFunc(files, "*Request", "do"); do != nil && do.Body != nil && len(do.Body.List) > 0 {
		if es, ok := do.Body.List[0].(*ast.ExprStmt); ok && exprString(es.X) == "r.unmergeClientSettings()" {
			if um := findFunc(files, "*Request", "unmergeClientSettings"); um != nil && um.Body != nil {
			scan:
				for _, stmt := range um.Body.List {
					switch x := stmt.(type) {
					case *ast.AssignStmt:
						if len(x.Lhs) == 1 && len(x.Rhs) == 1 && exprString(x.Lhs[0]) == "r.RetryAttempt" {
							if lit, ok := x.Rhs[0].(*ast.BasicLit); ok && lit.Value == "0" {
								resets = true
							}
							break scan
						}
					case *ast.ReturnStmt, *ast.IfStmt, *ast.SwitchStmt:
						break scan
					}
				}
			}
		}
	}
	// Request.do asks r.Context() afresh for the stop decision and for the wait of every attempt
	// (a context installed by a middleware or a hook after Do started must be honoured): inside
	// the loop, `contextCanceled := ... r.Context().Err() != nil` and `sleepContext(r.Context(), ...)`
	ctxPerAttempt := false
	if do := findFunc(files, "*Request", "do"); do != nil && do.Body != nil {
		stop, wait := false, false
		ast.Inspect(do.Body, func(n ast.Node) bool {
			loop, ok := n.(*ast.ForStmt)
			if !ok {
				return true
			}
			ast.Inspect(loop.Body, func(m ast.Node) bool {
				switch x := m.(type) {
				case *ast.AssignStmt:
					if len(x.Lhs) == 1 && exprString(x.Lhs[0]) == "contextCanceled" && len(x.Rhs) == 1 {
						ast.Inspect(x.Rhs[0], func(k ast.Node) bool {
							if c, ok := k.(*ast.CallExpr); ok && exprString(c) == "r.Context().Err()" {
								stop = true
							}
							return true
						})
					}
				case *ast.CallExpr:
					if exprString(x.Fun) == "sleepContext" && len(x.Args) == 2 && exprString(x.Args[0]) == "r.Context()" {
						wait = true
					}
				}
				return true
			})
			return false
		})
		ctxPerAttempt = stop && wait
	}
	// SetBodyBytes: GetBody builds a NEW reader on every call (attempts never share a reader)
	freshReader := false
	if sb := findFunc(files, "*Request", "SetBodyBytes"); sb != nil && sb.Body != nil {
		ast.Inspect(sb.Body, func(n ast.Node) bool {
			fl, ok := n.(*ast.FuncLit)
			if !ok {
				return true
			}
			for _, stmt := range fl.Body.List {
				if ret, ok := stmt.(*ast.ReturnStmt); ok && len(ret.Results) == 2 && len(fl.Body.List) == 1 &&
					exprString(ret.Results[0]) == "io.NopCloser(bytes.NewReader(body))" {
					freshReader = true
				}
			}
			return false
		})
	}
	// Client.roundTrip runs once per attempt: the request fields it assigns (`r.<field> = ...`)
	// are state carried into the next attempt.  Only per-attempt bookkeeping may be written.
	var rtAssigns []string
	if rt := findFunc(files, "*Client", "roundTrip"); rt != nil && rt.Body != nil {
		seen := map[string]bool{}
		ast.Inspect(rt.Body, func(n ast.Node) bool {
			switch x := n.(type) {
			case *ast.AssignStmt:
				for _, l := range x.Lhs {
					if sel, ok := l.(*ast.SelectorExpr); ok && exprString(sel.X) == "r" && !seen[sel.Sel.Name] {
						seen[sel.Sel.Name] = true
						rtAssigns = append(rtAssigns, sel.Sel.Name)
					}
				}
			case *ast.IncDecStmt:
				if sel, ok := x.X.(*ast.SelectorExpr); ok && exprString(sel.X) == "r" && !seen[sel.Sel.Name] {
					seen[sel.Sel.Name] = true
					rtAssigns = append(rtAssigns, sel.Sel.Name)
				}
			}
			return true
		})
		sort.Strings(rtAssigns)
	}
	// how often the non-test sources call the caller's retry callbacks: once each, in Request.do
	callSites := map[string]int{}
	srcs, _ := filepath.Glob(filepath.Join(repo, "*.go"))
	for _, fn := range srcs {
		if strings.HasSuffix(fn, "_test.go") || strings.Contains(filepath.Base(fn), "export_verif") {
			continue
		}
		f, err := parser.ParseFile(fset, fn, nil, 0)
		if err != nil {
			continue
		}
		ast.Inspect(f, func(n ast.Node) bool {
			c, ok := n.(*ast.CallExpr)
			if !ok {
				return true
			}
			switch fun := c.Fun.(type) {
			case *ast.SelectorExpr:
				if fun.Sel.Name == "GetRetryInterval" {
					callSites["interval"]++
				}
			case *ast.IndexExpr:
				if sel, ok := fun.X.(*ast.SelectorExpr); ok {
					switch sel.Sel.Name {
					case "RetryHooks":
						callSites["hooks"]++
					case "RetryConditions":
						callSites["conds"]++
					}
				}
			}
			return true
		})
	}
	// parseRequestHeader merges the client's headers on the first attempt of an execution only
	mergeOnce := false
	if ph := findFunc(files, "", "parseRequestHeader"); ph != nil && ph.Body != nil && len(ph.Body.List) > 0 {
		if is, ok := ph.Body.List[0].(*ast.IfStmt); ok {
			cond := ""
			ast.Inspect(is.Cond, func(n ast.Node) bool {
				if b, ok := n.(*ast.BinaryExpr); ok && exprString(b.X) == "r.RetryAttempt" && b.Op == token.GTR {
					if lit, ok := b.Y.(*ast.BasicLit); ok && lit.Value == "0" {
						cond = "ok"
					}
				}
				return true
			})
			if _, isRet := is.Body.List[0].(*ast.ReturnStmt); cond == "ok" && len(is.Body.List) == 1 && isRet {
				mergeOnce = true
			}
		}
	}
	type st struct{ recv, name, field string }
	setters := []st{
		{"*Client", "SetCommonRetryCondition", "RetryConditions"}, {"*Client", "AddCommonRetryCondition", "RetryConditions"},
		{"*Client", "SetCommonRetryHook", "RetryHooks"}, {"*Client", "AddCommonRetryHook", "RetryHooks"},
		{"*Request", "SetRetryCondition", "RetryConditions"}, {"*Request", "AddRetryCondition", "RetryConditions"},
		{"*Request", "SetRetryHook", "RetryHooks"}, {"*Request", "AddRetryHook", "RetryHooks"},
	}
	var rows []string
	for _, s := range setters {
		rows = append(rows, fmt.Sprintf("  (%s, %s)", hk.CoqStr(s.name), setterKind(findFunc(files, s.recv, s.name), s.field)))
	}
	sort.Strings(rows)
	var sb strings.Builder
	sb.WriteString("(* GENERATED by harness/c10 gosync from retry.go, client.go, request.go - do not edit *)\n")
	sb.WriteString("From ReqV Require Import Lib.Bytes Model.RetrySlices.\n\n")
	sb.WriteString("Inductive setter_kind := KSet | KAdd | KOther.\n\n")
	fmt.Fprintf(&sb, "(* retryOption.Clone: o.RetryConditions / o.RetryHooks *)\nDefinition clone_conditions : clone_mode := %s.\nDefinition clone_hooks : clone_mode := %s.\n\n", cloneMode(clone, "RetryConditions"), cloneMode(clone, "RetryHooks"))
	fmt.Fprintf(&sb, "(* Client.R() gives the request c.retryOption.Clone() *)\nDefinition r_clones_option : bool := %s.\n\n", hk.CoqBool(rClones))
	fmt.Fprintf(&sb, "(* Request.do begins with unmergeClientSettings, which restarts RetryAttempt at 0 whatever the entry point *)\nDefinition do_resets_attempt : bool := %s.\n\n", hk.CoqBool(resets))
	fmt.Fprintf(&sb, "(* Request.do consults r.Context() itself for the stop decision and the wait of every attempt *)\nDefinition ctx_read_per_attempt : bool := %s.\n\n", hk.CoqBool(ctxPerAttempt))
	fmt.Fprintf(&sb, "(* SetBodyBytes' GetBody returns a reader of its own on every call *)\nDefinition getbody_fresh_reader : bool := %s.\n\n", hk.CoqBool(freshReader))
	fmt.Fprintf(&sb, "(* the fields of the Request that Client.roundTrip (run once per attempt) assigns *)\nDefinition roundtrip_assigns : list bytes := %s.\n\n", hk.CoqStrList(rtAssigns))
	fmt.Fprintf(&sb, "(* call sites of the caller's callbacks in the non-test sources: interval function, hooks, conditions *)\nDefinition callback_call_sites : list nat := [%d; %d; %d]%%nat.\n\n", callSites["interval"], callSites["hooks"], callSites["conds"])
	fmt.Fprintf(&sb, "(* parseRequestHeader returns at once on a retry attempt: client headers are merged once per execution *)\nDefinition header_merge_once : bool := %s.\n\n", hk.CoqBool(mergeOnce))
	sb.WriteString("(* what each setter does to its slice *)\nDefinition setter_table : list (bytes * setter_kind) := [\n" + strings.Join(rows, ";\n") + "\n].\n")
	return "RetryClone.v", sb.String(), nil
}
