package main

// part 0: Response.ResultState() with the default checker on every status code.

import (
	"bytes"
	"fmt"
	"io"
	"net/http"

	req "github.com/imroc/req/v3"
	"github.com/imroc/req/v3/verifharness/hk"
)

func classify0(r *hk.Run) {
	cur := 0
	c := req.C()
	c.GetTransport().WrapRoundTripFunc(func(rt http.RoundTripper) req.HttpRoundTripFunc {
		return func(hr *http.Request) (*http.Response, error) {
			return &http.Response{StatusCode: cur, Status: fmt.Sprint(cur), Proto: "HTTP/1.1", ProtoMajor: 1, ProtoMinor: 1,
				Header: http.Header{}, Body: io.NopCloser(bytes.NewReader(nil)), Request: hr}, nil
		}
	})
	var codes []int
	for s := -5; s <= 1005; s++ {
		codes = append(codes, s)
	}
	codes = append(codes, 1<<31-1, -(1 << 31), 65535, 65536, 100000)
	for _, s := range codes {
		cur = s
		resp, err := c.R().Get("http://c18.test/class")
		if err != nil || resp == nil || resp.Response == nil {
			r.Fail(hk.Failure{Sig: "classify:call-failed", What: "plain GET through the stub failed", Input: s, Got: fmt.Sprint(err)})
			continue
		}
		got := int(resp.ResultState())
		want := 2
		switch {
		case s >= 200 && s <= 299:
			want = 0
		case s >= 400:
			want = 1
		}
		if got != want || resp.IsSuccessState() != (want == 0) || resp.IsErrorState() != (want == 1) {
			r.Fail(hk.Failure{Sig: fmt.Sprintf("classify:%dxx", s/100), What: "default result state differs from the documented ranges (200..299 success, >=400 error, else unknown)", Input: s, Got: got, Want: want})
		}
		r.Count("part=classify")
		r.Add(hk.Case{Coq: fmt.Sprintf("ClassCase %s %s", hk.CoqZ(int64(s)), hk.CoqZ(int64(got))),
			Desc: map[string]interface{}{"kind": "classify", "status": s, "state": got}}, fmt.Sprintf("class|%d", s), s >= 100 && s <= 599)
	}
}
