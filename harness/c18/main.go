package main

// C18 - response classification, result binding and the error contract.
// The harness drives Request.Do / Send / Get / Post / Must* of the real library over an
// in-process http.RoundTripper stub (plus a slice over a real loopback origin) with scripted
// stages, checks the property's clauses on what it observes (oracle.go) and emits every
// program with its observation as a Coq case for Model/C18Run.v.

import (
	"encoding/json"
	"fmt"
	"os"
	"sort"
	"strings"

	"github.com/imroc/req/v3/verifharness/hk"
)

func main() { hk.Main("C18", runC18, syncers) }

type tagger struct{ n int }

func (t *tagger) next() int { t.n++; return t.n }

var cts = []string{"application/json", "application/json; charset=utf-8", "application/problem+json", "text/xml",
	"application/xml; charset=utf-8", "application/atom+xml", "text/plain", "text/html", "", "application/octet-stream", "application/xml+json"}

var jsonBodies = []string{`{"msg":"m","code":"x"}`, `{"a":1,"msg":"m","code":7}`, `{"a":41,"msg":"hello"}`, `{"a":"x","msg":"m"}`, `{"msg":5}`, `{"a":`, `not json`, ``, `null`, `[]`, ` `, `{}`}
var xmlBodies = []string{`<r><msg>m</msg><code>x</code></r>`, `<r><a>1</a><msg>m</msg><code>7</code></r>`, `<r><a>9</a></r>`, `<r><a>1</a>`, `<r><a>x</a></r>`, ``, `plain`, `<r/>`}

func ctKind(ct string) string {
	switch {
	case ct == "":
		return "none"
	case contains(ct, "json"):
		return "json"
	case contains(ct, "xml"):
		return "xml"
	}
	return "other"
}

func contains(s, sub string) bool {
	for i := 0; i+len(sub) <= len(s); i++ {
		if s[i:i+len(sub)] == sub {
			return true
		}
	}
	return false
}

func genBody(rng *hk.Rand) bodySpec {
	ct := hk.Pick(rng, cts)
	var body string
	if ctKind(ct) == "xml" && rng.Chance(85) {
		body = hk.Pick(rng, xmlBodies)
	} else if rng.Chance(90) {
		body = hk.Pick(rng, jsonBodies)
	} else {
		body = hk.Pick(rng, xmlBodies)
	}
	return bodySpec{CT: ct, Body: body}
}

var statusEdges = []int{100, 101, 103, 199, 200, 201, 204, 205, 206, 299, 300, 301, 304, 399, 400, 401, 404, 418, 499, 500, 503, 599}

func genStatus(rng *hk.Rand) int {
	if rng.Chance(50) {
		return hk.Pick(rng, statusEdges)
	}
	return rng.Range(100, 599)
}

// entry points: Do, Send, and every function of the table regenerated from the source
var entryNames []string

func loadEntries(r *hk.Run) {
	repo := os.Getenv("VERIF_REPO")
	if repo == "" {
		repo = "/repo"
	}
	eps, err := readEntryPoints(repo)
	if err != nil {
		r.Fail(hk.Failure{Sig: "entry-table", What: "the table of entry points cannot be read from the source: " + err.Error()})
		// fall back to the names known when the check was written, so that the oracle can still
		// exhibit a concrete failing call
		entryNames = nil
		for n := range pkgFuncs {
			entryNames = append(entryNames, n, "pkg."+n)
		}
		sort.Strings(entryNames)
		return
	}
	entryNames = nil
	for _, e := range eps {
		n := e.Name
		if e.Pkg {
			n = "pkg." + n
			if pkgFuncs[e.Name] == nil {
				r.Fail(hk.Failure{Sig: "entry-table:unknown-package-function", What: "package-level entry point not known to the harness", Input: e.Name})
				continue
			}
		}
		entryNames = append(entryNames, n)
	}
}

func genEntry(rng *hk.Rand) string {
	switch k := rng.Intn(20); {
	case k < 4:
		return "do"
	case k < 6:
		return "send"
	}
	for { // methods of *Request three times as often as the package-level functions
		n := hk.Pick(rng, entryNames)
		if !strings.HasPrefix(n, "pkg.") || rng.Chance(33) {
			return n
		}
	}
}

// what an entry point cannot carry: a package-level function creates its own request (nothing
// request-level can be configured), HEAD and OPTIONS drop the request body
func restrictForEntry(p *progSpec) {
	if strings.HasSuffix(p.Entry, "Head") || strings.HasSuffix(p.Entry, "Options") {
		p.BodyMode = "none"
		for a := range p.Attempts {
			p.Attempts[a].Bi, p.Attempts[a].GetBody = 0, 0
		}
		p.Unreplayable, p.OddForm, p.ReqErr = false, false, 0
	}
	if !p.pkg() {
		return
	}
	p.TResult, p.TError = false, false
	if p.AutoRead == 2 {
		p.AutoRead = 1
	}
	if p.Retry { // only the client's common retry options reach a request the function creates itself
		p.RetryLevel = "client"
	}
	p.ReqErr, p.OddForm, p.Unreplayable, p.Save, p.BodyMode = 0, false, false, false, "none"
	for a := range p.Attempts {
		at := &p.Attempts[a]
		at.Req, at.Ctx, at.SleepCancel, at.Bi, at.GetBody = nil, "", false, 0, 0
		at.T.B.WriteErr, at.T.B.CloseErr = 0, 0
	}
	at := &p.Attempts[0]
	for i := range at.Cli {
		if at.Cli[i].Digest { // SetCommonDigestAuth is fine at package level too
			continue
		}
	}
}

func genTargets(rng *hk.Rand, p *progSpec) {
	switch rng.Intn(8) {
	case 0:
	case 1:
		p.TResult = true
	case 2:
		p.TError = true
	case 3:
		p.TCommon = true
	case 4:
		p.TResult, p.TError = true, true
	case 5:
		p.TError, p.TCommon = true, true
	case 6:
		p.TResult, p.TCommon = true, true
	case 7:
		p.TResult, p.TError, p.TCommon = true, true, true
	}
}

// part A: one attempt, no failing stage - classification x content type x body x targets x checker x auto-read
func genBinding(rng *hk.Rand, status int) *progSpec {
	p := &progSpec{Entry: genEntry(rng), BodyMode: "none", AutoRead: hk.Pick(rng, []int{0, 0, 1, 2}), OnError: rng.Chance(50)}
	genTargets(rng, p)
	if rng.Chance(35) {
		p.Checker = rng.Range(1, len(checkers)-1)
	}
	t := toutSpec{Status: status, B: genBody(rng)}
	if status == 401 && rng.Chance(50) {
		t.Challenge = "bad"
	}
	if rng.Chance(25) {
		p.UmCustom = true
		if rng.Chance(50) {
			t.B.UmErr = 700
			t.B.Body += " " // unique key for the custom functions' table
		}
	}
	if rng.Chance(15) {
		p.Transformer = true
		if rng.Chance(60) && t.B.Body != "" {
			t.B.ReadErr = 800
			t.B.ViaTf = rng.Bool() // raised by the transformer itself - or by the reader, with the transformer installed
		}
	}
	if rng.Chance(6) && t.B.Body != "" && t.B.ReadErr == 0 {
		t.B.Cut = hk.Pick(rng, []string{"length", "chunked"})
	}
	if p.AutoRead == 0 && rng.Chance(14) {
		p.Save = true
		p.SaveKind = hk.Pick(rng, []string{"", "closer", "closer", "file"})
		if p.SaveKind != "file" && rng.Chance(25) && t.B.Body != "" && t.B.ReadErr == 0 && t.B.Cut == "" {
			t.B.WriteErr = 850
		} else if p.SaveKind == "closer" && rng.Chance(30) {
			t.B.CloseErr = 860 // (alone, or after a body that breaks off mid-copy: the copy error must stand)
		}
	}
	if rng.Chance(6) { // one target's decoder fails, the others fit
		p.TError, p.TCommon = true, true
		if rng.Bool() {
			t.B.CT, t.B.Body = "application/json", hk.Pick(rng, []string{`{"msg":"m","code":"x"}`, `{"msg":"m","a":"x"}`})
		} else {
			p.UmCustom = true
			t.B.UmErr, t.B.UmOnly = 700, hk.Pick(rng, []string{"req", "com", "res"})
			t.B.Body += "  "
		}
	}
	if p.OnError && rng.Chance(30) {
		p.HookMode = hk.Pick(rng, []string{"set", "clear", "panic"})
		p.HookTag = 950
	}
	p.Attempts = []attemptSpec{{T: t}}
	return p
}

func genWrap(rng *hk.Rand, tg *tagger, failP int) wrapSpec {
	switch k := rng.Intn(100); {
	case k < 50:
		return wrapSpec{Kind: "pass"}
	case k < 85:
		w := wrapSpec{Kind: "post", Ret: "keep"}
		if rng.Chance(failP) {
			w.Set = tg.next()
		}
		if rng.Chance(failP + 15) {
			w.Ret = hk.Pick(rng, []string{"err", "err", "nil", "drop", "droperr", "droperr"})
			if w.Ret == "err" || w.Ret == "droperr" {
				w.RetErr = tg.next()
				if rng.Chance(8) {
					w.RetErr = eCanceled // a wrapper reporting context.Canceled without the context being cancelled
				}
			}
		}
		return w
	default:
		w := wrapSpec{Kind: "short", NilResp: rng.Bool()}
		if !w.NilResp && rng.Chance(30) {
			w.Set = tg.next()
		}
		if rng.Chance(70) {
			w.Ret, w.RetErr = "err", tg.next()
		}
		return w
	}
}

func genMw(rng *hk.Rand, tg *tagger, failP int) mwSpec {
	var m mwSpec
	if rng.Chance(failP) {
		m.Ret = tg.next()
	}
	if rng.Chance(failP / 2) {
		m.Set = tg.next()
	}
	return m
}

// part B: middleware stacks where any stage may fail
func genPipeline(rng *hk.Rand) *progSpec {
	tg := &tagger{}
	p := &progSpec{Entry: genEntry(rng), AutoRead: hk.Pick(rng, []int{0, 0, 0, 1, 2}), OnError: rng.Chance(70)}
	genTargets(rng, p)
	if rng.Chance(20) {
		p.Checker = rng.Range(1, len(checkers)-1)
	}
	p.BodyMode = hk.Pick(rng, []string{"none", "none", "marshal", "getbody"})
	nAtt := 1
	if rng.Chance(45) {
		p.Retry = true
		p.Max = hk.Pick(rng, []int{0, 1, 1, 2, 3, -1})
		p.NConds = hk.Pick(rng, []int{0, 0, 1, 1, 2, 3})
		p.NHooks = hk.Pick(rng, []int{0, 1, 1, 2, 3})
		if p.Max < 0 {
			if p.NConds == 0 {
				p.NConds = 1
			}
			nAtt = 4
		} else {
			nAtt = p.Max + 1
		}
	}
	if p.Retry && rng.Chance(35) {
		p.RetryLevel = "client"
	}
	if p.OnError {
		p.HookMode = hk.Pick(rng, []string{"", "", "", "set", "clear", "panic"})
		p.HookTag = 950
	}
	nUd, nW, nCli, nReq := rng.Intn(4), rng.Intn(4), rng.Intn(4), rng.Intn(4)
	// failure regime: 0 none, 1 exactly one failing stage, 2 independent failures
	regime := hk.Pick(rng, []int{0, 1, 1, 1, 2, 2})
	failP := map[int]int{0: 0, 1: 0, 2: 14}[regime]
	for a := 0; a < nAtt; a++ {
		at := attemptSpec{}
		for i := 0; i < p.NConds; i++ {
			at.Conds = append(at.Conds, rng.Chance(45) && a != nAtt-1)
		}
		for i := 0; i < nUd; i++ {
			u := 0
			if rng.Chance(failP / 2) {
				u = tg.next()
			}
			at.Ud = append(at.Ud, u)
		}
		if p.BodyMode == "marshal" && rng.Chance(failP/2) {
			at.Bi = tg.next()
		}
		for i := 0; i < nW; i++ {
			if regime == 2 {
				at.Wraps = append(at.Wraps, genWrap(rng, tg, failP))
			} else {
				at.Wraps = append(at.Wraps, wrapSpec{Kind: "pass"})
			}
		}
		if p.BodyMode == "getbody" && rng.Chance(failP/2) {
			at.GetBody = tg.next()
		}
		at.T = toutSpec{Status: genStatus(rng), B: genBody(rng)}
		if rng.Chance(failP) {
			at.T = toutSpec{Fail: tg.next()}
		} else if rng.Chance(failP / 2) {
			at.T.B.ReadErr = tg.next()
		}
		at.T2 = toutSpec{Status: genStatus(rng), B: genBody(rng)}
		if rng.Chance(failP) {
			at.T2 = toutSpec{Fail: tg.next()}
		}
		for i := 0; i < nCli; i++ {
			at.Cli = append(at.Cli, genMw(rng, tg, failP))
		}
		for i := 0; i < nReq; i++ {
			at.Req = append(at.Req, genMw(rng, tg, failP))
		}
		p.Attempts = append(p.Attempts, at)
	}
	if regime == 1 {
		// exactly one failing stage, at a uniformly chosen position of a uniformly chosen attempt
		at := &p.Attempts[rng.Intn(nAtt)]
		type slot func()
		var slots []slot
		for i := range at.Ud {
			i := i
			slots = append(slots, func() { at.Ud[i] = tg.next() })
		}
		if p.BodyMode == "marshal" {
			slots = append(slots, func() { at.Bi = tg.next() })
		}
		if p.BodyMode == "getbody" {
			slots = append(slots, func() { at.GetBody = tg.next() })
		}
		for i := range at.Wraps {
			i := i
			slots = append(slots, func() {
				at.Wraps[i] = hk.Pick(rng, []wrapSpec{
					{Kind: "short", NilResp: true, Ret: "err", RetErr: tg.next()},
					{Kind: "short", NilResp: false, Ret: "err", RetErr: tg.next()},
					{Kind: "short", NilResp: false, Set: tg.next()},
					{Kind: "post", Ret: "err", RetErr: tg.next()},
					{Kind: "post", Ret: "droperr", RetErr: tg.next()},
					{Kind: "post", Ret: "keep", Set: tg.next()},
				})
			})
		}
		slots = append(slots, func() { at.T = toutSpec{Fail: tg.next()} })
		slots = append(slots, func() { at.T.B.ReadErr = tg.next() })
		slots = append(slots, func() {
			if at.T.Fail == 0 && at.T.B.Body != "" {
				at.T.B.Cut = hk.Pick(rng, []string{"length", "chunked"})
			}
		})
		slots = append(slots, func() { // unmarshal failure
			at.T = toutSpec{Status: hk.Pick(rng, []int{200, 201, 400, 500}), B: bodySpec{CT: "application/json", Body: `{"a":`}}
		})
		for i := range at.Cli {
			i := i
			slots = append(slots, func() { at.Cli[i].Ret = tg.next() }, func() { at.Cli[i].Set = tg.next() })
		}
		for i := range at.Req {
			i := i
			slots = append(slots, func() { at.Req[i].Ret = tg.next() }, func() { at.Req[i].Set = tg.next() })
		}
		slots[rng.Intn(len(slots))]()
	}
	if regime == 2 && rng.Chance(4) {
		p.ReqErr = 900
	}
	if nW > 0 && rng.Chance(8) { // a wrapper that calls the inner round-tripper twice (every attempt)
		i := rng.Intn(nW)
		for a := range p.Attempts {
			p.Attempts[a].Wraps[i] = wrapSpec{Kind: "twice"}
		}
	}
	if nW > 0 && rng.Chance(5) { // the outermost wrapper makes a response up in one attempt
		p.Attempts[rng.Intn(nAtt)].Wraps[nW-1] = wrapSpec{Kind: "fab", Status: hk.Pick(rng, []int{200, 201, 204, 404, 500, 302})}
	}
	if rng.Chance(12) && p.AutoRead == 0 {
		p.Save = true
		p.SaveKind = hk.Pick(rng, []string{"", "closer", "closer", "file"})
		for a := range p.Attempts {
			b := &p.Attempts[a].T.B
			if p.SaveKind != "file" && rng.Chance(20) && b.Body != "" && b.ReadErr == 0 && b.Cut == "" {
				b.WriteErr = tg.next()
			} else if p.SaveKind == "closer" && rng.Chance(25) {
				b.CloseErr = tg.next()
			}
		}
	}
	if rng.Chance(10) { // the request's context ends at one point of one attempt
		at := &p.Attempts[rng.Intn(nAtt)]
		switch rng.Intn(3) {
		case 0:
			at.Ctx = "transport"
		case 1:
			at.Ctx = "after"
		case 2:
			at.SleepCancel = true
		}
	}
	if rng.Chance(20) {
		p.UmCustom = true
		for a := range p.Attempts {
			if regime != 0 && rng.Chance(25) && p.Attempts[a].T.Fail == 0 {
				p.Attempts[a].T.B.UmErr = tg.next()
				p.Attempts[a].T.B.UmOnly = hk.Pick(rng, []string{"", "", "res", "req", "com"})
				p.Attempts[a].T.B.Body += strings.Repeat(" ", 7*(a+1)) // unique key for the custom functions' table
			}
		}
	}
	if rng.Chance(15) {
		p.Transformer = true // read errors scripted above are then raised by the transformer
		seen := map[string]bool{}
		for a := range p.Attempts { // the transformer's table is keyed by body: keep failing bodies unique
			b := &p.Attempts[a].T.B
			if b.ReadErr != 0 {
				b.Body += strings.Repeat("\t", a+1)
				b.ViaTf = rng.Bool()
			}
			if seen[b.Body] && b.ReadErr == 0 {
				b.Body += strings.Repeat("\n", a+1)
			}
			seen[b.Body] = true
		}
	}
	if rng.Chance(4) && p.BodyMode == "none" && p.ReqErr == 0 && !p.OddForm {
		p.Unreplayable = true
	}
	if rng.Chance(3) && p.BodyMode == "none" && p.ReqErr == 0 {
		p.OddForm = true
	}
	return p
}

// part C: digest re-send (client- or request-level) between other middleware
func genDigest(rng *hk.Rand) *progSpec {
	tg := &tagger{}
	p := &progSpec{Entry: genEntry(rng), BodyMode: hk.Pick(rng, []string{"none", "marshal"}), AutoRead: hk.Pick(rng, []int{0, 0, 0, 1, 2}), OnError: rng.Bool()}
	genTargets(rng, p)
	if rng.Chance(60) {
		p.TResult, p.TError = true, true
	}
	at := attemptSpec{}
	at.T = toutSpec{Status: 401, B: genBody(rng), Challenge: hk.Pick(rng, []string{"good", "good", "good", "good", "bad", ""})}
	if rng.Chance(50) {
		at.T.B = bodySpec{CT: "application/json", Body: `{"msg":"unauthorized","code":401}`}
	}
	if rng.Chance(10) {
		at.T.Status = genStatus(rng)
	}
	rs := &toutSpec{Status: hk.Pick(rng, []int{200, 200, 200, 201, 204, 401, 403, 500, 302}), B: genBody(rng)}
	if rng.Chance(50) {
		rs.B = bodySpec{CT: "application/json", Body: `{"a":7,"msg":"ok"}`}
	}
	if rs.Status == 401 {
		rs.Challenge = "good"
	}
	if rng.Chance(8) {
		rs = &toutSpec{Fail: tg.next()}
	} else if rng.Chance(8) {
		rs.B.ReadErr = tg.next()
	}
	d := mwSpec{Digest: true, Resend: rs}
	nBefore, nAfter := rng.Intn(2), rng.Intn(2)
	var ms []mwSpec
	for i := 0; i < nBefore; i++ {
		ms = append(ms, genMw(rng, tg, 8))
	}
	ms = append(ms, d)
	for i := 0; i < nAfter; i++ {
		ms = append(ms, genMw(rng, tg, 8))
	}
	if rng.Bool() {
		at.Cli = ms
		for i := rng.Intn(2); i > 0; i-- {
			at.Req = append(at.Req, genMw(rng, tg, 8))
		}
		if rng.Chance(35) { // client-level digest x download target (x re-send failing in the transport)
			p.Save, p.AutoRead = true, 0
			p.SaveKind = hk.Pick(rng, []string{"", "closer", "file"})
			if rng.Chance(40) {
				d.Resend = &toutSpec{Fail: tg.next()}
				for i := range at.Cli {
					if at.Cli[i].Digest {
						at.Cli[i].Resend = d.Resend
					}
				}
			}
		}
	} else {
		at.Req = ms
		for i := rng.Intn(2); i > 0; i-- {
			at.Cli = append(at.Cli, genMw(rng, tg, 8))
		}
	}
	for i := rng.Intn(2); i > 0; i-- {
		at.Wraps = append(at.Wraps, wrapSpec{Kind: "pass"})
	}
	p.Attempts = []attemptSpec{at}
	return p
}

func runProgram(r *hk.Run, p *progSpec, origin *realOrigin, part string) {
	restrictForEntry(p)
	o, res, er := execute(p, origin)
	for _, f := range oracle(p, &o, res, er) {
		r.Fail(f)
	}
	r.Count("part=" + part)
	r.Count("entry=" + p.Entry)
	last := p.Attempts[len(p.Attempts)-1]
	if last.T.Fail == 0 {
		r.Count(fmt.Sprintf("status=%dxx", last.T.Status/100))
		r.Count("ct=" + ctKind(last.T.B.CT))
	} else {
		r.Count("transport=fail")
	}
	r.Count(fmt.Sprintf("targets=%v/%v/%v", p.TResult, p.TError, p.TCommon))
	r.Count(fmt.Sprintf("autoread=%d", p.AutoRead))
	r.Count(fmt.Sprintf("checker=%d", p.Checker))
	r.Count(fmt.Sprintf("attempts_run=%d", 1+maxAttempt(o.Log)))
	r.Count(fmt.Sprintf("obs.err=%v", o.RespErr != 0 || (o.Panic && o.RetErr != 0)))
	r.Count(fmt.Sprintf("obs.result=%v obs.error=%s", o.Result, o.ErrorB))
	if o.Panic {
		r.Count("obs.must-panic")
	}
	nontrivial := p.TResult || p.TError || p.TCommon || len(o.Log) > 1 || o.RespErr != 0
	key, _ := json.Marshal(p)
	coq := ""
	if o.RtPanic == "" {
		coq = p.coqCase(&o)
	}
	r.Add(hk.Case{Coq: coq, Desc: map[string]interface{}{"kind": "program:" + part, "program": p, "observed": o}}, string(key), nontrivial)
}

func maxAttempt(l []logEv) int {
	m := 0
	for _, e := range l {
		if e.Attempt > m {
			m = e.Attempt
		}
	}
	return m
}

func runC18(r *hk.Run) {
	r.Header = "From ReqV Require Import Model.C18Run.\nOpen Scope Z_scope."
	r.CaseType = "c18_case"
	r.CheckFn = "c18_check"
	r.Rule = "programs = entry point (Do/Send/Get/Post/MustGet/MustPost) x targets {success, error, common error type} x custom state checker x auto-read (on / off on client / off on request) x error hook x retry option x per-attempt scripts for every stage (request middleware, marshal function, wrapping round-trippers, GetBody, transport answer = failure or status 100..599 x content type x body x read error, client- and request-level response middleware incl. digest re-send, retry condition). Non-trivial: a target is configured, or more than one stage ran, or the call ended in error. Distinct by the program's JSON."
	rng := hk.NewRand(r.Seed)
	loadEntries(r)
	if r.OutDir != "" {
		dlDir = r.OutDir
	}

	if r.Replay != "" {
		b, err := os.ReadFile(r.Replay)
		if err == nil {
			var rep struct {
				FailingInputs []struct {
					Input progSpec `json:"input"`
				} `json:"failing_inputs"`
			}
			if json.Unmarshal(b, &rep) == nil {
				for i := range rep.FailingInputs {
					if len(rep.FailingInputs[i].Input.Attempts) > 0 {
						runProgram(r, &rep.FailingInputs[i].Input, nil, "replay")
					}
				}
				return
			}
		}
	}

	// part 0: the default classification of every status code (and beyond 100..599)
	classify0(r)

	// part A: every status 100..599 x sampled configurations
	per := r.Scale(6, 60)
	for s := 100; s <= 599; s++ {
		for k := 0; k < per; k++ {
			runProgram(r, genBinding(rng, s), nil, "binding")
		}
	}
	// part B: middleware stacks
	n := r.Scale(2600, 60000)
	for i := 0; i < n; i++ {
		runProgram(r, genPipeline(rng), nil, "pipeline")
	}
	// part C: digest
	n = r.Scale(500, 8000)
	for i := 0; i < n; i++ {
		runProgram(r, genDigest(rng), nil, "digest")
	}
	// part E: families of clients built by Clone with registrations interleaved
	n = r.Scale(270, 4000)
	for i := 0; i < n; i++ {
		runClone(r, genCloneOps(rng, i%9))
	}
	// part D: a slice over a real loopback origin
	origin, err := newRealOrigin()
	if err != nil {
		r.Notes = append(r.Notes, "real origin unavailable: "+err.Error())
		return
	}
	defer origin.close()
	n = r.Scale(250, 4000)
	for i := 0; i < n; i++ {
		var p *progSpec
		if i%5 == 4 {
			p = genDigest(rng)
		} else {
			p = genBinding(rng, genStatus(rng))
		}
		if d, _ := digestOf(p.Attempts[0]); d == nil && i%3 == 0 && len(p.Attempts) == 1 && p.Attempts[0].T.B.Body != "" && p.Attempts[0].T.B.ReadErr == 0 && p.Attempts[0].T.Status >= 200 {
			p.Attempts[0].T.B.Cut = hk.Pick(rng, []string{"length", "chunked"}) // the body is cut on the wire
			p.Transformer = p.Transformer || rng.Bool()
			p.Attempts[0].T.B.WriteErr, p.Attempts[0].T.B.CloseErr = 0, 0
			if rng.Bool() { // ... while being downloaded into a file / a closing writer
				p.Save, p.AutoRead = true, 0
				p.SaveKind = hk.Pick(rng, []string{"file", "file", "closer"})
				if rng.Bool() {
					p.TResult, p.TError, p.TCommon = false, false, false
				}
			}
		}
		if !realisable(p) {
			continue
		}
		p.Real = true
		runProgram(r, p, origin, "real-origin")
	}
}

// what a real net/http origin can serve exactly as scripted
func realisable(p *progSpec) bool {
	if strings.HasSuffix(p.Entry, "Head") { // a real origin sends no body in answer to HEAD
		return false
	}
	ok := func(t toutSpec) bool {
		if t.Fail != 0 || t.B.ReadErr != 0 || t.B.WriteErr != 0 || t.B.CloseErr != 0 || t.B.UmErr != 0 {
			return false
		}
		if t.B.Cut != "" {
			return t.Status >= 200 && t.Status != 204 && t.Status != 304 && t.B.Body != ""
		}
		if t.Status < 200 || t.Status == 204 || t.Status == 304 {
			return t.Status >= 200 && t.B.Body == ""
		}
		return true
	}
	for _, a := range p.Attempts {
		if !ok(a.T) {
			return false
		}
		for _, ms := range [][]mwSpec{a.Cli, a.Req} {
			for _, m := range ms {
				if m.Resend != nil && !ok(*m.Resend) {
					return false
				}
			}
		}
	}
	return true
}
