package main

// The property's clauses stated directly on what was observed from the real code.
// Independent of the Coq model: it never computes the pipeline's result, it only checks
// the contract (biconditionals, multiplicities, order, "the error seen is a raised one").

import (
	"fmt"
	"strings"

	"github.com/imroc/req/v3/verifharness/hk"
)

// documented classification: 200..299 success, >= 400 error, otherwise unknown
func docState(p *progSpec, status int) int {
	if p.Checker != 0 {
		return checkers[p.Checker](status)
	}
	switch {
	case status >= 200 && status <= 299:
		return 0
	case status >= 400:
		return 1
	}
	return 2
}

func has(l []logEv, a int, kind string, i int) bool {
	for _, e := range l {
		if e.Attempt == a && e.Kind == kind && (e.I == i || kind == "send" || kind == "resend") {
			return true
		}
	}
	return false
}

func count(l []logEv, a int, kind string, i int) int {
	n := 0
	for _, e := range l {
		if (a < 0 || e.Attempt == a) && e.Kind == kind && e.I == i {
			n++
		}
	}
	return n
}

func digestOf(a attemptSpec) (m *mwSpec, level string) {
	for i := range a.Cli {
		if a.Cli[i].Digest {
			return &a.Cli[i], "cli"
		}
	}
	for i := range a.Req {
		if a.Req[i].Digest {
			return &a.Req[i], "req"
		}
	}
	return nil, ""
}

func inSet(s []int, x int) bool {
	for _, y := range s {
		if x == y {
			return true
		}
	}
	return false
}

func oracle(p *progSpec, o *obsT, res *okT, er *errT) []hk.Failure {
	var fs []hk.Failure
	shape := shapeOf(p)
	fail := func(clause, what string, got, want interface{}) {
		fs = append(fs, hk.Failure{Sig: clause + ":" + shape, What: what, Input: p, Got: got, Want: want})
	}
	if o.RtPanic != "" {
		fail("panic", "the call panicked / did not return instead of returning a response and an error", o.RtPanic, "a *Response")
		return fs
	}
	mustEntry := p.must()
	hookRan := count(o.Log, -1, "onerror", 0) > 0
	hookPanics := hookRan && p.HookMode == "panic"
	// C1 / C2
	if !o.Panic && o.RespNil {
		fail("resp-nil", "the call returned a nil *Response", nil, "non-nil")
		return fs
	}
	if o.Panic && !mustEntry && !hookPanics {
		fail("panic", "a non-Must entry point panicked", o.RetErr, nil)
	}
	if hookPanics && (!o.Panic || o.RetErr != p.HookTag) {
		fail("hook-panic", "a panic raised by the error hook did not reach the caller", o.RetErr, p.HookTag)
	}
	if p.verb() && !o.Panic && !o.SameErr {
		fail("err-neq-resp-err", "returned error is not the response's recorded Err", fmt.Sprintf("ret=%d resp.Err=%d", o.RetErr, o.RespErr), "identical")
	}
	if o.Panic && p.OnError && !hookPanics && !o.SameErr {
		fail("err-neq-resp-err", "panic value is not the Err of the response the error hook received", nil, nil)
	}
	if mustEntry && !o.Panic && o.RetErr != 0 {
		fail("must-no-panic", "Must* returned although the call ended in error", o.RetErr, "panic")
	}
	// the error the call ended with BEFORE the hook had a chance to rewrite it
	finalErr := o.RespErr
	if o.Panic {
		finalErr = o.RetErr
	}
	if hookRan {
		finalErr = o.HookErr
		if finalErr == 0 {
			fail("onerror-args", "the error hook ran without an error", nil, nil)
		}
		// what the hook does to resp.Err is what the caller gets
		if !hookPanics {
			after := o.RespErr
			if o.Panic {
				after = o.RetErr
			}
			want := o.HookErr
			switch p.HookMode {
			case "set":
				want = p.HookTag
			case "clear":
				want = 0
			}
			if after != want {
				fail("hook-rewrite", "the error returned after the hook ran is not resp.Err as the hook left it", after, want)
			}
		}
	}
	// the log is in attempt order and the error hook, if it ran, ran last
	for i := 1; i < len(o.Log); i++ {
		if o.Log[i].Attempt < o.Log[i-1].Attempt || o.Log[i-1].Kind == "onerror" {
			fail("log-order", "an invocation is logged out of attempt order / after the error hook", o.Log, nil)
			break
		}
	}
	// which attempt was the last one
	la := 0
	if o.Iters > 0 {
		la = o.Iters - 1
	}
	if la >= len(p.Attempts) {
		fail("too-many-attempts", "more attempts than MaxRetries allows", la+1, len(p.Attempts))
		return fs
	}
	at := p.Attempts[la]
	nUd, nCli, nReq := len(at.Ud), len(at.Cli), len(at.Req)

	// C7 request middleware: registration order, before the request is built and sent
	for a := 0; a <= la; a++ {
		next, sent, failed := 0, false, false
		for _, e := range o.Log {
			if e.Attempt != a {
				continue
			}
			switch e.Kind {
			case "ud":
				if sent {
					fail("reqmw-order", "a request middleware ran after the request was handed to the round trip", o.Log, nil)
				}
				if e.I != next || failed {
					fail("reqmw-order", "request middleware not run in registration order / run after a failing one", o.Log, nil)
				}
				next = e.I + 1
				if p.Attempts[a].Ud[e.I] != 0 {
					failed = true
				}
			case "win", "send":
				sent = true
				if next != nUd || failed {
					fail("reqmw-order", "the request was sent although a request middleware failed or did not run", o.Log, nil)
				}
			}
		}
	}
	if nUd > 0 && has(o.Log, la, "send", 0) {
		var w []string
		for i := 0; i < nUd; i++ {
			w = append(w, fmt.Sprint(i))
		}
		if o.Order != strings.Join(w, ",") {
			fail("reqmw-order", "the request that reached the transport does not carry the middleware's edits in registration order", o.Order, strings.Join(w, ","))
		}
	}

	// C8 response middleware after every attempt
	dm, dlevel := digestOf(at)
	for a := 0; a <= la; a++ {
		sp := p.Attempts[a]
		if ns := count(o.Log, a, "send", 0); ns > 0 {
			for i := 0; i < nCli; i++ {
				if sp.Cli[i].Digest {
					continue
				}
				if n := count(o.Log, a, "cli", i); n != ns {
					fail("respmw-every-attempt", "a client-level response middleware did not run exactly once after every request that reached the transport", fmt.Sprintf("attempt %d middleware %d ran %d times", a, i, n), ns)
				}
			}
		}
		clean := p.ReqErr == 0 && !p.OddForm && sp.Bi == 0 && !(p.Unreplayable && p.Retry && p.Max != 0)
		for _, u := range sp.Ud {
			if u != 0 {
				clean = false
			}
		}
		d, dl := digestOf(sp)
		if clean && !(d != nil && dl == "req") {
			stop := false
			for i := 0; i < nReq; i++ {
				want := 1
				if stop {
					want = 0
				}
				if n := count(o.Log, a, "req", i); n != want {
					fail("respmw-every-attempt", "a request-level response middleware did not run (exactly once, up to the first failing one) after an attempt", fmt.Sprintf("attempt %d middleware %d ran %d times", a, i, n), want)
				}
				if sp.Req[i].Ret != 0 {
					stop = true
				}
			}
		}
	}

	// C9 error hook exactly once for a verb-style call ending in error, never otherwise
	wantHook := 0
	if p.verb() && p.OnError && finalErr != 0 {
		wantHook = 1
	}
	// retry conditions: last registered first, until one says yes; hooks: all, in reverse order
	for a := 0; a <= la; a++ {
		var cs, hs []int
		for _, e := range o.Log {
			if e.Attempt == a && e.Kind == "cond" {
				cs = append(cs, e.I)
			}
			if e.Attempt == a && e.Kind == "hook" {
				hs = append(hs, e.I)
			}
		}
		for k, i := range cs {
			if i != p.NConds-1-k || (k > 0 && p.Attempts[a].Conds[cs[k-1]]) {
				fail("retry-cond-order", "retry conditions not consulted from the last registered to the first / consulted after one said yes", o.Log, nil)
				break
			}
		}
		if len(hs) > 0 {
			ok := len(hs) == p.NHooks
			for k, i := range hs {
				if i != p.NHooks-1-k {
					ok = false
				}
			}
			if !ok {
				fail("retry-hook-order", "retry hooks not all run in reverse registration order", o.Log, nil)
			}
		}
		if a < la && ((o.CtxCutAt >= 0 && o.CtxCutAt <= a) || p.Attempts[a].SleepCancel && o.SleepCut) {
			fail("ctx-retried", "an attempt was made after the request's context had ended", o.Log, nil)
		}
	}
	if n := count(o.Log, -1, "onerror", 0); n != wantHook {
		fail("onerror-count", "error hook multiplicity", n, wantHook)
	}

	// provenance of the final response
	stale := la > 0 && !has(o.Log, la, "send", 0) && !has(o.Log, la, "win", len(at.Wraps)-1)
	resent := has(o.Log, la, "resend", 0)
	finalT := at.T
	if resent && dm != nil && dm.Resend != nil {
		finalT = *dm.Resend
	} else if resent {
		finalT = toutSpec{Status: 200}
	}
	twiceRan := count(o.Log, la, "send", 0) >= 2
	if twiceRan {
		finalT = at.T2
	}
	fabRan := false
	if n := len(at.Wraps); n > 0 && at.Wraps[n-1].Kind == "fab" && has(o.Log, la, "win", n-1) {
		fabRan = true // the outermost wrapper's made-up response is what the caller holds
		finalT = toutSpec{Status: at.Wraps[n-1].Status, B: bodySpec{CT: "application/json", Body: fabBody}}
	}
	fabTag := ""
	if fabRan {
		fabTag = ":fabricated-by-wrapper"
	}
	um := p.refUnmarshalFails(finalT.B)
	if !o.Panic && !stale && p.ReqErr == 0 && !(p.Unreplayable && p.Retry && p.Max != 0) {
		if o.Present && finalT.Fail != 0 && !fabRan && !twiceRan && len(at.Wraps) == 0 {
			// classification is of the response of the LAST exchange: when that exchange failed in the
			// transport there is none - handing back the superseded one (e.g. the 401 a failed digest
			// re-send replaced) would classify and bind a response the call did not end with
			fail("stale-response", "the last exchange failed in the transport but the call hands back the HTTP response of the exchange it superseded", o.Status, "no HTTP response")
		}
		if o.Present && finalT.Fail == 0 && o.Status != finalT.Status {
			fail("status", "response status differs from what the origin sent", o.Status, finalT.Status)
		}
		st := docState(p, finalT.Status)
		content := finalT.Status != 204 && len(finalT.B.Body) > 0
		readOK := p.bodyErr(finalT.B) == 0
		if dm != nil && dlevel == "cli" && !resent && finalT.Fail == 0 && finalT.Status == 401 && finalT.Challenge != "good" {
			// the client-level digest middleware (first in the chain since e430ccb) failed on the
			// challenge: resp.Err is set before the binding step, which then cannot obtain the body
			readOK = false
		}
		// C3
		wantRes := p.TResult && o.Present && st == 0 && content && readOK && !um[0]
		if o.Result != wantRes {
			fail(fmt.Sprintf("result-binding:success:state%d%s", st, fabTag), "SuccessResult() populated <=> target supplied, success state, content, unmarshals", o.Result, wantRes)
		}
		single := len(o.Log) > 0 && count(o.Log, -1, "send", 0)+count(o.Log, -1, "resend", 0) == 1
		if o.Result && wantRes && single { // (a target reused across attempts keeps fields of earlier decodes: Go's Unmarshal merges)
			ref := &okT{}
			refUnmarshal(finalT.B, ref)
			if *ref != *res {
				fail("result-binding:target-contents", "success target does not hold the decoded body", *res, *ref)
			}
		}
		if o.TargetOK != "" {
			fail("result-binding:identity", o.TargetOK, nil, nil)
		}
		// C4
		wantErrB := "none"
		if o.Present && st == 1 && content && readOK {
			if p.TError {
				if !um[1] {
					wantErrB = "req"
				}
			} else if p.TCommon && !um[2] {
				wantErrB = "common"
			}
		}
		if o.ErrorB != wantErrB {
			fail(fmt.Sprintf("result-binding:error:state%d%s", st, fabTag), "ErrorResult() populated <=> target supplied (request target over client type), error state, content, unmarshals", o.ErrorB, wantErrB)
		}
		if o.ErrorB == "req" && wantErrB == "req" && single {
			ref := &errT{}
			refUnmarshal(finalT.B, ref)
			if *ref != *er {
				fail("result-binding:target-contents", "error target does not hold the decoded body", *er, *ref)
			}
		}
	}
	// targets across attempts: the library decodes into the caller's object in every attempt whose
	// binding step applies - nothing resets it in between (Go's Unmarshal merges), so what the
	// target holds at the end is the sequential decode of those bodies
	if p.TResult && !o.Panic && !p.UmCustom && !p.Transformer && !p.Save && dm == nil && p.ReqErr == 0 && o.Iters > 0 {
		plain := true
		ref := &okT{}
		for a := 0; a <= la && a < len(p.Attempts); a++ {
			sp := p.Attempts[a]
			for _, w := range sp.Wraps {
				if w.Kind != "pass" {
					plain = false
				}
			}
			if d, _ := digestOf(sp); d != nil || sp.Ctx != "" {
				plain = false
			}
			if !has(o.Log, a, "send", 0) || sp.T.Fail != 0 {
				continue
			}
			if docState(p, sp.T.Status) == 0 && sp.T.Status != 204 && p.bodyErr(sp.T.B) == 0 {
				refUnmarshal(sp.T.B, ref)
			}
		}
		if plain && *ref != *res {
			fail("target-merge", "the success target does not hold the sequential decode of the bodies of all attempts that were bound", *res, *ref)
		}
	}

	// C5
	if o.Result && o.ErrorB != "none" {
		fail("result-binding:both", "both the success and the error result are populated", nil, nil)
	}

	// download: with an output configured and nothing failing, the output holds the final body
	if p.Save && !o.Panic && !fabRan && o.Present && finalErr == 0 && count(o.Log, -1, "send", 0)+count(o.Log, -1, "resend", 0) == 1 && o.Output != finalT.B.Body {
		fail("download-content", "the download target does not hold the response body", o.Output, finalT.B.Body)
	}

	// C10 (with C6): the error seen is one a stage raised; it is non-nil when a stage that ran raised one
	var must, may []int
	catcher := false
	if p.ReqErr != 0 {
		must = append(must, p.ReqErr)
	} else if p.Unreplayable && p.Retry && p.Max != 0 {
		must = append(must, eUnreplayable)
		if len(o.Log) > 0 && o.Log[0].Kind != "onerror" {
			fail("unreplayable-sent", "a retryable request with an unreplayable body was processed instead of being refused", o.Log, nil)
		}
	} else {
		udClean := true
		for i := 0; i < nUd; i++ {
			if has(o.Log, la, "ud", i) && at.Ud[i] != 0 {
				must = append(must, at.Ud[i])
				udClean = false
			}
		}
		if udClean && p.OddForm {
			must = append(must, eOddForm)
		}
		if udClean && at.Bi != 0 {
			must = append(must, at.Bi)
		}
		inner := true
		for i, w := range at.Wraps {
			if !has(o.Log, la, "win", i) {
				continue
			}
			switch w.Kind {
			case "short":
				inner = false
				if w.Set != 0 && !w.NilResp {
					must = append(must, w.Set)
				}
				if w.Ret == "err" {
					must = append(must, w.RetErr)
				}
			case "fab":
				inner = false
				catcher = true // (resp, nil) without calling the inner round-tripper
			case "post":
				if w.Set != 0 {
					may = append(may, w.Set)
				}
				switch w.Ret {
				case "err":
					must = append(must, w.RetErr)
				case "droperr":
					must = append(must, w.RetErr)
					catcher = true
				case "drop":
					catcher = true
				case "nil":
					// (resp, nil): an error Client.roundTrip recorded stays visible in resp.Err; an
					// error an inner wrapper only returned (or a response it dropped) is gone
					for j := 0; j < i; j++ {
						wj := at.Wraps[j]
						if has(o.Log, la, "win", j) && (wj.Kind == "short" || (wj.Kind == "post" && wj.Ret != "keep" && wj.Ret != "nil")) {
							catcher = true
						}
					}
				}
			}
		}
		if len(at.Wraps) > 0 && !has(o.Log, la, "win", len(at.Wraps)-1) {
			inner = false // before-stage failure: the round trip was not reached
		}
		if inner && udClean && at.Bi == 0 && !p.OddForm && at.GetBody != 0 && p.BodyMode == "getbody" {
			must = append(must, at.GetBody)
		}
		respStage := func(t toutSpec, sure bool) {
			add := func(x int) {
				if sure {
					must = append(must, x)
				} else {
					may = append(may, x)
				}
			}
			if t.Fail != 0 {
				add(t.Fail)
				return
			}
			st := docState(p, t.Status)
			u := p.refUnmarshalFails(t.B)
			if be := p.bodyErr(t.B); be != 0 {
				// the body is certainly read (and the failure certainly raised) when auto-read is on for
				// this status or a target makes the binding step read it
				bound := t.Status != 204 && ((st == 0 && p.TResult) || (st == 1 && (p.TError || p.TCommon)))
				if (p.AutoRead == 0 && !p.Save && t.Status > 199) || bound || (p.Save && p.readerErr(t.B) != 0) { // (a download copies the body, past the transformer)
					add(be)
				} else {
					may = append(may, be)
				}
				return
			}
			if t.Status != 204 {
				switch {
				case st == 0 && p.TResult && u[0]:
					add(p.umClass(t.B, "res"))
				case st == 1 && p.TError && u[1]: // the request-level target's failure stands, whatever the client-level type would do
					add(p.umClass(t.B, "req"))
				case st == 1 && !p.TError && p.TCommon && u[2]:
					add(p.umClass(t.B, "com"))
				}
			}
		}
		if twiceRan { // what the first call yielded is discarded by the wrapper
			respStage(at.T, false)
			if at.Ctx == "transport" {
				may = append(may, eCanceled)
			}
			respStage(at.T2, true)
			if at.T2.Fail == 0 && at.T2.B.WriteErr != 0 {
				may = append(may, at.T2.B.WriteErr)
			}
		} else if at.Ctx == "transport" && has(o.Log, la, "send", 0) {
			must = append(must, eCanceled)
		} else if has(o.Log, la, "send", 0) {
			if p.Save && at.T.Fail == 0 && at.T.B.WriteErr != 0 {
				may = append(may, at.T.B.WriteErr)
				if !resent && p.bodyErr(at.T.B) == 0 {
					must = append(must, at.T.B.WriteErr)
				}
			}
			if p.Save && p.SaveKind == "closer" && at.T.Fail == 0 && at.T.B.CloseErr != 0 {
				// closing the output is a stage too: its error fails a download that was copied cleanly
				may = append(may, at.T.B.CloseErr)
				if !resent && p.bodyErr(at.T.B) == 0 && at.T.B.WriteErr == 0 {
					must = append(must, at.T.B.CloseErr)
				}
			}
			// a client-level digest middleware runs before the built-in binding (e430ccb): when it
			// re-sends, the 401 itself is never unmarshalled
			respStage(at.T, !(resent && dlevel == "cli"))
		}
		if resent {
			respStage(finalT, false)
		}
		if dm != nil && at.T.Fail == 0 && at.T.Status == 401 && at.T.Challenge != "good" {
			may = append(may, eBadChallenge)
		}
		for i := 0; i < nCli; i++ {
			if has(o.Log, la, "cli", i) && !at.Cli[i].Digest {
				if at.Cli[i].Set != 0 {
					must = append(must, at.Cli[i].Set)
				}
				if at.Cli[i].Ret != 0 {
					must = append(must, at.Cli[i].Ret)
				}
			}
		}
		for i := 0; i < nReq; i++ {
			if has(o.Log, la, "req", i) && !at.Req[i].Digest {
				if at.Req[i].Set != 0 {
					must = append(must, at.Req[i].Set)
				}
				if at.Req[i].Ret != 0 {
					must = append(must, at.Req[i].Ret)
				}
			}
		}
		if stale { // the response (and its Err) of the previous attempt is what the caller holds
			pa := p.Attempts[la-1]
			may = append(may, pa.T.Fail, p.bodyErr(pa.T.B), pa.T.B.UmErr, pa.T.B.WriteErr, pa.T.B.CloseErr, pa.T2.Fail, pa.T2.B.WriteErr, eUnmarshal, pa.GetBody)
			for _, m := range append(append([]mwSpec{}, pa.Cli...), pa.Req...) {
				may = append(may, m.Set, m.Ret)
			}
			for _, w := range pa.Wraps {
				may = append(may, w.Set, w.RetErr)
			}
		}
	}
	if o.SleepCut { // do() gives up with the context's error, whatever the attempt itself ended with
		if finalErr != eCanceled {
			fail("sleep-cancel", "the context ended during the wait between attempts but the call does not report it", finalErr, eCanceled)
		}
		must, may = []int{eCanceled}, nil
	}
	if len(must) > 0 && !catcher && finalErr == 0 {
		fail("stage-error-swallowed", "a stage that ran raised an error but the call reports none", 0, must)
	}
	if finalErr != 0 && !inSet(must, finalErr) && !inSet(may, finalErr) {
		what := "the error the caller sees was not raised by any stage that ran"
		if len(must)+len(may) == 0 {
			what = "the call reports an error although no stage raised one"
		}
		fail("stage-error-foreign", what, fmt.Sprintf("%d (%s)", finalErr, o.RespErrS), append(append([]int{}, must...), may...))
	}
	return fs
}
