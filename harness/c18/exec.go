package main

// Execute a program on the real library: an in-process http.RoundTripper stub below the
// client's http.Client (or a real loopback origin), scripted stages, an invocation log.

import (
	"bytes"
	"context"
	"encoding/json"
	"encoding/xml"
	"errors"
	"fmt"
	"io"
	"net/http"
	"os"
	"path/filepath"
	"reflect"
	"regexp"
	"runtime"
	"runtime/debug"
	"strconv"
	"strings"
	"sync"
	"time"

	req "github.com/imroc/req/v3"
)

type tagErr struct{ tag int }

func (e *tagErr) Error() string { return fmt.Sprintf("stage-error-%d", e.tag) }

func mkErr(tag int) error {
	if tag == 0 {
		return nil
	}
	if tag == eCanceled {
		return context.Canceled
	}
	if tag == eCut {
		return io.ErrUnexpectedEOF
	}
	return &tagErr{tag}
}

// targets
type okT struct {
	A   int    `json:"a" xml:"a"`
	Msg string `json:"msg" xml:"msg"`
}
type errT struct {
	Msg  string `json:"msg" xml:"msg"`
	Code int    `json:"code" xml:"code"`
}
type comT struct {
	Msg string `json:"msg" xml:"msg"`
	A   int    `json:"a" xml:"a"`
}

// reference unmarshal: encoding/json unless the content type names xml (json wins when both
// appear, and is the fallback for anything else - the library's documented rule)
func refUnmarshal(b bodySpec, v interface{}) error {
	if strings.Contains(b.CT, "json") {
		return json.Unmarshal([]byte(b.Body), v)
	}
	if strings.Contains(b.CT, "xml") {
		return xml.Unmarshal([]byte(b.Body), v)
	}
	return json.Unmarshal([]byte(b.Body), v)
}

func (p *progSpec) refUnmarshalFails(b bodySpec) [3]bool {
	if p.UmCustom && b.UmErr != 0 {
		switch b.UmOnly { // the custom functions fail for one target only, the others are decoded for real
		case "res":
			return [3]bool{true, refUnmarshal(b, &errT{}) != nil, refUnmarshal(b, &comT{}) != nil}
		case "req":
			return [3]bool{refUnmarshal(b, &okT{}) != nil, true, refUnmarshal(b, &comT{}) != nil}
		case "com":
			return [3]bool{refUnmarshal(b, &okT{}) != nil, refUnmarshal(b, &errT{}) != nil, true}
		}
		return [3]bool{true, true, true}
	}
	return [3]bool{refUnmarshal(b, &okT{}) != nil, refUnmarshal(b, &errT{}) != nil, refUnmarshal(b, &comT{}) != nil}
}

// every answer a program can serve
func (p *progSpec) allTouts() []toutSpec {
	var o []toutSpec
	for _, a := range p.Attempts {
		o = append(o, a.T, a.T2)
		for _, ms := range [][]mwSpec{a.Cli, a.Req} {
			for _, x := range ms {
				if x.Resend != nil {
					o = append(o, *x.Resend)
				}
			}
		}
	}
	return o
}

func refMessages(p *progSpec) map[string]bool {
	m := map[string]bool{}
	add := func(b bodySpec) {
		for _, v := range []interface{}{&okT{}, &errT{}, &comT{}} {
			if e := refUnmarshal(b, v); e != nil {
				m[e.Error()] = true
			}
		}
	}
	for _, t := range p.allTouts() {
		add(t.B)
	}
	return m
}

var tagRe = regexp.MustCompile(`stage-error-(\d+)`)

func classify(err error, ref map[string]bool) int {
	if err == nil {
		return 0
	}
	if errors.Is(err, context.Canceled) {
		return eCanceled
	}
	if errors.Is(err, io.ErrUnexpectedEOF) {
		return eCut
	}
	var te *tagErr
	if errors.As(err, &te) {
		return te.tag
	}
	if m := tagRe.FindStringSubmatch(err.Error()); m != nil {
		n, _ := strconv.Atoi(m[1])
		return n
	}
	if ref[err.Error()] {
		return eUnmarshal
	}
	if strings.Contains(err.Error(), "digest: challenge is bad") {
		return eBadChallenge
	}
	if strings.Contains(err.Error(), "bad ordered form data") {
		return eOddForm
	}
	if strings.Contains(err.Error(), "retryable request should not have unreplayable Body") {
		return eUnreplayable
	}
	return eUnknown
}

// like a net/http response body: reading after Close fails
type closeAwareBody struct {
	r      io.Reader
	closed bool
}

func (b *closeAwareBody) Read(p []byte) (int, error) {
	if b.closed {
		return 0, errors.New("http: read on closed response body")
	}
	return b.r.Read(p)
}
func (b *closeAwareBody) Close() error { b.closed = true; return nil }

type failReader struct {
	r   io.Reader
	err error
}

func (f *failReader) Read(p []byte) (int, error) {
	n, err := f.r.Read(p)
	if err == io.EOF && f.err != nil {
		return n, f.err
	}
	return n, err
}

type execState struct {
	mu        sync.Mutex
	p         *progSpec
	rq        *req.Request
	log       []logEv
	order     string
	sends     map[int]int // transport calls per attempt
	marshalN  int
	hookOK    bool
	hookResp  *req.Response
	hookErr   error
	stubFault string
	lastT     *toutSpec // the answer served last (the output writer's script)
	closes    int
	out       bytes.Buffer
	cancel    context.CancelFunc
	ctxCutAt  int // attempt in which the stub cancelled the context (-1: never)
	sleepCut  bool
}

func (s *execState) attempt() int {
	if s.rq == nil {
		return 0
	}
	n := s.rq.RetryAttempt
	if n >= len(s.p.Attempts) {
		n = len(s.p.Attempts) - 1
	}
	if n < 0 {
		n = 0
	}
	return n
}

func (s *execState) ev(kind string, i int) {
	s.mu.Lock()
	a := 0
	if s.rq != nil {
		a = s.rq.RetryAttempt
	}
	s.log = append(s.log, logEv{Kind: kind, I: i, Attempt: a})
	s.mu.Unlock()
}

// the retry option's user functions (installed on the request or, as common options, on the client)
func (s *execState) intervalFunc() req.GetRetryIntervalFunc {
	return func(resp *req.Response, attempt int) time.Duration {
		if a := attempt - 1; a >= 0 && a < len(s.p.Attempts) && s.p.Attempts[a].SleepCancel {
			s.sleepCut = true
			s.cancel()
			return 30 * time.Second
		}
		return 0
	}
}

func (s *execState) hookFunc(i int) req.RetryHookFunc {
	return func(resp *req.Response, err error) {
		// hooks run after RetryAttempt++ but belong to the iteration that decided to retry
		a := 0
		if s.rq != nil {
			a = s.rq.RetryAttempt - 1
		}
		s.mu.Lock()
		s.log = append(s.log, logEv{Kind: "hook", I: i, Attempt: a})
		s.mu.Unlock()
	}
}

func (s *execState) condFunc(i int) req.RetryConditionFunc {
	return func(resp *req.Response, err error) bool {
		s.ev("cond", i)
		return s.p.Attempts[s.attempt()].Conds[i]
	}
}

const goodChallenge = `Digest realm="c18", nonce="dcd98b7102dd2f0e8b11d0f600bfb0c093", qop="auth", algorithm=MD5`

func buildHTTPResponse(t toutSpec, hr *http.Request, p *progSpec) *http.Response {
	h := http.Header{}
	if t.B.CT != "" {
		h.Set("Content-Type", t.B.CT)
	}
	if t.Status == 401 {
		switch t.Challenge {
		case "good":
			h.Set("Www-Authenticate", goodChallenge)
		case "bad":
			h.Set("Www-Authenticate", `Basic realm="c18"`)
		}
	}
	var body io.Reader = bytes.NewReader([]byte(t.B.Body))
	cl := int64(len(t.B.Body))
	if e := p.readerErr(t.B); e != 0 {
		body = &failReader{r: body, err: mkErr(e)}
		cl = -1
		if t.B.Cut == "length" {
			cl = int64(len(t.B.Body)) + 50
		}
	}
	return &http.Response{StatusCode: t.Status, Status: fmt.Sprintf("%d %s", t.Status, http.StatusText(t.Status)),
		Proto: "HTTP/1.1", ProtoMajor: 1, ProtoMinor: 1, Header: h, Body: &closeAwareBody{r: body}, ContentLength: cl, Request: hr}
}

// the transport stub
func (s *execState) transport(hr *http.Request) (*http.Response, error) {
	a := s.attempt()
	s.mu.Lock()
	k := s.sends[a]
	s.sends[a]++
	s.order = hr.Header.Get("X-Order")
	s.mu.Unlock()
	at := s.p.Attempts[a]
	t := at.T
	twice := false
	for _, w := range at.Wraps {
		if w.Kind == "twice" {
			twice = true
		}
	}
	if k == 0 {
		s.ev("send", 0)
	} else if twice {
		s.ev("send", 0)
		t = at.T2
	} else {
		s.ev("resend", 0)
		var rs *toutSpec
		for _, ms := range [][]mwSpec{at.Cli, at.Req} {
			for _, m := range ms {
				if m.Digest {
					rs = m.Resend
				}
			}
		}
		if rs == nil {
			rs = &toutSpec{Status: 200}
		}
		if !strings.HasPrefix(hr.Header.Get("Authorization"), "Digest ") {
			s.stubFault = "second transport call in an attempt without a Digest Authorization header"
		}
		t = *rs
	}
	tt := t
	s.lastT = &tt
	if k == 0 && at.Ctx != "" {
		s.cancel()
		s.ctxCutAt = a
		if at.Ctx == "transport" {
			return nil, hr.Context().Err()
		}
	}
	if t.Fail != 0 {
		return nil, mkErr(t.Fail)
	}
	return buildHTTPResponse(t, hr, s.p), nil
}

func (s *execState) mwFunc(level string, i int) req.ResponseMiddleware {
	return func(c *req.Client, resp *req.Response) error {
		s.ev(level, i)
		at := s.p.Attempts[s.attempt()]
		var m mwSpec
		if level == "cli" {
			m = at.Cli[i]
		} else {
			m = at.Req[i]
		}
		if m.Set != 0 {
			resp.Err = mkErr(m.Set) // a nil resp panics here: caught by the runner and reported
		}
		return mkErr(m.Ret)
	}
}

func (s *execState) wrapFunc(i int) req.RoundTripWrapperFunc {
	return func(rt req.RoundTripper) req.RoundTripFunc {
		return func(r *req.Request) (*req.Response, error) {
			s.ev("win", i)
			defer s.ev("wout", i)
			w := s.p.Attempts[s.attempt()].Wraps[i]
			switch w.Kind {
			case "fab":
				h := http.Header{}
				h.Set("Content-Type", "application/json")
				return &req.Response{Request: r, Response: &http.Response{StatusCode: w.Status, Status: fmt.Sprint(w.Status), Proto: "HTTP/1.1", ProtoMajor: 1, ProtoMinor: 1,
					Header: h, Body: io.NopCloser(strings.NewReader(fabBody)), ContentLength: int64(len(fabBody))}}, nil
			case "twice":
				rt.RoundTrip(r)
				return rt.RoundTrip(r)
			case "short":
				var resp *req.Response
				if !w.NilResp {
					resp = &req.Response{Request: r, Err: mkErr(w.Set)}
				}
				if w.Ret == "err" {
					return resp, mkErr(w.RetErr)
				}
				return resp, nil
			case "post":
				resp, err := rt.RoundTrip(r)
				if w.Set != 0 && resp != nil {
					resp.Err = mkErr(w.Set)
				}
				switch w.Ret {
				case "err":
					return resp, fmt.Errorf("wrapped: %w", mkErr(w.RetErr))
				case "nil":
					return resp, nil
				case "drop":
					return nil, nil
				case "droperr":
					return nil, mkErr(w.RetErr)
				}
				return resp, err
			}
			return rt.RoundTrip(r)
		}
	}
}

var pkgFuncs = map[string]interface{}{
	"Get": req.Get, "Post": req.Post, "Put": req.Put, "Patch": req.Patch, "Delete": req.Delete, "Head": req.Head, "Options": req.Options,
	"MustGet": req.MustGet, "MustPost": req.MustPost, "MustPut": req.MustPut, "MustPatch": req.MustPatch, "MustDelete": req.MustDelete,
	"MustHead": req.MustHead, "MustOptions": req.MustOptions,
}

const fabBody = `{"a":3,"msg":"made up","code":3}`

// the download target: fails when the body being written is scripted to
type scriptWriter struct{ st *execState }

func (w *scriptWriter) Write(p []byte) (int, error) {
	if t := w.st.lastT; t != nil && t.B.WriteErr != 0 {
		return 0, mkErr(t.B.WriteErr)
	}
	return w.st.out.Write(p)
}

// an output that is also an io.Closer (like the file SetOutputFile opens)
type scriptCloser struct{ scriptWriter }

func (w *scriptCloser) Close() error {
	w.st.closes++
	if t := w.st.lastT; t != nil && t.B.CloseErr != 0 {
		return mkErr(t.B.CloseErr)
	}
	return nil
}

// directory for SetOutputFile targets (under the run's output directory) and a counter for names
var dlDir = "."
var dlSeq int

type marshalBody struct {
	V int `json:"v"`
}

func execute(p *progSpec, origin *realOrigin) (o obsT, res *okT, er *errT) {
	st := &execState{p: p, sends: map[int]int{}, ctxCutAt: -1}
	ref := refMessages(p)
	c := req.C()
	if origin == nil {
		c.GetTransport().WrapRoundTripFunc(func(rt http.RoundTripper) req.HttpRoundTripFunc {
			return func(hr *http.Request) (*http.Response, error) { return st.transport(hr) }
		})
	} else {
		c.GetTransport().WrapRoundTripFunc(func(rt http.RoundTripper) req.HttpRoundTripFunc {
			return func(hr *http.Request) (*http.Response, error) {
				a := st.attempt()
				st.mu.Lock()
				k := st.sends[a]
				st.sends[a]++
				st.order = hr.Header.Get("X-Order")
				st.mu.Unlock()
				if k == 0 {
					st.ev("send", 0)
				} else {
					st.ev("resend", 0)
				}
				hr.Header.Set("X-C18-Case", origin.register(p, a, k))
				return rt.RoundTrip(hr)
			}
		})
	}
	switch p.AutoRead {
	case 1:
		c.DisableAutoReadResponse()
	}
	if p.TCommon {
		c.SetCommonErrorResult(&comT{})
	}
	if p.Checker != 0 {
		f := checkers[p.Checker]
		c.SetResultStateCheckFunc(func(resp *req.Response) req.ResultState { return req.ResultState(f(resp.StatusCode)) })
	}
	if p.Transformer {
		fails := map[string]int{}
		for _, t := range p.allTouts() {
			if e := p.tfErr(t.B); e != 0 {
				fails[t.B.Body] = e
			}
		}
		c.SetResponseBodyTransformer(func(raw []byte, rq *req.Request, resp *req.Response) ([]byte, error) {
			if tag := fails[string(raw)]; tag != 0 {
				return nil, mkErr(tag)
			}
			return raw, nil
		})
	}
	if p.UmCustom {
		fails := map[string]bodySpec{}
		for _, t := range p.allTouts() {
			if t.B.UmErr != 0 {
				fails[t.B.Body] = t.B
			}
		}
		scripted := func(data []byte, v interface{}) error {
			b, ok := fails[string(data)]
			if !ok {
				return nil
			}
			switch v.(type) {
			case *okT:
				if b.UmOnly != "" && b.UmOnly != "res" {
					return nil
				}
			case *errT:
				if b.UmOnly != "" && b.UmOnly != "req" {
					return nil
				}
			case *comT:
				if b.UmOnly != "" && b.UmOnly != "com" {
					return nil
				}
			}
			return mkErr(b.UmErr)
		}
		c.SetJsonUnmarshal(func(data []byte, v interface{}) error {
			if e := scripted(data, v); e != nil {
				return e
			}
			return json.Unmarshal(data, v)
		})
		c.SetXmlUnmarshal(func(data []byte, v interface{}) error {
			if e := scripted(data, v); e != nil {
				return e
			}
			return xml.Unmarshal(data, v)
		})
	}
	if p.OnError {
		c.OnError(func(client *req.Client, r *req.Request, resp *req.Response, err error) {
			st.ev("onerror", 0)
			st.hookResp, st.hookErr = resp, err
			switch p.HookMode {
			case "set":
				resp.Err = mkErr(p.HookTag)
			case "clear":
				resp.Err = nil
			case "panic":
				panic(mkErr(p.HookTag))
			}
		})
	}
	nUd, nW, nCli, nReq := 0, 0, 0, 0
	if len(p.Attempts) > 0 {
		a0 := p.Attempts[0]
		nUd, nW, nCli, nReq = len(a0.Ud), len(a0.Wraps), len(a0.Cli), len(a0.Req)
	}
	if strings.HasPrefix(p.Entry, "pkg.") {
		c.OnBeforeRequest(func(c *req.Client, r *req.Request) error { st.rq = r; return nil })
	}
	for i := 0; i < nUd; i++ {
		i := i
		c.OnBeforeRequest(func(c *req.Client, r *req.Request) error {
			st.ev("ud", i)
			v := r.Headers.Get("X-Order")
			if i == 0 {
				v = ""
			}
			if v != "" {
				v += ","
			}
			r.SetHeader("X-Order", v+strconv.Itoa(i))
			return mkErr(st.p.Attempts[st.attempt()].Ud[i])
		})
	}
	for i := 0; i < nW; i++ {
		c.WrapRoundTripFunc(st.wrapFunc(i))
	}
	for i := 0; i < nCli; i++ {
		if p.Attempts[0].Cli[i].Digest {
			c.SetCommonDigestAuth("user", "pass")
			continue
		}
		c.OnAfterResponse(st.mwFunc("cli", i))
	}
	c.SetJsonMarshal(func(v interface{}) ([]byte, error) {
		st.mu.Lock()
		n := st.marshalN
		st.marshalN++
		st.mu.Unlock()
		if p.ReqErr != 0 && n == 0 {
			return nil, mkErr(p.ReqErr)
		}
		if st.rq != nil {
			if tag := p.Attempts[st.attempt()].Bi; tag != 0 {
				return nil, mkErr(tag)
			}
		}
		return json.Marshal(v)
	})

	pkg := strings.HasPrefix(p.Entry, "pkg.")
	if p.Retry && p.RetryLevel == "client" { // the client's common retry options: copied into every request R() makes
		c.SetCommonRetryCount(p.Max)
		c.SetCommonRetryInterval(st.intervalFunc())
		for i := 0; i < p.NHooks; i++ {
			c.AddCommonRetryHook(st.hookFunc(i))
		}
		for i := 0; i < p.NConds; i++ {
			c.AddCommonRetryCondition(st.condFunc(i))
		}
	}
	rq := c.R()
	if pkg {
		// the function creates its own request: it is captured by a silent first request middleware
		rq = nil
	}
	st.rq = rq
	if p.AutoRead == 2 {
		rq.DisableAutoReadResponse()
	}
	res, er = &okT{}, &errT{}
	if p.TResult {
		rq.SetSuccessResult(res)
	}
	if p.TError {
		rq.SetErrorResult(er)
	}
	if p.ReqErr != 0 {
		rq.SetBodyJsonMarshal(&marshalBody{1})
	}
	switch p.BodyMode {
	case "marshal":
		rq.SetBody(&marshalBody{2})
	case "getbody":
		rq.GetBody = func() (io.ReadCloser, error) {
			if tag := p.Attempts[st.attempt()].GetBody; tag != 0 {
				return nil, mkErr(tag)
			}
			return io.NopCloser(strings.NewReader("x")), nil
		}
	}
	if p.OddForm {
		rq.SetOrderedFormData("a", "1", "b")
	}
	if p.Unreplayable {
		rq.SetBody(strings.NewReader("unreplayable"))
	}
	dlFile := ""
	if p.Save {
		switch p.SaveKind {
		case "closer":
			rq.SetOutput(&scriptCloser{scriptWriter{st}})
		case "file":
			dlSeq++
			dlFile = filepath.Join(dlDir, fmt.Sprintf("dl_%d.bin", dlSeq))
			rq.SetOutputFile(dlFile)
			defer os.Remove(dlFile)
		default:
			rq.SetOutput(&scriptWriter{st})
		}
	}
	for i := 0; i < nReq; i++ {
		if p.Attempts[0].Req[i].Digest {
			rq.SetDigestAuth("user", "pass")
			continue
		}
		rq.OnAfterResponse(st.mwFunc("req", i))
	}
	ctx, cancel := context.WithCancel(context.Background())
	st.cancel = cancel
	defer cancel()
	if !pkg {
		rq.SetContext(ctx)
	}
	if p.Retry && p.RetryLevel != "client" {
		rq.SetRetryCount(p.Max)
		rq.SetRetryInterval(st.intervalFunc())
		for i := 0; i < p.NHooks; i++ {
			rq.AddRetryHook(st.hookFunc(i))
		}
		for i := 0; i < p.NConds; i++ {
			rq.AddRetryCondition(st.condFunc(i))
		}
	}
	url := "http://c18.test/x"
	if origin != nil {
		url = origin.url + "/x"
	}

	var resp *req.Response
	var err error
	done := make(chan struct{})
	go func() {
		defer close(done)
		defer func() {
			if v := recover(); v != nil {
				_, isRt := v.(runtime.Error)
				if e, ok := v.(error); ok && !isRt {
					o.Panic = true
					err = e
					return
				}
				o.RtPanic = fmt.Sprint(v)
				if os.Getenv("C18_DEBUG") != "" {
					fmt.Fprintf(os.Stderr, "panic: %v\n%s\n", v, debug.Stack())
				}
			}
		}()
		switch {
		case p.Entry == "do":
			rq.Method, rq.RawURL = "POST", url
			resp = rq.Do()
		case p.Entry == "send":
			resp, err = rq.Send("POST", url)
		case pkg: // package-level function on the default client
			old := req.DefaultClient()
			req.SetDefaultClient(c)
			defer req.SetDefaultClient(old)
			switch f := pkgFuncs[strings.TrimPrefix(p.Entry, "pkg.")].(type) {
			case func(string) (*req.Response, error):
				resp, err = f(url)
			case func(string) *req.Response:
				resp = f(url)
			default:
				o.RtPanic = "harness: no package-level function " + p.Entry
			}
		default: // method of *Request named in the generated table
			m := reflect.ValueOf(rq).MethodByName(p.Entry)
			if !m.IsValid() {
				o.RtPanic = "harness: no method Request." + p.Entry
				return
			}
			outs := m.Call([]reflect.Value{reflect.ValueOf(url)})
			resp, _ = outs[0].Interface().(*req.Response)
			if len(outs) > 1 {
				err, _ = outs[1].Interface().(error)
			}
		}
	}()
	select {
	case <-done:
	case <-time.After(60 * time.Second):
		o.RtPanic = "watchdog: call did not return within 60 s"
		return
	}
	o.Log = append([]logEv{}, st.log...)
	o.Output = st.out.String()
	if dlFile != "" {
		b, _ := os.ReadFile(dlFile)
		o.Output = string(b)
	}
	if pkg {
		o.Iters = 1
		if st.rq != nil {
			o.Iters = st.rq.RetryAttempt + 1
		}
	} else if p.ReqErr == 0 {
		o.Iters = rq.RetryAttempt + 1
		if st.sleepCut { // RetryAttempt was incremented, the next iteration never started
			o.Iters--
		}
	}
	o.SleepCut = st.sleepCut
	o.CtxCutAt = st.ctxCutAt
	o.HookErr = classify(st.hookErr, ref)
	o.Order = st.order
	if st.stubFault != "" {
		o.RtPanic = "stub: " + st.stubFault
	}
	o.RetErr = classify(err, ref)
	if o.Panic {
		o.HookOK = !p.OnError || (st.hookErr == err)
		if st.hookResp != nil {
			resp = st.hookResp // only to report; the panic path returns no response
			o.RespErr = classify(resp.Err, ref)
			o.SameErr = resp.Err == err
			o.RespNil = false
		}
		return
	}
	if resp == nil {
		o.RespNil = true
		return
	}
	o.Present = resp.Response != nil
	if o.Present {
		o.Status = resp.StatusCode
	}
	o.RespErr = classify(resp.Err, ref)
	if resp.Err != nil {
		o.RespErrS = resp.Err.Error()
	}
	o.SameErr = resp.Err == err
	o.Cached = resp.Bytes() != nil
	o.Result = resp.SuccessResult() != nil
	switch v := resp.ErrorResult().(type) {
	case nil:
		o.ErrorB = "none"
	case *errT:
		if v == er {
			o.ErrorB = "req"
		} else {
			o.ErrorB = "other"
		}
	case *comT:
		o.ErrorB = "common"
	default:
		o.ErrorB = "other"
	}
	if o.Result && resp.SuccessResult() != interface{}(res) {
		o.TargetOK = "SuccessResult() is not the supplied target"
	}
	o.HookOK = true
	if p.OnError && err != nil {
		o.HookOK = st.hookResp == resp && st.hookErr == err
	}
	return
}

