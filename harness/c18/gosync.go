package main

// gosync for C18: regenerate coq/Gen/ResultState.v from the Go source -
//   * the ResultState constants (client.go, iota block),
//   * the integer kernel of defaultResultStateChecker (middleware.go) as a Gallina function over Z,
//   * the status guard of the auto-read step in Client.roundTrip (client.go) and in the digest
//     re-send (digest.go): `resp.StatusCode > 199`.
// A rewrite that leaves the translatable subset makes translation fail (= broken tie).

import (
	"fmt"
	"go/ast"
	"go/parser"
	"go/token"
	"path/filepath"
	"sort"
	"strings"

	"github.com/imroc/req/v3/verifharness/hk"
)

var syncers = map[string]hk.Gosyncer{"ResultState": syncResultState, "EntryPoints": syncEntryPoints}

type kctx struct {
	vars   map[string]bool // identifiers standing for the status code
	consts map[string]bool // ResultState constant names
}

func (k *kctx) isCode(e ast.Expr) bool {
	switch x := e.(type) {
	case *ast.Ident:
		return k.vars[x.Name]
	case *ast.SelectorExpr:
		return x.Sel.Name == "StatusCode"
	case *ast.ParenExpr:
		return k.isCode(x.X)
	}
	return false
}

var httpStatus = map[string]int{"StatusOK": 200, "StatusNoContent": 204, "StatusMultipleChoices": 300,
	"StatusBadRequest": 400, "StatusInternalServerError": 500, "StatusContinue": 100}

func (k *kctx) intExpr(e ast.Expr) (string, error) {
	switch x := e.(type) {
	case *ast.ParenExpr:
		return k.intExpr(x.X)
	case *ast.BasicLit:
		if x.Kind == token.INT {
			return x.Value + "%Z", nil
		}
	case *ast.SelectorExpr:
		if id, ok := x.X.(*ast.Ident); ok && id.Name == "http" {
			if v, ok := httpStatus[x.Sel.Name]; ok {
				return fmt.Sprintf("%d%%Z", v), nil
			}
		}
	}
	if k.isCode(e) {
		return "code", nil
	}
	return "", fmt.Errorf("untranslatable integer expression %T", e)
}

func (k *kctx) boolExpr(e ast.Expr) (string, error) {
	switch x := e.(type) {
	case *ast.ParenExpr:
		return k.boolExpr(x.X)
	case *ast.UnaryExpr:
		if x.Op == token.NOT {
			s, err := k.boolExpr(x.X)
			return "(negb " + s + ")", err
		}
	case *ast.BinaryExpr:
		switch x.Op {
		case token.LAND, token.LOR:
			a, err := k.boolExpr(x.X)
			if err != nil {
				return "", err
			}
			b, err := k.boolExpr(x.Y)
			if err != nil {
				return "", err
			}
			op := " && "
			if x.Op == token.LOR {
				op = " || "
			}
			return "(" + a + op + b + ")", nil
		case token.GTR, token.LSS, token.GEQ, token.LEQ, token.EQL, token.NEQ:
			a, err := k.intExpr(x.X)
			if err != nil {
				return "", err
			}
			b, err := k.intExpr(x.Y)
			if err != nil {
				return "", err
			}
			op := map[token.Token]string{token.GTR: ">?", token.LSS: "<?", token.GEQ: ">=?", token.LEQ: "<=?", token.EQL: "=?"}[x.Op]
			if x.Op == token.NEQ {
				return "(negb (" + a + " =? " + b + "))", nil
			}
			return "(" + a + " " + op + " " + b + ")", nil
		}
	}
	return "", fmt.Errorf("untranslatable condition %T", e)
}

// stmts translates `if c {return A} else if d {return B} else {return C}` chains and
// `if c {return A}; return B` sequences into nested Gallina if-then-else.
func (k *kctx) stmts(l []ast.Stmt) (string, error) {
	if len(l) == 0 {
		return "", fmt.Errorf("control reaches the end of the function without a return")
	}
	switch s := l[0].(type) {
	case *ast.ReturnStmt:
		if len(s.Results) == 1 {
			if id, ok := s.Results[0].(*ast.Ident); ok && k.consts[id.Name] {
				return id.Name, nil
			}
		}
		return "", fmt.Errorf("return of something other than a ResultState constant")
	case *ast.AssignStmt:
		if s.Tok == token.DEFINE && len(s.Lhs) == 1 && len(s.Rhs) == 1 && k.isCode(s.Rhs[0]) {
			k.vars[s.Lhs[0].(*ast.Ident).Name] = true
			return k.stmts(l[1:])
		}
		return "", fmt.Errorf("untranslatable assignment")
	case *ast.IfStmt:
		if s.Init != nil {
			as, ok := s.Init.(*ast.AssignStmt)
			if !ok || as.Tok != token.DEFINE || len(as.Lhs) != 1 || len(as.Rhs) != 1 || !k.isCode(as.Rhs[0]) {
				return "", fmt.Errorf("untranslatable if-initialiser")
			}
			k.vars[as.Lhs[0].(*ast.Ident).Name] = true
		}
		c, err := k.boolExpr(s.Cond)
		if err != nil {
			return "", err
		}
		th, err := k.stmts(s.Body.List)
		if err != nil {
			return "", err
		}
		var el string
		switch e := s.Else.(type) {
		case nil:
			el, err = k.stmts(l[1:])
		case *ast.BlockStmt:
			el, err = k.stmts(e.List)
		case *ast.IfStmt:
			el, err = k.stmts([]ast.Stmt{e})
		default:
			err = fmt.Errorf("untranslatable else")
		}
		if err != nil {
			return "", err
		}
		return "(if " + c + " then " + th + " else " + el + ")", nil
	case *ast.BlockStmt:
		return k.stmts(append(append([]ast.Stmt{}, s.List...), l[1:]...))
	}
	return "", fmt.Errorf("untranslatable statement %T", l[0])
}

// statusGuard finds, inside function fn of file f, the `if` whose condition mentions
// disableAutoReadResponse and returns the translated conjunct that tests the status code.
func statusGuard(f *ast.File, fn string) (string, error) {
	var out string
	var ferr error
	k := &kctx{vars: map[string]bool{}, consts: map[string]bool{}}
	ast.Inspect(f, func(n ast.Node) bool {
		fd, ok := n.(*ast.FuncDecl)
		if !ok || fd.Name.Name != fn || fd.Body == nil {
			return true
		}
		ast.Inspect(fd.Body, func(m ast.Node) bool {
			is, ok := m.(*ast.IfStmt)
			if !ok || out != "" {
				return true
			}
			mentions := false
			ast.Inspect(is.Cond, func(x ast.Node) bool {
				if id, ok := x.(*ast.Ident); ok && id.Name == "disableAutoReadResponse" {
					mentions = true
				}
				return true
			})
			if !mentions {
				return true
			}
			var conj []ast.Expr
			var split func(e ast.Expr)
			split = func(e ast.Expr) {
				if b, ok := e.(*ast.BinaryExpr); ok && b.Op == token.LAND {
					split(b.X)
					split(b.Y)
					return
				}
				conj = append(conj, e)
			}
			split(is.Cond)
			var parts []string
			for _, c := range conj {
				hasStatus := false
				ast.Inspect(c, func(x ast.Node) bool {
					if se, ok := x.(*ast.SelectorExpr); ok && se.Sel.Name == "StatusCode" {
						hasStatus = true
					}
					return true
				})
				if hasStatus {
					s, err := k.boolExpr(c)
					if err != nil {
						ferr = err
						return false
					}
					parts = append(parts, s)
				}
			}
			if len(parts) == 0 {
				parts = []string{"true"}
			}
			out = strings.Join(parts, " && ")
			return false
		})
		return false
	})
	if ferr != nil {
		return "", ferr
	}
	if out == "" {
		return "", fmt.Errorf("%s: auto-read guard not found", fn)
	}
	return out, nil
}

func syncResultState(repo string) (string, string, error) {
	fset := token.NewFileSet()
	parse := func(name string) (*ast.File, error) {
		return parser.ParseFile(fset, filepath.Join(repo, name), nil, 0)
	}
	cl, err := parse("client.go")
	if err != nil {
		return "", "", err
	}
	// ResultState constants: const ( A ResultState = iota; B; C )
	consts := map[string]int{}
	for _, d := range cl.Decls {
		gd, ok := d.(*ast.GenDecl)
		if !ok || gd.Tok != token.CONST {
			continue
		}
		isRS := false
		for i, sp := range gd.Specs {
			vs := sp.(*ast.ValueSpec)
			if i == 0 {
				if id, ok := vs.Type.(*ast.Ident); ok && id.Name == "ResultState" && len(vs.Values) == 1 {
					if v, ok := vs.Values[0].(*ast.Ident); ok && v.Name == "iota" {
						isRS = true
					}
				}
			}
			if !isRS {
				break
			}
			if i > 0 && (vs.Type != nil || len(vs.Values) != 0) {
				return "", "", fmt.Errorf("ResultState const block is no longer a plain iota sequence")
			}
			for _, n := range vs.Names {
				consts[n.Name] = i
			}
		}
	}
	for _, n := range []string{"SuccessState", "ErrorState", "UnknownState"} {
		if _, ok := consts[n]; !ok {
			return "", "", fmt.Errorf("constant %s not found in client.go", n)
		}
	}
	mw, err := parse("middleware.go")
	if err != nil {
		return "", "", err
	}
	k := &kctx{vars: map[string]bool{}, consts: map[string]bool{}}
	for n := range consts {
		k.consts[n] = true
	}
	var kernel string
	for _, d := range mw.Decls {
		fd, ok := d.(*ast.FuncDecl)
		if ok && fd.Name.Name == "defaultResultStateChecker" {
			kernel, err = k.stmts(fd.Body.List)
			if err != nil {
				return "", "", fmt.Errorf("defaultResultStateChecker: %w", err)
			}
		}
	}
	if kernel == "" {
		return "", "", fmt.Errorf("defaultResultStateChecker not found in middleware.go")
	}
	g1, err := statusGuard(cl, "roundTrip")
	if err != nil {
		return "", "", err
	}
	dg, err := parse("digest.go")
	if err != nil {
		return "", "", err
	}
	g2, err := statusGuard(dg, "handleDigestAuthFunc")
	if err != nil {
		return "", "", err
	}
	var names []string
	for n := range consts {
		names = append(names, n)
	}
	sort.Slice(names, func(i, j int) bool { return consts[names[i]] < consts[names[j]] })
	var sb strings.Builder
	sb.WriteString("(* GENERATED by harness/c18 gosync from /repo/client.go, middleware.go, digest.go - do not edit *)\n")
	sb.WriteString("From Coq Require Import ZArith Bool.\nOpen Scope Z_scope.\n")
	for _, n := range names {
		sb.WriteString(fmt.Sprintf("Definition %s : Z := %d.\n", n, consts[n]))
	}
	sb.WriteString("(* defaultResultStateChecker, with code = resp.StatusCode *)\n")
	sb.WriteString("Definition default_result_state (code : Z) : Z :=\n  " + kernel + ".\n")
	sb.WriteString("(* status conjunct of the auto-read guard in Client.roundTrip *)\n")
	sb.WriteString("Definition autoread_status_ok (code : Z) : bool := " + g1 + ".\n")
	sb.WriteString("(* status conjunct of the auto-read guard in the digest re-send *)\n")
	sb.WriteString("Definition digest_autoread_status_ok (code : Z) : bool := " + g2 + ".\n")
	return "ResultState.v", sb.String(), nil
}
