package main

// part E: which middleware a client carries.  A program of Client.OnAfterResponse /
// OnBeforeRequest registrations and Client.Clone() calls builds a family of clients (the base
// starts with 0..8 middleware so that every slice-capacity situation occurs); then every client
// fires one request and the ids of the middleware that ran are logged.  Oracle (from the property
// text): a client runs, in registration order, the middleware registered on it - those its source
// carried when it was cloned, then its own - whatever happens later on any other client.

import (
	"bytes"
	"fmt"
	"io"
	"net/http"
	"strings"

	req "github.com/imroc/req/v3"
	"github.com/imroc/req/v3/verifharness/hk"
)

type cloneOp struct {
	Clone bool `json:"clone,omitempty"`
	C     int  `json:"c"`              // registering client / source of the clone
	Resp  bool `json:"resp,omitempty"` // OnAfterResponse (else OnBeforeRequest)
	M     int  `json:"m,omitempty"`
}

func genCloneOps(rng *hk.Rand, base int) []cloneOp {
	var ops []cloneOp
	id := 0
	for i := 0; i < base; i++ { // the base client's own middleware (response middleware mostly)
		id++
		ops = append(ops, cloneOp{C: 0, Resp: rng.Chance(80), M: id})
	}
	n := 1
	for k := rng.Range(3, 9); k > 0; k-- {
		if n < 5 && rng.Chance(45) {
			ops = append(ops, cloneOp{Clone: true, C: rng.Intn(n)})
			n++
		} else {
			id++
			ops = append(ops, cloneOp{C: rng.Intn(n), Resp: rng.Chance(75), M: id})
		}
	}
	return ops
}

func intsStr(l []int) string { return strings.Trim(strings.ReplaceAll(fmt.Sprint(l), " ", ","), "[]") }

func runClone(r *hk.Run, ops []cloneOp) {
	var ranResp, ranReq []int
	stub := func(rt http.RoundTripper) req.HttpRoundTripFunc {
		return func(hr *http.Request) (*http.Response, error) {
			return &http.Response{StatusCode: 200, Status: "200 OK", Proto: "HTTP/1.1", ProtoMajor: 1, ProtoMinor: 1,
				Header: http.Header{}, Body: io.NopCloser(bytes.NewReader([]byte("ok"))), Request: hr}, nil
		}
	}
	base := req.C()
	base.GetTransport().WrapRoundTripFunc(stub)
	clients := []*req.Client{base}
	type pair struct{ resp, req []int }
	want := []pair{{}}
	var coq []string
	for _, o := range ops {
		if o.Clone {
			c := clients[o.C].Clone()
			clients = append(clients, c)
			want = append(want, pair{append([]int{}, want[o.C].resp...), append([]int{}, want[o.C].req...)})
			coq = append(coq, "CClone "+hk.CoqNat(o.C))
			continue
		}
		m := o.M
		if o.Resp {
			clients[o.C].OnAfterResponse(func(c *req.Client, resp *req.Response) error { ranResp = append(ranResp, m); return nil })
			want[o.C].resp = append(want[o.C].resp, m)
		} else {
			clients[o.C].OnBeforeRequest(func(c *req.Client, rq *req.Request) error { ranReq = append(ranReq, m); return nil })
			want[o.C].req = append(want[o.C].req, m)
		}
		coq = append(coq, fmt.Sprintf("CReg %s %s %s", hk.CoqNat(o.C), hk.CoqBool(o.Resp), hk.CoqNat(m)))
	}
	var obs []string
	var got [][2][]int
	for i, c := range clients {
		ranResp, ranReq = nil, nil
		func() {
			defer func() {
				if v := recover(); v != nil {
					r.Fail(hk.Failure{Sig: "clone:panic", What: "a request on a client of the family panicked", Input: ops, Got: fmt.Sprint(v)})
				}
			}()
			resp, err := c.R().Get("http://c18.test/clone")
			if err != nil || resp == nil || resp.Response == nil {
				r.Fail(hk.Failure{Sig: "clone:call-failed", What: "plain GET through the stub failed", Input: ops, Got: fmt.Sprint(err)})
			}
		}()
		got = append(got, [2][]int{append([]int{}, ranResp...), append([]int{}, ranReq...)})
		if intsStr(ranResp) != intsStr(want[i].resp) {
			r.Fail(hk.Failure{Sig: fmt.Sprintf("clone:response-middleware:len%d", len(want[i].resp)), What: "a client did not run exactly the response middleware registered on it (those its source carried at Clone time, then its own), in order",
				Input: map[string]interface{}{"ops": ops, "client": i}, Got: ranResp, Want: want[i].resp})
		}
		if intsStr(ranReq) != intsStr(want[i].req) {
			r.Fail(hk.Failure{Sig: fmt.Sprintf("clone:request-middleware:len%d", len(want[i].req)), What: "a client did not run exactly the request middleware registered on it, in order",
				Input: map[string]interface{}{"ops": ops, "client": i}, Got: ranReq, Want: want[i].req})
		}
		nat := func(l []int) string {
			var o []string
			for _, x := range l {
				o = append(o, hk.CoqNat(x))
			}
			return hk.CoqList(o)
		}
		obs = append(obs, hk.CoqPair(nat(ranResp), nat(ranReq)))
	}
	r.Count("part=clone")
	r.Count(fmt.Sprintf("clone.clients=%d", len(clients)))
	key := fmt.Sprintf("clone|%v", ops)
	r.Add(hk.Case{Coq: fmt.Sprintf("CloneCase %s %s", hk.CoqList(coq), hk.CoqList(obs)),
		Desc: map[string]interface{}{"kind": "clone", "ops": ops, "ran": got}}, key, len(clients) > 1)
}
