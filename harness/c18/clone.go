package main

// part E: what a client carries.  A program of Client.OnAfterResponse / OnBeforeRequest /
// WrapRoundTripFunc registrations, SetCommonErrorResult settings and Client.Clone() calls builds a
// family of clients (the base starts with 0..8 user functions, wrappers among them, so that every
// slice-capacity situation and the "cloned while carrying a wrapped round-trip chain" situation
// occur); then every client fires one request that is answered 500 + JSON, and the ids of the user
// functions that ran and the type of ErrorResult() are recorded.  Oracle (from the property text): a
// client runs, in registration order, the response middleware registered on it - those its source
// carried when it was cloned, then its own -, likewise its request middleware and its wrappers
// (outermost = last registered), and binds the error body to ITS common error type, whatever
// happens later on any other client.

import (
	"bytes"
	"fmt"
	"io"
	"net/http"
	"strings"

	req "github.com/imroc/req/v3"
	"github.com/imroc/req/v3/verifharness/hk"
)

type cloneOp struct {
	Op string `json:"op"` // reg-resp | reg-req | wrap | errtype | clone
	C  int    `json:"c"`  // acting client / source of the clone
	M  int    `json:"m,omitempty"`
}

type comT2 struct {
	Msg string `json:"msg"`
}

func genCloneOps(rng *hk.Rand, base int) []cloneOp {
	var ops []cloneOp
	id := 0
	pick := func() string {
		switch k := rng.Intn(100); {
		case k < 50:
			return "reg-resp"
		case k < 62:
			return "reg-req"
		case k < 85:
			return "wrap"
		}
		return "errtype"
	}
	one := func(c int) cloneOp {
		op := pick()
		if op == "errtype" {
			return cloneOp{Op: op, C: c, M: rng.Range(1, 2)}
		}
		id++
		return cloneOp{Op: op, C: c, M: id}
	}
	for i := 0; i < base; i++ { // what the base client carries before anything is cloned
		ops = append(ops, one(0))
	}
	n := 1
	for k := rng.Range(3, 9); k > 0; k-- {
		if n < 5 && rng.Chance(45) {
			ops = append(ops, cloneOp{Op: "clone", C: rng.Intn(n)})
			n++
		} else {
			ops = append(ops, one(rng.Intn(n)))
		}
	}
	return ops
}

func intsStr(l []int) string { return strings.Trim(strings.ReplaceAll(fmt.Sprint(l), " ", ","), "[]") }

type carried struct {
	resp, req, wraps []int
	et               int
}

func runClone(r *hk.Run, ops []cloneOp) {
	var ranResp, ranReq, ranWrap []int
	stub := func(rt http.RoundTripper) req.HttpRoundTripFunc {
		return func(hr *http.Request) (*http.Response, error) {
			h := http.Header{}
			h.Set("Content-Type", "application/json")
			return &http.Response{StatusCode: 500, Status: "500 Internal Server Error", Proto: "HTTP/1.1", ProtoMajor: 1, ProtoMinor: 1,
				Header: h, Body: io.NopCloser(bytes.NewReader([]byte(`{"msg":"m"}`))), Request: hr}, nil
		}
	}
	base := req.C()
	base.GetTransport().WrapRoundTripFunc(stub)
	clients := []*req.Client{base}
	want := []carried{{}}
	var coq []string
	for _, o := range ops {
		m := o.M
		switch o.Op {
		case "clone":
			clients = append(clients, clients[o.C].Clone())
			w := want[o.C]
			want = append(want, carried{append([]int{}, w.resp...), append([]int{}, w.req...), append([]int{}, w.wraps...), w.et})
			coq = append(coq, "CClone "+hk.CoqNat(o.C))
		case "reg-resp":
			clients[o.C].OnAfterResponse(func(c *req.Client, resp *req.Response) error { ranResp = append(ranResp, m); return nil })
			want[o.C].resp = append(want[o.C].resp, m)
			coq = append(coq, fmt.Sprintf("CReg %s KResp %s", hk.CoqNat(o.C), hk.CoqNat(m)))
		case "reg-req":
			clients[o.C].OnBeforeRequest(func(c *req.Client, rq *req.Request) error { ranReq = append(ranReq, m); return nil })
			want[o.C].req = append(want[o.C].req, m)
			coq = append(coq, fmt.Sprintf("CReg %s KReq %s", hk.CoqNat(o.C), hk.CoqNat(m)))
		case "wrap":
			clients[o.C].WrapRoundTripFunc(func(rt req.RoundTripper) req.RoundTripFunc {
				return func(rq *req.Request) (*req.Response, error) { ranWrap = append(ranWrap, m); return rt.RoundTrip(rq) }
			})
			want[o.C].wraps = append(want[o.C].wraps, m)
			coq = append(coq, fmt.Sprintf("CReg %s KWrap %s", hk.CoqNat(o.C), hk.CoqNat(m)))
		case "errtype":
			if m == 1 {
				clients[o.C].SetCommonErrorResult(&comT{})
			} else {
				clients[o.C].SetCommonErrorResult(&comT2{})
			}
			want[o.C].et = m
			coq = append(coq, fmt.Sprintf("CErrType %s %s", hk.CoqNat(o.C), hk.CoqNat(m)))
		}
	}
	nat := func(l []int) string {
		var o []string
		for _, x := range l {
			o = append(o, hk.CoqNat(x))
		}
		return hk.CoqList(o)
	}
	rev := func(l []int) []int {
		o := make([]int, len(l))
		for i, x := range l {
			o[len(l)-1-i] = x
		}
		return o
	}
	var obs []string
	var got []map[string]interface{}
	for i, c := range clients {
		ranResp, ranReq, ranWrap = nil, nil, nil
		et := -1
		func() {
			defer func() {
				if v := recover(); v != nil {
					r.Fail(hk.Failure{Sig: "clone:panic", What: "a request on a client of the family panicked", Input: ops, Got: fmt.Sprint(v)})
				}
			}()
			resp, err := c.R().Get("http://c18.test/clone")
			if err != nil || resp == nil || resp.Response == nil {
				r.Fail(hk.Failure{Sig: "clone:call-failed", What: "plain GET through the stub failed", Input: ops, Got: fmt.Sprint(err)})
				return
			}
			switch resp.ErrorResult().(type) {
			case nil:
				et = 0
			case *comT:
				et = 1
			case *comT2:
				et = 2
			default:
				et = 9
			}
		}()
		in := map[string]interface{}{"ops": ops, "client": i}
		if intsStr(ranResp) != intsStr(want[i].resp) {
			r.Fail(hk.Failure{Sig: fmt.Sprintf("clone:response-middleware:len%d", len(want[i].resp)), What: "a client did not run exactly the response middleware registered on it (those its source carried at Clone time, then its own), in order",
				Input: in, Got: ranResp, Want: want[i].resp})
		}
		if intsStr(ranReq) != intsStr(want[i].req) {
			r.Fail(hk.Failure{Sig: fmt.Sprintf("clone:request-middleware:len%d", len(want[i].req)), What: "a client did not run exactly the request middleware registered on it, in order",
				Input: in, Got: ranReq, Want: want[i].req})
		}
		if intsStr(ranWrap) != intsStr(rev(want[i].wraps)) {
			r.Fail(hk.Failure{Sig: fmt.Sprintf("clone:wrappers:len%d", len(want[i].wraps)), What: "a client's request did not pass through exactly the round-trip wrappers registered on it, the last registered outermost",
				Input: in, Got: ranWrap, Want: rev(want[i].wraps)})
		}
		if et != want[i].et {
			r.Fail(hk.Failure{Sig: fmt.Sprintf("clone:error-type:wraps%d", len(want[i].wraps)), What: "the error-state body was not bound to the common error type set on the client the request was fired from",
				Input: in, Got: et, Want: want[i].et})
		}
		got = append(got, map[string]interface{}{"resp": ranResp, "req": ranReq, "wraps": ranWrap, "error_type": et})
		if et < 0 {
			et = 99
		}
		obs = append(obs, fmt.Sprintf("(%s, %s, %s, %s)", nat(ranResp), nat(ranReq), nat(ranWrap), hk.CoqNat(et)))
	}
	r.Count("part=clone")
	r.Count(fmt.Sprintf("clone.clients=%d", len(clients)))
	key := fmt.Sprintf("clone|%v", ops)
	r.Add(hk.Case{Coq: fmt.Sprintf("CloneCase %s %s", hk.CoqList(coq), hk.CoqList(obs)),
		Desc: map[string]interface{}{"kind": "clone", "ops": ops, "ran": got}}, key, len(clients) > 1)
}
