package main

// A real loopback origin (net/http server) for the slice of programs that go over the wire.

import (
	"fmt"
	"net"
	"net/http"
	"sync"
)

type realOrigin struct {
	url   string
	mu    sync.Mutex
	cases map[string]toutSpec
	n     int
	srv   *http.Server
}

func newRealOrigin() (*realOrigin, error) {
	o := &realOrigin{cases: map[string]toutSpec{}}
	ln, err := net.Listen("tcp", "127.0.0.1:0")
	if err != nil {
		return nil, err
	}
	o.url = "http://" + ln.Addr().String()
	o.srv = &http.Server{Handler: http.HandlerFunc(func(w http.ResponseWriter, q *http.Request) {
		o.mu.Lock()
		t, ok := o.cases[q.Header.Get("X-C18-Case")]
		o.mu.Unlock()
		if !ok {
			w.WriteHeader(599)
			return
		}
		if t.B.Cut != "" { // the body ends before its declared end, then the connection goes away
			conn, buf, err := w.(http.Hijacker).Hijack()
			if err != nil {
				return
			}
			defer conn.Close()
			ct := ""
			if t.B.CT != "" {
				ct = "Content-Type: " + t.B.CT + "\r\n"
			}
			if t.B.Cut == "length" {
				fmt.Fprintf(buf, "HTTP/1.1 %d X\r\n%sContent-Length: %d\r\n\r\n%s", t.Status, ct, len(t.B.Body)+50, t.B.Body)
			} else {
				fmt.Fprintf(buf, "HTTP/1.1 %d X\r\n%sTransfer-Encoding: chunked\r\n\r\n%x\r\n%s\r\n", t.Status, ct, len(t.B.Body), t.B.Body)
			}
			buf.Flush()
			return
		}
		if t.B.CT != "" {
			w.Header().Set("Content-Type", t.B.CT)
		} else {
			w.Header()["Content-Type"] = nil // suppress sniffing
		}
		if t.Status == 401 {
			switch t.Challenge {
			case "good":
				w.Header().Set("Www-Authenticate", goodChallenge)
			case "bad":
				w.Header().Set("Www-Authenticate", `Basic realm="c18"`)
			}
		}
		w.WriteHeader(t.Status)
		w.Write([]byte(t.B.Body))
	})}
	go o.srv.Serve(ln)
	return o, nil
}

func (o *realOrigin) close() { o.srv.Close() }

// register the answer for transport call k of attempt a and return its id
func (o *realOrigin) register(p *progSpec, a, k int) string {
	at := p.Attempts[a]
	t := at.T
	if k > 0 {
		t = toutSpec{Status: 200}
		for _, ms := range [][]mwSpec{at.Cli, at.Req} {
			for _, m := range ms {
				if m.Digest && m.Resend != nil {
					t = *m.Resend
				}
			}
		}
	}
	o.mu.Lock()
	defer o.mu.Unlock()
	o.n++
	id := fmt.Sprintf("c%d", o.n)
	o.cases[id] = t
	return id
}
