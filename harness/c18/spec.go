package main

// Program descriptions (what the generator produces, what is replayed) and their Coq rendering.

import (
	"fmt"
	"strings"

	"github.com/imroc/req/v3/verifharness/hk"
)

type bodySpec struct {
	CT      string `json:"ct"`
	Body    string `json:"body"`
	ReadErr int    `json:"read_err,omitempty"` // tag of the error reading the body raises: Body.Read itself, or - with ViaTf - the body transformer (0: none)
	ViaTf   bool   `json:"via_tf,omitempty"`   // ReadErr is returned by the client's response body transformer (progSpec.Transformer) after a clean read
	Cut     string `json:"cut,omitempty"`      // the body ends before its declared end: length (fewer bytes than Content-Length) | chunked (no terminating chunk)
	WriteErr int   `json:"write_err,omitempty"` // with progSpec.Save: tag the output writer returns when this body is written to it
	CloseErr int   `json:"close_err,omitempty"` // with SaveKind closer: tag the output's Close returns after this body was copied to it
	UmOnly  string `json:"um_only,omitempty"`  // with UmErr: the custom functions fail only for this target: res | req | com ("" = every target)
	UmErr   int    `json:"um_err,omitempty"`   // with progSpec.UmCustom: tag the client's custom unmarshal functions return for this body (0: they decode)
}

type toutSpec struct {
	Fail      int      `json:"fail,omitempty"` // tag of the transport error (0: a response)
	Status    int      `json:"status,omitempty"`
	B         bodySpec `json:"b"`
	Challenge string   `json:"challenge,omitempty"` // WWW-Authenticate on a 401: good | bad | "" (absent)
}

type mwSpec struct {
	Set    int       `json:"set,omitempty"` // tag assigned to resp.Err (0: untouched)
	Ret    int       `json:"ret,omitempty"` // tag returned (0: nil)
	Digest bool      `json:"digest,omitempty"`
	Resend *toutSpec `json:"resend,omitempty"` // answer to the digest re-send in this attempt
}

type wrapSpec struct {
	Kind    string `json:"kind"` // pass | short | post | fab (makes a response up: Status) | twice (calls the inner round-tripper twice)
	Status  int    `json:"status,omitempty"`
	NilResp bool   `json:"nil_resp,omitempty"`
	Set     int    `json:"set,omitempty"`
	Ret     string `json:"ret,omitempty"` // short: "" (nil) | err ; post: keep | err | nil | drop | droperr
	RetErr  int    `json:"ret_err,omitempty"`
}

type attemptSpec struct {
	Ud      []int      `json:"ud"`           // per registered request middleware: tag returned (0: nil)
	Bi      int        `json:"bi,omitempty"` // tag raised by the marshal function inside parseRequestBody
	Wraps   []wrapSpec `json:"wraps"`
	GetBody int        `json:"getbody,omitempty"`
	T       toutSpec   `json:"t"`
	T2      toutSpec   `json:"t2"` // answer to any further transport call within the attempt (a wrapper calling twice)
	Cli     []mwSpec   `json:"cli"`
	Req     []mwSpec   `json:"req"`
	Conds       []bool `json:"conds,omitempty"`        // verdict of each registered retry condition after this attempt
	Ctx         string `json:"ctx,omitempty"`          // transport: the stub cancels the request context and returns its error | after: cancels it and answers normally
	SleepCancel bool   `json:"sleep_cancel,omitempty"` // the context is cancelled while do() waits for the next attempt
}

type progSpec struct {
	Entry    string        `json:"entry"` // do | send | <method of *Request from the generated table> | pkg.<package-level function>
	TResult  bool          `json:"t_result,omitempty"`
	TError   bool          `json:"t_error,omitempty"`
	TCommon  bool          `json:"t_common,omitempty"`
	AutoRead int           `json:"autoread"` // 0 on | 1 disabled on the client | 2 disabled on the request
	OnError  bool          `json:"on_error,omitempty"`
	Retry    bool          `json:"retry,omitempty"`
	Max      int           `json:"max,omitempty"`
	RetryLevel string      `json:"retry_level,omitempty"` // "" on the request (SetRetryCount, AddRetry...) | client (SetCommonRetryCount, AddCommonRetry...)
	NConds   int           `json:"n_conds,omitempty"` // number of AddRetryCondition
	NHooks   int           `json:"n_hooks,omitempty"` // number of AddRetryHook
	HookMode string        `json:"hook_mode,omitempty"` // what OnError does: "" (only logs) | set | clear | panic
	HookTag  int           `json:"hook_tag,omitempty"`
	ReqErr   int           `json:"req_err,omitempty"`  // tag recorded in Request.error by a setter
	OddForm  bool          `json:"odd_form,omitempty"` // SetOrderedFormData with an odd number of strings
	Checker  int           `json:"checker,omitempty"`  // 0: default; else index into checkers
	BodyMode string        `json:"body_mode"`          // none | marshal | getbody
	Real     bool          `json:"real,omitempty"`     // served by a real loopback origin instead of the in-process stub
	Transformer  bool      `json:"transformer,omitempty"`  // a response body transformer is installed (it fails on the bodies marked ViaTf, passes the others through)
	UmCustom     bool      `json:"um_custom,omitempty"`    // custom JSON/XML unmarshal functions (SetJsonUnmarshal/SetXmlUnmarshal)
	Unreplayable bool      `json:"unreplayable,omitempty"` // SetBody(io.Reader)
	Save         bool      `json:"save,omitempty"`         // SetOutput(writer): the body is downloaded
	SaveKind     string    `json:"save_kind,omitempty"`    // "" plain io.Writer | closer (an io.WriteCloser) | file (SetOutputFile)
	Attempts []attemptSpec `json:"attempts"`
}

// custom state checkers (user-supplied oracle): status -> ResultState value
var checkers = []func(int) int{
	nil,
	func(s int) int { // 2xx and 304 success, 5xx error, rest unknown
		switch {
		case s >= 200 && s < 300, s == 304:
			return 0
		case s >= 500:
			return 1
		}
		return 2
	},
	func(s int) int { return 0 },     // always success
	func(s int) int { return 1 },     // always error
	func(s int) int { return s % 3 }, // arbitrary
	func(s int) int { // a value outside the three constants for some codes
		if s%5 == 0 {
			return 7
		}
		if s < 400 {
			return 0
		}
		return 1
	},
}

// the error io.ReadAll(resp.Body) ends with / the error the body transformer returns
func (p *progSpec) readerErr(b bodySpec) int {
	if b.Cut != "" {
		return eCut
	}
	if b.ReadErr != 0 && !(p.Transformer && b.ViaTf) {
		return b.ReadErr
	}
	return 0
}
func (p *progSpec) tfErr(b bodySpec) int {
	if b.Cut == "" && b.ReadErr != 0 && p.Transformer && b.ViaTf {
		return b.ReadErr
	}
	return 0
}

// the class of the error a failing unmarshal into the given target (res | req | com) ends with
func (p *progSpec) umClass(b bodySpec, target string) int {
	if p.UmCustom && b.UmErr != 0 && (b.UmOnly == "" || b.UmOnly == target) {
		return b.UmErr
	}
	return eUnmarshal
}

// obtaining the body fails one way or the other
func (p *progSpec) bodyErr(b bodySpec) int {
	if e := p.readerErr(b); e != 0 {
		return e
	}
	return p.tfErr(b)
}

func (p *progSpec) verb() bool { return p.Entry != "do" }
func (p *progSpec) must() bool { return strings.Contains(p.Entry, "Must") }
func (p *progSpec) pkg() bool  { return strings.HasPrefix(p.Entry, "pkg.") }

// the Coq case of a program with its observation
func (p *progSpec) coqCase(o *obsT) string {
	if p.Entry == "do" || p.Entry == "send" {
		return fmt.Sprintf("ProgCase %s %s", p.coq(o.CtxCutAt), o.coq())
	}
	return fmt.Sprintf("EntryCase %s %s %s %s", hk.CoqStr(strings.TrimPrefix(p.Entry, "pkg.")), hk.CoqBool(p.pkg()), p.coq(o.CtxCutAt), o.coq())
}

// ---------- Coq rendering ----------

func coqOptZ(tag int) string {
	if tag == 0 {
		return "None"
	}
	return "(Some (" + hk.CoqZ(int64(tag)) + "))"
}

const eUnmarshal = -1
const eBadChallenge = -6
const eOddForm = -7
const eUnreplayable = -8
const eUnknown = -9
const eCanceled = -10
const eCut = -11 // io.ErrUnexpectedEOF: the body ended before its declared end

func (p *progSpec) coqBody(b bodySpec) string {
	um := p.refUnmarshalFails(b)
	f0 := func(fails bool, target string) string {
		if fails {
			return coqOptZ(p.umClass(b, target))
		}
		return "None"
	}
	rd, tf := coqOptZ(p.readerErr(b)), coqOptZ(p.tfErr(b))
	cl := 0
	if p.Save && p.SaveKind == "closer" {
		cl = b.CloseErr
	}
	return fmt.Sprintf("(mkBody %s %s %s %s %s %s %s)", rd, tf, f0(um[0], "res"), f0(um[1], "req"), f0(um[2], "com"), coqOptZ(b.WriteErr), coqOptZ(cl))
}

func (p *progSpec) coqTout(t toutSpec) string {
	if t.Fail != 0 {
		return "(TFail " + hk.CoqZ(int64(t.Fail)) + ")"
	}
	chk := "None"
	if p.Checker != 0 {
		chk = "(Some " + hk.CoqZ(int64(checkers[p.Checker](t.Status))) + ")"
	}
	return fmt.Sprintf("(TResp %s %s %s)", hk.CoqZ(int64(t.Status)), chk, p.coqBody(t.B))
}

func (p *progSpec) coqMw(m mwSpec, main toutSpec) string {
	if m.Digest {
		pre := "None"
		if main.Challenge != "good" {
			pre = coqOptZ(eBadChallenge)
		}
		rs := toutSpec{Status: 200}
		if m.Resend != nil {
			rs = *m.Resend
		}
		return fmt.Sprintf("(MwDigest (mkDigest %s %s))", pre, p.coqTout(rs))
	}
	return fmt.Sprintf("(Mw %s %s)", coqOptZ(m.Set), coqOptZ(m.Ret))
}

func coqWrap(w wrapSpec) string {
	switch w.Kind {
	case "fab":
		return "FAB" // replaced by coqWrapP (needs the program's checker)
	case "short":
		ret := "None"
		if w.Ret == "err" {
			ret = coqOptZ(w.RetErr)
		}
		return fmt.Sprintf("(WShort %s %s %s)", hk.CoqBool(w.NilResp), coqOptZ(w.Set), ret)
	case "post":
		var ret string
		switch w.Ret {
		case "err":
			ret = "(RErr " + hk.CoqZ(int64(w.RetErr)) + ")"
		case "nil":
			ret = "RNil"
		case "drop":
			ret = "(RDrop None)"
		case "droperr":
			ret = "(RDrop " + coqOptZ(w.RetErr) + ")"
		default:
			ret = "RKeep"
		}
		return fmt.Sprintf("(WPost %s %s)", coqOptZ(w.Set), ret)
	}
	if w.Kind == "twice" {
		return "WTwice"
	}
	return "WPass"
}

func (p *progSpec) coq(ctxCutAt int) string {
	var as []string
	for ai, a := range p.Attempts {
		var ud, ws, cli, rq []string
		for _, u := range a.Ud {
			ud = append(ud, coqOptZ(u))
		}
		for _, w := range a.Wraps {
			if w.Kind == "fab" {
				chk := "None"
				if p.Checker != 0 {
					chk = "(Some " + hk.CoqZ(int64(checkers[p.Checker](w.Status))) + ")"
				}
				ws = append(ws, fmt.Sprintf("(WFab %s %s)", hk.CoqZ(int64(w.Status)), chk))
				continue
			}
			ws = append(ws, coqWrap(w))
		}
		for _, m := range a.Cli {
			cli = append(cli, p.coqMw(m, a.T))
		}
		for _, m := range a.Req {
			rq = append(rq, p.coqMw(m, a.T))
		}
		bi := coqOptZ(a.Bi)
		if p.OddForm {
			bi = coqOptZ(eOddForm)
		}
		var conds []string
		for _, c := range a.Conds {
			conds = append(conds, hk.CoqBool(c))
		}
		t := a.T
		if a.Ctx == "transport" {
			t = toutSpec{Fail: eCanceled}
		}
		as = append(as, fmt.Sprintf("(mkAttempt %s %s %s %s %s %s %s %s %s %s %s)", hk.CoqList(ud), bi, hk.CoqList(ws),
			coqOptZ(a.GetBody), p.coqTout(t), p.coqTout(a.T2), hk.CoqList(cli), hk.CoqList(rq), hk.CoqList(conds), hk.CoqBool(ctxCutAt >= 0 && ai >= ctxCutAt), hk.CoqBool(a.SleepCancel)))
	}
	entry := "ESend" // for a named entry point the checker resolves the kind through the generated table (EntryCase)
	if p.Entry == "do" {
		entry = "EDo"
	}
	retry := "None"
	if p.Retry {
		retry = fmt.Sprintf("(Some (%s, %s))", hk.CoqZ(int64(p.Max)), hk.CoqNat(p.NHooks))
	}
	hook := "None"
	if p.OnError {
		switch p.HookMode {
		case "set":
			hook = "(Some (mkHook (Some " + coqOptZ(p.HookTag) + ") None))"
		case "clear":
			hook = "(Some (mkHook (Some None) None))"
		case "panic":
			hook = "(Some (mkHook None " + coqOptZ(p.HookTag) + "))"
		default:
			hook = "(Some (mkHook None None))"
		}
	}
	cfg := fmt.Sprintf("(mkCfg (mkTargets %s %s %s) %s %s %s %s %s %s)", hk.CoqBool(p.TResult), hk.CoqBool(p.TError), hk.CoqBool(p.TCommon),
		hk.CoqBool(p.AutoRead == 0 && !p.Save), hook, retry, coqOptZ(p.ReqErr), hk.CoqBool(p.Unreplayable), hk.CoqBool(p.Save))
	return fmt.Sprintf("(mkProg %s %s %s)", entry, cfg, hk.CoqList(as))
}

type logEv struct {
	Kind    string `json:"k"` // ud win wout send resend cli req cond hook onerror
	I       int    `json:"i,omitempty"`
	Attempt int    `json:"a"`
}

func coqEvent(e logEv) string {
	switch e.Kind {
	case "ud":
		return "EvUd " + hk.CoqNat(e.I)
	case "win":
		return "EvWIn " + hk.CoqNat(e.I)
	case "wout":
		return "EvWOut " + hk.CoqNat(e.I)
	case "send", "resend":
		return "EvSend"
	case "cli":
		return "EvCli " + hk.CoqNat(e.I)
	case "req":
		return "EvReq " + hk.CoqNat(e.I)
	case "cond":
		return "EvCond " + hk.CoqNat(e.I)
	case "hook":
		return "EvHook " + hk.CoqNat(e.I)
	}
	return "EvHook 999"
}

// the log grouped by iteration of do() (Request.RetryAttempt at the time of the call);
// iterations = number of iterations that ran (final RetryAttempt + 1; 0 if do() was not entered)
func coqLogs(l []logEv, iterations int) (string, int) {
	groups := make([][]string, iterations)
	hooks := 0
	for _, e := range l {
		if e.Kind == "onerror" {
			hooks++
			continue
		}
		if e.Attempt >= 0 && e.Attempt < iterations {
			groups[e.Attempt] = append(groups[e.Attempt], coqEvent(e))
		} else {
			groups = append(groups, []string{coqEvent(e)}) // cannot happen; makes the case mismatch
		}
	}
	var o []string
	for _, g := range groups {
		o = append(o, hk.CoqList(g))
	}
	return hk.CoqList(o), hooks
}

type obsT struct {
	Panic    bool    `json:"panic,omitempty"`
	RtPanic  string  `json:"runtime_panic,omitempty"` // a panic that is not a Must* panic(err)
	RespNil  bool    `json:"resp_nil,omitempty"`
	Present  bool    `json:"present"`
	Status   int     `json:"status"`
	RespErr  int     `json:"resp_err"` // class of resp.Err (0: nil)
	RetErr   int     `json:"ret_err"`  // class of the returned error / panic value (0: nil)
	RespErrS string  `json:"resp_err_text,omitempty"`
	SameErr  bool    `json:"same_err"` // returned err == resp.Err (identity)
	Cached   bool    `json:"cached"`
	Result   bool    `json:"result"`
	ErrorB   string  `json:"error_bound"` // none | req | common | other
	Log      []logEv `json:"log"`
	Order    string  `json:"order,omitempty"` // X-Order header as last seen by the transport
	HookOK   bool    `json:"hook_ok"`         // OnError received the returned response and its Err
	HookErr  int     `json:"hook_err"`        // class of the error OnError received (0: it did not run)
	SleepCut bool    `json:"sleep_cut,omitempty"` // the harness cancelled the context during the wait between attempts
	CtxCutAt int     `json:"ctx_cut_at"`          // attempt in which the stub cancelled the context (-1: it was never reached)
	Iters    int     `json:"iterations"`      // iterations of do() that ran (final RetryAttempt + 1; 0: do() not entered)
	TargetOK string  `json:"target_ok,omitempty"`
	Output   string  `json:"output,omitempty"` // what the download target received
}

func (o *obsT) coq() string {
	eb := map[string]string{"none": "ENone", "req": "EReq", "common": "ECommon"}[o.ErrorB]
	if eb == "" {
		eb = "ENone"
	}
	logs, hooks := coqLogs(o.Log, o.Iters)
	return fmt.Sprintf("(mkObs %s %s %s %s %s %s %s %s %s %s %s)", hk.CoqBool(o.Panic), hk.CoqBool(o.RespNil), hk.CoqBool(o.Present),
		hk.CoqZ(int64(o.Status)), coqOptZ(o.RespErr), coqOptZ(o.RetErr), hk.CoqBool(o.Cached), hk.CoqBool(o.Result), eb, logs, hk.CoqNat(hooks))
}

func shapeOf(p *progSpec) string {
	var parts []string
	parts = append(parts, p.Entry)
	if p.Retry {
		parts = append(parts, "retry")
	}
	last := p.Attempts[len(p.Attempts)-1]
	for _, w := range last.Wraps {
		if w.Kind != "pass" {
			parts = append(parts, "wrap-"+w.Kind+"-"+w.Ret)
			if w.NilResp {
				parts = append(parts, "nilresp")
			}
		}
	}
	if len(last.Req) > 0 {
		parts = append(parts, "reqmw")
	}
	for _, m := range append(append([]mwSpec{}, last.Cli...), last.Req...) {
		if m.Digest {
			parts = append(parts, "digest")
		}
	}
	if p.OddForm {
		parts = append(parts, "oddform")
	}
	return strings.Join(parts, "+")
}
