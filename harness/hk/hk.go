// Package hk holds the mechanics shared by every property harness: the single PRNG,
// Coq text emitters for cases.v shards, result bookkeeping.
package hk

import (
	"crypto/sha256"
	"encoding/hex"
	"encoding/json"
	"fmt"
	"os"
	"path/filepath"
	"sort"
	"strings"
)

// ---------- PRNG: splitmix64, the only source of randomness ----------

type Rand struct{ s uint64 }

// NewRand: the seed is scrambled through the output mixer first - with a plain `seed*G + c` start state the
// streams of seeds n and n+1 are the same sequence shifted by one draw (the step is +G), so "three seeds" could
// re-align into one.
func NewRand(seed uint64) *Rand {
	z := seed*0x9E3779B97F4A7C15 + 0x1234567
	z = (z ^ (z >> 30)) * 0xBF58476D1CE4E5B9
	z = (z ^ (z >> 27)) * 0x94D049BB133111EB
	return &Rand{s: z ^ (z >> 31)}
}

func (r *Rand) U64() uint64 {
	r.s += 0x9E3779B97F4A7C15
	z := r.s
	z = (z ^ (z >> 30)) * 0xBF58476D1CE4E5B9
	z = (z ^ (z >> 27)) * 0x94D049BB133111EB
	return z ^ (z >> 31)
}
func (r *Rand) Intn(n int) int {
	if n <= 0 {
		return 0
	}
	return int(r.U64() % uint64(n))
}
func (r *Rand) Bool() bool           { return r.U64()&1 == 1 }
func (r *Rand) Chance(p int) bool    { return r.Intn(100) < p } // p percent
func (r *Rand) Range(lo, hi int) int { return lo + r.Intn(hi-lo+1) }
func Pick[T any](r *Rand, xs []T) T  { return xs[r.Intn(len(xs))] }
func (r *Rand) Fork() *Rand          { return &Rand{s: r.U64()} }
func (r *Rand) Bytes(n int) []byte {
	b := make([]byte, n)
	for i := range b {
		b[i] = byte(r.U64())
	}
	return b
}

// ---------- Coq emitters ----------

func CoqBytes(b []byte) string { return `(hx "` + hex.EncodeToString(b) + `")` }
func CoqStr(s string) string   { return CoqBytes([]byte(s)) }
func CoqBool(b bool) string {
	if b {
		return "true"
	}
	return "false"
}
func CoqZ(n int64) string {
	if n < 0 {
		return fmt.Sprintf("(%d)%%Z", n)
	}
	return fmt.Sprintf("%d%%Z", n)
}
func CoqN(n uint64) string       { return fmt.Sprintf("%d%%N", n) }
func CoqNat(n int) string        { return fmt.Sprintf("%d%%nat", n) }
func CoqList(xs []string) string { return "[" + strings.Join(xs, "; ") + "]" }
func CoqStrList(xs []string) string {
	o := make([]string, len(xs))
	for i, x := range xs {
		o[i] = CoqStr(x)
	}
	return CoqList(o)
}
func CoqOpt(present bool, v string) string {
	if !present {
		return "None"
	}
	return "(Some " + v + ")"
}
func CoqPair(a, b string) string { return "(" + a + ", " + b + ")" }

// ---------- result bookkeeping ----------

// Failure is a concrete input on which the property's executable oracle fails on the
// implementation (independent of the Coq model).
type Failure struct {
	Sig   string      `json:"sig"`   // stable signature used to match known_findings.json
	What  string      `json:"what"`  // human description
	Input interface{} `json:"input"` // replayable input
	Got   interface{} `json:"got,omitempty"`
	Want  interface{} `json:"want,omitempty"`
}

type Case struct {
	Coq  string      // Coq term of the property's case type
	Desc interface{} // JSON description (for replay when the model disagrees)
}

type Run struct {
	Prop       string
	Seed       uint64
	Tier       string
	OutDir     string
	Header     string // Coq preamble: Require lines
	CaseType   string // Coq type of a case
	CheckFn    string // Coq function : case -> bool
	ShardSize  int
	cases      []Case
	Evals      int
	seen       map[string]bool
	Nontrivial int
	Rule       string
	Samples    []interface{}
	Dist       map[string]int
	Failures   []Failure
	Notes      []string
	Replay     string // path of a replay file to re-run instead of generating (optional)
}

func NewRun(prop string, seed uint64, tier, out string) *Run {
	return &Run{Prop: prop, Seed: seed, Tier: tier, OutDir: out, ShardSize: 400,
		seen: map[string]bool{}, Dist: map[string]int{}}
}

func (r *Run) Quick() bool { return r.Tier != "thorough" }

// Scale picks the case count for the tier.
func (r *Run) Scale(quick, thorough int) int {
	if r.Quick() {
		return quick
	}
	return thorough
}

// Add records one evaluated case. key identifies the canonical input (distinctness);
// nontrivial says whether it meets the property's non-triviality rule.
func (r *Run) Add(c Case, key string, nontrivial bool) {
	r.Evals++
	h := sha256.Sum256([]byte(key))
	k := string(h[:12])
	if !r.seen[k] {
		r.seen[k] = true
		if nontrivial {
			r.Nontrivial++
		}
	}
	if c.Coq != "" {
		r.cases = append(r.cases, c)
	}
	if len(r.Samples) < 6 && nontrivial && (r.Evals%97 == 1 || len(r.Samples) < 2) {
		r.Samples = append(r.Samples, c.Desc)
	}
}

func (r *Run) Count(k string) { r.Dist[k]++ }

func (r *Run) Fail(f Failure) {
	if len(r.Failures) < 200 {
		r.Failures = append(r.Failures, f)
	}
}

type shardIndex struct {
	File  string        `json:"file"`
	Descs []interface{} `json:"descs"`
}

// Finish writes the cases_NNN.v shards, their JSON index and result.json.
func (r *Run) Finish() error {
	if err := os.MkdirAll(r.OutDir, 0o755); err != nil {
		return err
	}
	var shards []string
	for i := 0; i*r.ShardSize < len(r.cases); i++ {
		lo, hi := i*r.ShardSize, (i+1)*r.ShardSize
		if hi > len(r.cases) {
			hi = len(r.cases)
		}
		name := fmt.Sprintf("cases_%03d", i)
		var sb strings.Builder
		sb.WriteString(r.Header + "\n")
		sb.WriteString("Definition cases : list " + r.CaseType + " := [\n")
		for j, c := range r.cases[lo:hi] {
			sb.WriteString("  " + c.Coq)
			if lo+j < hi-1 {
				sb.WriteString(";")
			}
			sb.WriteString("\n")
		}
		sb.WriteString("].\n")
		sb.WriteString("Definition M := Eval vm_compute in failing " + r.CheckFn + " cases.\nPrint M.\n")
		if err := os.WriteFile(filepath.Join(r.OutDir, name+".v"), []byte(sb.String()), 0o644); err != nil {
			return err
		}
		idx := shardIndex{File: name + ".v"}
		for _, c := range r.cases[lo:hi] {
			idx.Descs = append(idx.Descs, c.Desc)
		}
		b, _ := json.Marshal(idx)
		if err := os.WriteFile(filepath.Join(r.OutDir, name+".json"), b, 0o644); err != nil {
			return err
		}
		shards = append(shards, name)
	}
	keys := make([]string, 0, len(r.Dist))
	for k := range r.Dist {
		keys = append(keys, k)
	}
	sort.Strings(keys)
	res := map[string]interface{}{
		"property": r.Prop, "seed": r.Seed, "tier": r.Tier,
		"evaluations": r.Evals, "distinct": len(r.seen), "distinct_nontrivial": r.Nontrivial,
		"rule": r.Rule, "samples": r.Samples, "distribution": r.Dist,
		"model_cases": len(r.cases), "shards": shards, "failures": r.Failures, "notes": r.Notes,
	}
	b, _ := json.MarshalIndent(res, "", " ")
	return os.WriteFile(filepath.Join(r.OutDir, "result.json"), b, 0o644)
}
