package hk

import (
	"flag"
	"fmt"
	"os"
	"path/filepath"
	"sort"
)

// Gosyncer regenerates one coq/Gen/*.v file from the Go source under repo.
type Gosyncer func(repo string) (file string, content string, err error)

// Main is the entry point of every per-property harness binary:
//
//	<bin> run    -seed N -tier quick|thorough -out DIR [-replay FILE]
//	<bin> gosync -repo /repo -out coq/Gen
func Main(prop string, run func(r *Run), syncers map[string]Gosyncer) {
	if len(os.Args) < 2 {
		fmt.Fprintln(os.Stderr, "usage: "+prop+" run|gosync [flags]")
		os.Exit(2)
	}
	cmd := os.Args[1]
	fs := flag.NewFlagSet(cmd, flag.ExitOnError)
	seed := fs.Uint64("seed", 1, "PRNG seed")
	tier := fs.String("tier", "quick", "quick|thorough")
	out := fs.String("out", "", "output directory")
	replay := fs.String("replay", "", "replay file")
	repo := fs.String("repo", "/repo", "repository root (gosync)")
	fs.Parse(os.Args[2:])
	switch cmd {
	case "gosync":
		if err := gosync(*repo, *out, syncers); err != nil {
			fmt.Fprintln(os.Stderr, "gosync:", err)
			os.Exit(1)
		}
	case "run":
		r := NewRun(prop, *seed, *tier, *out)
		r.Replay = *replay
		run(r)
		if err := r.Finish(); err != nil {
			fmt.Fprintln(os.Stderr, "finish:", err)
			os.Exit(1)
		}
	default:
		fmt.Fprintln(os.Stderr, "unknown command", cmd)
		os.Exit(2)
	}
}

func gosync(repo, out string, syncers map[string]Gosyncer) error {
	if out == "" {
		return fmt.Errorf("-out required")
	}
	if err := os.MkdirAll(out, 0o755); err != nil {
		return err
	}
	var names []string
	for n := range syncers {
		names = append(names, n)
	}
	sort.Strings(names)
	for _, n := range names {
		file, content, err := syncers[n](repo)
		if err != nil {
			return fmt.Errorf("%s: %w", n, err)
		}
		p := filepath.Join(out, file)
		old, _ := os.ReadFile(p)
		if string(old) != content { // keep mtime when unchanged so make stays incremental
			if err := os.WriteFile(p, []byte(content), 0o644); err != nil {
				return err
			}
		}
	}
	return nil
}
