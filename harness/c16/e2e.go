package main

// C16 (b): end-to-end. Generated header sets / order lists go through the real client
// (request-level, client-level and impersonation-preset configuration) to frame-level origins
// (harness/origin) that record the field list in wire order.

import (
	"fmt"
	"net/http"
	"sort"
	"strings"
	"time"

	req "github.com/imroc/req/v3"
	"github.com/imroc/req/v3/verifharness/hk"
	"github.com/imroc/req/v3/verifharness/origin"
)

type hdrOp struct {
	Kind string `json:"kind"` // set (canonicalising, replaces) | nc (non-canonical, appends)
	K    string `json:"k"`
	V    string `json:"v"`
}

type cookieJ struct{ N, V string }

type scenario struct {
	Proto       int       `json:"proto"`
	Method      string    `json:"method"`
	Req         []hdrOp   `json:"req"`
	Cli         []hdrOp   `json:"cli"`
	ReqOrder    []string  `json:"req_order,omitempty"`
	CliOrder    []string  `json:"cli_order,omitempty"`
	ReqPOrder   []string  `json:"req_porder,omitempty"`
	CliPOrder   []string  `json:"cli_porder,omitempty"`
	Preset      string    `json:"preset,omitempty"`
	BodyLen     int       `json:"body_len"`
	ReqCookies  []cookieJ `json:"req_cookies,omitempty"`
	CliCookies  []cookieJ `json:"cli_cookies,omitempty"`
	NoCompress  bool      `json:"no_compress"`
	Redirected  bool      `json:"redirected,omitempty"`          // judged on a hop after a redirect: net/http adds Referer
	NoKeepAlive bool      `json:"disable_keep_alives,omitempty"` // HTTP/1.1: the transport adds Connection: close unless the caller asked for it
}

var valueWords = []string{"1", "no-cache", "text/html,application/xhtml+xml;q=0.9,*/*;q=0.8", "en-US,en;q=0.5", "a b  c",
	"\"quoted\", \"list\"", "?0", "W/\"etag-1\"", "x", "ümlaut", "tab\there", "semi;colon; pair=1", "=", "a=b; c=d", "0", "keep: colon"}

func genValue(r *hk.Rand) string {
	if r.Chance(8) {
		return " " + hk.Pick(r, valueWords) + "  " // surrounding blanks: HTTP does not count them as part of the value
	}
	if r.Chance(4) {
		return ""
	}
	if r.Chance(30) {
		return fmt.Sprintf("v%d", r.Intn(100000))
	}
	return hk.Pick(r, valueWords)
}

var pseudoNames = []string{":authority", ":method", ":path", ":scheme"}

func allPerms(xs []string) [][]string {
	if len(xs) <= 1 {
		return [][]string{append([]string(nil), xs...)}
	}
	var out [][]string
	for i := range xs {
		rest := append(append([]string(nil), xs[:i]...), xs[i+1:]...)
		for _, p := range allPerms(rest) {
			out = append(out, append([]string{xs[i]}, p...))
		}
	}
	return out
}

var pseudoPerms = allPerms(pseudoNames)

func genHeaderCount(r *hk.Rand) int {
	switch r.Intn(10) {
	case 0:
		return r.Range(1, 4)
	case 1, 2:
		return r.Range(30, 60)
	default:
		return r.Range(8, 22)
	}
}

func genScenario(r *hk.Rand, proto int, idx int) scenario {
	sc := scenario{Proto: proto, Method: hk.Pick(r, []string{"GET", "GET", "POST", "PUT", "DELETE", "PATCH", "OPTIONS"})}
	n := genHeaderCount(r)
	names := genNames(r, n)
	level := r.Intn(3) // 0 request-level, 1 client-level, 2 both
	for _, nm := range names {
		nv := 1
		if r.Chance(20) {
			nv = r.Range(2, 3)
		}
		toCli := level == 1 || (level == 2 && r.Bool())
		for j := 0; j < nv; j++ {
			op := hdrOp{Kind: "set", K: recase(r, nm), V: genValue(r)}
			if nv > 1 || r.Chance(25) {
				op.Kind = "nc" // only the non-canonical setters append
				if r.Chance(50) {
					op.K = http.CanonicalHeaderKey(nm) // canonical spelling, several values
				} else if j > 0 && r.Chance(70) {
					op.K = lastKey(sc, toCli) // same spelling again -> multi-valued
				}
			}
			if toCli {
				sc.Cli = append(sc.Cli, op)
			} else {
				sc.Req = append(sc.Req, op)
			}
		}
		if level == 2 && r.Chance(15) { // the same name at the other level too (request wins on equal keys)
			op := hdrOp{Kind: "set", K: nm, V: genValue(r)}
			if toCli {
				sc.Req = append(sc.Req, op)
			} else {
				sc.Cli = append(sc.Cli, op)
			}
		}
	}
	// fields the protocols treat specially
	if r.Chance(25) {
		ua := hdrOp{Kind: "set", K: "User-Agent", V: hk.Pick(r, []string{"verif-agent/1.0", "", "Mozilla/5.0 (X11)"})}
		if r.Chance(35) {
			// a spelling that is not the canonical map key. On HTTP/1.1 the writer looks for
			// "User-Agent" only: the caller's line must be written as spelled (next to the default
			// User-Agent, which is what the code does and what the model pins)
			ua = hdrOp{Kind: "nc", K: hk.Pick(r, []string{"user-agent", "user-agent", "USER-AGENT", "User-agent", "uSeR-aGeNt"}), V: "lower-agent/2"}
		}
		uas := []hdrOp{ua}
		if ua.Kind == "set" && ua.V != "" && r.Chance(20) {
			// a multi-valued User-Agent under the canonical key: all writers send at most one
			// User-Agent per map key, its first value (net/http behaviour, followed and pinned)
			uas = []hdrOp{{Kind: "nc", K: "User-Agent", V: ua.V}, {Kind: "nc", K: "User-Agent", V: "second-agent/9"}}
		}
		if r.Bool() {
			sc.Req = append(sc.Req, uas...)
		} else {
			sc.Cli = append(sc.Cli, uas...)
		}
		names = append(names, "user-agent")
	}
	if r.Chance(15) {
		sc.Req = append(sc.Req, hdrOp{Kind: "set", K: "Accept-Encoding", V: hk.Pick(r, []string{"identity", "gzip, br"})})
		names = append(names, "accept-encoding")
	}
	if r.Chance(12) {
		sc.Req = append(sc.Req, hdrOp{Kind: "set", K: hk.Pick(r, []string{"Connection", "Keep-Alive", "Proxy-Connection"}), V: "keep-alive"})
	}
	if r.Chance(12) {
		// a caller-written cookie header: the separator with one blank, none, or several
		sc.Req = append(sc.Req, hdrOp{Kind: "nc", K: "cookie", V: hk.Pick(r, []string{"raw=1; raw2=2", "raw=1;raw2=2", "raw=1;  raw2=2;   raw3=x y", "solo=1"})})
		names = append(names, "cookie")
	}
	if r.Chance(18) {
		// a field HTTP/2 and HTTP/3 forbid (connection-specific) or write themselves (host,
		// content-length), under a spelling that is NOT the canonical map key: it must be omitted
		// there whatever the spelling. On HTTP/1.1 only the harmless ones are generated (a second
		// host / content-length / transfer-encoding line would change the framing of the request).
		pool := []string{"connection", "keep-alive", "proxy-connection", "host", "accept-encoding"}
		if proto != 1 {
			pool = append(pool, "upgrade", "transfer-encoding", "content-length")
		}
		// HTTP/1.1: a non-canonical host / accept-encoding is the caller's own field and has to be
		// written once as spelled (the writer's own Host / Accept-Encoding: gzip line stays); a second
		// content-length / transfer-encoding would change the framing and is not generated there
		nm := hk.Pick(r, pool)
		k := recase(r, nm)
		if r.Chance(40) || k == http.CanonicalHeaderKey(nm) {
			// never the canonical key: net/http semantics attach to that one (Host override,
			// the HTTP/2 transport REFUSES a request with "Upgrade: websocket" - a refusal is
			// not a corruption, but it is not what this cell is about)
			k = nm
		}
		v := map[string]string{"connection": "keep-alive", "keep-alive": "timeout=5", "proxy-connection": "keep-alive",
			"upgrade": "websocket", "transfer-encoding": "chunked", "host": "other.example", "content-length": "7", "accept-encoding": "identity"}[nm]
		op := hdrOp{Kind: "nc", K: k, V: v}
		if r.Chance(70) {
			sc.Req = append(sc.Req, op)
		} else {
			sc.Cli = append(sc.Cli, op)
		}
		names = append(names, nm)
	}
	if r.Chance(12) {
		// names differing only in case: several map keys, one field name
		nm := hk.Pick(r, []string{"x-case", "x-dup-name", "accept"})
		seen := map[string]bool{}
		for i := 0; i < r.Range(2, 3); i++ {
			k := recase(r, nm)
			if i == 0 {
				k = strings.ToLower(nm)
			} else if i == 1 {
				k = strings.ToUpper(nm)
			}
			if seen[k] {
				continue
			}
			seen[k] = true
			sc.Req = append(sc.Req, hdrOp{Kind: "nc", K: k, V: genValue(r)})
		}
		names = append(names, nm)
	}
	if r.Chance(35) {
		for i := 0; i < r.Range(1, 3); i++ {
			sc.ReqCookies = append(sc.ReqCookies, cookieJ{fmt.Sprintf("rc%d", i), fmt.Sprintf("val%d", r.Intn(1000))})
		}
		if r.Bool() {
			sc.CliCookies = append(sc.CliCookies, cookieJ{"cc", fmt.Sprintf("val%d", r.Intn(1000))})
		}
		names = append(names, "cookie")
	}
	if sc.Method != "GET" && sc.Method != "OPTIONS" && r.Chance(60) {
		sc.BodyLen = hk.Pick(r, []int{1, 10, 200, 5000})
		names = append(names, "content-length", "content-type")
	}
	sc.NoCompress = r.Chance(20)
	names = append(names, "host")
	// the fields the writers add by themselves can be named in an order list too
	for _, auto := range []string{"user-agent", "accept-encoding", "content-length"} {
		if r.Chance(35) {
			names = append(names, auto)
		}
	}
	names = dedup(names)
	// order lists
	switch k := r.Intn(10); {
	case k < 4:
		sc.ReqOrder, _ = genOrder(r, names)
	case k < 7:
		sc.CliOrder, _ = genOrder(r, names)
	case k < 8:
		sc.ReqOrder, _ = genOrder(r, names)
		sc.CliOrder, _ = genOrder(r, names)
	case k < 9:
		sc.Preset = hk.Pick(r, []string{"chrome", "firefox", "safari"})
	}
	if proto != 1 || r.Chance(15) { // on HTTP/1.1 a pseudo-header order is only a bookkeeping key to be dropped
		p := append([]string(nil), pseudoPerms[idx%len(pseudoPerms)]...)
		switch r.Intn(6) {
		case 0:
		case 1:
			sc.CliPOrder = p
		case 2:
			sc.ReqPOrder = p[:r.Range(1, 4)]
		case 3:
			for i := range p {
				p[i] = strings.ToUpper(p[i])
			}
			sc.ReqPOrder = p
		default:
			sc.ReqPOrder = p
		}
	}
	return sc
}

func dedup(xs []string) []string {
	seen := map[string]bool{}
	var out []string
	for _, x := range xs {
		if !seen[x] {
			seen[x] = true
			out = append(out, x)
		}
	}
	return out
}

// cookiePairs splits a Cookie field value at ';' and drops the blanks after the separator
// (RFC 6265 5.4: "; " between pairs; servers accept any amount of white space there)
func cookiePairs(v string) []string {
	var out []string
	for _, p := range strings.Split(v, ";") {
		p = strings.TrimLeft(p, " ")
		if p != "" {
			out = append(out, p)
		}
	}
	return out
}

func lastKey(sc scenario, cli bool) string {
	l := sc.Req
	if cli {
		l = sc.Cli
	}
	return l[len(l)-1].K
}

func applyOps(h http.Header, ops []hdrOp) {
	for _, op := range ops {
		if op.Kind == "set" {
			h.Set(op.K, op.V)
		} else {
			h[op.K] = append(h[op.K], op.V)
		}
	}
}

// ---------- the caller's view, computed from the API calls with stdlib http.Header ----------

type expectation struct {
	fields  []origin.Field // caller-set fields (exact spelling) that must reach the wire, UA/cookie excluded
	ua      []string       // expected User-Agent values (first value of every spelling of the name; h1: only the canonical key)
	cookies []string       // expected cookie pairs
	order   []string
	porder  []string
}

// the preset installs its table with SetCommonHeaders before the scenario's own client-level calls
func presetOps(name string) []hdrOp {
	hs, _, _ := req.VerifImpersonateTables(name)
	var ops []hdrOp
	for k, v := range hs {
		ops = append(ops, hdrOp{Kind: "set", K: k, V: v})
	}
	sort.Slice(ops, func(i, j int) bool { return ops[i].K < ops[j].K })
	return ops
}

func expected(sc scenario) expectation {
	rh, ch := http.Header{}, http.Header{}
	applyOps(rh, sc.Req)
	applyOps(ch, presetOps(sc.Preset))
	applyOps(ch, sc.Cli)
	merged := http.Header{}
	for k, v := range rh {
		merged[k] = v
	}
	for k, v := range ch { // client-level values are defaults: used when the request has no such key
		if len(merged[k]) == 0 {
			merged[k] = v
		}
	}
	var e expectation
	uaSet := false
	for k, vs := range merged {
		lk := strings.ToLower(k)
		if lk == "user-agent" && (sc.Proto != 1 || k == "User-Agent") {
			uaSet = true
			if len(vs) > 0 && vs[0] != "" {
				e.ua = append(e.ua, vs[0]) // per key at most one User-Agent, its first value
			}
			continue
		}
		if lk == "cookie" {
			for _, v := range vs {
				e.cookies = append(e.cookies, cookiePairs(v)...)
			}
			continue
		}
		if sc.Proto != 1 && forbiddenH23[lk] {
			continue // connection-specific / written by the protocol itself: omitted on HTTP/2 and HTTP/3
		}
		for _, v := range vs {
			e.fields = append(e.fields, origin.Field{Name: k, Value: strings.Trim(v, " \t")})
		}
	}
	if !uaSet {
		e.ua = []string{"req/v3 (https://github.com/imroc/req)"}
	}
	for _, c := range sc.ReqCookies {
		e.cookies = append(e.cookies, c.N+"="+c.V)
	}
	for _, c := range sc.CliCookies {
		e.cookies = append(e.cookies, c.N+"="+c.V)
	}
	e.order, e.porder = sc.ReqOrder, sc.ReqPOrder
	if len(sc.CliOrder) > 0 {
		e.order = sc.CliOrder // the client-level list replaces the request-level one
	}
	if len(sc.CliPOrder) > 0 {
		e.porder = sc.CliPOrder
	}
	return e
}

// ---------- running one scenario ----------

type captured struct {
	hdr    http.Header
	method string
	host   string
	path   string
	scheme string
	clen   int64
	off    bool          // set before concurrent use: nothing is recorded then
	all    []http.Header // every round trip (the hops of a redirect chain)
}

func newClient(sc scenario, o *origin.Origin, capt *captured) *req.Client {
	c := req.C().SetTimeout(20 * time.Second)
	// innermost transport wrapper: what the protocol writers receive
	c.Transport.WrapRoundTripFunc(func(rt http.RoundTripper) req.HttpRoundTripFunc {
		return func(r *http.Request) (*http.Response, error) {
			if capt.off {
				return rt.RoundTrip(r)
			}
			capt.hdr = r.Header.Clone()
			capt.all = append(capt.all, capt.hdr)
			capt.method, capt.host, capt.path, capt.scheme = r.Method, r.Host, r.URL.RequestURI(), r.URL.Scheme
			capt.clen = r.ContentLength
			return rt.RoundTrip(r)
		}
	})
	switch sc.Preset {
	case "chrome":
		c.ImpersonateChrome()
	case "firefox":
		c.ImpersonateFirefox()
	case "safari":
		c.ImpersonateSafari()
	}
	switch sc.Proto {
	case 1:
		c.EnableForceHTTP1()
	case 2:
		c.EnableH2C().EnableForceHTTP2()
	case 3:
		c.EnableInsecureSkipVerify().EnableForceHTTP3()
	}
	if sc.NoCompress {
		c.DisableCompression()
	}
	if sc.NoKeepAlive {
		c.DisableKeepAlives()
	}
	for _, op := range sc.Cli {
		if op.Kind == "set" {
			c.SetCommonHeader(op.K, op.V)
		} else {
			c.SetCommonHeaderNonCanonical(op.K, op.V)
		}
	}
	if len(sc.CliOrder) > 0 {
		c.SetCommonHeaderOrder(sc.CliOrder...)
	}
	if len(sc.CliPOrder) > 0 {
		c.SetCommonPseudoHeaderOder(sc.CliPOrder...)
	}
	for _, ck := range sc.CliCookies {
		c.SetCommonCookies(&http.Cookie{Name: ck.N, Value: ck.V})
	}
	return c
}

func runScenario(sc scenario, o *origin.Origin) (origin.Obs, *captured, error) {
	capt := &captured{}
	c := newClient(sc, o, capt)
	defer c.GetTransport().CloseIdleConnections()
	obs, err := sendOn(c, sc, o, "/c16?x=1")
	return obs, capt, err
}

// sendOn sends the request-level part of sc through the (already configured) client c and
// returns what the origin saw for exactly that request (matched by its target).
// reqHook, when set, sees the request just before it is sent (context / trace of a sequence step)
var reqHook func(*req.Request)

func sendOn(c *req.Client, sc scenario, o *origin.Origin, target string) (origin.Obs, error) {
	r := c.R()
	if reqHook != nil {
		reqHook(r)
	}
	for _, op := range sc.Req {
		if op.Kind == "set" {
			r.SetHeader(op.K, op.V)
		} else {
			r.SetHeaderNonCanonical(op.K, op.V)
		}
	}
	if len(sc.ReqOrder) > 0 {
		r.SetHeaderOrder(sc.ReqOrder...)
	}
	if len(sc.ReqPOrder) > 0 {
		r.SetPseudoHeaderOrder(sc.ReqPOrder...)
	}
	for _, ck := range sc.ReqCookies {
		r.SetCookies(&http.Cookie{Name: ck.N, Value: ck.V})
	}
	if sc.BodyLen > 0 {
		r.SetBodyBytes([]byte(strings.Repeat("b", sc.BodyLen)))
	}
	o.Drain()
	_, err := r.Send(sc.Method, o.URL+target)
	if err != nil {
		return origin.Obs{}, err
	}
	deadline := time.Now().Add(10 * time.Second)
	for {
		obs, ok := o.Next(time.Until(deadline))
		if !ok {
			return origin.Obs{}, fmt.Errorf("origin saw no request")
		}
		if obs.Target == target {
			return obs, nil
		}
		// a left-over of an earlier (failed) request on another connection: skip it
	}
}

// ---------- oracle ----------

func msKey(fs []origin.Field, lower bool) []string {
	var s []string
	for _, f := range fs {
		n := f.Name
		if lower {
			n = strings.ToLower(n)
		}
		s = append(s, fmt.Sprintf("%s: %s", n, f.Value))
	}
	sort.Strings(s)
	return s
}

func diffMS(got, want []string) (missing, extra []string) {
	cnt := map[string]int{}
	for _, w := range want {
		cnt[w]++
	}
	for _, g := range got {
		if cnt[g] > 0 {
			cnt[g]--
		} else {
			extra = append(extra, g)
		}
	}
	for w, n := range cnt {
		for i := 0; i < n; i++ {
			missing = append(missing, w)
		}
	}
	sort.Strings(missing)
	return
}

// oracleCtx: set while the single-request oracle judges a step of a sequence or a member of a
// clone family, so that the failure names the whole cell as its input
var oracleCtx *struct {
	prefix, where string
	cell          interface{}
}

func withCtx(prefix, where string, cell interface{}, f func()) {
	oracleCtx = &struct {
		prefix, where string
		cell          interface{}
	}{prefix, where, cell}
	defer func() { oracleCtx = nil }()
	f()
}

func protoName(p int) string { return fmt.Sprintf("h%d", p) }

func oracle(r *hk.Run, sc scenario, obs origin.Obs) {
	e := expected(sc)
	pn := protoName(sc.Proto)
	fail := func(sig, what string, got, want interface{}) {
		if oracleCtx != nil { // a step of a sequence / a member of a clone family: report the whole cell
			r.Fail(hk.Failure{Sig: oracleCtx.prefix + ":" + pn + ":" + sig, What: what + " (" + oracleCtx.where + ")",
				Input: map[string]interface{}{"request": sc, "cell": oracleCtx.cell}, Got: got, Want: want})
			return
		}
		r.Fail(hk.Failure{Sig: "e2e:" + pn + ":" + sig, What: what, Input: sc, Got: got, Want: want})
	}
	if obs.Err != "" {
		fail("origin-error", "origin could not parse the request: "+obs.Err, nil, nil)
		return
	}
	var pseudo, regular []origin.Field
	seenRegular := false
	for _, f := range obs.Fields {
		if strings.HasPrefix(f.Name, ":") {
			if seenRegular {
				fail("pseudo-after-regular", "pseudo-header field after a regular field", f.Name, nil)
			}
			pseudo = append(pseudo, f)
		} else {
			seenRegular = true
			regular = append(regular, f)
		}
	}
	// bookkeeping keys never on the wire
	for _, f := range regular {
		ln := strings.ToLower(f.Name)
		if ln == "__header_order__" || ln == "__pseudo_header_order__" {
			fail("bookkeeping-on-wire", "internal bookkeeping key transmitted", f, nil)
		}
	}
	// fields a protocol forbids are omitted - under every spelling the caller may have used
	if sc.Proto != 1 {
		ncl := 0
		for _, f := range regular {
			ln := strings.ToLower(f.Name)
			if ln == "content-length" {
				ncl++
				if ncl > 1 || f.Value != fmt.Sprint(sc.BodyLen) {
					fail("forbidden-on-wire:content-length", "a caller-supplied content-length reached the wire next to / instead of the automatic one", f, sc.BodyLen)
				}
				continue
			}
			if forbiddenH23[ln] {
				fail("forbidden-on-wire:"+ln, "a field the protocol forbids was transmitted instead of omitted", f, nil)
			}
		}
	}
	// automatic fields are set aside, the rest must be exactly the caller's set
	var rest []origin.Field
	var ua, cookies []string
	autoClose := false
	for _, f := range regular {
		ln := strings.ToLower(f.Name)
		switch {
		case ln == "user-agent" && (sc.Proto != 1 || f.Name == "User-Agent"):
			ua = append(ua, f.Value)
		case ln == "cookie":
			if sc.Proto == 2 && (strings.HasPrefix(f.Value, " ") || strings.Contains(f.Value, ";")) {
				// HTTP/2 sends one cookie-pair per field here: the "; " separator (any number of
				// blanks) is not part of a pair, and RFC 9113 8.2.1 forbids a value that starts with a blank
				fail("cookie-crumb-corrupted", "a cookie field on HTTP/2 carries part of the pair separator", f, nil)
			}
			cookies = append(cookies, cookiePairs(f.Value)...)
		case f.Name == "Host" && sc.Proto == 1, f.Name == "Content-Length" && sc.Proto == 1, ln == "content-length" && sc.Proto != 1,
			f.Name == "Transfer-Encoding" && sc.Proto == 1:
			// the writer's own lines (on HTTP/1.1 exactly these spellings; anything else is the caller's)
		case ln == "accept-encoding" && f.Value == "gzip" && !sc.NoCompress && !callerSet(sc, "Accept-Encoding"):
		case ln == "content-type" && sc.BodyLen > 0 && !callerSet(sc, "Content-Type"):
		case f.Name == "Referer" && sc.Redirected && !callerSet(sc, "Referer"):
		case f.Name == "Connection" && f.Value == "close" && sc.Proto == 1 && sc.NoKeepAlive && !callerWantsClose(sc) && !autoClose:
			autoClose = true // the transport's own line (keep-alives disabled, the caller did not ask for close)
		default:
			rest = append(rest, origin.Field{Name: f.Name, Value: strings.Trim(f.Value, " \t")})
		}
	}
	want := e.fields
	lower := sc.Proto != 1
	if missing, extra := diffMS(msKey(rest, lower), msKey(want, lower)); len(missing)+len(extra) > 0 {
		sig := "header-set-changed"
		if len(missing) > 0 && len(extra) == 0 {
			sig = "header-dropped"
		} else if len(extra) > 0 && len(missing) == 0 {
			sig = "header-added"
		}
		fail(sig, "the transmitted header set differs from what the caller set", map[string]interface{}{"missing": missing, "extra": extra}, nil)
	}
	sort.Strings(ua)
	sort.Strings(e.ua)
	if fmt.Sprint(ua) != fmt.Sprint(e.ua) {
		fail("user-agent", "User-Agent lines differ from the caller's choice", ua, e.ua)
	}
	sort.Strings(cookies)
	wc := append([]string(nil), e.cookies...)
	sort.Strings(wc)
	if fmt.Sprint(cookies) != fmt.Sprint(wc) {
		fail("cookies", "cookie pairs differ", cookies, wc)
	}
	// order
	order, porder := e.order, e.porder
	if sc.Preset != "" { // registered first = innermost = applied last
		_, order, porder = req.VerifImpersonateTables(sc.Preset)
	}
	if len(order) > 0 {
		var names []string
		for _, f := range regular {
			names = append(names, f.Name)
		}
		if bad := checkListedOrder(names, order); bad != "" {
			bucket := "n<=12"
			if len(names) > 12 {
				bucket = "n>12"
			}
			fail("listed-order-broken:"+bucket, "listed fields are on the wire against the order list: "+bad, names, order)
		}
	}
	if sc.Proto != 1 {
		var pn []string
		for _, f := range pseudo {
			pn = append(pn, f.Name)
		}
		sorted := append([]string(nil), pn...)
		sort.Strings(sorted)
		if strings.Join(sorted, " ") != ":authority :method :path :scheme" {
			fail("pseudo-set", "pseudo-header fields are not exactly the four request pseudo-headers", pn, nil)
		}
		if len(porder) > 0 {
			if bad := checkListedOrder(pn, porder); bad != "" {
				fail("pseudo-order-broken", "pseudo-header fields against the requested order: "+bad, pn, porder)
			}
		}
	}
}

// RFC 9113 8.2.2 / RFC 9114 4.2: connection-specific fields must not be sent; Host is carried by
// :authority; the content-length the protocol writer computes is the only one.
var forbiddenH23 = map[string]bool{"connection": true, "keep-alive": true, "proxy-connection": true,
	"transfer-encoding": true, "upgrade": true, "host": true, "content-length": true}

// callerWantsClose: the token "close" in the first value of the caller's canonical Connection header
// (RFC 9110 7.6.1: connection options are a comma-separated, case-insensitive list)
func callerWantsClose(sc scenario) bool {
	rh, ch := http.Header{}, http.Header{}
	applyOps(rh, sc.Req)
	applyOps(ch, presetOps(sc.Preset))
	applyOps(ch, sc.Cli)
	vs := rh["Connection"]
	if len(vs) == 0 {
		vs = ch["Connection"]
	}
	if len(vs) == 0 {
		return false
	}
	for _, t := range strings.FieldsFunc(vs[0], func(r rune) bool { return r == ',' || r == ' ' || r == '\t' }) {
		if strings.EqualFold(t, "close") {
			return true
		}
	}
	return false
}

func callerSet(sc scenario, canonical string) bool {
	for _, l := range [][]hdrOp{sc.Req, sc.Cli, presetOps(sc.Preset)} {
		for _, op := range l {
			k := op.K
			if op.Kind == "set" {
				k = http.CanonicalHeaderKey(k)
			}
			if k == canonical {
				return true
			}
		}
	}
	return false
}

// ---------- Coq emission ----------

func coqCreq(capt *captured, sc scenario) string {
	keys := make([]string, 0, len(capt.hdr))
	for k := range capt.hdr {
		keys = append(keys, k)
	}
	sort.Strings(keys)
	kvs := make([]string, len(keys))
	for i, k := range keys {
		kvs[i] = coqKV(k, capt.hdr[k])
	}
	return fmt.Sprintf("(mk_creq %s %s %s %s %s %s %s)", cs(capt.method), cs(capt.host), cs(capt.path), cs(capt.scheme),
		hk.CoqList(kvs), hk.CoqZ(capt.clen), hk.CoqBool(!sc.NoCompress))
}

func coqLines(fs []origin.Field) string {
	o := make([]string, len(fs))
	for i, f := range fs {
		o[i] = hk.CoqPair(cs(f.Name), cs(f.Value))
	}
	return hk.CoqList(o)
}

// coqMerge renders the caller's API calls and the header map the protocol writer received
// (captured by the innermost round-trip wrapper) as a MergeCase.
func coqOps(ops []hdrOp) []string {
	var out []string
	for _, op := range ops {
		c := "OpNC"
		if op.Kind == "set" {
			c = "OpSet"
		}
		out = append(out, fmt.Sprintf("%s %s %s", c, cs(op.K), cs(op.V)))
	}
	return out
}

func coqMerge(sc scenario, capt *captured) string {
	ro := coqOps(sc.Req)
	if len(sc.ReqOrder) > 0 {
		ro = append(ro, "OpOrder "+csList(sc.ReqOrder))
	}
	if len(sc.ReqPOrder) > 0 {
		ro = append(ro, "OpPOrder "+csList(sc.ReqPOrder))
	}
	co := coqOps(append(presetOps(sc.Preset), sc.Cli...))
	var cookies []string
	for _, c := range sc.ReqCookies {
		cookies = append(cookies, cs(c.N+"="+c.V))
	}
	for _, c := range sc.CliCookies {
		cookies = append(cookies, cs(c.N+"="+c.V))
	}
	// client-level order registrations, in registration order (newClient: the preset first)
	var regsO, regsP []string
	if sc.Preset != "" {
		_, o, p := req.VerifImpersonateTables(sc.Preset)
		regsO, regsP = append(regsO, csList(o)), append(regsP, csList(p))
	}
	if len(sc.CliOrder) > 0 {
		regsO = append(regsO, csList(sc.CliOrder))
	}
	if len(sc.CliPOrder) > 0 {
		regsP = append(regsP, csList(sc.CliPOrder))
	}
	keys := make([]string, 0, len(capt.hdr))
	for k := range capt.hdr {
		if k == "Content-Type" && !callerSet(sc, "Content-Type") {
			continue // set by the body middleware, not by the caller
		}
		keys = append(keys, k)
	}
	sort.Strings(keys)
	kvs := make([]string, len(keys))
	for i, k := range keys {
		kvs[i] = coqKV(k, capt.hdr[k])
	}
	return fmt.Sprintf("MergeCase %s %s %s %s %s %s", hk.CoqList(ro), hk.CoqList(co), hk.CoqList(cookies),
		hk.CoqList(regsO), hk.CoqList(regsP), hk.CoqList(kvs))
}

func runE2E(r *hk.Run, rng *hk.Rand) {
	type startFn func() (*origin.Origin, error)
	protos := []struct {
		p     int
		start startFn
		n     int
	}{
		{1, origin.StartH1, r.Scale(160, 4000)},
		{2, origin.StartH2C, r.Scale(130, 3000)},
		{3, origin.StartH3, r.Scale(90, 2000)},
	}
	for _, pr := range protos {
		o, err := pr.start()
		if err != nil {
			r.Fail(hk.Failure{Sig: "e2e:origin-start", What: err.Error(), Input: pr.p})
			continue
		}
		prng := rng.Fork()
		for i := 0; i < pr.n; i++ {
			sc := genScenario(prng, pr.p, i)
			if pr.p == 1 && prng.Chance(22) {
				// keep-alives disabled on the client: the transport announces Connection: close itself - unless
				// the caller did (in any letter case / within a token list), whose field must then go out ONCE
				sc.NoKeepAlive = true
				if prng.Chance(60) {
					op := hdrOp{Kind: "set", K: recase(prng, "connection"), V: hk.Pick(prng, []string{"close", "Close", "CLOSE", "keep-alive", "keep-alive, close", "close, x-opt"})}
					var kept []hdrOp
					for _, o := range sc.Req {
						if !strings.EqualFold(o.K, "connection") {
							kept = append(kept, o)
						}
					}
					sc.Req = append(kept, op)
				}
			}
			pn := protoName(pr.p)
			r.Count("e2e." + pn)
			var obs origin.Obs
			var capt *captured
			var err error
			func() {
				defer func() {
					if e := recover(); e != nil {
						err = fmt.Errorf("panic: %v", e)
					}
				}()
				obs, capt, err = runScenario(sc, o)
			}()
			if err != nil {
				r.Fail(hk.Failure{Sig: "e2e:" + pn + ":request-failed", What: "a request with valid headers failed: " + err.Error(), Input: sc})
				continue
			}
			oracle(r, sc, obs)
			nUser := len(sc.Req) + len(sc.Cli)
			if len(sc.ReqOrder)+len(sc.CliOrder) > 0 || sc.Preset != "" {
				r.Count("e2e." + pn + ".ordered")
				if len(obs.Fields) > 12 {
					r.Count("e2e." + pn + ".ordered.n>12")
				}
			}
			if sc.Preset != "" {
				r.Count("e2e.preset=" + sc.Preset)
			}
			if len(sc.ReqPOrder)+len(sc.CliPOrder) > 0 {
				r.Count("e2e." + pn + ".pseudo-order")
			}
			if sc.BodyLen > 0 {
				r.Count("e2e.body")
			}
			if len(sc.ReqCookies) > 0 {
				r.Count("e2e.cookies")
			}
			desc := map[string]interface{}{"kind": "wire-" + pn, "scenario": sc, "wire": obs.Fields}
			coq := fmt.Sprintf("WireCase %d %s %s", pr.p, coqCreq(capt, sc), coqLines(obs.Fields))
			if sc.NoKeepAlive {
				r.Count("e2e.h1.keep-alives-disabled")
				coq = fmt.Sprintf("WireKACase %s %s", coqCreq(capt, sc), coqLines(obs.Fields))
			}
			r.Add(hk.Case{Coq: coq, Desc: desc}, fmt.Sprintf("e2e|%+v", sc), nUser >= 2)
			if i%3 == 0 { // the same exchange seen from the API side: calls -> header map at the transport
				r.Count("merge")
				r.Add(hk.Case{Coq: coqMerge(sc, capt), Desc: map[string]interface{}{"kind": "merge-" + pn, "scenario": sc, "transport_header": capt.hdr}},
					fmt.Sprintf("merge|%+v", sc), nUser >= 2)
			}
		}
		o.Close()
	}
}
