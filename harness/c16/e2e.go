package main

import "github.com/imroc/req/v3/verifharness/hk"

var syncers map[string]hk.Gosyncer

func runE2E(r *hk.Run, rng *hk.Rand) {}
