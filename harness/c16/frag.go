package main

// C16 (f): the header set arrives whatever the size of the header block.
// HTTP/2 cuts a header block into a HEADERS frame and CONTINUATION frames of at most the peer's
// SETTINGS_MAX_FRAME_SIZE; with a HEADERS priority the first frame also carries 5 priority bytes.
// Cells: header blocks of exactly M-13 .. M+8 bytes (and around 2M) for the M the peer advertises,
// with and without a configured priority. The block size is hit by measurement: the same warm-up +
// request pair is sent on a first connection with a padding value of known length, the client's
// bytes are tapped and the block measured, the padding is corrected, and the pair is sent again
// on a fresh connection (same HPACK state). Observed: the frames the client wrote (tap) and the
// field list the origin decoded.

import (
	"encoding/binary"
	"fmt"
	"strings"

	rhttp2 "github.com/imroc/req/v3/http2"
	"github.com/imroc/req/v3/verifharness/hk"
	"github.com/imroc/req/v3/verifharness/origin"
	"golang.org/x/net/http2"
)

type h2frame struct {
	Type   uint8  `json:"type"`
	Flags  uint8  `json:"flags"`
	Stream uint32 `json:"stream"`
	Len    int    `json:"len"`
}

// parseClientFrames: the frame headers of everything a client wrote on one connection
func parseClientFrames(b []byte) ([]h2frame, error) {
	if !strings.HasPrefix(string(b), http2.ClientPreface) {
		return nil, fmt.Errorf("no client preface")
	}
	b = b[len(http2.ClientPreface):]
	var out []h2frame
	for len(b) > 0 {
		if len(b) < 9 {
			return out, fmt.Errorf("truncated frame header")
		}
		l := int(b[0])<<16 | int(b[1])<<8 | int(b[2])
		f := h2frame{Type: b[3], Flags: b[4], Stream: binary.BigEndian.Uint32(b[5:9]) & 0x7fffffff, Len: l}
		if len(b) < 9+l {
			return out, fmt.Errorf("truncated frame payload")
		}
		out = append(out, f)
		b = b[9+l:]
	}
	return out, nil
}

const (
	ftHeaders      = 0x1
	ftContinuation = 0x9
	flagEndHeaders = 0x4
	flagPriority   = 0x20
)

// headerBlockOf: the frames of the LAST header block the client wrote, and the block's length
func headerBlockOf(frames []h2frame) (blk []h2frame, blockLen int) {
	last := -1
	for i, f := range frames {
		if f.Type == ftHeaders {
			last = i
		}
	}
	if last < 0 {
		return nil, 0
	}
	for i := last; i < len(frames); i++ {
		f := frames[i]
		if i > last && (f.Type != ftContinuation || f.Stream != frames[last].Stream) {
			break
		}
		blk = append(blk, f)
		blockLen += f.Len
	}
	if frames[last].Flags&flagPriority != 0 {
		blockLen -= 5
	}
	return
}

type fragCell struct {
	Target   int      `json:"target_block_len"`
	MaxFrame int      `json:"peer_max_frame_size"`
	Priority bool     `json:"header_priority"`
	Sc       scenario `json:"sc"`
}

const originMaxFrame = 1 << 20 // what harness/origin's HTTP/2 peer advertises

func fragSend(r *hk.Run, cell fragCell, pad int, o *origin.Origin, tag string) (blk []h2frame, blockLen int, obs origin.Obs, sc scenario, capt captured, err error) {
	sc = cell.Sc
	sc.Req = append(append([]hdrOp(nil), sc.Req...), hdrOp{Kind: "set", K: "x-pad", V: strings.Repeat("~", pad)}) // '~' has a 13-bit Huffman code: sent as it is
	c := &captured{}
	cl := newClient(sc, o, c)
	defer cl.GetTransport().CloseIdleConnections()
	if cell.Priority {
		cl.SetHTTP2HeaderPriority(rhttp2.PriorityParam{StreamDep: 0, Exclusive: true, Weight: 255})
	}
	d := &hookDialer{armNext: -1, tapAll: true}
	cl.SetDial(d.dial)
	warm := cell.Sc
	if _, err = sendOn(cl, warm, o, "/c16?frag="+tag+"&warm=1"); err != nil { // the connection now knows the peer's SETTINGS
		return
	}
	*c = captured{}
	obs, err = sendOn(cl, sc, o, "/c16?frag="+tag)
	capt = *c
	d.mu.Lock()
	var wire []byte
	if len(d.conns) > 0 {
		hc := d.conns[len(d.conns)-1]
		hc.mu.Lock()
		wire = append(wire, hc.tap.Bytes()...)
		hc.mu.Unlock()
	}
	d.mu.Unlock()
	frames, perr := parseClientFrames(wire)
	if perr != nil && err == nil {
		err = fmt.Errorf("tap: %v", perr)
	}
	blk, blockLen = headerBlockOf(frames)
	return
}

func runFragments(r *hk.Run, rng *hk.Rand) {
	o, err := origin.StartH2C()
	if err != nil {
		r.Fail(hk.Failure{Sig: "frag:origin-start", What: err.Error()})
		return
	}
	defer o.Close()
	M := originMaxFrame
	var targets []int
	for dlt := -13; dlt <= 8; dlt++ {
		targets = append(targets, M+dlt)
	}
	for _, dlt := range []int{-6, -5, -4, -1, 0, 1} {
		targets = append(targets, 2*M+dlt)
	}
	if r.Quick() { // quick: the window around M every run, a rotating third of the rest
		var t2 []int
		for i, t := range targets {
			if (t >= M-6 && t <= M+1) || i%3 == int(r.Seed%3) {
				t2 = append(t2, t)
			}
		}
		targets = t2
	}
	for ti, target := range targets {
		for _, prio := range []bool{true, false} {
			base := genScenario(rng, 2, ti)
			base.Method, base.BodyLen, base.ReqCookies, base.CliCookies, base.Preset = "GET", 0, nil, nil, "" // a preset brings its own HEADERS priority
			if len(base.Req) > 12 {
				base.Req = base.Req[:12]
			}
			if len(base.Cli) > 12 {
				base.Cli = base.Cli[:12]
			}
			cell := fragCell{Target: target, MaxFrame: M, Priority: prio, Sc: base}
			r.Count(fmt.Sprintf("frag.prio=%v", prio))
			// measure with a padding of roughly the right size, then correct it
			pad0 := target - 2000
			_, l0, _, _, _, err := fragSend(r, cell, pad0, o, fmt.Sprintf("%d-%v-p", ti, prio))
			if err != nil || l0 == 0 {
				r.Fail(hk.Failure{Sig: "frag:probe-failed", What: fmt.Sprint("the probe request failed: ", err), Input: cell})
				continue
			}
			pad := pad0 + (target - l0)
			blk, l, obs, sc, capt, err := fragSend(r, cell, pad, o, fmt.Sprintf("%d-%v-r", ti, prio))
			desc := map[string]interface{}{"kind": "h2-fragments", "cell": cell, "pad": pad, "block_len": l, "frames": blk}
			if l != target {
				r.Count("frag.target-missed") // nothing wrong, only not the size aimed at
			}
			rel := "below"
			switch {
			case l > M:
				rel = "above"
			case l > M-5:
				rel = "within 5 below"
			case l == M-5:
				rel = "5 below"
			}
			sig := fmt.Sprintf("frag:h2:prio=%v:block %s MAX_FRAME_SIZE", prio, rel)
			if err != nil {
				r.Fail(hk.Failure{Sig: sig + ":request-failed", What: fmt.Sprintf("a request whose header block is %d bytes (peer MAX_FRAME_SIZE %d) failed: %v", l, M, err), Input: desc, Got: blk})
				continue
			}
			// RFC 9113 4.2 / 6.2 / 6.10: no frame above the peer's limit; END_HEADERS on the last frame of the block and only there
			for i, f := range blk {
				if f.Len > M {
					r.Fail(hk.Failure{Sig: sig + ":frame-too-large", What: fmt.Sprintf("frame %d of the header block has %d bytes, the peer allows %d", i, f.Len, M), Input: desc, Got: blk})
				}
				if end := f.Flags&flagEndHeaders != 0; end != (i == len(blk)-1) {
					r.Fail(hk.Failure{Sig: sig + ":end-headers-misplaced", What: fmt.Sprintf("END_HEADERS=%v on frame %d of %d of the header block", end, i+1, len(blk)), Input: desc, Got: blk})
				}
			}
			if hasPrio := len(blk) > 0 && blk[0].Flags&flagPriority != 0; hasPrio != prio {
				r.Fail(hk.Failure{Sig: sig + ":priority-flag", What: "the HEADERS frame does not carry the configured priority", Input: desc, Got: blk})
			}
			withCtx("frag", fmt.Sprintf("header block of %d bytes, peer MAX_FRAME_SIZE %d, priority %v", l, M, prio), desc, func() { oracle(r, sc, obs) })
			var fr []string
			for _, f := range blk {
				fr = append(fr, fmt.Sprintf("(%d%%N, %s)", f.Len, hk.CoqBool(f.Flags&flagEndHeaders != 0)))
			}
			r.Add(hk.Case{Coq: fmt.Sprintf("FragCase %s %d%%N %d%%N %s", hk.CoqBool(prio), M, l, hk.CoqList(fr)), Desc: desc},
				fmt.Sprintf("frag|%d|%v|%+v", target, prio, base), true)
			// for the model the padding value is projected to a token (the Go oracle above compared it in full)
			tok := fmt.Sprintf("PAD%d", pad)
			if vs := capt.hdr["X-Pad"]; len(vs) == 1 && len(vs[0]) == pad {
				capt.hdr["X-Pad"] = []string{tok}
			}
			for i := range obs.Fields {
				if obs.Fields[i].Name == "x-pad" && len(obs.Fields[i].Value) == pad {
					obs.Fields[i].Value = tok
				}
			}
			r.Add(hk.Case{Coq: fmt.Sprintf("WireCase 2 %s %s", coqCreq(&capt, sc), coqLines(obs.Fields)),
				Desc: map[string]interface{}{"kind": "h2-fragments-wire", "cell": cell}}, fmt.Sprintf("fragwire|%d|%v|%+v", target, prio, base), true)
		}
	}
}
