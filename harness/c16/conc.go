package main

// C16 (e): every header exactly once, with its value, when requests overlap.
//
//   - forced interleavings on ONE HTTP/3 connection's request writer (QPACK encoder + header buffer
//     shared by all requests of the connection; hook VerifNewRequestWriter): request A is parked
//     inside its k-th Write to the stream (k = 1: the HEADERS frame header, k = 2: the field
//     section) while B and C run on the same writer; every HEADERS frame is then decoded with the
//     reference QPACK decoder and judged by the single-request oracle;
//   - bursts of concurrent requests through ONE client / ONE connection on HTTP/2 and HTTP/3.

import (
	"bytes"
	"fmt"
	"net/http"
	"strings"
	"sync"
	"time"

	req "github.com/imroc/req/v3"
	fh3 "github.com/imroc/req/v3/internal/http3"
	"github.com/imroc/req/v3/verifharness/hk"
	"github.com/imroc/req/v3/verifharness/origin"
	"github.com/quic-go/qpack"
	"github.com/quic-go/quic-go/quicvarint"
)

// gateWriter parks inside its k-th Write until released (a stream waiting for flow-control credit)
type gateWriter struct {
	mu      sync.Mutex
	b       []byte
	k, n    int
	entered chan struct{}
	release chan struct{}
}

func (g *gateWriter) Write(p []byte) (int, error) {
	g.mu.Lock()
	g.n++
	park := g.n == g.k
	g.mu.Unlock()
	if park {
		close(g.entered)
		<-g.release
	}
	g.mu.Lock()
	g.b = append(g.b, p...)
	g.mu.Unlock()
	return len(p), nil
}

func (g *gateWriter) bytes() []byte {
	g.mu.Lock()
	defer g.mu.Unlock()
	return append([]byte(nil), g.b...)
}

// transportRequest: the *http.Request the HTTP/3 writer would receive for sc (what Client.roundTrip
// builds and the client-level order wrappers complete), made with the stdlib types only
func transportRequest(sc scenario, tag string) (*http.Request, *captured, bool) {
	rh, ch := http.Header{}, http.Header{}
	applyOps(rh, sc.Req)
	applyOps(ch, presetOps(sc.Preset))
	applyOps(ch, sc.Cli)
	h := http.Header{}
	for k, v := range rh {
		h[k] = append([]string(nil), v...)
	}
	for k, v := range ch {
		if len(h[k]) == 0 {
			h[k] = append([]string(nil), v...)
		}
	}
	rq, _ := http.NewRequest(sc.Method, "https://"+tag+".example/c16?x="+tag, nil)
	rq.Header = h
	for _, c := range sc.ReqCookies {
		rq.AddCookie(&http.Cookie{Name: c.N, Value: c.V})
	}
	for _, c := range sc.CliCookies {
		rq.AddCookie(&http.Cookie{Name: c.N, Value: c.V})
	}
	e := expected(sc)
	order, porder := e.order, e.porder
	if sc.Preset != "" {
		_, order, porder = req.VerifImpersonateTables(sc.Preset)
	}
	if len(order) > 0 {
		h["__header_order__"] = order
	}
	if len(porder) > 0 {
		h["__pseudo_header_order__"] = porder
	}
	gz := !sc.NoCompress && h.Get("Accept-Encoding") == "" && h.Get("Range") == "" && sc.Method != "HEAD"
	capt := &captured{hdr: h.Clone(), method: sc.Method, host: rq.URL.Host, path: rq.URL.RequestURI(), scheme: "https"}
	return rq, capt, gz
}

// decodeHeadersFrame: exactly one HEADERS frame whose field section decodes with the reference decoder
func decodeHeadersFrame(wire []byte) ([]origin.Field, error) {
	br := bytes.NewReader(wire)
	t, err := quicvarint.Read(br)
	if err != nil || t != 0x1 {
		return nil, fmt.Errorf("not a HEADERS frame (type %d, %v)", t, err)
	}
	l, err := quicvarint.Read(br)
	if err != nil || int(l) != br.Len() {
		return nil, fmt.Errorf("HEADERS frame announces %d bytes, %d follow", l, br.Len())
	}
	section := wire[len(wire)-br.Len():]
	hfs, err := qpack.NewDecoder(nil).DecodeFull(section)
	if err != nil {
		return nil, fmt.Errorf("qpack: %v", err)
	}
	out := make([]origin.Field, len(hfs))
	for i, hf := range hfs {
		out[i] = origin.Field{Name: hf.Name, Value: hf.Value}
	}
	return out, nil
}

type collector struct{ b []byte }

func (c *collector) Write(p []byte) (int, error) { c.b = append(c.b, p...); return len(p), nil }

func runWriterInterleavings(r *hk.Run, rng *hk.Rand) {
	n := r.Scale(40, 1200)
	for i := 0; i < n; i++ {
		k := 1 + i%2
		third := i%4 >= 2
		// A, and B / C that re-use most of A's fields (and are not larger: they fit the buffer A grew)
		scA := genScenario(rng, 3, i)
		scA.Method, scA.BodyLen = hk.Pick(rng, []string{"GET", "GET", "POST", "DELETE"}), 0
		scB, scC := scA, scA
		scB.Req = perturb(rng, scA.Req)
		scC.Req = perturb(rng, scA.Req)
		if rng.Chance(30) {
			scB.ReqOrder, _ = genOrder(rng, lowerNames(scB.Req))
		}
		scs := []scenario{scA, scB, scC}
		var reqs []*http.Request
		var capts []*captured
		var gzs []bool
		for j, sc := range scs {
			rq, capt, gz := transportRequest(sc, fmt.Sprintf("%c%d", 'a'+j, i))
			reqs, capts, gzs = append(reqs, rq), append(capts, capt), append(gzs, gz)
		}
		w := fh3.VerifNewRequestWriter()
		gate := &gateWriter{k: k, entered: make(chan struct{}), release: make(chan struct{})}
		var outB, outC collector
		errA, errB, errC := make(chan error, 1), make(chan error, 1), make(chan error, 1)
		cell := map[string]interface{}{"kind": "h3-writer-interleaved", "a_parked_in_write": k, "three_requests": third, "a": scA, "b": scB, "c": scC}
		r.Count(fmt.Sprintf("conc.h3writer.park%d", k))
		go func() { errA <- w.WriteHeaders(gate, reqs[0], gzs[0]) }()
		select {
		case <-gate.entered:
		case <-time.After(20 * time.Second):
			r.Count("conc.h3writer.a-never-parked")
			close(gate.release)
			<-errA
			continue
		}
		go func() { errB <- w.WriteHeaders(&outB, reqs[1], gzs[1]) }()
		if third {
			go func() { errC <- w.WriteHeaders(&outC, reqs[2], gzs[2]) }()
		} else {
			errC <- nil
		}
		var eB error
		bDone := false
		select {
		case eB = <-errB:
			bDone = true
			r.Count("conc.h3writer.b-finished-while-a-parked")
		case <-time.After(30 * time.Millisecond): // B is waiting for the writer: nothing depends on this duration
		}
		close(gate.release)
		eA := <-errA
		if !bDone {
			eB = <-errB
		}
		eC := <-errC
		if eA != nil || eB != nil || eC != nil {
			r.Fail(hk.Failure{Sig: "conc:h3writer:error", What: fmt.Sprint("writing the request header failed: ", eA, eB, eC), Input: cell})
			continue
		}
		wires := [][]byte{gate.bytes(), outB.b, outC.b}
		for j := 0; j < 3; j++ {
			if j == 2 && !third {
				break
			}
			who := string(rune('A' + j))
			fields, err := decodeHeadersFrame(wires[j])
			if err != nil {
				r.Fail(hk.Failure{Sig: fmt.Sprintf("conc:h3writer:park%d:frame-corrupted", k), What: "request " + who + ": " + err.Error(), Input: cell})
				continue
			}
			obs := origin.Obs{Proto: 3, Fields: fields}
			withCtx("conc", fmt.Sprintf("request %s of requests overlapping on one HTTP/3 request writer, A parked in its Write %d", who, k), cell,
				func() { oracle(r, scs[j], obs) })
			r.Add(hk.Case{Coq: fmt.Sprintf("WireCase 3 %s %s", coqCreq(capts[j], scs[j]), coqLines(fields)),
				Desc: map[string]interface{}{"kind": "h3-writer-interleaved-" + who, "cell": cell, "wire": fields}}, fmt.Sprintf("conc|%d|%d|%+v", i, j, scs[j]), true)
		}
	}
}

// failWriter: a stream whose k-th Write fails (its send side was reset: the request was given up
// between opening the stream and writing the header), after taking the first `take` bytes of it
type failWriter struct {
	b       []byte
	k, n    int
	take    int
	written int
}

func (f *failWriter) Write(p []byte) (int, error) {
	f.n++
	if f.n == f.k {
		t := f.take
		if t > len(p) {
			t = len(p)
		}
		f.b = append(f.b, p[:t]...)
		return t, errInjected
	}
	f.b = append(f.b, p...)
	return len(p), nil
}

// sequences on ONE HTTP/3 request writer in which the stream of some requests fails while the
// HEADERS frame is written: the requests after it must carry exactly their own fields
func runWriterFaults(r *hk.Run, rng *hk.Rand) {
	n := r.Scale(30, 900)
	for i := 0; i < n; i++ {
		base := genScenario(rng, 3, i)
		base.Method, base.BodyLen = hk.Pick(rng, []string{"GET", "GET", "POST", "DELETE"}), 0
		m := rng.Range(3, 6)
		type step struct {
			Sc     scenario `json:"sc"`
			FailAt int      `json:"stream_write_fails_at,omitempty"` // 0: the stream takes everything
			Take   int      `json:"bytes_taken_before,omitempty"`
		}
		var steps []step
		cur := base
		for j := 0; j < m; j++ {
			st := step{Sc: cur}
			if j < m-1 && rng.Chance(45) {
				st.FailAt = rng.Range(1, 2)
				st.Take = hk.Pick(rng, []int{0, 0, 1, 3, 50})
			}
			steps = append(steps, st)
			cur.Req = perturb(rng, cur.Req)
			if rng.Chance(25) {
				cur.ReqOrder, _ = genOrder(rng, lowerNames(cur.Req))
			}
		}
		w := fh3.VerifNewRequestWriter()
		cell := map[string]interface{}{"kind": "h3-writer-faults", "steps": steps}
		r.Count("conc.h3writer.fault-sequence")
		prev := "first request on the writer"
		for j, st := range steps {
			rq, capt, gz := transportRequest(st.Sc, fmt.Sprintf("f%d-%d", i, j))
			if st.FailAt > 0 {
				fw := &failWriter{k: st.FailAt, take: st.Take}
				err := w.WriteHeaders(fw, rq, gz)
				if err == nil {
					r.Count("conc.h3writer.fault-not-reached") // a single Write, and the fault was armed for the second
					if fields, derr := decodeHeadersFrame(fw.b); derr == nil {
						withCtx("conc", fmt.Sprintf("request %d of a sequence on one HTTP/3 request writer, %s", j, prev), cell,
							func() { oracle(r, st.Sc, origin.Obs{Proto: 3, Fields: fields}) })
					}
					prev = "after a request that was written"
				} else {
					r.Count("conc.h3writer.fault")
					prev = fmt.Sprintf("after a request whose stream failed in Write %d", st.FailAt)
				}
				continue
			}
			var out collector
			if err := w.WriteHeaders(&out, rq, gz); err != nil {
				r.Fail(hk.Failure{Sig: "conc:h3writer:sequence:error", What: fmt.Sprintf("request %d (%s): writing the header failed: %v", j, prev, err), Input: cell})
				prev = "after a request that failed"
				continue
			}
			fields, err := decodeHeadersFrame(out.b)
			if err != nil {
				r.Fail(hk.Failure{Sig: "conc:h3writer:sequence:frame-corrupted", What: fmt.Sprintf("request %d (%s): %v", j, prev, err), Input: cell})
				prev = "after a request that was written"
				continue
			}
			withCtx("conc", fmt.Sprintf("request %d of a sequence on one HTTP/3 request writer, %s", j, prev), cell,
				func() { oracle(r, st.Sc, origin.Obs{Proto: 3, Fields: fields}) })
			r.Add(hk.Case{Coq: fmt.Sprintf("WireCase 3 %s %s", coqCreq(capt, st.Sc), coqLines(fields)),
				Desc: map[string]interface{}{"kind": "h3-writer-faults", "cell": cell, "request": j, "wire": fields}}, fmt.Sprintf("h3wf|%d|%d|%+v", i, j, st.Sc), true)
			prev = "after a request that was written"
		}
	}
}

// bursts: several requests in flight at once through one client (one connection)
func runBursts(r *hk.Run, rng *hk.Rand) {
	for _, pr := range []struct {
		p     int
		start func() (*origin.Origin, error)
		n     int
	}{
		{2, origin.StartH2C, r.Scale(10, 300)},
		{3, origin.StartH3, r.Scale(8, 200)},
	} {
		o, err := pr.start()
		if err != nil {
			r.Fail(hk.Failure{Sig: "conc:origin-start", What: err.Error(), Input: pr.p})
			continue
		}
		pn := protoName(pr.p)
		prng := rng.Fork()
		for i := 0; i < pr.n; i++ {
			base := genScenario(prng, pr.p, i)
			base.BodyLen = 0
			if base.Method != "GET" {
				base.Method = "DELETE"
			}
			m := prng.Range(3, 8)
			scs := make([]scenario, m)
			for j := range scs {
				scs[j] = base
				scs[j].Req = perturb(prng, base.Req)
			}
			capt := &captured{}
			c := newClient(base, o, capt)
			// a first request opens the connection, the burst then shares it
			if _, err := sendOn(c, base, o, fmt.Sprintf("/c16?b=%d&warm=1", i)); err != nil {
				r.Fail(hk.Failure{Sig: "conc:" + pn + ":request-failed", What: "warm-up request failed: " + err.Error(), Input: base})
				c.GetTransport().CloseIdleConnections()
				continue
			}
			capt.off = true
			r.Count("conc." + pn + ".burst")
			var wg sync.WaitGroup
			errs := make([]error, m)
			for j := range scs {
				wg.Add(1)
				go func(j int) {
					defer wg.Done()
					rq := c.R()
					for _, op := range scs[j].Req {
						if op.Kind == "set" {
							rq.SetHeader(op.K, op.V)
						} else {
							rq.SetHeaderNonCanonical(op.K, op.V)
						}
					}
					if len(scs[j].ReqOrder) > 0 {
						rq.SetHeaderOrder(scs[j].ReqOrder...)
					}
					if len(scs[j].ReqPOrder) > 0 {
						rq.SetPseudoHeaderOrder(scs[j].ReqPOrder...)
					}
					for _, ck := range scs[j].ReqCookies {
						rq.SetCookies(&http.Cookie{Name: ck.N, Value: ck.V})
					}
					_, errs[j] = rq.Send(scs[j].Method, o.URL+fmt.Sprintf("/c16?b=%d&j=%d", i, j))
				}(j)
			}
			wg.Wait()
			cell := map[string]interface{}{"kind": "burst-" + pn, "requests": scs}
			got := map[string]origin.Obs{}
			deadline := time.Now().Add(10 * time.Second)
			for len(got) < m {
				obs, ok := o.Next(time.Until(deadline))
				if !ok {
					break
				}
				if strings.Contains(obs.Target, fmt.Sprintf("b=%d&j=", i)) {
					got[obs.Target] = obs
				}
			}
			for j := range scs {
				r.Count("conc." + pn + ".burst.request")
				if errs[j] != nil {
					r.Fail(hk.Failure{Sig: "conc:" + pn + ":request-failed", What: "a request of a burst failed: " + errs[j].Error(), Input: cell})
					continue
				}
				obs, ok := got[fmt.Sprintf("/c16?b=%d&j=%d", i, j)]
				if !ok {
					r.Fail(hk.Failure{Sig: "conc:" + pn + ":request-not-seen", What: fmt.Sprintf("the origin never saw request %d of the burst", j), Input: cell})
					continue
				}
				withCtx("conc", fmt.Sprintf("request %d of a burst of %d concurrent requests on one connection", j, m), cell, func() { oracle(r, scs[j], obs) })
				r.Add(hk.Case{Desc: map[string]interface{}{"kind": "burst-" + pn, "request": scs[j]}}, fmt.Sprintf("burst|%d|%d|%+v", i, j, scs[j]), true)
			}
			c.GetTransport().CloseIdleConnections()
		}
		o.Close()
	}
}
