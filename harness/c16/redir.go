package main

// C16 (g): every header exactly once per value on EVERY hop of a redirect chain.
// An HTTP/1.1 origin of the harness answers 302 along a plan of same-origin (relative Location) and
// cross-origin (the other host name of the same listener: 127.0.0.1 <-> localhost) hops. The
// client carries AlwaysCopyHeaderRedirectPolicy with names in several spellings (lower, UPPER,
// Canonical, mIxEd, names that are not set at all). net/http copies the initial headers to every hop
// and strips Authorization & co. once the chain has left the initial domain; the policy restores
// the named ones. Judged on every hop: the single-request oracle on what the caller set (minus the
// stripped sensitive headers the policy does not name).

import (
	"bufio"
	"fmt"
	"net"
	"net/http"
	"net/url"
	"strconv"
	"strings"
	"time"

	req "github.com/imroc/req/v3"
	"github.com/imroc/req/v3/verifharness/hk"
	"github.com/imroc/req/v3/verifharness/origin"
)

func startRedirOrigin() (*origin.Origin, func(), error) {
	ln, err := net.Listen("tcp", "127.0.0.1:0")
	if err != nil {
		return nil, nil, err
	}
	_, port, _ := net.SplitHostPort(ln.Addr().String())
	o := &origin.Origin{Proto: 1, Addr: ln.Addr().String(), URL: "http://127.0.0.1:" + port, C: make(chan origin.Obs, 64)}
	go func() {
		for {
			c, err := ln.Accept()
			if err != nil {
				return
			}
			go serveRedir(c, o, port)
		}
	}()
	return o, func() { ln.Close() }, nil
}

// target: /c16r?id=N&hop=K&plan=sxs  - hop K is answered with a redirect while K < len(plan)
func serveRedir(c net.Conn, o *origin.Origin, port string) {
	defer c.Close()
	br := bufio.NewReader(c)
	for {
		line, err := br.ReadString('\n')
		if err != nil {
			return
		}
		parts := strings.SplitN(strings.TrimRight(line, "\r\n"), " ", 3)
		if len(parts) != 3 {
			return
		}
		obs := origin.Obs{Proto: 1, Method: parts[0], Target: parts[1]}
		host := ""
		for {
			l, err := br.ReadString('\n')
			if err != nil {
				return
			}
			l = strings.TrimRight(l, "\r\n")
			if l == "" {
				break
			}
			i := strings.IndexByte(l, ':')
			if i < 0 {
				obs.Err = "header line without colon: " + strconv.Quote(l)
				continue
			}
			v := strings.TrimPrefix(l[i+1:], " ")
			obs.Fields = append(obs.Fields, origin.Field{Name: l[:i], Value: v})
			if l[:i] == "Host" {
				host = v
			}
		}
		o.C <- obs
		resp := "HTTP/1.1 200 OK\r\nContent-Length: 0\r\n\r\n"
		if u, err := url.Parse(parts[1]); err == nil {
			q := u.Query()
			hop, _ := strconv.Atoi(q.Get("hop"))
			plan := q.Get("plan")
			if hop < len(plan) {
				next := fmt.Sprintf("/c16r?id=%s&hop=%d&plan=%s", q.Get("id"), hop+1, plan)
				if plan[hop] == 'x' { // leave the current host name
					other := "localhost"
					if strings.HasPrefix(host, "localhost") {
						other = "127.0.0.1"
					}
					next = "http://" + other + ":" + port + next
				}
				resp = "HTTP/1.1 302 Found\r\nLocation: " + next + "\r\nContent-Length: 0\r\n\r\n"
			}
		}
		if _, err := c.Write([]byte(resp)); err != nil {
			return
		}
	}
}

type redirCell struct {
	Sc     scenario `json:"sc"`
	Policy []string `json:"always_copy"`
	Plan   string   `json:"plan"` // s = same-origin hop, x = cross-origin hop
}

var policyPool = []string{"authorization", "x-api-key", "x-trace-id", "proxy-authorization", "x-session"}
var sensitiveOnRedirect = map[string]bool{"Authorization": true, "Www-Authenticate": true, "Cookie": true, "Cookie2": true}

func genRedir(r *hk.Rand, i int) redirCell {
	sc := genScenario(r, 1, i)
	sc.Method, sc.BodyLen, sc.ReqCookies, sc.CliCookies = "GET", 0, nil, nil
	// no hand-written Cookie or Referer: net/http treats both specially on redirects
	plain := func(ops []hdrOp) []hdrOp {
		var kept []hdrOp
		for _, op := range ops {
			if strings.EqualFold(op.K, "cookie") || strings.EqualFold(op.K, "referer") {
				continue
			}
			if op.Kind == "nc" && sensitiveOnRedirect[http.CanonicalHeaderKey(op.K)] && op.K != http.CanonicalHeaderKey(op.K) {
				// a sensitive name under a NON-canonical map key is stripped by net/http on leaving the
				// domain and not found by the policy (it looks under the canonical key): recorded in
				// design.d/C16.md as an observation about redirect.go, not generated here
				continue
			}
			kept = append(kept, op)
		}
		return kept
	}
	sc.Req, sc.Cli = plain(sc.Req), plain(sc.Cli)
	cell := redirCell{Sc: sc}
	for _, nm := range policyPool {
		if r.Chance(65) {
			op := hdrOp{Kind: "set", K: recase(r, nm), V: fmt.Sprintf("tok-%d", r.Intn(100000))}
			if r.Chance(25) {
				cell.Sc.Cli = append(cell.Sc.Cli, op)
			} else {
				cell.Sc.Req = append(cell.Sc.Req, op)
			}
		}
		if r.Chance(60) {
			cell.Policy = append(cell.Policy, recase(r, nm))
			if r.Chance(15) {
				cell.Policy = append(cell.Policy, recase(r, nm)) // named twice, in another spelling
			}
		}
	}
	if r.Chance(20) {
		cell.Policy = append(cell.Policy, "x-never-set")
	}
	for k, n := 0, r.Range(1, 3); k < n; k++ {
		cell.Plan += hk.Pick(r, []string{"s", "s", "x"})
	}
	return cell
}

func runRedirects(r *hk.Run, rng *hk.Rand) {
	o, stop, err := startRedirOrigin()
	if err != nil {
		r.Fail(hk.Failure{Sig: "redir:origin-start", What: err.Error()})
		return
	}
	defer stop()
	for i, n := 0, r.Scale(40, 1500); i < n; i++ {
		cell := genRedir(rng, i)
		r.Count("redir.chain")
		capt := &captured{}
		c := newClient(cell.Sc, o, capt)
		if len(cell.Policy) > 0 {
			c.SetRedirectPolicy(req.AlwaysCopyHeaderRedirectPolicy(cell.Policy...))
		}
		rq := c.R()
		for _, op := range cell.Sc.Req {
			if op.Kind == "set" {
				rq.SetHeader(op.K, op.V)
			} else {
				rq.SetHeaderNonCanonical(op.K, op.V)
			}
		}
		if len(cell.Sc.ReqOrder) > 0 {
			rq.SetHeaderOrder(cell.Sc.ReqOrder...)
		}
		o.Drain()
		_, err := rq.Send("GET", fmt.Sprintf("%s/c16r?id=%d&hop=0&plan=%s", o.URL, i, cell.Plan))
		c.GetTransport().CloseIdleConnections()
		if err != nil {
			r.Fail(hk.Failure{Sig: "redir:request-failed", What: "a request following redirects failed: " + err.Error(), Input: cell})
			continue
		}
		hops := map[int]origin.Obs{}
		deadline := time.Now().Add(10 * time.Second)
		for len(hops) <= len(cell.Plan) {
			obs, ok := o.Next(time.Until(deadline))
			if !ok {
				break
			}
			if u, err := url.Parse(obs.Target); err == nil && u.Query().Get("id") == fmt.Sprint(i) {
				k, _ := strconv.Atoi(u.Query().Get("hop"))
				hops[k] = obs
			}
		}
		named := map[string]bool{}
		for _, p := range cell.Policy {
			named[http.CanonicalHeaderKey(p)] = true
		}
		for k := 0; k <= len(cell.Plan); k++ {
			obs, ok := hops[k]
			if !ok {
				r.Fail(hk.Failure{Sig: "redir:hop-not-seen", What: fmt.Sprintf("hop %d of the chain never reached the origin", k), Input: cell})
				break
			}
			stripped := strings.Contains(cell.Plan[:k], "x")
			sc := cell.Sc
			sc.Redirected = k > 0
			keep := func(ops []hdrOp) []hdrOp {
				var out []hdrOp
				for _, op := range ops {
					ck := http.CanonicalHeaderKey(op.K)
					if stripped && sensitiveOnRedirect[ck] && !named[ck] {
						continue // left behind by net/http when the chain leaves the initial domain, and not asked for
					}
					out = append(out, op)
				}
				return out
			}
			sc.Req, sc.Cli = keep(sc.Req), keep(sc.Cli)
			kind := "same-origin"
			if stripped {
				kind = "cross-origin"
			}
			r.Count("redir.hop." + kind)
			withCtx("redir", fmt.Sprintf("hop %d of a redirect chain %q (%s so far), AlwaysCopyHeaderRedirectPolicy%q", k, cell.Plan, kind, cell.Policy), cell,
				func() { oracle(r, sc, obs) })
			if k < len(capt.all) {
				c2 := captured{hdr: capt.all[k], method: "GET", host: "", path: obs.Target, scheme: "http"}
				for _, f := range obs.Fields {
					if f.Name == "Host" {
						c2.host = f.Value
					}
				}
				r.Add(hk.Case{Coq: fmt.Sprintf("WireCase 1 %s %s", coqCreq(&c2, sc), coqLines(obs.Fields)),
					Desc: map[string]interface{}{"kind": "redirect-hop-wire", "cell": cell, "hop": k}}, fmt.Sprintf("redirwire|%d|%+v", k, cell), true)
				if k > 0 {
					skip := func(key string) bool { return key == "Referer" && !callerSet(cell.Sc, "Referer") }
					r.Add(hk.Case{Coq: fmt.Sprintf("RedirCase %s %s %s %s", coqKVMap(capt.all[0], nil), csList(cell.Policy), hk.CoqBool(stripped), coqKVMap(capt.all[k], skip)),
						Desc: map[string]interface{}{"kind": "redirect-hop-model", "cell": cell, "hop": k}}, fmt.Sprintf("redir|%d|%+v", k, cell), true)
				}
			}
		}
	}
}
