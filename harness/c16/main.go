package main

// C16 - header sets are preserved and a requested header order is respected.
//
//	(a) direct: header.SortKeyValues / textproto.CanonicalMIMEHeaderKey on generated inputs;
//	(b) end-to-end: requests through the real client observed on the wire by frame-level
//	    peers (h1 raw bytes, h2 HPACK field list, h3 QPACK field list) - see e2e.go.
//
// Oracles are written from the property text and use only the stdlib / reference decoders.

import (
	"fmt"
	"net/http"
	"sort"
	"strings"

	"github.com/imroc/req/v3/internal/header"
	"github.com/imroc/req/v3/verifharness/hk"
)

func main() { hk.Main("C16", runC16, syncers) }

type kvJ struct {
	K string   `json:"k"`
	V []string `json:"v"`
}

// cs emits a byte string compactly: Coq's parser costs ~60us per literal character, so
// printable ASCII goes out as (bs "...") instead of hex.
func cs(s string) string {
	if len(s) > 48 { // a long run of one byte (padding values): Coq's string parser is recursive
		same := true
		for i := 1; i < len(s); i++ {
			if s[i] != s[0] {
				same = false
				break
			}
		}
		if same && s[0] > ' ' && s[0] <= '~' && s[0] != '"' {
			return fmt.Sprintf(`(rep "%c"%%byte %d%%N)`, s[0], len(s))
		}
	}
	for i := 0; i < len(s); i++ {
		if s[i] < 0x20 || s[i] > 0x7e || s[i] == '"' {
			return hk.CoqStr(s)
		}
	}
	return `(bs "` + s + `")`
}
func csList(xs []string) string {
	o := make([]string, len(xs))
	for i, x := range xs {
		o[i] = cs(x)
	}
	return hk.CoqList(o)
}
func coqKV(k string, vs []string) string { return hk.CoqPair(cs(k), csList(vs)) }

// permOf: indices into in such that out[j] == in[perm[j]] (nil if out is not a permutation of in)
func permOf(in, out []kvJ) []int {
	used := make([]bool, len(in))
	var perm []int
	for _, o := range out {
		found := -1
		for i, x := range in {
			if !used[i] && x.K == o.K && fmt.Sprintf("%q", x.V) == fmt.Sprintf("%q", o.V) {
				found = i
				break
			}
		}
		if found < 0 {
			return nil
		}
		used[found] = true
		perm = append(perm, found)
	}
	return perm
}
func coqNats(xs []int) string {
	o := make([]string, len(xs))
	for i, x := range xs {
		o[i] = fmt.Sprint(x)
	}
	return "[" + strings.Join(o, ";") + "]%nat"
}
func coqKVs(kvs []kvJ) string {
	o := make([]string, len(kvs))
	for i, kv := range kvs {
		o[i] = coqKV(kv.K, kv.V)
	}
	return hk.CoqList(o)
}

// ---------- generators ----------

var nameStems = []string{"accept", "accept-language", "cache-control", "pragma", "referer", "x-a", "x-b", "x-c",
	"x-request-id", "x-trace", "sec-fetch-site", "sec-fetch-mode", "sec-ch-ua", "dnt", "te", "origin", "if-none-match",
	"x_under", "x.dot", "authorization", "x-forwarded-for", "via", "x-1", "x-2", "x-3", "range", "priority"}

func recase(r *hk.Rand, s string) string {
	switch r.Intn(5) {
	case 0:
		return strings.ToLower(s)
	case 1:
		return strings.ToUpper(s)
	case 2:
		return http.CanonicalHeaderKey(s)
	default:
		b := []byte(s)
		for i := range b {
			if r.Bool() {
				b[i] = strings.ToUpper(string(b[i]))[0]
			} else {
				b[i] = strings.ToLower(string(b[i]))[0]
			}
		}
		return string(b)
	}
}

// distinct lower-case names: n of them
func genNames(r *hk.Rand, n int) []string {
	seen := map[string]bool{}
	var out []string
	for len(out) < n {
		var s string
		if r.Chance(50) && len(seen) < len(nameStems) {
			s = hk.Pick(r, nameStems)
		} else {
			s = fmt.Sprintf("h%d", r.Intn(200))
			if r.Chance(30) {
				s = "x-" + s
			}
		}
		if !seen[s] {
			seen[s] = true
			out = append(out, s)
		}
	}
	return out
}

func shuffle[T any](r *hk.Rand, xs []T) {
	for i := len(xs) - 1; i > 0; i-- {
		j := r.Intn(i + 1)
		xs[i], xs[j] = xs[j], xs[i]
	}
}

// order list shapes over the lower-case names present in the header set
func genOrder(r *hk.Rand, names []string) (order []string, shape string) {
	pool := append([]string(nil), names...)
	shuffle(r, pool)
	switch r.Intn(7) {
	case 0:
		shape = "subset"
		order = pool[:r.Intn(len(pool)+1)]
		if len(order) == 0 && len(pool) > 0 {
			order = pool[:1]
		}
	case 1:
		shape = "full-permutation"
		order = pool
	case 2:
		shape = "superset"
		order = pool
		for i := 0; i < r.Range(1, 6); i++ {
			order = append(order, fmt.Sprintf("absent-%d", r.Intn(50)))
		}
		shuffle(r, order)
	case 3:
		shape = "duplicated"
		order = pool[:r.Range(1, len(pool))]
		for i := 0; i < r.Range(1, 4); i++ {
			order = append(order, hk.Pick(r, order))
		}
		shuffle(r, order)
	case 4:
		shape = "small-subset"
		order = pool[:min(len(pool), r.Range(1, 5))]
	case 5:
		shape = "disjoint"
		for i := 0; i < r.Range(1, 5); i++ {
			order = append(order, fmt.Sprintf("absent-%d", r.Intn(50)))
		}
	default:
		shape = "subset+absent"
		order = append([]string(nil), pool[:r.Range(1, len(pool))]...)
		order = append(order, "absent-1", "absent-2")
		shuffle(r, order)
	}
	order = append([]string(nil), order...)
	if r.Chance(60) { // different case
		for i := range order {
			order[i] = recase(r, order[i])
		}
	}
	if len(order) == 0 {
		order = []string{"absent-0"}
	}
	return
}

var sizeBoundaries = []int{1, 2, 3, 5, 8, 11, 12, 12, 12, 13, 13, 13, 14, 15, 16, 18, 20, 24, 30, 40, 50, 60}

func genSize(r *hk.Rand) int {
	if r.Chance(70) {
		return r.Range(9, 22) // concentrated around the 12/13 algorithm switch
	}
	return hk.Pick(r, sizeBoundaries)
}

// ---------- oracle for the order part (interpretation-independent for duplicated lists) ----------

// occurrences of every (case-insensitively matched) name in the order list
func orderIndex(order []string) map[string][2]int {
	m := map[string][2]int{}
	for i, o := range order {
		k := strings.ToLower(o)
		if mm, ok := m[k]; ok {
			m[k] = [2]int{mm[0], i}
		} else {
			m[k] = [2]int{i, i}
		}
	}
	return m
}

// checkListedOrder: names is the emitted sequence of field names. Returns a description of the
// first pair of listed fields that is emitted against the list's relative order ("" if none).
// A pair counts only when EVERY occurrence of the later-emitted name precedes EVERY occurrence
// of the earlier-emitted name in the order list, so duplicated lists are judged the same
// under first-occurrence and last-occurrence readings.
func checkListedOrder(names []string, order []string) string {
	idx := orderIndex(order)
	maxMin := -1 // over emitted listed fields so far: the largest min-index
	maxName := ""
	for _, n := range names {
		mm, ok := idx[strings.ToLower(n)]
		if !ok {
			continue
		}
		if mm[1] < maxMin {
			return fmt.Sprintf("%q emitted before %q", maxName, n)
		}
		if mm[0] > maxMin {
			maxMin, maxName = mm[0], n
		}
	}
	return ""
}

func multisetKey(kvs []kvJ) string {
	var s []string
	for _, kv := range kvs {
		s = append(s, fmt.Sprintf("%q=%q", kv.K, kv.V))
	}
	sort.Strings(s)
	return strings.Join(s, "\n")
}

// ---------- (a) direct ----------

func runDirectSort(r *hk.Run, rng *hk.Rand) {
	n := r.Scale(50000, 400000)
	emitEvery := n / r.Scale(500, 12000)
	for i := 0; i < n; i++ {
		sz := genSize(rng)
		names := genNames(rng, sz)
		var kvs []kvJ
		for _, nm := range names {
			k := recase(rng, nm)
			nv := 1
			if rng.Chance(25) {
				nv = rng.Range(0, 3)
			}
			var vs []string
			for j := 0; j < nv; j++ {
				vs = append(vs, fmt.Sprintf("v%d", rng.Intn(1000)))
			}
			kvs = append(kvs, kvJ{k, vs})
			if rng.Chance(10) { // same name again (h3 collects one entry per value; names differing only in case)
				kvs = append(kvs, kvJ{recase(rng, nm), []string{fmt.Sprintf("w%d", rng.Intn(1000))}})
			}
		}
		shuffle(rng, kvs)
		order, shape := genOrder(rng, names)
		if rng.Chance(8) { // the pseudo-header block: 4 fixed names, any permutation / subset / case in the list
			kvs = []kvJ{{":authority", []string{"h"}}, {":method", []string{"GET"}}, {":path", []string{"/"}}, {":scheme", []string{"https"}}}
			order = append([]string(nil), pseudoPerms[i%len(pseudoPerms)]...)[:rng.Range(1, 4)]
			shape = "pseudo"
			if rng.Chance(40) {
				for j := range order {
					order[j] = recase(rng, order[j])
				}
			}
		}
		in := make([]header.KeyValues, len(kvs))
		for j, kv := range kvs {
			in[j] = header.KeyValues{Key: kv.K, Values: kv.V}
		}
		func() {
			defer func() {
				if e := recover(); e != nil {
					r.Fail(hk.Failure{Sig: "sort:panic", What: fmt.Sprint(e), Input: map[string]interface{}{"kvs": kvs, "order": order}})
				}
			}()
			header.SortKeyValues(in, order)
		}()
		out := make([]kvJ, len(in))
		outNames := make([]string, len(in))
		for j, kv := range in {
			out[j] = kvJ{kv.Key, kv.Values}
			outNames[j] = kv.Key
		}
		bucket := "n<=12"
		if len(kvs) > 12 {
			bucket = "n>12"
		}
		r.Count("sort." + bucket)
		r.Count("sort.order=" + shape)
		desc := map[string]interface{}{"kind": "sort", "kvs": kvs, "order": order, "out": outNames}
		if multisetKey(out) != multisetKey(kvs) {
			r.Fail(hk.Failure{Sig: "sort:not-a-permutation:" + bucket, What: "SortKeyValues added, dropped or duplicated a field", Input: desc})
		}
		if bad := checkListedOrder(outNames, order); bad != "" {
			r.Fail(hk.Failure{Sig: "sort:listed-order-broken:" + bucket, What: "listed fields come out against the order list: " + bad,
				Input: desc, Got: outNames, Want: order})
		}
		c := hk.Case{Desc: desc}
		if i%emitEvery == 0 {
			if perm := permOf(kvs, out); perm != nil {
				c.Coq = fmt.Sprintf("SortCase %s %s %s", coqKVs(kvs), csList(order), coqNats(perm))
			}
		}
		r.Add(c, fmt.Sprintf("sort|%q|%q", kvs, order), len(kvs) >= 2 && shape != "disjoint")
	}
}

func runCanon(r *hk.Run, rng *hk.Rand) {
	extra := []string{"", "-", "--a", "a--b", "a b", "A B", "x-\x80y", "héllo", "x:y", "x-y ", " x", "__header_order__",
		"__PSEUDO_header_ORDER__", ":authority", ":PATH", "x_y-z", "x.y-z", "1a-2b", "~a-`b", "a\tb", "a\x00b", "a-b-", "-a"}
	n := r.Scale(600, 6000)
	for i := 0; i < n; i++ {
		var s string
		if i < len(extra) {
			s = extra[i]
		} else {
			s = recase(rng, hk.Pick(rng, genNames(rng, 3)))
			if rng.Chance(20) { // inject an arbitrary byte
				b := []byte(s)
				b[rng.Intn(len(b))] = byte(rng.U64())
				s = string(b)
			}
		}
		got := http.CanonicalHeaderKey(s) // = textproto.CanonicalMIMEHeaderKey, what sort.go calls
		r.Count("canon")
		r.Add(hk.Case{Coq: fmt.Sprintf("CanonCase %s %s", cs(s), cs(got)),
			Desc: map[string]interface{}{"kind": "canon", "in": s, "out": got}}, "canon|"+s, s != got)
	}
}

func runC16(r *hk.Run) {
	r.Header = "From ReqV Require Import Model.C16Run."
	r.CaseType = "c16_case"
	r.CheckFn = "c16_check"
	r.Rule = "direct: (kvs, order) pairs, 0-60 entries concentrated around the 12/13 algorithm switch, names in mixed case and repeated, order lists subset/superset/permuted/duplicated/disjoint/other case; non-trivial: >= 2 entries and an order list naming at least one present field. canon: token and non-token keys; non-trivial: canonicalisation changes the key. e2e: see e2e.go. Distinct by full input."
	rng := hk.NewRand(r.Seed)
	runDirectSort(r, rng.Fork())
	runCanon(r, rng.Fork())
	runE2E(r, rng.Fork())
	runSequences(r, rng.Fork())
	runResends(r, rng.Fork())
	runWriterInterleavings(r, rng.Fork())
	runWriterFaults(r, rng.Fork())
	runBursts(r, rng.Fork())
	runFragments(r, rng.Fork())
	runRedirects(r, rng.Fork())
}
