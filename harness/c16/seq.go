package main

// C16 (c): state carried from one exchange to the next.
//
//   - sequences of requests through ONE client / ONE connection per protocol: the HTTP/2 HPACK
//     encoder table, the pooled HTTP/1.1 header sorter, connection reuse. A step may be
//     "oversized" (HTTP/2: header list beyond the SETTINGS_MAX_HEADER_LIST_SIZE the peer
//     advertises, refused locally) or "fault" (the connection's Write fails at a chosen byte
//     offset of that request); the steps AFTER it are the interesting ones: they must still carry
//     exactly their own header set.
//   - families of clients made with Clone(): client-level header order / pseudo-header order /
//     transport middleware registered on one member must never show up on another.
//
// The oracle is the single-request oracle of e2e.go applied to every step / member.

import (
	"bytes"
	"context"
	"errors"
	"fmt"
	"net"
	"net/http"
	"net/http/httptrace"
	"runtime"
	"strings"
	"sync"

	req "github.com/imroc/req/v3"
	"github.com/imroc/req/v3/verifharness/hk"
	"github.com/imroc/req/v3/verifharness/origin"
	"golang.org/x/net/http2"
)

// ---------- a dialer whose connections can be told to fail a Write at a byte offset ----------

type hookConn struct {
	net.Conn
	mu      sync.Mutex
	inject  []byte // delivered to the client before anything the peer sends
	written int
	failAt  int           // absolute offset in the written stream at which Write fails; <0: never
	tap     *bytes.Buffer // when set: everything the client writes
}

var errInjected = errors.New("c16: injected connection write fault")

func (c *hookConn) Read(p []byte) (int, error) {
	c.mu.Lock()
	if len(c.inject) > 0 {
		n := copy(p, c.inject)
		c.inject = c.inject[n:]
		c.mu.Unlock()
		return n, nil
	}
	c.mu.Unlock()
	return c.Conn.Read(p)
}

func (c *hookConn) Write(p []byte) (int, error) {
	c.mu.Lock()
	fa, w := c.failAt, c.written
	c.mu.Unlock()
	if fa >= 0 && w+len(p) > fa {
		n := fa - w
		if n < 0 {
			n = 0
		}
		if n > 0 {
			c.Conn.Write(p[:n])
		}
		c.mu.Lock()
		c.written += n
		c.mu.Unlock()
		c.Conn.Close()
		return n, errInjected
	}
	n, err := c.Conn.Write(p)
	c.mu.Lock()
	c.written += n
	if c.tap != nil {
		c.tap.Write(p[:n])
	}
	c.mu.Unlock()
	return n, err
}

type hookDialer struct {
	mu      sync.Mutex
	inject  []byte
	conns   []*hookConn
	armNext int // fault offset (relative) for connections dialled while armed; <0: none
	tapAll  bool
}

func (d *hookDialer) dial(ctx context.Context, network, addr string) (net.Conn, error) {
	var nd net.Dialer
	c, err := nd.DialContext(ctx, network, addr)
	if err != nil {
		return nil, err
	}
	d.mu.Lock()
	defer d.mu.Unlock()
	hc := &hookConn{Conn: c, inject: append([]byte(nil), d.inject...), failAt: -1}
	if d.armNext >= 0 {
		hc.failAt = d.armNext
	}
	if d.tapAll {
		hc.tap = &bytes.Buffer{}
	}
	d.conns = append(d.conns, hc)
	return hc, nil
}

// arm: the next request's bytes fail at relative offset off, whichever connection carries them
func (d *hookDialer) arm(off int) {
	d.mu.Lock()
	defer d.mu.Unlock()
	d.armNext = off
	for _, c := range d.conns {
		c.mu.Lock()
		if off < 0 {
			c.failAt = -1
		} else {
			c.failAt = c.written + off
		}
		c.mu.Unlock()
	}
}

func settingsFrame(ss ...http2.Setting) []byte {
	var b bytes.Buffer
	http2.NewFramer(&b, nil).WriteSettings(ss...)
	return b.Bytes()
}

// ---------- sequences ----------

type seqStep struct {
	Sc        scenario `json:"sc"`
	Kind      string   `json:"kind"` // plain | oversized | fault | cancel
	FailAfter int      `json:"fail_after,omitempty"`
	CancelAt  string   `json:"cancel_at,omitempty"` // got-conn | field:N | wrote-headers | wrote-request | first-byte
}

type seqScenario struct {
	Proto int       `json:"proto"`
	Limit uint32    `json:"h2_max_header_list_size,omitempty"`
	OneP  bool      `json:"one_p,omitempty"`
	Steps []seqStep `json:"steps"`
}

var faultOffsets = []int{0, 1, 17, 100, 1000, 4095, 4096, 4097, 6000, 8191, 8192, 8193, 12000, 20000}

// perturb: the request-level part of the next step - mostly the same fields (so that HPACK
// dynamic-table references and pooled slices are re-used), a few values changed, a few fields
// dropped or added
func perturb(r *hk.Rand, ops []hdrOp) []hdrOp {
	var out []hdrOp
	for _, op := range ops {
		switch {
		case r.Chance(12):
			continue
		case r.Chance(20) && op.Kind == "set" && !fixedValue[strings.ToLower(op.K)]:
			op.V = genValue(r)
		}
		out = append(out, op)
	}
	for i := 0; i < r.Intn(3); i++ {
		out = append(out, hdrOp{Kind: "set", K: fmt.Sprintf("x-step-%d", r.Intn(40)), V: genValue(r)})
	}
	return out
}

// fields whose value means something to the protocol writers (HTTP/2 refuses e.g. a Connection
// header other than keep-alive / close): their generated value is kept
var fixedValue = map[string]bool{"connection": true, "keep-alive": true, "proxy-connection": true, "upgrade": true,
	"transfer-encoding": true, "host": true, "content-length": true, "user-agent": true, "accept-encoding": true, "cookie": true, "te": true}

func genSeq(r *hk.Rand, proto, idx int) seqScenario {
	base := genScenario(r, proto, idx)
	sq := seqScenario{Proto: proto}
	if proto == 2 {
		sq.Limit = hk.Pick(r, []uint32{16384, 16384, 8192, 32768})
	}
	n := r.Range(3, 6)
	special := -1
	if r.Chance(78) {
		// never the last (the steps after it are the point), never the first (a new connection
		// learns the peer's SETTINGS while its first request is already on its way)
		special = r.Range(1, n-2)
	}
	cur := base
	for k := 0; k < n; k++ {
		st := seqStep{Sc: cur, Kind: "plain"}
		if k == special {
			switch {
			case proto == 3 || r.Chance(38):
				// the caller gives the request up at a chosen moment of its life: while the connection is
				// handed over, in the middle of its header fields (between encoding and writing them), right
				// after the header, after the whole request, at the first byte of the answer
				st.Kind = "cancel"
				st.CancelAt = hk.Pick(r, []string{"got-conn", "field", "field", "field", "field", "field", "wrote-headers", "wrote-request", "first-byte"})
				if st.CancelAt == "field" {
					st.CancelAt = fmt.Sprintf("field:%d", r.Range(1, 12))
				}
			case proto == 2 && r.Chance(65):
				// around the advertised limit: clearly over, or within a few bytes of it
				st.Kind = "oversized"
				l := int(sq.Limit) + r.Range(-1200, 1500)
				if r.Chance(40) {
					l = int(sq.Limit) + 3000
				}
				st.Sc.Req = append(append([]hdrOp(nil), st.Sc.Req...), hdrOp{Kind: "set", K: "x-big", V: strings.Repeat("B", l)})
			default:
				st.Kind = "fault"
				st.FailAfter = hk.Pick(r, faultOffsets)
				if r.Chance(30) {
					st.FailAfter = r.Intn(24000)
				}
				// a header block that spans several flushes of the 4 KB write buffer, or not
				if big := hk.Pick(r, []int{0, 0, 5000, 9000, 20000}); big > 0 {
					ops := append([]hdrOp(nil), st.Sc.Req...)
					per := big / 12
					for i := 0; i < 12; i++ {
						ops = append(ops, hdrOp{Kind: "set", K: fmt.Sprintf("x-pad-%02d", i), V: strings.Repeat("p", per)})
					}
					st.Sc.Req = ops
				}
				if proto == 1 && r.Chance(60) {
					st.Sc.ReqOrder, st.Sc.CliOrder, st.Sc.Preset = nil, nil, "" // the pooled (key-sorted) writer path
					sq.OneP = true
				}
			}
		}
		sq.Steps = append(sq.Steps, st)
		next := cur
		next.Req = perturb(r, cur.Req)
		next.Method = hk.Pick(r, []string{"GET", "GET", "POST", "PUT"})
		next.BodyLen = 0
		if next.Method != "GET" && r.Bool() {
			next.BodyLen = hk.Pick(r, []int{1, 10, 200})
		}
		if r.Chance(25) {
			names := lowerNames(next.Req)
			next.ReqOrder, _ = genOrder(r, append(names, "host", "user-agent"))
		} else if r.Chance(25) {
			next.ReqOrder = nil
		}
		cur = next
	}
	if sq.OneP { // the follow-up steps of a pooled-path fault use that path too
		for i := range sq.Steps {
			sq.Steps[i].Sc.ReqOrder, sq.Steps[i].Sc.CliOrder, sq.Steps[i].Sc.Preset = nil, nil, ""
		}
	}
	return sq
}

func lowerNames(ops []hdrOp) []string {
	var out []string
	for _, op := range ops {
		out = append(out, strings.ToLower(op.K))
	}
	out = dedup(out)
	if len(out) == 0 {
		out = []string{"accept"}
	}
	return out
}

type stepResult struct {
	outcome string // sent | refused | failed
	obs     origin.Obs
	capt    captured
	err     string
}

func runSeq(r *hk.Run, sq seqScenario, o *origin.Origin, seqNo int) []stepResult {
	if sq.OneP {
		// sync.Pool is per P: with one P the sorter a failed request hands back is the one the
		// next request draws
		old := runtime.GOMAXPROCS(1)
		defer runtime.GOMAXPROCS(old)
	}
	capt := &captured{}
	c := newClient(sq.Steps[0].Sc, o, capt)
	defer c.GetTransport().CloseIdleConnections()
	d := &hookDialer{armNext: -1}
	if sq.Proto == 2 && sq.Limit > 0 {
		d.inject = settingsFrame(http2.Setting{ID: http2.SettingMaxHeaderListSize, Val: sq.Limit})
	}
	if sq.Proto != 3 {
		c.SetDial(d.dial)
	}
	var out []stepResult
	for k, st := range sq.Steps {
		if st.Kind == "fault" {
			d.arm(st.FailAfter)
		}
		cancel := func() {}
		if st.Kind == "cancel" {
			var ctx context.Context
			ctx, cancel = context.WithCancel(context.Background())
			at, nth := st.CancelAt, 0
			if strings.HasPrefix(at, "field:") {
				fmt.Sscanf(at, "field:%d", &nth)
				at = "field"
			}
			seen := 0
			trace := &httptrace.ClientTrace{
				GotConn: func(httptrace.GotConnInfo) {
					if at == "got-conn" {
						cancel()
					}
				},
				WroteHeaderField: func(string, []string) {
					seen++
					if at == "field" && seen == nth {
						cancel()
					}
				},
				WroteHeaders: func() {
					if at == "wrote-headers" || at == "field" { // fewer fields than N: at the end of the header
						cancel()
					}
				},
				WroteRequest: func(httptrace.WroteRequestInfo) {
					if at == "wrote-request" {
						cancel()
					}
				},
				GotFirstResponseByte: func() {
					if at == "first-byte" {
						cancel()
					}
				},
			}
			tctx := httptrace.WithClientTrace(ctx, trace)
			reqHook = func(rq *req.Request) { rq.SetContext(tctx) }
		}
		*capt = captured{}
		var obs origin.Obs
		var err error
		func() {
			defer func() {
				if e := recover(); e != nil {
					err = fmt.Errorf("panic: %v", e)
				}
			}()
			obs, err = sendOn(c, st.Sc, o, fmt.Sprintf("/c16?s=%d&k=%d", seqNo, k))
		}()
		d.arm(-1)
		reqHook = nil
		cancel()
		res := stepResult{obs: obs, capt: *capt}
		switch {
		case err == nil:
			res.outcome = "sent"
		case strings.Contains(err.Error(), "header list larger than peer"):
			res.outcome, res.err = "refused", err.Error()
		default:
			res.outcome, res.err = "failed", err.Error()
		}
		out = append(out, res)
	}
	return out
}

func judgeSeq(r *hk.Run, sq seqScenario, res []stepResult) {
	pn := protoName(sq.Proto)
	for k, st := range sq.Steps {
		rs := res[k]
		switch rs.outcome {
		case "sent":
			where := fmt.Sprintf("step %d of %d, first step", k, len(sq.Steps))
			if k > 0 {
				where = fmt.Sprintf("step %d of %d, after a step of kind %s that was %s", k, len(sq.Steps), sq.Steps[k-1].Kind, res[k-1].outcome)
			}
			withCtx("seq", where, sq, func() { oracle(r, st.Sc, rs.obs) })
		case "refused":
			if st.Kind != "oversized" && estListSize(st.Sc)+600 < int(sq.Limit) {
				r.Fail(hk.Failure{Sig: "seq:" + pn + ":refused-without-reason", What: "a request of ordinary size was refused as too large for the peer: " + rs.err,
					Input: map[string]interface{}{"sequence": sq, "step": k}})
			}
		default:
			if st.Kind == "plain" || st.Kind == "oversized" {
				after := "first step"
				if k > 0 {
					after = "after a step of kind " + sq.Steps[k-1].Kind
				}
				r.Fail(hk.Failure{Sig: "seq:" + pn + ":request-failed:" + st.Kind, What: "a request with valid headers failed (" + after + "): " + rs.err,
					Input: map[string]interface{}{"sequence": sq, "step": k}})
			}
		}
	}
}

// estListSize: a lower estimate of the RFC 9113 header list size (name + value + 32 per field) of
// what the caller set
func estListSize(sc scenario) int {
	n := 0
	for _, l := range [][]hdrOp{sc.Req, sc.Cli, presetOps(sc.Preset)} {
		for _, op := range l {
			n += len(op.K) + len(op.V) + 32
		}
	}
	return n
}

// coqSeq renders a sequence as SeqCases. The peer's header-list limit is applied by the model only
// to steps that are NOT the first on their connection: a new connection learns the peer's SETTINGS
// while its first request is already on its way, so for that one either behaviour is legitimate.
func coqSeq(sq seqScenario, res []stepResult) []string {
	lim := "None"
	if sq.Limit > 0 {
		lim = fmt.Sprintf("(Some %d%%N)", sq.Limit)
	}
	var out, cur []string
	flush := func() {
		if len(cur) > 0 {
			out = append(out, fmt.Sprintf("SeqCase %d %s %s", sq.Proto, lim, hk.CoqList(cur)))
			cur = nil
		}
	}
	lastConn := -1
	for k, st := range sq.Steps {
		rs := res[k]
		q := coqCreq(&rs.capt, st.Sc)
		switch rs.outcome {
		case "sent":
			step := hk.CoqPair(q, "SSent "+coqLines(rs.obs.Fields))
			if rs.obs.ConnSeq != lastConn && sq.Proto == 2 {
				flush()
				out = append(out, fmt.Sprintf("SeqCase %d None %s", sq.Proto, hk.CoqList([]string{step})))
			} else {
				cur = append(cur, step)
			}
			lastConn = rs.obs.ConnSeq
		case "refused":
			cur = append(cur, hk.CoqPair(q, "SRefused"))
		default:
			lastConn = -1 // whatever follows may be on a new connection
			if rs.capt.hdr != nil {
				cur = append(cur, hk.CoqPair(q, "SFailed"))
			}
		}
	}
	flush()
	return out
}

// ---------- families of cloned clients ----------

type famOp struct {
	Kind string   `json:"kind"` // clone | order | porder | mw | hadd (SetCommonHeaderNonCanonical: append) | hset (SetCommonHeader)
	Who  int      `json:"who"`
	Keys []string `json:"keys,omitempty"`
	Tag  string   `json:"tag,omitempty"` // mw: the header the middleware sets; hadd / hset: the common header's name
	Val  string   `json:"val,omitempty"`
}

type famScenario struct {
	Proto int      `json:"proto"`
	Ops   []famOp  `json:"ops"`
	Req   []hdrOp  `json:"req"`
	Names []string `json:"names"`
}

// reg: what one member has registered, in registration order (inherited part first)
type famReg struct {
	Kind string
	Keys []string
	Tag  string
}

func genFam(r *hk.Rand, proto, idx int) famScenario {
	f := famScenario{Proto: proto}
	names := genNames(r, r.Range(13, 18)) // > 12 collected headers: the pdqsort side of the sort
	for _, nm := range names {
		f.Req = append(f.Req, hdrOp{Kind: "set", K: nm, V: fmt.Sprintf("v%d", r.Intn(1000))})
	}
	f.Names = names
	perm := func() []string {
		p := append([]string(nil), names...)
		shuffle(r, p)
		return p[:r.Range(len(p)-3, len(p))]
	}
	pperm := func() []string { return append([]string(nil), pseudoPerms[r.Intn(len(pseudoPerms))]...) }
	members := 1
	mw := 0
	addMW := func(who int) {
		mw++
		f.Ops = append(f.Ops, famOp{Kind: "mw", Who: who, Tag: fmt.Sprintf("X-Mw-%d", mw)})
	}
	// the base: 0..4 registrations (the capture wrapper is one more), so that the wrapper slice is
	// left with and without spare capacity
	for i, n := 0, r.Intn(5); i < n; i++ {
		switch r.Intn(4) {
		case 0:
			f.Ops = append(f.Ops, famOp{Kind: "porder", Who: 0, Keys: pperm()})
		default:
			addMW(0)
		}
	}
	// multi-valued common headers on the base: 1, 2, 3 or 5 values under one name, so that the value
	// slice is left with (3 -> cap 4, 5 -> cap 8) and without spare capacity when the client is cloned
	common := []string{"X-Common-A", "x-common-b", "X-Common-C"}[:r.Range(1, 3)]
	nval := 0
	hadd := func(who int, name string) {
		nval++
		f.Ops = append(f.Ops, famOp{Kind: "hadd", Who: who, Tag: name, Val: fmt.Sprintf("c%d-by-%d", nval, who)})
	}
	for _, nm := range common {
		for i, n := 0, hk.Pick(r, []int{1, 2, 3, 3, 3, 5}); i < n; i++ {
			hadd(0, nm)
		}
	}
	// generations of clones, each registering its own order(s) after being cloned
	for g := 0; g < r.Range(2, 3); g++ {
		first := members
		parents := members
		for p := 0; p < parents && members < 7; p++ {
			if g > 0 && p == 0 && r.Bool() {
				continue
			}
			kids := 1
			if g == 0 || r.Chance(40) {
				kids = 2
			}
			for k := 0; k < kids && members < 7; k++ {
				f.Ops = append(f.Ops, famOp{Kind: "clone", Who: p})
				kid := members
				members++
				// one more value under the same name on the clone AND on its original, in either order;
				// now and then a Set (fresh slice) on one side
				for _, nm := range common {
					if !r.Chance(70) {
						continue
					}
					a, b := kid, p
					if r.Bool() {
						a, b = p, kid
					}
					hadd(a, nm)
					if r.Chance(15) {
						nval++
						f.Ops = append(f.Ops, famOp{Kind: "hset", Who: b, Tag: nm, Val: fmt.Sprintf("set%d-by-%d", nval, b)})
					} else {
						hadd(b, nm)
					}
					if r.Chance(25) {
						hadd(hk.Pick(r, []int{a, b}), nm)
					}
				}
			}
		}
		order := make([]int, 0, members-first)
		for m := first; m < members; m++ {
			order = append(order, m)
		}
		shuffle(r, order)
		for _, m := range order {
			switch r.Intn(6) {
			case 0:
				addMW(m)
			case 1:
				f.Ops = append(f.Ops, famOp{Kind: "porder", Who: m, Keys: pperm()})
			case 2: // nothing of its own: everything inherited
			default:
				f.Ops = append(f.Ops, famOp{Kind: "order", Who: m, Keys: perm()})
			}
		}
		if r.Chance(30) { // an older member registers something late
			f.Ops = append(f.Ops, famOp{Kind: "order", Who: r.Intn(first), Keys: perm()})
		}
	}
	return f
}

// famRegs: the oracle's reading of the API - a clone starts with a COPY of what its parent has
// registered so far; later registrations on either side do not reach the other
func famRegs(ops []famOp) [][]famReg {
	regs := [][]famReg{nil}
	for _, op := range ops {
		switch op.Kind {
		case "clone":
			regs = append(regs, append([]famReg(nil), regs[op.Who]...))
		default:
			regs[op.Who] = append(regs[op.Who], famReg{op.Kind, op.Keys, op.Tag})
		}
	}
	return regs
}

// famHeaders: the oracle's reading of the API for the common headers - a clone starts with a COPY of its
// parent's headers; a value added or set on either side afterwards does not reach the other
func famHeaders(ops []famOp) []http.Header {
	hs := []http.Header{{}}
	for _, op := range ops {
		switch op.Kind {
		case "clone":
			hs = append(hs, hs[op.Who].Clone())
		case "hadd":
			hs[op.Who][op.Tag] = append(hs[op.Who][op.Tag], op.Val)
		case "hset":
			hs[op.Who].Set(op.Tag, op.Val)
		}
	}
	return hs
}

func runFam(r *hk.Run, f famScenario, o *origin.Origin, famNo int) {
	pn := protoName(f.Proto)
	capt := &captured{}
	base := newClient(scenario{Proto: f.Proto}, o, capt)
	clients := []*req.Client{base}
	defer func() {
		for _, c := range clients {
			c.GetTransport().CloseIdleConnections()
		}
	}()
	for _, op := range f.Ops {
		c := clients[op.Who]
		switch op.Kind {
		case "clone":
			clients = append(clients, c.Clone())
		case "order":
			c.SetCommonHeaderOrder(op.Keys...)
		case "porder":
			c.SetCommonPseudoHeaderOder(op.Keys...)
		case "hadd":
			c.SetCommonHeaderNonCanonical(op.Tag, op.Val)
		case "hset":
			c.SetCommonHeader(op.Tag, op.Val)
		case "mw":
			tag := op.Tag
			c.GetTransport().WrapRoundTripFunc(func(rt http.RoundTripper) req.HttpRoundTripFunc {
				return func(rq *http.Request) (*http.Response, error) {
					rq.Header.Set(tag, "1")
					return rt.RoundTrip(rq)
				}
			})
		}
	}
	regs := famRegs(f.Ops)
	hdrs := famHeaders(f.Ops)
	var members, hmembers []string
	for m, c := range clients {
		// the member's configuration as the single-request oracle understands it
		sc := scenario{Proto: f.Proto, Method: "GET", Req: f.Req}
		for _, rg := range regs[m] {
			switch rg.Kind {
			case "order":
				if sc.CliOrder == nil {
					sc.CliOrder = rg.Keys // the first registered list is the one in force
				}
			case "porder":
				if sc.CliPOrder == nil {
					sc.CliPOrder = rg.Keys
				}
			case "mw":
				sc.Cli = append(sc.Cli, hdrOp{Kind: "set", K: rg.Tag, V: "1"})
			}
		}
		sc.Cli = append(sc.Cli, headerOps(hdrs[m])...)
		hmembers = append(hmembers, fmt.Sprintf("(%d%%nat, %s)", m, coqKVMap(c.Headers, nil)))
		*capt = captured{}
		r.Count("fam." + pn + ".member")
		obs, err := sendOn(c, scenario{Proto: f.Proto, Method: "GET", Req: f.Req}, o, fmt.Sprintf("/c16?f=%d&m=%d", famNo, m))
		desc := map[string]interface{}{"kind": "family-" + pn, "family": f, "member": m, "member_config": sc}
		if err != nil {
			r.Fail(hk.Failure{Sig: "fam:" + pn + ":request-failed", What: "a request of a cloned client failed: " + err.Error(), Input: desc})
			continue
		}
		withCtx("fam", fmt.Sprintf("member %d of a family of %d cloned clients", m, len(clients)), f, func() { oracle(r, sc, obs) })
		desc["wire"] = obs.Fields
		r.Add(hk.Case{Coq: fmt.Sprintf("WireCase %d %s %s", f.Proto, coqCreq(capt, sc), coqLines(obs.Fields)), Desc: desc},
			fmt.Sprintf("fam|%d|%+v", m, f), true)
		members = append(members, fmt.Sprintf("(%d%%nat, %s, %s)", m, csList(capt.hdr["__header_order__"]), csList(capt.hdr["__pseudo_header_order__"])))
	}
	// the family seen by the model: operations -> per member the order lists in force at the transport
	var ops []string
	for _, op := range f.Ops {
		switch op.Kind {
		case "clone":
			ops = append(ops, fmt.Sprintf("FClone %d", op.Who))
		case "order":
			ops = append(ops, fmt.Sprintf("FOrder %d %s", op.Who, csList(op.Keys)))
		case "porder":
			ops = append(ops, fmt.Sprintf("FPOrder %d %s", op.Who, csList(op.Keys)))
		case "mw":
			ops = append(ops, fmt.Sprintf("FMw %d %s", op.Who, cs(op.Tag)))
		}
	}
	// ... and the common headers: operations -> per member the client's header map
	var hops []string
	for _, op := range f.Ops {
		switch op.Kind {
		case "clone":
			hops = append(hops, fmt.Sprintf("HClone %d", op.Who))
		case "hadd":
			hops = append(hops, fmt.Sprintf("HAdd %d %s %s", op.Who, cs(op.Tag), cs(op.Val)))
		case "hset":
			hops = append(hops, fmt.Sprintf("HSet %d %s %s", op.Who, cs(op.Tag), cs(op.Val)))
		}
	}
	r.Add(hk.Case{Coq: fmt.Sprintf("CloneHdrCase %s %s", hk.CoqList(hops), hk.CoqList(hmembers)),
		Desc: map[string]interface{}{"kind": "family-headers-model-" + pn, "family": f}}, fmt.Sprintf("famhdr|%+v", f), true)
	r.Add(hk.Case{Coq: fmt.Sprintf("CloneCase %s %s", hk.CoqList(ops), hk.CoqList(members)),
		Desc: map[string]interface{}{"kind": "family-model-" + pn, "family": f}}, fmt.Sprintf("fammodel|%+v", f), true)
}

func runSequences(r *hk.Run, rng *hk.Rand) {
	type startFn func() (*origin.Origin, error)
	for _, pr := range []struct {
		p          int
		start      startFn
		nSeq, nFam int
	}{
		{1, origin.StartH1, r.Scale(26, 500), r.Scale(10, 200)},
		{2, origin.StartH2C, r.Scale(26, 500), r.Scale(8, 150)},
		{3, origin.StartH3, r.Scale(8, 150), 0},
	} {
		o, err := pr.start()
		if err != nil {
			r.Fail(hk.Failure{Sig: "seq:origin-start", What: err.Error(), Input: pr.p})
			continue
		}
		pn := protoName(pr.p)
		prng := rng.Fork()
		for i := 0; i < pr.nSeq; i++ {
			sq := genSeq(prng, pr.p, i)
			res := runSeq(r, sq, o, i)
			judgeSeq(r, sq, res)
			r.Count("seq." + pn)
			for k, st := range sq.Steps {
				r.Count("seq." + pn + ".step." + st.Kind + "->" + res[k].outcome)
				if k > 0 && sq.Steps[k-1].Kind != "plain" && res[k].outcome == "sent" {
					r.Count("seq." + pn + ".sent-after-" + sq.Steps[k-1].Kind)
				}
			}
			for ci, c := range coqSeq(sq, res) {
				r.Add(hk.Case{Coq: c, Desc: map[string]interface{}{"kind": "sequence-" + pn, "sequence": sq, "part": ci}},
					fmt.Sprintf("seq|%d|%+v", ci, sq), len(sq.Steps) >= 2)
			}
		}
		frng := rng.Fork()
		for i := 0; i < pr.nFam; i++ {
			r.Count("fam." + pn)
			runFam(r, genFam(frng, pr.p, i), o, i)
		}
		o.Close()
	}
}
