package main

// C16 (d): ONE Request object executed several times, with header setters on the request and
// changes of the client-level headers in between. What an earlier execution merged from the
// client lives on in Request.Headers; every execution has to send exactly: what the caller set on
// the request itself + the client-level headers of THAT moment for the keys the request has no
// value for.

import (
	"fmt"
	"net/http"
	"sort"
	"strings"
	"time"

	"github.com/imroc/req/v3/verifharness/hk"
	"github.com/imroc/req/v3/verifharness/origin"
)

type resendStep struct {
	ReqOps     []hdrOp   `json:"req_ops,omitempty"` // setter calls on the request before this execution
	CliOps     []hdrOp   `json:"cli_ops,omitempty"` // set | nc | del on the client before this execution
	ReqCookies []cookieJ `json:"req_cookies,omitempty"`
}

type resendScenario struct {
	Proto      int          `json:"proto"`
	ReqOrder   []string     `json:"req_order,omitempty"`
	CliCookies []cookieJ    `json:"cli_cookies,omitempty"`
	Steps      []resendStep `json:"steps"`
}

func genResend(r *hk.Rand, proto int) resendScenario {
	rs := resendScenario{Proto: proto}
	shared := genNames(r, r.Range(4, 9)) // names that exist at client level (and may be pinned on the request)
	var own []string                     // names only ever set on the request
	for i := 0; i < r.Range(2, 8); i++ {
		own = append(own, fmt.Sprintf("x-own-%d", i))
	}
	cli := map[string]string{} // the client's current value per canonical name
	var first []hdrOp
	for _, nm := range shared {
		if r.Chance(75) {
			v := fmt.Sprintf("c%d", r.Intn(1000))
			cli[nm] = v
			first = append(first, hdrOp{Kind: "set", K: nm, V: v})
		}
	}
	if r.Chance(30) {
		rs.CliCookies = []cookieJ{{"cc", fmt.Sprintf("val%d", r.Intn(100))}}
	}
	if r.Chance(35) {
		rs.ReqOrder, _ = genOrder(r, append(append([]string(nil), shared...), own...))
	}
	n := r.Range(2, 4)
	for k := 0; k < n; k++ {
		st := resendStep{}
		prev := map[string]string{} // what the previous execution merged from the client
		for nm, v := range cli {
			prev[nm] = v
		}
		if k == 0 {
			st.CliOps = first
		} else {
			for _, nm := range shared {
				switch r.Intn(6) {
				case 0: // the client's value changes
					v := fmt.Sprintf("c%d", r.Intn(1000))
					cli[nm] = v
					st.CliOps = append(st.CliOps, hdrOp{Kind: "set", K: nm, V: v})
				case 1: // ... or goes away
					if _, ok := cli[nm]; ok {
						delete(cli, nm)
						st.CliOps = append(st.CliOps, hdrOp{Kind: "del", K: nm})
					}
				}
			}
		}
		// the caller pins some shared names on the request: to the value the client has right now
		// (which is what the previous execution merged), or to another one
		for _, nm := range shared {
			if !r.Chance(22) {
				continue
			}
			v := fmt.Sprintf("r%d", r.Intn(1000))
			if pv, ok := prev[nm]; ok && k > 0 && r.Chance(60) {
				v = pv
			}
			st.ReqOps = append(st.ReqOps, hdrOp{Kind: "set", K: recase(r, nm), V: v})
		}
		for _, nm := range own {
			switch r.Intn(7) {
			case 0:
				st.ReqOps = append(st.ReqOps, hdrOp{Kind: "set", K: nm, V: genValue(r)})
			case 1:
				st.ReqOps = append(st.ReqOps, hdrOp{Kind: "nc", K: nm, V: fmt.Sprintf("n%d", r.Intn(1000))})
			}
		}
		if r.Chance(25) {
			st.ReqCookies = append(st.ReqCookies, cookieJ{fmt.Sprintf("rc%d", k), fmt.Sprintf("val%d", r.Intn(1000))})
		}
		shuffle(r, st.ReqOps)
		// the client-level changes of this step come after the pinning or before it
		rs.Steps = append(rs.Steps, st)
	}
	return rs
}

func headerOps(h http.Header) []hdrOp {
	keys := make([]string, 0, len(h))
	for k := range h {
		keys = append(keys, k)
	}
	sort.Strings(keys)
	var ops []hdrOp
	for _, k := range keys {
		for _, v := range h[k] {
			ops = append(ops, hdrOp{Kind: "nc", K: k, V: v})
		}
	}
	return ops
}

func coqKVMap(h http.Header, skip func(string) bool) string {
	keys := make([]string, 0, len(h))
	for k := range h {
		if skip != nil && skip(k) {
			continue
		}
		keys = append(keys, k)
	}
	sort.Strings(keys)
	kvs := make([]string, len(keys))
	for i, k := range keys {
		kvs[i] = coqKV(k, h[k])
	}
	return hk.CoqList(kvs)
}

func runResend(r *hk.Run, rs resendScenario, o *origin.Origin, no int) {
	pn := protoName(rs.Proto)
	capt := &captured{}
	c := newClient(scenario{Proto: rs.Proto}, o, capt)
	defer c.GetTransport().CloseIdleConnections()
	for _, ck := range rs.CliCookies {
		c.SetCommonCookies(&http.Cookie{Name: ck.N, Value: ck.V})
	}
	rq := c.R()
	if len(rs.ReqOrder) > 0 {
		rq.SetHeaderOrder(rs.ReqOrder...)
	}
	// the caller's view, kept with the stdlib header type
	rh, ch := http.Header{}, http.Header{}
	var reqCookies []cookieJ
	var coqSteps []string
	for k, st := range rs.Steps {
		for _, op := range st.CliOps {
			switch op.Kind {
			case "set":
				c.SetCommonHeader(op.K, op.V)
				ch.Set(op.K, op.V)
			case "nc":
				c.SetCommonHeaderNonCanonical(op.K, op.V)
				ch[op.K] = append(ch[op.K], op.V)
			case "del":
				delete(c.Headers, http.CanonicalHeaderKey(op.K))
				ch.Del(op.K)
			}
		}
		for _, op := range st.ReqOps {
			if op.Kind == "set" {
				rq.SetHeader(op.K, op.V)
				rh.Set(op.K, op.V)
			} else {
				rq.SetHeaderNonCanonical(op.K, op.V)
				rh[op.K] = append(rh[op.K], op.V)
			}
		}
		for _, ck := range st.ReqCookies {
			rq.SetCookies(&http.Cookie{Name: ck.N, Value: ck.V})
			reqCookies = append(reqCookies, ck)
		}
		// this execution as a single-request scenario for the oracle
		sc := scenario{Proto: rs.Proto, Method: "GET", Req: headerOps(rh), Cli: headerOps(ch), ReqOrder: rs.ReqOrder,
			ReqCookies: append([]cookieJ(nil), reqCookies...), CliCookies: rs.CliCookies}
		cliSnap := c.Headers.Clone()
		*capt = captured{}
		target := fmt.Sprintf("/c16?r=%d&k=%d", no, k)
		o.Drain()
		r.Count("resend." + pn + ".execution")
		_, err := rq.Send("GET", o.URL+target)
		cell := map[string]interface{}{"resend": rs, "execution": k}
		if err != nil {
			r.Fail(hk.Failure{Sig: "resend:" + pn + ":request-failed", What: "re-executing a request failed: " + err.Error(), Input: cell})
			return
		}
		var obs origin.Obs
		deadline := time.Now().Add(10 * time.Second)
		for {
			var ok bool
			obs, ok = o.Next(time.Until(deadline))
			if !ok {
				r.Fail(hk.Failure{Sig: "resend:" + pn + ":no-request-seen", What: "origin saw no request", Input: cell})
				return
			}
			if obs.Target == target {
				break
			}
		}
		withCtx("resend", fmt.Sprintf("execution %d of %d of one Request object", k+1, len(rs.Steps)), rs, func() { oracle(r, sc, obs) })
		r.Add(hk.Case{Coq: fmt.Sprintf("WireCase %d %s %s", rs.Proto, coqCreq(capt, sc), coqLines(obs.Fields)),
			Desc: map[string]interface{}{"kind": "resend-wire-" + pn, "cell": cell, "wire": obs.Fields}}, fmt.Sprintf("resendwire|%d|%+v", k, rs), true)
		// for the model: the setter calls of this step, the client's header map at this moment, and
		// the header map the transport received (cookies and the automatic Content-Type aside)
		ops := coqOps(st.ReqOps)
		if k == 0 && len(rs.ReqOrder) > 0 {
			ops = append([]string{"OpOrder " + csList(rs.ReqOrder)}, ops...)
		}
		skip := func(key string) bool {
			return key == "Cookie" || key == "Content-Type" && !strings.Contains(fmt.Sprint(rh), "Content-Type")
		}
		coqSteps = append(coqSteps, fmt.Sprintf("(%s, %s, %s)", hk.CoqList(ops), coqKVMap(cliSnap, nil), coqKVMap(capt.hdr, skip)))
	}
	r.Add(hk.Case{Coq: "ResendCase " + hk.CoqList(coqSteps), Desc: map[string]interface{}{"kind": "resend-model-" + pn, "resend": rs}},
		fmt.Sprintf("resend|%+v", rs), len(rs.Steps) >= 2)
}

func runResends(r *hk.Run, rng *hk.Rand) {
	for _, pr := range []struct {
		p     int
		start func() (*origin.Origin, error)
		n     int
	}{
		{1, origin.StartH1, r.Scale(24, 600)},
		{2, origin.StartH2C, r.Scale(12, 300)},
		{3, origin.StartH3, r.Scale(6, 150)},
	} {
		o, err := pr.start()
		if err != nil {
			r.Fail(hk.Failure{Sig: "resend:origin-start", What: err.Error(), Input: pr.p})
			continue
		}
		prng := rng.Fork()
		for i := 0; i < pr.n; i++ {
			r.Count("resend." + protoName(pr.p))
			runResend(r, genResend(prng, pr.p), o, i)
		}
		o.Close()
	}
}
