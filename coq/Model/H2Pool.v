(* Model/H2Pool.v - executable model of the HTTP/2 connection cache and of the per-connection
   stream table of /repo/internal/http2 (C09: multiplexed streams, "responses never mixed up").

   One event of [h2_step] = one lock region of the Go code (clientConnPool.mu and/or
   ClientConn.mu); goroutine-local progress between regions is the request's [rphase].
   All interleavings of the Go program = all event lists; events that are not enabled are no-ops.

   Go (internal/http2)                                   model
   ----------------------------------------------------  ------------------------------------
   clientConnPool.GetClientConn: locked scan of
     p.conns[addr] with cc.ReserveNewRequest, else
     getStartDialLocked (one dial per addr)              H2Get k / H2Rescan r      -> scan
   dialCall.dial: delete(p.dialing), addConnLocked       H2DialDone cl ok
   GetClientConn after <-call.done: shouldRetryDial,
     call.err, cc.ReserveNewRequest else loop            H2Wake r retry
   clientStream.writeRequest: decrStreamReservations-
     Locked, awaitOpenSlotForStreamLocked,
     addStreamLocked (cs.ID = cc.nextStreamID; += 2)     H2Open r retry
   clientConnReadLoop.processData/processHeaders:
     cc.streams[f.StreamID] (streamByID)                 H2Frame c sid p
   ClientConn.forgetStreamID (+ closeOnIdle)             H2End r ok
   ClientConn.setGoAway (flag only)                      H2GoAway c
   processSettings: SETTINGS_MAX_CONCURRENT_STREAMS      H2Settings c m
   isConnectionCloseRequest / SetDoNotReuse              H2NoReuse c
   clientConnPool.CloseIdleConnections -> closeIfIdle    H2CloseIdle
   clientConnPool.MarkDead                               H2MarkDead c
   readLoop cleanup (MarkDead; cc.closed = true)         H2ConnLost c
   ClientConn.idleStateLocked (non-strict mode)          can_take

   Ghost fields (not in the Go code, used to state the theorems): c_resv (who holds the
   reservations counted by streamsReserved), c_hist (every stream id ever assigned), c_lowered
   (the peer lowered MAX_CONCURRENT_STREAMS at some point), c_dead.

   Not modelled: StrictMaxConcurrentStreams (pendingRequests / cond.Wait), singleUse
   connections of "Connection: close" requests (never in the pool), tooIdleLocked and the
   2^31 stream-id exhaustion test (timing / unreachable sizes), AddConnIfNeeded (the h1->h2
   upgrade path adds a conn the same way as dialCall.dial: one addConnCall per key), the abort
   of streams above GOAWAY's last-stream-id (they end through H2End like any other). *)
From Coq Require Import List Arith Bool.
From ReqV Require Import Lib.Bytes Model.Pool.
Import ListNotations.

Definition cid := nat.
Definition rid := nat.
Definition callid := nat.

Inductive rphase :=
| RNone                              (* no such request yet *)
| RScan (k : key)                    (* (re-)entering GetClientConn's locked scan *)
| RWaitDial (k : key) (cl : callid)  (* blocked on <-call.done *)
| RReserved (c : cid)                (* holds one of c's streamsReserved, RoundTrip not yet begun *)
| ROpen (c : cid) (sid : nat)        (* owns stream sid of c *)
| RDone (ok : bool).

Definition initial_max_concurrent : nat := 100.   (* initialMaxConcurrentStreams *)

Record h2state := mkH2 {
  p_conns : key -> list cid;
  p_dialing : key -> option callid;
  call_key : callid -> key;
  call_res : callid -> option (option cid);
  c_key : cid -> key;
  c_streams : cid -> list (nat * rid);
  c_reserved : cid -> nat;
  c_resv : cid -> list rid;
  c_next : cid -> nat;
  c_hist : cid -> list nat;
  c_closed : cid -> bool;
  c_goaway : cid -> bool;
  c_noreuse : cid -> bool;
  c_max : cid -> nat;
  c_lowered : cid -> bool;
  c_dead : cid -> bool;
  r_phase : rid -> rphase;
  r_recv : rid -> list bytes;
  n_cid : nat;
  n_rid : nat;
  n_call : nat;
  h2_panicked : bool }.

Definition set_p_conns (v : key -> list cid) (s : h2state) : h2state :=
  mkH2 v (p_dialing s) (call_key s) (call_res s) (c_key s) (c_streams s) (c_reserved s) (c_resv s) (c_next s) (c_hist s) (c_closed s) (c_goaway s) (c_noreuse s) (c_max s) (c_lowered s) (c_dead s) (r_phase s) (r_recv s) (n_cid s) (n_rid s) (n_call s) (h2_panicked s).
Definition set_p_dialing (v : key -> option callid) (s : h2state) : h2state :=
  mkH2 (p_conns s) v (call_key s) (call_res s) (c_key s) (c_streams s) (c_reserved s) (c_resv s) (c_next s) (c_hist s) (c_closed s) (c_goaway s) (c_noreuse s) (c_max s) (c_lowered s) (c_dead s) (r_phase s) (r_recv s) (n_cid s) (n_rid s) (n_call s) (h2_panicked s).
Definition set_call_key (v : callid -> key) (s : h2state) : h2state :=
  mkH2 (p_conns s) (p_dialing s) v (call_res s) (c_key s) (c_streams s) (c_reserved s) (c_resv s) (c_next s) (c_hist s) (c_closed s) (c_goaway s) (c_noreuse s) (c_max s) (c_lowered s) (c_dead s) (r_phase s) (r_recv s) (n_cid s) (n_rid s) (n_call s) (h2_panicked s).
Definition set_call_res (v : callid -> option (option cid)) (s : h2state) : h2state :=
  mkH2 (p_conns s) (p_dialing s) (call_key s) v (c_key s) (c_streams s) (c_reserved s) (c_resv s) (c_next s) (c_hist s) (c_closed s) (c_goaway s) (c_noreuse s) (c_max s) (c_lowered s) (c_dead s) (r_phase s) (r_recv s) (n_cid s) (n_rid s) (n_call s) (h2_panicked s).
Definition set_c_key (v : cid -> key) (s : h2state) : h2state :=
  mkH2 (p_conns s) (p_dialing s) (call_key s) (call_res s) v (c_streams s) (c_reserved s) (c_resv s) (c_next s) (c_hist s) (c_closed s) (c_goaway s) (c_noreuse s) (c_max s) (c_lowered s) (c_dead s) (r_phase s) (r_recv s) (n_cid s) (n_rid s) (n_call s) (h2_panicked s).
Definition set_c_streams (v : cid -> list (nat * rid)) (s : h2state) : h2state :=
  mkH2 (p_conns s) (p_dialing s) (call_key s) (call_res s) (c_key s) v (c_reserved s) (c_resv s) (c_next s) (c_hist s) (c_closed s) (c_goaway s) (c_noreuse s) (c_max s) (c_lowered s) (c_dead s) (r_phase s) (r_recv s) (n_cid s) (n_rid s) (n_call s) (h2_panicked s).
Definition set_c_reserved (v : cid -> nat) (s : h2state) : h2state :=
  mkH2 (p_conns s) (p_dialing s) (call_key s) (call_res s) (c_key s) (c_streams s) v (c_resv s) (c_next s) (c_hist s) (c_closed s) (c_goaway s) (c_noreuse s) (c_max s) (c_lowered s) (c_dead s) (r_phase s) (r_recv s) (n_cid s) (n_rid s) (n_call s) (h2_panicked s).
Definition set_c_resv (v : cid -> list rid) (s : h2state) : h2state :=
  mkH2 (p_conns s) (p_dialing s) (call_key s) (call_res s) (c_key s) (c_streams s) (c_reserved s) v (c_next s) (c_hist s) (c_closed s) (c_goaway s) (c_noreuse s) (c_max s) (c_lowered s) (c_dead s) (r_phase s) (r_recv s) (n_cid s) (n_rid s) (n_call s) (h2_panicked s).
Definition set_c_next (v : cid -> nat) (s : h2state) : h2state :=
  mkH2 (p_conns s) (p_dialing s) (call_key s) (call_res s) (c_key s) (c_streams s) (c_reserved s) (c_resv s) v (c_hist s) (c_closed s) (c_goaway s) (c_noreuse s) (c_max s) (c_lowered s) (c_dead s) (r_phase s) (r_recv s) (n_cid s) (n_rid s) (n_call s) (h2_panicked s).
Definition set_c_hist (v : cid -> list nat) (s : h2state) : h2state :=
  mkH2 (p_conns s) (p_dialing s) (call_key s) (call_res s) (c_key s) (c_streams s) (c_reserved s) (c_resv s) (c_next s) v (c_closed s) (c_goaway s) (c_noreuse s) (c_max s) (c_lowered s) (c_dead s) (r_phase s) (r_recv s) (n_cid s) (n_rid s) (n_call s) (h2_panicked s).
Definition set_c_closed (v : cid -> bool) (s : h2state) : h2state :=
  mkH2 (p_conns s) (p_dialing s) (call_key s) (call_res s) (c_key s) (c_streams s) (c_reserved s) (c_resv s) (c_next s) (c_hist s) v (c_goaway s) (c_noreuse s) (c_max s) (c_lowered s) (c_dead s) (r_phase s) (r_recv s) (n_cid s) (n_rid s) (n_call s) (h2_panicked s).
Definition set_c_goaway (v : cid -> bool) (s : h2state) : h2state :=
  mkH2 (p_conns s) (p_dialing s) (call_key s) (call_res s) (c_key s) (c_streams s) (c_reserved s) (c_resv s) (c_next s) (c_hist s) (c_closed s) v (c_noreuse s) (c_max s) (c_lowered s) (c_dead s) (r_phase s) (r_recv s) (n_cid s) (n_rid s) (n_call s) (h2_panicked s).
Definition set_c_noreuse (v : cid -> bool) (s : h2state) : h2state :=
  mkH2 (p_conns s) (p_dialing s) (call_key s) (call_res s) (c_key s) (c_streams s) (c_reserved s) (c_resv s) (c_next s) (c_hist s) (c_closed s) (c_goaway s) v (c_max s) (c_lowered s) (c_dead s) (r_phase s) (r_recv s) (n_cid s) (n_rid s) (n_call s) (h2_panicked s).
Definition set_c_max (v : cid -> nat) (s : h2state) : h2state :=
  mkH2 (p_conns s) (p_dialing s) (call_key s) (call_res s) (c_key s) (c_streams s) (c_reserved s) (c_resv s) (c_next s) (c_hist s) (c_closed s) (c_goaway s) (c_noreuse s) v (c_lowered s) (c_dead s) (r_phase s) (r_recv s) (n_cid s) (n_rid s) (n_call s) (h2_panicked s).
Definition set_c_lowered (v : cid -> bool) (s : h2state) : h2state :=
  mkH2 (p_conns s) (p_dialing s) (call_key s) (call_res s) (c_key s) (c_streams s) (c_reserved s) (c_resv s) (c_next s) (c_hist s) (c_closed s) (c_goaway s) (c_noreuse s) (c_max s) v (c_dead s) (r_phase s) (r_recv s) (n_cid s) (n_rid s) (n_call s) (h2_panicked s).
Definition set_c_dead (v : cid -> bool) (s : h2state) : h2state :=
  mkH2 (p_conns s) (p_dialing s) (call_key s) (call_res s) (c_key s) (c_streams s) (c_reserved s) (c_resv s) (c_next s) (c_hist s) (c_closed s) (c_goaway s) (c_noreuse s) (c_max s) (c_lowered s) v (r_phase s) (r_recv s) (n_cid s) (n_rid s) (n_call s) (h2_panicked s).
Definition set_r_phase (v : rid -> rphase) (s : h2state) : h2state :=
  mkH2 (p_conns s) (p_dialing s) (call_key s) (call_res s) (c_key s) (c_streams s) (c_reserved s) (c_resv s) (c_next s) (c_hist s) (c_closed s) (c_goaway s) (c_noreuse s) (c_max s) (c_lowered s) (c_dead s) v (r_recv s) (n_cid s) (n_rid s) (n_call s) (h2_panicked s).
Definition set_r_recv (v : rid -> list bytes) (s : h2state) : h2state :=
  mkH2 (p_conns s) (p_dialing s) (call_key s) (call_res s) (c_key s) (c_streams s) (c_reserved s) (c_resv s) (c_next s) (c_hist s) (c_closed s) (c_goaway s) (c_noreuse s) (c_max s) (c_lowered s) (c_dead s) (r_phase s) v (n_cid s) (n_rid s) (n_call s) (h2_panicked s).
Definition set_n_cid (v : nat) (s : h2state) : h2state :=
  mkH2 (p_conns s) (p_dialing s) (call_key s) (call_res s) (c_key s) (c_streams s) (c_reserved s) (c_resv s) (c_next s) (c_hist s) (c_closed s) (c_goaway s) (c_noreuse s) (c_max s) (c_lowered s) (c_dead s) (r_phase s) (r_recv s) v (n_rid s) (n_call s) (h2_panicked s).
Definition set_n_rid (v : nat) (s : h2state) : h2state :=
  mkH2 (p_conns s) (p_dialing s) (call_key s) (call_res s) (c_key s) (c_streams s) (c_reserved s) (c_resv s) (c_next s) (c_hist s) (c_closed s) (c_goaway s) (c_noreuse s) (c_max s) (c_lowered s) (c_dead s) (r_phase s) (r_recv s) (n_cid s) v (n_call s) (h2_panicked s).
Definition set_n_call (v : nat) (s : h2state) : h2state :=
  mkH2 (p_conns s) (p_dialing s) (call_key s) (call_res s) (c_key s) (c_streams s) (c_reserved s) (c_resv s) (c_next s) (c_hist s) (c_closed s) (c_goaway s) (c_noreuse s) (c_max s) (c_lowered s) (c_dead s) (r_phase s) (r_recv s) (n_cid s) (n_rid s) v (h2_panicked s).
Definition set_h2_panicked (v : bool) (s : h2state) : h2state :=
  mkH2 (p_conns s) (p_dialing s) (call_key s) (call_res s) (c_key s) (c_streams s) (c_reserved s) (c_resv s) (c_next s) (c_hist s) (c_closed s) (c_goaway s) (c_noreuse s) (c_max s) (c_lowered s) (c_dead s) (r_phase s) (r_recv s) (n_cid s) (n_rid s) (n_call s) v.

Definition h2_init : h2state :=
  mkH2 (fun _ => []) (fun _ => None) (fun _ => 0) (fun _ => None)
       (fun _ => 0) (fun _ => []) (fun _ => 0) (fun _ => []) (fun _ => 1) (fun _ => [])
       (fun _ => false) (fun _ => false) (fun _ => false) (fun _ => 0) (fun _ => false) (fun _ => false)
       (fun _ => RNone) (fun _ => [])
       0 0 0 false.

(* ClientConn.idleStateLocked().canTakeNewRequest, non-strict mode *)
Definition can_take (s : h2state) (c : cid) : bool :=
  negb (c_goaway s c) && negb (c_closed s c) && negb (c_noreuse s c) &&
  (length (c_streams s c) + c_reserved s c + 1 <=? c_max s c).

(* ClientConn.ReserveNewRequest succeeded for request r *)
Definition reserve (s : h2state) (c : cid) (r : rid) : h2state :=
  set_r_phase (upd (r_phase s) r (RReserved c))
   (set_c_resv (upd (c_resv s) c (r :: c_resv s c))
    (set_c_reserved (upd (c_reserved s) c (S (c_reserved s c))) s)).

(* decrStreamReservationsLocked on behalf of r *)
Definition unreserve (s : h2state) (c : cid) (r : rid) : h2state :=
  set_c_resv (upd (c_resv s) c (remove1 r (c_resv s c)))
   (set_c_reserved (upd (c_reserved s) c (pred (c_reserved s c))) s).

Fixpoint first_usable (s : h2state) (l : list cid) : option cid :=
  match l with
  | [] => None
  | c :: l' => if can_take s c then Some c else first_usable s l'
  end.

(* the locked part of GetClientConn (dialOnMiss = true) *)
Definition scan (s : h2state) (r : rid) (k : key) : h2state :=
  match first_usable s (p_conns s k) with
  | Some c => reserve s c r
  | None =>
      match p_dialing s k with
      | Some cl => set_r_phase (upd (r_phase s) r (RWaitDial k cl)) s     (* a dial is in flight: join it *)
      | None =>
          let cl := n_call s in
          set_r_phase (upd (r_phase s) r (RWaitDial k cl))
           (set_p_dialing (upd (p_dialing s) k (Some cl))
            (set_call_res (upd (call_res s) cl None)
             (set_call_key (upd (call_key s) cl k)
              (set_n_call (S cl) s))))
      end
  end.

Definition new_h2conn (s : h2state) (c : cid) (k : key) : h2state :=
  set_n_cid (S c)
   (set_c_dead (upd (c_dead s) c false)
    (set_c_lowered (upd (c_lowered s) c false)
     (set_c_max (upd (c_max s) c initial_max_concurrent)
      (set_c_noreuse (upd (c_noreuse s) c false)
       (set_c_goaway (upd (c_goaway s) c false)
        (set_c_closed (upd (c_closed s) c false)
         (set_c_hist (upd (c_hist s) c [])
          (set_c_next (upd (c_next s) c 1)
           (set_c_resv (upd (c_resv s) c [])
            (set_c_reserved (upd (c_reserved s) c 0)
             (set_c_streams (upd (c_streams s) c [])
              (set_c_key (upd (c_key s) c k) s)))))))))))).

(* addConnLocked *)
Definition add_conn (s : h2state) (k : key) (c : cid) : h2state :=
  if memb c (p_conns s k) then s else set_p_conns (upd (p_conns s) k (p_conns s k ++ [c])) s.

(* cc.streams[id] *)
Fixpoint stream_owner (l : list (nat * rid)) (sid : nat) : option rid :=
  match l with
  | [] => None
  | (i, r) :: l' => if Nat.eqb i sid then Some r else stream_owner l' sid
  end.

Definition remove_sid (sid : nat) (l : list (nat * rid)) : list (nat * rid) :=
  filter (fun e => negb (Nat.eqb (fst e) sid)) l.

Definition in_pool (s : h2state) (c : cid) : bool := memb c (p_conns s (c_key s c)).

(* MarkDead *)
Definition mark_dead (s : h2state) (c : cid) : h2state :=
  set_c_dead (upd (c_dead s) c true)
   (set_p_conns (upd (p_conns s) (c_key s c) (remove1 c (p_conns s (c_key s c)))) s).

Inductive h2event :=
| H2Get (k : key)
| H2Rescan (r : rid)
| H2DialDone (cl : callid) (ok : bool)
| H2Wake (r : rid) (retry : bool)
| H2Open (r : rid) (retry : bool)
| H2Frame (c : cid) (sid : nat) (p : bytes)
| H2End (r : rid) (ok : bool)
| H2GoAway (c : cid)
| H2Settings (c : cid) (m : nat)
| H2NoReuse (c : cid)
| H2CloseIdle
| H2MarkDead (c : cid)
| H2ConnLost (c : cid).

Definition h2_step (s : h2state) (e : h2event) : h2state :=
  match e with
  | H2Get k =>
      let r := n_rid s in
      scan (set_n_rid (S r) (set_r_recv (upd (r_recv s) r []) s)) r k
  | H2Rescan r =>
      match r_phase s r with
      | RScan k => scan s r k
      | _ => s
      end
  | H2DialDone cl ok =>
      if (cl <? n_call s) && (match call_res s cl with None => true | Some _ => false end) then
        let k := call_key s cl in
        let s1 := set_p_dialing (upd (p_dialing s) k None) s in        (* delete(p.dialing, addr) *)
        if ok then
          let c := n_cid s1 in
          set_call_res (upd (call_res s1) cl (Some (Some c))) (add_conn (new_h2conn s1 c k) k c)
        else set_call_res (upd (call_res s1) cl (Some None)) s1
      else s
  | H2Wake r retry =>
      match r_phase s r with
      | RWaitDial k cl =>
          match call_res s cl with
          | None => s                                                  (* still blocked *)
          | Some None =>                                               (* call.err != nil *)
              set_r_phase (upd (r_phase s) r (if retry then RScan k else RDone false)) s
          | Some (Some c) =>
              if can_take s c then reserve s c r
              else set_r_phase (upd (r_phase s) r (RScan k)) s          (* for { ... } again *)
          end
      | _ => s
      end
  | H2Open r retry =>
      match r_phase s r with
      | RReserved c =>
          let s1 := unreserve s c r in
          if can_take s1 c then                                        (* awaitOpenSlotForStreamLocked *)
            let sid := c_next s1 c in                                  (* addStreamLocked *)
            set_r_phase (upd (r_phase s1) r (ROpen c sid))
             (set_c_hist (upd (c_hist s1) c (sid :: c_hist s1 c))
              (set_c_next (upd (c_next s1) c (sid + 2))
               (set_c_streams (upd (c_streams s1) c ((sid, r) :: c_streams s1 c)) s1)))
          else                                                         (* errClientConnUnusable *)
            set_r_phase (upd (r_phase s1) r (if retry then RScan (c_key s1 c) else RDone false)) s1
      | _ => s
      end
  | H2Frame c sid p =>
      match stream_owner (c_streams s c) sid with
      | Some r => set_r_recv (upd (r_recv s) r (r_recv s r ++ [p])) s
      | None => s                                                      (* unknown stream: dropped *)
      end
  | H2End r ok =>
      match r_phase s r with
      | ROpen c sid =>
          let s0 := match stream_owner (c_streams s c) sid with
                    | Some _ => s
                    | None => set_h2_panicked true s                   (* "forgetting unknown stream id" *)
                    end in
          let s1 := set_c_streams (upd (c_streams s0) c (remove_sid sid (c_streams s0 c))) s0 in
          let close_on_idle := c_noreuse s1 c || c_goaway s1 c in
          let s2 := if close_on_idle && (c_reserved s1 c =? 0) && (length (c_streams s1 c) =? 0)
                    then set_c_closed (upd (c_closed s1) c true) s1 else s1 in
          set_r_phase (upd (r_phase s2) r (RDone ok)) s2
      | _ => s
      end
  | H2GoAway c => if c <? n_cid s then set_c_goaway (upd (c_goaway s) c true) s else s
  | H2Settings c m =>
      if c <? n_cid s then
        set_c_lowered (upd (c_lowered s) c (c_lowered s c || (m <? c_max s c)))
         (set_c_max (upd (c_max s) c m) s)
      else s
  | H2NoReuse c => if c <? n_cid s then set_c_noreuse (upd (c_noreuse s) c true) s else s
  | H2CloseIdle =>                                                     (* closeIfIdle on every pooled conn *)
      set_c_closed (fun c => c_closed s c ||
                      (in_pool s c && (length (c_streams s c) =? 0) && (c_reserved s c =? 0))) s
  | H2MarkDead c => if c <? n_cid s then mark_dead s c else s
  | H2ConnLost c =>
      if c <? n_cid s then set_c_closed (upd (c_closed s) c true) (mark_dead s c) else s
  end.

Definition h2_run (evs : list h2event) : h2state := fold_left h2_step evs h2_init.

(* ---------- projection compared with VerifH2PoolSnapshot of the real pool ---------- *)

Record h2conn_snap := mkH2C {
  hs_streams : list nat;      (* keys of cc.streams *)
  hs_reserved : nat;          (* cc.streamsReserved *)
  hs_next : nat;              (* cc.nextStreamID *)
  hs_max : nat;               (* cc.maxConcurrentStreams *)
  hs_closed : bool;
  hs_id : nat }.              (* identity of the ClientConn (harness numbering) *)

(* one key of the pool: its conns, and whether a dial is in flight *)
Definition h2key_snap := (list h2conn_snap * bool)%type.

Definition h2conn_ok (c : h2conn_snap) : bool :=
  nodupb (hs_streams c) &&
  forallb (fun i => Nat.odd i && (i <? hs_next c)) (hs_streams c) &&
  Nat.odd (hs_next c) &&
  (length (hs_streams c) + hs_reserved c <=? hs_max c).

Definition h2snap_ok (ks : list h2key_snap) : bool :=
  forallb (fun k => forallb h2conn_ok (fst k) && nodupb (map hs_id (fst k))) ks.

Definition h2conn_snap_of (s : h2state) (c : cid) : h2conn_snap :=
  mkH2C (map fst (c_streams s c)) (c_reserved s c) (c_next s c) (c_max s c) (c_closed s c) c.

Definition h2snap_of (s : h2state) (ks : list key) : list h2key_snap :=
  map (fun k => (map (h2conn_snap_of s) (p_conns s k),
                 match p_dialing s k with Some _ => true | None => false end)) ks.
