(* Model/H2GoAway.v - what an HTTP/2 connection remembers of the GOAWAY frames it has received (C07).

   Go code modelled: internal/http2/transport.go ClientConn.setGoAway
       old := cc.goAway; cc.goAway = f
       if cc.goAwayDebug == "" { cc.goAwayDebug = string(f.DebugData()) }
       if old != nil && old.ErrCode != ErrCodeNo { cc.goAway.ErrCode = old.ErrCode }
   and the error the pending requests get when the connection then ends (GoAwayError{LastStreamID,
   ErrCode, DebugData}).  Of an EARLIER frame only the plain ErrCode field is looked at (frames are
   invalidated by the next ReadFrame; its debug text was copied when it arrived): the state carried
   from one GOAWAY to the next is (code, debug text, last stream id), nothing else.  No proofs here. *)
From ReqV Require Export Lib.Bytes.
Open Scope N_scope.

Record gframe := { gf_last : N; gf_code : N; gf_debug : bytes }.
Record gstate := { gs_last : N; gs_code : N; gs_debug : bytes }.

Definition nil_bytes (b : bytes) : bool := match b with [] => true | _ => false end.

Definition goaway_merge (old : option gstate) (f : gframe) : gstate :=
  match old with
  | None => {| gs_last := gf_last f; gs_code := gf_code f; gs_debug := gf_debug f |}
  | Some o =>
      {| gs_last := gf_last f;
         gs_code := if gs_code o =? 0 then gf_code f else gs_code o;
         gs_debug := if nil_bytes (gs_debug o) then gf_debug f else gs_debug o |}
  end.

Fixpoint goaway_run (st : option gstate) (fs : list gframe) : option gstate :=
  match fs with
  | [] => st
  | f :: r => goaway_run (Some (goaway_merge st f)) r
  end.

(* the first non-zero error code / the first non-empty debug text of a frame sequence *)
Fixpoint first_code (fs : list gframe) : N :=
  match fs with
  | [] => 0
  | f :: r => if gf_code f =? 0 then first_code r else gf_code f
  end.
Fixpoint first_debug (fs : list gframe) : bytes :=
  match fs with
  | [] => []
  | f :: r => if nil_bytes (gf_debug f) then first_debug r else gf_debug f
  end.
