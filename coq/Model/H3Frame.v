(* Model/H3Frame.v - executable model of /repo/internal/http3/frames.go (frameParser.ParseNext with
   no unknownFrameHandler, parseSettingsFrame, dataFrame/headersFrame/settingsFrame.Append) and
   /repo/internal/http3/headers.go (parseHeaders, parseTrailers, updateResponseFromHeaders up to
   the status line).  Readers are byte lists: the reader holds exactly the list and then reports
   io.EOF.  uint64 is N (every value that reaches the codec came out of a varint, so < 2^62; on the
   encoder side `None` is the quicvarint panic).  Constants and dispatch tables come from
   Gen/H3Consts.v (regenerated from the Go source on every run).  No proofs here. *)
From ReqV Require Export Lib.Bytes Lib.BigEndian Model.QuicVarint Gen.H3Consts.
Open Scope N_scope.

(* ================= frames ================= *)

Record h3settings := { sf_datagram : bool; sf_extconnect : bool; sf_other : list (N * N) }.
Definition mk_settings d e o := {| sf_datagram := d; sf_extconnect := e; sf_other := o |}.

Inductive h3frame :=
| H3Data (l : N)
| H3Headers (l : N)
| H3Settings (s : h3settings).

Inductive h3err :=
| H3EOF                        (* io.EOF: the reader ran dry - between two frames, or (control streams / first frame of a
                                  response, bodyStream = false) anywhere *)
| H3UnexpectedEOF              (* io.ErrUnexpectedEOF: a message-body stream (bodyStream = true) ended inside a frame *)
| H3Reserved (t : N)           (* "http3: reserved frame type" + conn.CloseWithError(H3_FRAME_UNEXPECTED) *)
| H3SettingsTooLarge (l : N)   (* "unexpected size for SETTINGS frame" *)
| H3DupSetting (id : N)        (* "duplicate setting" *)
| H3BadSettingValue (id v : N) (* "invalid value for SETTINGS_..." *).

Inductive h3res (A : Type) := H3Ok (a : A) | H3Err (e : h3err).
Arguments H3Ok {A} _.
Arguments H3Err {A} _.

Fixpoint memN (x : N) (l : list N) : bool :=
  match l with [] => false | y :: r => (x =? y) || memN x r end.
Fixpoint assocN (x : N) (l : list (N * N)) : option N :=
  match l with [] => None | (k, v) :: r => if k =? x then Some v else assocN x r end.

(* the loop of parseSettingsFrame over the payload; rd / rx = readDatagram / readExtendedConnect.
   Other is kept in insertion order.  fuel >= length of the payload is enough (every turn eats
   at least two bytes). *)
Fixpoint h3_settings_loop (fuel : nat) (b : bytes) (rd rx : bool) (acc : h3settings) : h3res h3settings :=
  match b with
  | [] => H3Ok acc
  | _ =>
    match fuel with
    | O => H3Err H3EOF
    | S f =>
      match vi_read b with
      | None => H3Err H3EOF
      | Some (id, b1) =>
        match vi_read b1 with
        | None => H3Err H3EOF
        | Some (v, b2) =>
          if id =? settingExtendedConnect then
            if rx then H3Err (H3DupSetting id)
            else if negb ((v =? 0) || (v =? 1)) then H3Err (H3BadSettingValue id v)
            else h3_settings_loop f b2 rd true (mk_settings (sf_datagram acc) (v =? 1) (sf_other acc))
          else if id =? settingDatagram then
            if rd then H3Err (H3DupSetting id)
            else if negb ((v =? 0) || (v =? 1)) then H3Err (H3BadSettingValue id v)
            else h3_settings_loop f b2 true rx (mk_settings (v =? 1) (sf_extconnect acc) (sf_other acc))
          else
            match assocN id (sf_other acc) with
            | Some _ => H3Err (H3DupSetting id)
            | None => h3_settings_loop f b2 rd rx
                        (mk_settings (sf_datagram acc) (sf_extconnect acc) (sf_other acc ++ [(id, v)]))
            end
        end
      end
    end
  end.

Definition h3_parse_settings_payload (p : bytes) : h3res h3settings :=
  h3_settings_loop (length p) p false false (mk_settings false false []).

(* parseSettingsFrame(r, l) on a reader holding input: result and what is left in the reader *)
Definition h3_parse_settings_frame (input : bytes) (l : N) : h3res h3frame * bytes :=
  if h3SettingsMaxLen <? l then (H3Err (H3SettingsTooLarge l), input)
  else if lenN input <? l then (H3Err H3EOF, [])        (* io.ReadFull: EOF / ErrUnexpectedEOF -> EOF *)
  else
    match h3_parse_settings_payload (firstn (N.to_nat l) input) with
    | H3Ok s => (H3Ok (H3Settings s), skipn (N.to_nat l) input)
    | H3Err e => (H3Err e, skipn (N.to_nat l) input)
    end.

(* frameParser.truncated: the error for a stream that ended inside a frame *)
Definition trunc_err (body : bool) : h3err := if body then H3UnexpectedEOF else H3EOF.

(* the SETTINGS arm of ParseNext (after /repo 1ee29a3): parseSettingsFrame reports its own short
   read - and a varint torn inside the payload - as io.EOF; that is a truncated frame like any other *)
Definition h3_settings_arm (body : bool) (x : h3res h3frame * bytes) : h3res h3frame * bytes :=
  match x with
  | (H3Err H3EOF, r) => (H3Err (trunc_err body), r)
  | _ => x
  end.

(* frameParser.ParseNext (body = the bodyStream flag): result and what is left in the reader (for
   DATA / HEADERS the payload is NOT consumed).  One turn per frame skipped; the byte counter that
   tells "ended between two frames" from "ended inside the frame type" starts afresh every turn. *)
Fixpoint h3_parse_next_fuel (body : bool) (fuel : nat) (input : bytes) : h3res h3frame * bytes :=
  match fuel with
  | O => (H3Err H3EOF, [])
  | S f =>
    match vi_read input with
    | None => (H3Err (match input with [] => H3EOF | _ => trunc_err body end), [])
    | Some (t, r1) =>
      match vi_read r1 with
      | None => (H3Err (trunc_err body), [])
      | Some (l, r2) =>
        if t =? h3FrameData then (H3Ok (H3Data l), r2)
        else if t =? h3FrameHeaders then (H3Ok (H3Headers l), r2)
        else if t =? h3FrameSettings then h3_settings_arm body (h3_parse_settings_frame r2 l)
        else if memN t h3ReservedTypes then (H3Err (H3Reserved t), r2)
        else if lenN r2 <? l then (H3Err (trunc_err body), [])        (* io.CopyN: short -> io.EOF -> truncated *)
        else h3_parse_next_fuel body f (skipn (N.to_nat l) r2)
      end
    end
  end.
Definition h3_parse_next_b (body : bool) (input : bytes) : h3res h3frame * bytes :=
  h3_parse_next_fuel body (S (length input)) input.
(* control streams and the first frame of a response *)
Definition h3_parse_next (input : bytes) : h3res h3frame * bytes := h3_parse_next_b false input.

(* ---- writers ---- *)
Definition opt_app (a b : option bytes) : option bytes :=
  match a, b with Some x, Some y => Some (x ++ y) | _, _ => None end.
Definition opt_add (a b : option N) : option N :=
  match a, b with Some x, Some y => Some (x + y) | _, _ => None end.

(* dataFrame.Append / headersFrame.Append: type, length *)
Definition h3_frame_header (t l : N) : option bytes := opt_app (vi_append t) (vi_append l).
Definition h3_data_frame_header (l : N) := h3_frame_header h3FrameData l.
Definition h3_headers_frame_header (l : N) := h3_frame_header h3FrameHeaders l.

Definition h3_pair_bytes (p : N * N) : option bytes := opt_app (vi_append (fst p)) (vi_append (snd p)).
Definition h3_pair_len (p : N * N) : option N := opt_add (vi_len (fst p)) (vi_len (snd p)).
Fixpoint h3_pairs_bytes (l : list (N * N)) : option bytes :=
  match l with [] => Some [] | p :: r => opt_app (h3_pair_bytes p) (h3_pairs_bytes r) end.
Fixpoint h3_pairs_len (l : list (N * N)) : option N :=
  match l with [] => Some 0 | p :: r => opt_add (h3_pair_len p) (h3_pairs_len r) end.

(* the two recognised settings as written by Append (value 1, only when set) *)
Definition h3_fixed_pairs (d e : bool) : list (N * N) :=
  (if d then [(settingDatagram, 1)] else []) ++ (if e then [(settingExtendedConnect, 1)] else []).

(* settingsFrame.Append with the map iterated in the order `order` (Go leaves it unspecified; the
   two range loops of one call need not agree, the sum does not depend on it) *)
Definition h3_settings_payload (d e : bool) (order : list (N * N)) : option bytes :=
  h3_pairs_bytes (h3_fixed_pairs d e ++ order).
Definition h3_settings_len (d e : bool) (order : list (N * N)) : option N :=
  h3_pairs_len (h3_fixed_pairs d e ++ order).
Definition h3_settings_append (d e : bool) (order : list (N * N)) : option bytes :=
  match h3_settings_len d e order with
  | None => None
  | Some l => opt_app (opt_app (vi_append h3FrameSettings) (vi_append l)) (h3_settings_payload d e order)
  end.

(* ================= field sections ================= *)

Definition field := (bytes * bytes)%type.

(* httpguts.isTokenTable *)
Definition is_token_byte (b : byte) : bool :=
  is_alpha b || is_digit b ||
  mem_byte b (bs "!#$%&'*+-.^_`|~").
(* httpguts.ValidHeaderFieldName *)
Definition valid_field_name (s : bytes) : bool :=
  match s with [] => false | _ => forallb is_token_byte s end.
(* httpguts.ValidHeaderFieldValue: no CTL except HTAB (bytes >= 0x80 pass) *)
Definition valid_value_byte (b : byte) : bool :=
  ((32 <=? bN b) && negb (bN b =? 127)) || (bN b =? 9).
Definition valid_field_value (s : bytes) : bool := forallb valid_value_byte s.
(* qpack.HeaderField.IsPseudo *)
Definition is_pseudo (name : bytes) : bool :=
  match name with c :: _ => beqb c ":"%byte | [] => false end.
Definition is_ascii (s : bytes) : bool := forallb (fun b => bN b <? 128) s.
Fixpoint mem_bytes (x : bytes) (l : list bytes) : bool :=
  match l with [] => false | y :: r => bytes_eqb x y || mem_bytes x r end.
Fixpoint assoc_bytes {A} (x : bytes) (l : list (bytes * A)) : option A :=
  match l with [] => None | (k, v) :: r => if bytes_eqb k x then Some v else assoc_bytes x r end.

(* textproto.CanonicalMIMEHeaderKey: a name made of token bytes gets an upper-case letter at the
   start and after every '-', lower-case elsewhere; anything else is left alone *)
Fixpoint canon_go (upper : bool) (s : bytes) : bytes :=
  match s with
  | [] => []
  | c :: r => let c' := if upper then upper_byte c else lower_byte c in
              c' :: canon_go (beqb c' "-"%byte) r
  end.
Definition canon_key (s : bytes) : bytes := if forallb is_token_byte s then canon_go true s else s.

(* http.Header as an association list in first-insertion order *)
Definition hmap := list (bytes * list bytes).
Fixpoint hmap_add (k v : bytes) (m : hmap) : hmap :=
  match m with
  | [] => [(k, [v])]
  | (k', vs) :: r => if bytes_eqb k' k then (k', vs ++ [v]) :: r else (k', vs) :: hmap_add k v r
  end.
Fixpoint hmap_set (k v : bytes) (m : hmap) : hmap :=
  match m with
  | [] => [(k, [v])]
  | (k', vs) :: r => if bytes_eqb k' k then (k', [v]) :: r else (k', vs) :: hmap_set k v r
  end.
Definition header_add (name v : bytes) (m : hmap) : hmap := hmap_add (canon_key name) v m.

Record h3header := {
  hd_path : bytes; hd_method : bytes; hd_authority : bytes; hd_scheme : bytes; hd_status : bytes;
  hd_protocol : bytes;
  hd_cl : option N;            (* ContentLength; None = -1 *)
  hd_headers : hmap }.

Inductive hderr :=
| HNonAsciiName       (* a field name with a byte >= 0x80: always refused, by one of the checks below
                         (which one depends on Unicode case tables the model does not carry) *)
| HNotLower | HBadValue | HPseudoAfterRegular | HUnknownPseudo | HWrongPseudo | HBadName | HBadTE
| HContradictingCL | HInvalidCL | HMissingStatus | HInvalidStatus | HPseudoInTrailer.

Inductive hres (A : Type) := HOk (a : A) | HErr (e : hderr).
Arguments HOk {A} _.
Arguments HErr {A} _.

Definition hd_empty : h3header :=
  {| hd_path := []; hd_method := []; hd_authority := []; hd_scheme := []; hd_status := [];
     hd_protocol := []; hd_cl := None; hd_headers := [] |}.

Definition set_pseudo (p : h3pseudo) (v : bytes) (h : h3header) : h3header :=
  match p with
  | PsPath => {| hd_path := v; hd_method := hd_method h; hd_authority := hd_authority h; hd_scheme := hd_scheme h;
                 hd_status := hd_status h; hd_protocol := hd_protocol h; hd_cl := hd_cl h; hd_headers := hd_headers h |}
  | PsMethod => {| hd_path := hd_path h; hd_method := v; hd_authority := hd_authority h; hd_scheme := hd_scheme h;
                 hd_status := hd_status h; hd_protocol := hd_protocol h; hd_cl := hd_cl h; hd_headers := hd_headers h |}
  | PsAuthority => {| hd_path := hd_path h; hd_method := hd_method h; hd_authority := v; hd_scheme := hd_scheme h;
                 hd_status := hd_status h; hd_protocol := hd_protocol h; hd_cl := hd_cl h; hd_headers := hd_headers h |}
  | PsScheme => {| hd_path := hd_path h; hd_method := hd_method h; hd_authority := hd_authority h; hd_scheme := v;
                 hd_status := hd_status h; hd_protocol := hd_protocol h; hd_cl := hd_cl h; hd_headers := hd_headers h |}
  | PsStatus => {| hd_path := hd_path h; hd_method := hd_method h; hd_authority := hd_authority h; hd_scheme := hd_scheme h;
                 hd_status := v; hd_protocol := hd_protocol h; hd_cl := hd_cl h; hd_headers := hd_headers h |}
  | PsProtocol => {| hd_path := hd_path h; hd_method := hd_method h; hd_authority := hd_authority h; hd_scheme := hd_scheme h;
                 hd_status := hd_status h; hd_protocol := v; hd_cl := hd_cl h; hd_headers := hd_headers h |}
  end.
Definition set_headers (m : hmap) (h : h3header) : h3header :=
  {| hd_path := hd_path h; hd_method := hd_method h; hd_authority := hd_authority h; hd_scheme := hd_scheme h;
     hd_status := hd_status h; hd_protocol := hd_protocol h; hd_cl := hd_cl h; hd_headers := m |}.
Definition set_cl (c : option N) (h : h3header) : h3header :=
  {| hd_path := hd_path h; hd_method := hd_method h; hd_authority := hd_authority h; hd_scheme := hd_scheme h;
     hd_status := hd_status h; hd_protocol := hd_protocol h; hd_cl := c; hd_headers := hd_headers h |}.

Definition name_te := bs "te".
Definition value_trailers := bs "trailers".
Definition name_content_length := bs "content-length".
Definition key_content_length := bs "Content-Length".

(* loop state of parseHeaders: readFirstRegularHeader, (readContentLength, contentLengthStr), hdr *)
Record hstate := { hs_regular : bool; hs_cl : option bytes; hs_hdr : h3header }.

(* one turn of the loop *)
Definition h3_header_step (is_request : bool) (st : hstate) (f : field) : hres hstate :=
  let '(name, value) := f in
  if negb (is_ascii name) then HErr HNonAsciiName
  else if existsb is_upper name then HErr HNotLower          (* strings.ToLower(name) != name *)
  else if negb (valid_field_value value) then HErr HBadValue
  else if is_pseudo name then
    if hs_regular st then HErr HPseudoAfterRegular
    else match assoc_bytes name h3PseudoTable with
         | None => HErr HUnknownPseudo
         | Some (p, is_resp) =>
             if Bool.eqb is_request is_resp then HErr HWrongPseudo
             else HOk {| hs_regular := hs_regular st; hs_cl := hs_cl st; hs_hdr := set_pseudo p value (hs_hdr st) |}
         end
  else if negb (valid_field_name name) then HErr HBadName
  else if mem_bytes name h3InvalidHeaderFields then HErr HBadName
  else if bytes_eqb name name_te && negb (bytes_eqb value value_trailers) then HErr HBadTE
  else if bytes_eqb name name_content_length then
    match hs_cl st with
    | None => HOk {| hs_regular := true; hs_cl := Some value; hs_hdr := hs_hdr st |}
    | Some c => if bytes_eqb c value then HOk {| hs_regular := true; hs_cl := hs_cl st; hs_hdr := hs_hdr st |}
                else HErr HContradictingCL
    end
  else HOk {| hs_regular := true; hs_cl := hs_cl st;
              hs_hdr := set_headers (header_add name value (hd_headers (hs_hdr st))) (hs_hdr st) |}.

Fixpoint h3_header_loop (is_request : bool) (st : hstate) (fs : list field) : hres hstate :=
  match fs with
  | [] => HOk st
  | f :: r => match h3_header_step is_request st f with
              | HErr e => HErr e
              | HOk st' => h3_header_loop is_request st' r
              end
  end.

(* strconv.ParseUint(s, 10, 63) on a non-empty string: digits only, value < 2^63 *)
Definition dec_value (s : bytes) : N := fold_left (fun a b => a * 10 + (bN b - 48)) s 0.
Definition parse_uint63 (s : bytes) : option N :=
  match s with
  | [] => None
  | _ => if forallb is_digit s then
           let v := dec_value s in if v <? 2 ^ 63 then Some v else None
         else None
  end.

Definition h3_parse_headers (is_request : bool) (fs : list field) : hres h3header :=
  match h3_header_loop is_request {| hs_regular := false; hs_cl := None; hs_hdr := hd_empty |} fs with
  | HErr e => HErr e
  | HOk st =>
      match hs_cl st with
      | None | Some [] => HOk (hs_hdr st)                      (* len(contentLengthStr) == 0 *)
      | Some c =>
          match parse_uint63 c with
          | None => HErr HInvalidCL
          | Some v => HOk (set_cl (Some v) (set_headers (hmap_set key_content_length c (hd_headers (hs_hdr st))) (hs_hdr st)))
          end
      end
  end.

(* parseTrailers (after the fix: the §4.2 checks of parseHeaders, then no pseudo-header fields) *)
Definition h3_trailer_field_check (f : field) : option hderr :=
  let '(name, value) := f in
  if negb (is_ascii name) then Some HNonAsciiName
  else if existsb is_upper name then Some HNotLower
  else if negb (valid_field_value value) then Some HBadValue
  else if is_pseudo name then Some HPseudoInTrailer
  else if negb (valid_field_name name) then Some HBadName
  else if mem_bytes name h3InvalidHeaderFields then Some HBadName
  else if bytes_eqb name name_te && negb (bytes_eqb value value_trailers) then Some HBadTE
  else None.
Fixpoint h3_parse_trailers_from (m : hmap) (fs : list field) : hres hmap :=
  match fs with
  | [] => HOk m
  | f :: r => match h3_trailer_field_check f with
              | Some e => HErr e
              | None => h3_parse_trailers_from (header_add (fst f) (snd f) m) r
              end
  end.
Definition h3_parse_trailers (fs : list field) : hres hmap := h3_parse_trailers_from [] fs.

(* the pinned parseTrailers (= quic-go v0.48.2): pseudo-header fields refused, everything else -
   upper-case names, control characters, connection-specific fields - added as is *)
Fixpoint h3_parse_trailers_pinned_from (m : hmap) (fs : list field) : hres hmap :=
  match fs with
  | [] => HOk m
  | (name, value) :: r => if is_pseudo name then HErr HPseudoInTrailer
                          else h3_parse_trailers_pinned_from (header_add name value m) r
  end.
Definition h3_parse_trailers_pinned (fs : list field) : hres hmap := h3_parse_trailers_pinned_from [] fs.

(* strconv.Atoi: optional sign, decimal digits, the value fits an int64 *)
Definition go_atoi (s : bytes) : option Z :=
  let '(neg, digits) :=
    match s with
    | c :: r => if beqb c "-"%byte then (true, r) else if beqb c "+"%byte then (false, r) else (false, s)
    | [] => (false, [])
    end in
  match digits with
  | [] => None
  | _ => if forallb is_digit digits then
           let v := dec_value digits in
           if neg then (if v <=? 2 ^ 63 then Some (- Z.of_N v)%Z else None)
           else (if v <? 2 ^ 63 then Some (Z.of_N v) else None)
         else None
  end.

(* updateResponseFromHeaders up to StatusCode: the header struct and the status code *)
Definition h3_response (fs : list field) : hres (h3header * Z) :=
  match h3_parse_headers false fs with
  | HErr e => HErr e
  | HOk h =>
      match hd_status h with
      | [] => HErr HMissingStatus
      | s => match go_atoi s with None => HErr HInvalidStatus | Some c => HOk (h, c) end
      end
  end.
