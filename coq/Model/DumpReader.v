(* Model/DumpReader.v - C13: the response-header line reader with and without dump.

   Go: bufio.Reader.ReadSlice / ReadLine (Go 1.23.5 bufio.go) and the dumping readLine closure of
   newTextprotoReader (textproto_reader.go), readLineSlice, and the header-block loop.

   A bufio.Reader of size n over an underlying reader that delivers the stream s and then EOF
   (EOF reported by a separate Read, as net.Conn and bytes.Reader do) is the pair (n, s):
   ReadSlice('\n') finds the delimiter iff it is among the first n unread bytes, reports
   ErrBufferFull iff at least n bytes without delimiter are unread, and otherwise returns what
   is left with EOF.  (fill() slides unread data to the start of the buffer, so the outcome
   does not depend on how the underlying reads were chunked.)  No proofs here. *)
From ReqV Require Export Lib.Bytes.

Definition LF : byte := x0a.
Definition CR : byte := x0d.

Inductive rerr := RNone | REOF | RBufFull.
Definition rerr_eqb (a b : rerr) : bool :=
  match a, b with RNone, RNone | REOF, REOF | RBufFull, RBufFull => true | _, _ => false end.

(* ReadSlice('\n'): (line, rest of the stream, error) *)
Definition read_slice (n : nat) (s : bytes) : bytes * bytes * rerr :=
  match index_byte LF (firstn n s) with
  | Some i => (firstn (S i) s, skipn (S i) s, RNone)
  | None => if Nat.leb n (length s) then (firstn n s, skipn n s, RBufFull) else (s, [], REOF)
  end.

(* drop a final "\n" or "\r\n" *)
Definition drop_eol (line : bytes) : bytes :=
  match rev line with
  | x :: r1 =>
      if beqb x LF then
        match r1 with
        | y :: r2 => if beqb y CR then rev r2 else rev r1
        | [] => []
        end
      else line
  | [] => line
  end.

(* one readLine result *)
Record rl := mkRl {
  rl_line : bytes; rl_prefix : bool; rl_err : rerr;
  rl_rest : bytes;      (* unread stream afterwards *)
  rl_dumped : bytes }.  (* what was handed to DumpResponseHeader by this call *)

(* bufio.Reader.ReadLine: on ErrBufferFull a trailing '\r' is put back (b.r--) so that a
   "\r\n" straddling the buffer edge is still recognised; isPrefix = true *)
Definition read_line_plain (n : nat) (s : bytes) : rl :=
  let '(line, rest, e) := read_slice n s in
  match e with
  | RBufFull =>
      match rev line with
      | x :: r1 => if beqb x CR then mkRl (rev r1) true RNone (CR :: rest) []
                   else mkRl line true RNone rest []
      | [] => mkRl line true RNone rest []
      end
  | _ =>
      match line with
      | [] => mkRl [] false e rest []
      | _ => mkRl (drop_eol line) false RNone rest []
      end
  end.

(* the dumping closure, as repaired (fix 5ef6c8f): same control flow as bufio.ReadLine, every fragment that is
   returned is first handed to the dumpers with its line ending; a put-back '\r' is dumped by
   the next call *)
Definition read_line_dump (n : nat) (s : bytes) : rl :=
  let '(line, rest, e) := read_slice n s in
  match e with
  | RBufFull =>
      match rev line with
      | x :: r1 => if beqb x CR then mkRl (rev r1) true RNone (CR :: rest) (rev r1)
                   else mkRl line true RNone rest line
      | [] => mkRl line true RNone rest line
      end
  | _ =>
      match line with
      | [] => mkRl [] false e rest []
      | _ => mkRl (drop_eol line) false RNone rest line
      end
  end.

(* the pinned closure: ErrBufferFull is swallowed (err = nil), isPrefix is never set *)
Definition read_line_dump_pinned (n : nat) (s : bytes) : rl :=
  let '(line, rest, e) := read_slice n s in
  match line with
  | [] => mkRl [] false e rest []
  | _ => mkRl (drop_eol line) false RNone rest line
  end.

Definition read_line (dumping : bool) : nat -> bytes -> rl :=
  if dumping then read_line_dump else read_line_plain.

(* textprotoReader.readLineSlice(-1): join fragments while isPrefix.  fuel bounds the number
   of readLine calls (every call with isPrefix consumes at least one byte when n >= 2). *)
Inductive lres := LLine (line : bytes) | LErr (e : rerr) | LFuel.

Definition push_frag (dumped : list bytes) (d : bytes) : list bytes :=
  match d with [] => dumped | _ => dumped ++ [d] end.

Fixpoint read_logical (rlf : nat -> bytes -> rl) (n : nat) (fuel : nat) (acc : bytes) (s : bytes)
                      (dumped : list bytes) : lres * bytes * list bytes :=
  match fuel with
  | O => (LFuel, s, dumped)
  | S f =>
      let r := rlf n s in
      let dumped' := push_frag dumped (rl_dumped r) in
      match rl_err r with
      | RNone =>
          if rl_prefix r then read_logical rlf n f (acc ++ rl_line r) (rl_rest r) dumped'
          else (LLine (acc ++ rl_line r), rl_rest r, dumped')
      | e => (LErr e, rl_rest r, dumped')
      end
  end.

(* the header block: logical lines up to and including the blank line (status line first);
   result: lines read, how it ended, unread stream, fragments dumped *)
Inductive bend := BBlank | BErr (e : rerr) | BFuel.

Fixpoint read_block (rlf : nat -> bytes -> rl) (n : nat) (fuel : nat) (s : bytes)
                    (lines : list bytes) (dumped : list bytes)
                    : list bytes * bend * bytes * list bytes :=
  match fuel with
  | O => (lines, BFuel, s, dumped)
  | S f =>
      match read_logical rlf n (S (length s)) [] s dumped with
      | (LLine [], rest, d) => (lines, BBlank, rest, d)
      | (LLine l, rest, d) => read_block rlf n f rest (lines ++ [l]) d
      | (LErr e, rest, d) => (lines, BErr e, rest, d)
      | (LFuel, rest, d) => (lines, BFuel, rest, d)
      end
  end.

(* repeated readLine calls as the harness hook VerifC13ReadLines makes them: until an error
   or max calls *)
Fixpoint read_lines (rlf : nat -> bytes -> rl) (n : nat) (max : nat) (s : bytes) : list rl :=
  match max with
  | O => []
  | S m =>
      let r := rlf n s in
      match rl_err r with
      | RNone => r :: read_lines rlf n m (rl_rest r)
      | _ => [r]
      end
  end.
