(* Model/HeaderAbandon.v - C16: a request that is given up or whose stream fails, followed by others
   on the same connection.
   HTTP/2 (clientStream.encodeAndWriteHeaders): "was the request cancelled meanwhile?" is asked
   BEFORE cc.encodeHeaders runs the connection's HPACK encoder; a request that is given up there
   leaves no trace; one that is given up later has its header block written all the same (the stream
   is reset afterwards), so the peer's decoder table follows the encoder's.
   HTTP/3 (requestWriter.writeHeaders): the field section is built in the connection-wide headerBuf,
   which is emptied when writeHeaders returns - also when the Write to the stream failed. *)
From ReqV Require Export Model.HeaderSeq.

Section H2Abandon.
  Context {T B : Type}.
  Variable enc : T -> list line -> B * T.
  Variable dec : T -> B -> option (list line) * T.

  (* [gone] = the request is given up before its headers are encoded *)
  Definition h2_step_fate (max : option N) (t : T) (qf : creq * bool) : option B * T :=
    if snd qf then (None, t) else h2_client_step enc max t (fst qf).

  (* the check moved behind encodeHeaders: the fields have been through the encoder, the block is dropped *)
  Definition h2_step_fate_late (max : option N) (t : T) (qf : creq * bool) : option B * T :=
    if h2_refused max (fst qf) then (None, t)
    else let bt := enc t (h2_lines (fst qf)) in
         if snd qf then (None, snd bt) else (Some (fst bt), snd bt).

  (* a connection: what the peer decodes, and both tables at the end *)
  Fixpoint h2_run (step : option N -> T -> creq * bool -> option B * T) (max : option N)
           (te td : T) (qfs : list (creq * bool)) : list (option (list line)) * T * T :=
    match qfs with
    | [] => ([], te, td)
    | qf :: r =>
        match step max te qf with
        | (None, te') => h2_run step max te' td r
        | (Some b, te') =>
            let od := dec td b in
            let '(ds, te'', td'') := h2_run step max te' (snd od) r in
            (fst od :: ds, te'', td'')
        end
    end.
End H2Abandon.

(* ---------- HTTP/3: the connection-wide header buffer ---------- *)
Section H3Writer.
  Variable sec : creq -> bytes.        (* the QPACK field section of a request (stateless encoder) *)
  Variable frame : bytes -> bytes.     (* HEADERS frame around a field section *)

  (* one writeHeaders: the section is appended to the buffer, the frame over the buffer's content is
     handed to the stream, the buffer is emptied on the way out (deferred) whether or not the Write
     succeeded *)
  Definition h3w_step (buf : bytes) (q : creq) (ok : bool) : option bytes * bytes :=
    let b := buf ++ sec q in ((if ok then Some (frame b) else None), []).

  (* clean-up only after a successful Write *)
  Definition h3w_step_leaky (buf : bytes) (q : creq) (ok : bool) : option bytes * bytes :=
    let b := buf ++ sec q in if ok then (Some (frame b), []) else (None, b).

  Fixpoint h3w_session (step : bytes -> creq -> bool -> option bytes * bytes) (buf : bytes)
           (reqs : list (creq * bool)) : list (option bytes) :=
    match reqs with
    | [] => []
    | (q, ok) :: r => let ob := step buf q ok in fst ob :: h3w_session step (snd ob) r
    end.
End H3Writer.
