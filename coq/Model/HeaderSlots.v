(* Model/HeaderSlots.v - the pre-allocated value slots of the HTTP/1.1 header reader (C07).

   Go code modelled: textproto_reader.go readMIMEHeader
       hint := r.upcomingHeaderKeys()          // header lines ALREADY BUFFERED: an estimate that depends
       if hint > 0 { strs = make([]string, hint) }   // on segmentation and on the read buffer size
       ... for every line:
       vv := m[key]
       if vv == nil && len(strs) > 0 { vv, strs = strs[:1:1], strs[1:]; vv[0] = value; m[key] = vv }
       else { m[key] = append(vv, value) }
   The slice of slots is modelled by its length; taking a slot from an empty slice is the Go
   runtime's slice-bounds panic: [None].  [guard_len] = true is the code (`len(strs) > 0`), false the
   variant that tests the hint instead.  No proofs here. *)
From ReqV Require Export Lib.Bytes Model.H1Resp.

Definition slot_step (guard_len : bool) (hint slots : nat) (m : hmap) (k v : bytes) : option (nat * hmap) :=
  match hget k m with
  | None =>
      if (if guard_len then 0 <? slots else 0 <? hint) then
        match slots with
        | O => None                                   (* strs[:1:1] on an empty slice *)
        | S s' => Some (s', hset k [v] m)
        end
      else Some (slots, hadd k v m)
  | Some _ => Some (slots, hadd k v m)
  end.

Fixpoint slot_run (guard_len : bool) (hint slots : nat) (m : hmap) (lines : list (bytes * bytes))
  : option (nat * hmap) :=
  match lines with
  | [] => Some (slots, m)
  | (k, v) :: r =>
      match slot_step guard_len hint slots m k v with
      | None => None
      | Some (s', m') => slot_run guard_len hint s' m' r
      end
  end.

(* readMIMEHeader's map for the canonicalised lines, the slots sized by [hint] *)
Definition header_map_hinted (hint : nat) (lines : list (bytes * bytes)) : option hmap :=
  match slot_run true hint hint [] lines with Some (_, m) => Some m | None => None end.

(* the map without any slot business: what Model/H1Resp.mime_loop builds *)
Definition header_map_plain (lines : list (bytes * bytes)) : hmap :=
  fold_left (fun m kv => hadd (fst kv) (snd kv) m) lines [].
