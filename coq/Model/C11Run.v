(* Model/C11Run.v - case type and checker evaluated on harness-generated cases (C11) *)
From ReqV Require Export Lib.Bytes Model.Authority Model.Redirect Model.RedirectClient.

(* the header names the harness plays with (short constants keep the case files small) *)
Definition hAuth : bytes := bs "Authorization".
Definition hWww : bytes := bs "Www-Authenticate".
Definition hCookie : bytes := bs "Cookie".
Definition hCookie2 : bytes := bs "Cookie2".
Definition hToken : bytes := bs "X-Token".
(* the five counts in that order (compact form used by the case files) *)
Definition H (l : list nat) : hdrs := combine [hAuth; hWww; hCookie; hCookie2; hToken] l.

Inductive c11_case :=
| HostCase (input obs_hostname obs_domain : bytes)
(* net.SplitHostPort itself (stdlib, hand model): Some (host, port) or None for an error *)
| ShpCase (input : bytes) (obs : option (bytes * bytes))
| PolicyCase (p : policy) (target : bytes) (via : list bytes) (obs_allowed : bool)
| ChainCase (ps : list policy) (init : bytes) (hs : hdrs) (targets : list bytes)
            (obs_sent : list (bytes * hdrs)) (obs_refused : bool)
(* a sequence of client operations (req.C / SetRedirectPolicy / Clone / request); one observation
   per request, in order *)
| ClientCase (ops : list cop) (obs : list (list (bytes * hdrs) * bool))
(* several chains in flight through ONE client; [sched] = the order in which the harness let the
   responses (hence the CheckRedirect evaluations) happen; one observation per chain *)
| ConcCase (ps : list policy) (chains : list (bytes * hdrs * list bytes)) (sched : list nat)
           (obs : list (list (bytes * hdrs) * bool))
(* one operation in which the client issues several requests for one named URL (retry attempts;
   HEAD + segments of a parallel download); one observation per request made *)
| ReissueCase (ps : list policy) (init : bytes) (hs : hdrs) (scripts : list (list bytes))
              (obs : list (list (bytes * hdrs) * bool))
(* a call with digest auth whose chain, when it completes, ends in a 401 + Digest challenge: every
   request the origin saw, the re-send included *)
| DigestCase (ps : list policy) (init : bytes) (hs : hdrs) (targets : list bytes)
             (obs_sent : list (bytes * hdrs)) (obs_refused : bool).

(* Host header as net/http writes it: an empty port is dropped ("h:" -> "h") *)
Definition drop_empty_port (h : bytes) : bytes :=
  match rev h with
  | b :: r => if beqb b colon then rev r else h
  | [] => h
  end.

Definition hdr_eqb (a b : bytes * nat) : bool := bytes_eqb (fst a) (fst b) && Nat.eqb (snd a) (snd b).

Definition sent_eqb (a : sent) (b : bytes * hdrs) : bool :=
  bytes_eqb (drop_empty_port (s_host a)) (drop_empty_port (fst b)) &&
  list_eqb hdr_eqb (s_hdrs a) (snd b).

Definition outcome_eqb (o : list sent * chain_end) (b : list (bytes * hdrs) * bool) : bool :=
  list_eqb sent_eqb (fst o) (fst b) &&
  Bool.eqb (match snd o with Refused => true | Completed => false end) (snd b).

Definition c11_check (c : c11_case) : bool :=
  match c with
  | HostCase i h d => bytes_eqb (get_hostname i) h && bytes_eqb (get_domain i) d
  | ShpCase i obs =>
      match split_host_port i, obs with
      | ShpOk h p, Some (h', p') => bytes_eqb h h' && bytes_eqb p p'
      | ShpErr, None => true
      | _, _ => false
      end
  | PolicyCase p t via a => Bool.eqb (permits p t via) a
  | ChainCase ps init hs ts obs refused =>
      let '(l, e) := run_chain ps init hs ts in
      list_eqb sent_eqb l obs &&
      Bool.eqb (match e with Refused => true | Completed => false end) refused
  | ClientCase ops obs => list_eqb outcome_eqb (snd (crun [] ops)) obs
  | ConcCase ps chains sched obs =>
      list_eqb (fun k o => match chain_result k with
                           | (l, Some e) => outcome_eqb (l, e) o
                           | (_, None) => false      (* the harness plays every chain to its end *)
                           end)
               (run_sched ps sched (map (fun c => chain_start (fst (fst c)) (snd (fst c)) (snd c)) chains)) obs
  | ReissueCase ps init hs scripts obs => list_eqb outcome_eqb (reissue ps init hs scripts) obs
  | DigestCase ps init hs ts obs refused => outcome_eqb (digest_call ps init hs ts) (obs, refused)
  end.
