(* Model/C11Run.v - case type and checker evaluated on harness-generated cases (C11) *)
From ReqV Require Export Lib.Bytes Model.Authority Model.Redirect.

Inductive c11_case :=
| HostCase (input obs_hostname obs_domain : bytes)
| PolicyCase (p : policy) (target : bytes) (via : list bytes) (obs_allowed : bool)
| ChainCase (ps : list policy) (init : bytes) (targets : list bytes)
            (obs_sent : list (bytes * (nat * nat))) (obs_refused : bool).

(* Host header as net/http writes it: an empty port is dropped ("h:" -> "h") *)
Definition drop_empty_port (h : bytes) : bytes :=
  match rev h with
  | b :: r => if beqb b colon then rev r else h
  | [] => h
  end.

Definition sent_eqb (a : sent) (b : bytes * (nat * nat)) : bool :=
  bytes_eqb (drop_empty_port (s_host a)) (drop_empty_port (fst b)) &&
  Nat.eqb (s_auth a) (fst (snd b)) && Nat.eqb (s_cookie a) (snd (snd b)).

Definition c11_check (c : c11_case) : bool :=
  match c with
  | HostCase i h d => bytes_eqb (get_hostname i) h && bytes_eqb (get_domain i) d
  | PolicyCase p t via a => Bool.eqb (permits p t via) a
  | ChainCase ps init ts obs refused =>
      let '(l, e) := run_chain ps init ts in
      list_eqb sent_eqb l obs &&
      Bool.eqb (match e with Refused => true | Completed => false end) refused
  end.
