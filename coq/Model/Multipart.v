(* Model/Multipart.v - multipart/form-data bodies (C17).  Executable, no proofs.

   Go code modelled:
     /repo  middleware.go createMultipartHeader, writeMultipartFormFile, writeMultiPart,
            handleMultiPart; req.go ContentDisposition.string (fmt %q)
     stdlib mime/multipart Writer: SetBoundary, FormDataContentType, CreatePart, CreateFormField
            (escapeQuotes), WriteField, Close                                    (go1.23)
   and, specification level, the server side: a strict reader for what the writer produces
   (delimiter search, header block, Content-Disposition parameters as mime.ParseMediaType's
   consumeValue unquotes them). *)
From ReqV Require Export Lib.Bytes.
From ReqV Require Import Gen.SniffBuf.

Definition cr : byte := x0d.
Definition lf : byte := x0a.
Definition crlf : bytes := [cr; lf].
Definition dash2 : bytes := bs "--".
Definition dquote : byte := x22.
Definition bslash : byte := x5c.
Definition colon_sp : bytes := bs ": ".

(* ---- quoting of names ---- *)

(* mime/multipart escapeQuotes: strings.NewReplacer("\\", "\\\\", `"`, "\\\"") - used by
   Writer.WriteField for field names *)
Definition escq_byte (c : byte) : bytes :=
  if beqb c bslash then [bslash; bslash]
  else if beqb c dquote then [bslash; dquote]
  else [c].
Definition escape_quotes (s : bytes) : bytes := flat_map escq_byte s.

(* strconv.Quote as fmt's %q applies it (ContentDisposition.string), byte-wise:
   exact for ASCII; bytes >= 0x80 are passed through, which is what Quote does for valid
   UTF-8 encodings of printable runes (the harness emits only such names as cases; other
   non-ASCII names are judged by the Go oracle alone). *)
Definition lowerhex : bytes := bs "0123456789abcdef".
Definition lhex (n : N) : byte := nth (N.to_nat n) lowerhex "0"%byte.
Definition is_ctl (c : byte) : bool := (bN c <? 32)%N || (bN c =? 127)%N.
Definition quote_byte (c : byte) : bytes :=
  if beqb c dquote then [bslash; dquote]
  else if beqb c bslash then [bslash; bslash]
  else if is_ctl c then
    match c with
    | x07 => bs "\a" | x08 => bs "\b" | x0c => bs "\f" | x0a => bs "\n"
    | x0d => bs "\r" | x09 => bs "\t" | x0b => bs "\v"
    | _ => [bslash; "x"%byte; lhex (bN c / 16); lhex (bN c mod 16)]
    end
  else [c].
Definition go_quote (s : bytes) : bytes := dquote :: flat_map quote_byte s ++ [dquote].

(* ---- part headers ---- *)

Definition cd_key : bytes := bs "Content-Disposition".
Definition ct_key : bytes := bs "Content-Type".

(* Writer.CreateFormField *)
Definition field_cd (name : bytes) : bytes :=
  bs "form-data; name=""" ++ escape_quotes name ++ [dquote].

(* ContentDisposition.string: "; k=%q" per pair *)
Definition cd_params (kv : list (bytes * bytes)) : bytes :=
  flat_map (fun p => bs "; " ++ fst p ++ bs "=" ++ go_quote (snd p)) kv.

(* strings.TrimSpace(s) == "" for ASCII content *)
Definition is_space_byte (c : byte) : bool :=
  beqb c " "%byte || ((9 <=? bN c)%N && (bN c <=? 13)%N).
Definition is_blank (s : bytes) : bool := forallb is_space_byte s.

Record file_upload := {
  f_param : bytes;                   (* FileUpload.ParamName *)
  f_name : bytes;                    (* FileUpload.FileName *)
  f_ctype : bytes;                   (* FileUpload.ContentType, [] = not given *)
  f_extra : list (bytes * bytes);    (* ExtraContentDisposition *)
  f_content : bytes;                 (* everything GetFileContent's reader delivers *)
  f_first : nat                      (* what the first Read(cbuf[512]) returned *)
}.

(* createMultipartHeader *)
Definition file_cd (f : file_upload) : bytes :=
  bs "form-data" ++
  cd_params ((match f_param f with [] => [] | n => [(bs "name", n)] end) ++
             (match f_name f with [] => [] | n => [(bs "filename", n)] end) ++
             f_extra f).

(* the 512-byte sniffing buffer: cbuf := make([]byte, 512); content.Read(cbuf);
   http.DetectContentType(cbuf) - the whole buffer, zero tail included *)
Definition pad512 (s : bytes) : bytes :=
  firstn sniff_buf_len s ++ repeat x00 (sniff_buf_len - length (firstn sniff_buf_len s)).
(* buffer size and "whole buffer or cbuf[:size]" are regenerated from the source (Gen/SniffBuf.v) *)
Definition sniff_input (f : file_upload) : bytes :=
  let head := firstn (f_first f) (f_content f) in
  if sniff_whole_buffer then pad512 head else head.

Section Sniff.
  (* http.DetectContentType: stdlib, supplied by the harness as a table / a variable in proofs *)
  Variable sniff : bytes -> bytes.

  Definition effective_ctype (f : file_upload) : bytes :=
    match f_ctype f with [] => sniff (sniff_input f) | ct => ct end.

  (* CreatePart sorts the keys: Content-Disposition < Content-Type *)
  Definition file_headers (f : file_upload) : list (bytes * bytes) :=
    (cd_key, file_cd f) ::
    (if is_blank (effective_ctype f) then [] else [(ct_key, effective_ctype f)]).
End Sniff.

Definition field_headers (name : bytes) : list (bytes * bytes) := [(cd_key, field_cd name)].

(* ---- the writer ---- *)

Record mpart := { p_headers : list (bytes * bytes); p_body : bytes }.

Definition render_header (h : bytes * bytes) : bytes := fst h ++ colon_sp ++ snd h ++ crlf.

Definition render_part (first : bool) (b : bytes) (p : mpart) : bytes :=
  (if first then [] else crlf) ++ dash2 ++ b ++ crlf ++
  flat_map render_header (p_headers p) ++ crlf ++ p_body p.

Fixpoint render_parts (first : bool) (b : bytes) (ps : list mpart) : bytes :=
  match ps with
  | [] => []
  | p :: r => render_part first b p ++ render_parts false b r
  end.

(* all CreatePart calls followed by Writer.Close *)
Definition render_multipart (b : bytes) (ps : list mpart) : bytes :=
  render_parts true b ps ++ crlf ++ dash2 ++ b ++ dash2 ++ crlf.

Definition field_part (kv : bytes * bytes) : mpart :=
  {| p_headers := field_headers (fst kv); p_body := snd kv |}.
Definition file_part (sniff : bytes -> bytes) (f : file_upload) : mpart :=
  {| p_headers := file_headers sniff f; p_body := f_content f |}.

(* writeMultiPart: the fields, then the files in order *)
Definition multipart_body (sniff : bytes -> bytes) (b : bytes)
           (fields : list (bytes * bytes)) (files : list file_upload) : bytes :=
  render_multipart b (map field_part fields ++ map (file_part sniff) files).

(* ---- boundary ---- *)

(* Writer.SetBoundary's acceptance test *)
Definition boundary_char (c : byte) : bool :=
  is_alpha c || is_digit c || mem_byte c (bs "'()+_,-./:=?").
Fixpoint boundary_chars (b : bytes) : bool :=
  match b with
  | [] => true
  | [c] => boundary_char c                       (* a space is not allowed at the end *)
  | c :: r => (boundary_char c || beqb c " "%byte) && boundary_chars r
  end.
Definition valid_boundary (b : bytes) : bool :=
  (1 <=? length b) && (length b <=? 70) && boundary_chars b.

(* handleMultiPart: a custom boundary is used when non-empty and accepted by SetBoundary (its
   error is ignored); otherwise the writer's random one stays *)
Definition effective_boundary (custom random : bytes) : bytes :=
  match custom with
  | [] => random
  | _ => if valid_boundary custom then custom else random
  end.

(* Writer.FormDataContentType *)
Definition needs_quote (b : bytes) : bool :=
  existsb (fun c => mem_byte c (bs "()<>@,;:\""/[]?= ")) b.
Definition form_data_content_type (b : bytes) : bytes :=
  bs "multipart/form-data; boundary=" ++
  (if needs_quote b then dquote :: b ++ [dquote] else b).

(* ---- the server side (specification level) ---- *)

(* first occurrence of d in s: (before, after) *)
Fixpoint find_delim (d s : bytes) : option (bytes * bytes) :=
  if has_prefix d s then Some ([], skipn (length d) s)
  else match s with
       | [] => None
       | x :: r => match find_delim d r with
                   | Some (a, b) => Some (x :: a, b)
                   | None => None
                   end
       end.
Definition occurs (d s : bytes) : bool :=
  match find_delim d s with Some _ => true | None => false end.

(* net/textproto validHeaderValueByte *)
Definition valid_hv (c : byte) : bool := negb (is_ctl c) || beqb c x09.

Fixpoint parse_headers (fuel : nat) (s : bytes) : option (list (bytes * bytes) * bytes) :=
  match fuel with
  | O => None
  | S f =>
      match find_delim crlf s with
      | None => None
      | Some ([], rest) => Some ([], rest)
      | Some (line, rest) =>
          if forallb valid_hv line then
            match find_delim colon_sp line with
            | None => None
            | Some (k, v) =>
                match parse_headers f rest with
                | Some (hs, r) => Some ((k, v) :: hs, r)
                | None => None
                end
            end
          else None
      end
  end.

(* s follows a delimiter line start "\r\n--boundary" *)
Fixpoint parse_after (fuel : nat) (d s : bytes) : option (list mpart) :=
  match fuel with
  | O => None
  | S f =>
      if has_prefix dash2 s then Some []
      else if has_prefix crlf s then
        let s1 := skipn 2 s in
        match parse_headers (length s1) s1 with
        | None => None
        | Some (hs, s2) =>
            match find_delim d s2 with
            | None => None
            | Some (body, s3) =>
                match parse_after f d s3 with
                | Some ps => Some ({| p_headers := hs; p_body := body |} :: ps)
                | None => None
                end
            end
        end
      else None
  end.

Definition delimiter (b : bytes) : bytes := crlf ++ dash2 ++ b.

Definition parse_multipart (b body : bytes) : option (list mpart) :=
  match find_delim (delimiter b) (crlf ++ body) with
  | Some (_, s) => parse_after (S (length body)) (delimiter b) s
  | None => None
  end.

(* Content-Disposition parameters: `form-data` then `; key="quoted-string"` repeated;
   quoted-string as mime.consumeValue reads it *)
Definition is_tspecial (c : byte) : bool := mem_byte c (bs "()<>@,;:\""/[]?=").

Fixpoint unquote (s : bytes) : option (bytes * bytes) :=   (* s follows the opening quote *)
  match s with
  | [] => None
  | c :: r =>
      if beqb c dquote then Some ([], r)
      else if beqb c bslash then
        match r with
        | e :: r' =>
            if is_tspecial e then
              match unquote r' with Some (v, t) => Some (e :: v, t) | None => None end
            else
              match unquote r with Some (v, t) => Some (c :: v, t) | None => None end
        | [] => None
        end
      else if beqb c cr || beqb c lf then None
      else match unquote r with Some (v, t) => Some (c :: v, t) | None => None end
  end.

Fixpoint parse_params (fuel : nat) (s : bytes) : option (list (bytes * bytes)) :=
  match fuel with
  | O => None
  | S f =>
      match s with
      | [] => Some []
      | _ =>
          if has_prefix (bs "; ") s then
            match find_delim (bs "=""") (skipn 2 s) with
            | None => None
            | Some (k, r) =>
                match unquote r with
                | None => None
                | Some (v, t) =>
                    match parse_params f t with
                    | Some kv => Some ((k, v) :: kv)
                    | None => None
                    end
                end
            end
          else None
      end
  end.

Definition parse_cd (v : bytes) : option (list (bytes * bytes)) :=
  if has_prefix (bs "form-data") v then parse_params (S (length v)) (skipn 9 v) else None.

Fixpoint assoc (k : bytes) (l : list (bytes * bytes)) : option bytes :=
  match l with
  | [] => None
  | (k', v) :: r => if bytes_eqb k' k then Some v else assoc k r
  end.

(* what a handler reads off one part: form name, file name, Content-Type, bytes *)
Record part_view := {
  v_name : option bytes; v_filename : option bytes; v_ctype : option bytes; v_body : bytes }.

Definition view_part (p : mpart) : option part_view :=
  match assoc cd_key (p_headers p) with
  | None => None
  | Some cd =>
      match parse_cd cd with
      | None => None
      | Some ps => Some {| v_name := assoc (bs "name") ps; v_filename := assoc (bs "filename") ps;
                           v_ctype := assoc ct_key (p_headers p); v_body := p_body p |}
      end
  end.

(* the views of what the caller supplied *)
Definition field_view (kv : bytes * bytes) : part_view :=
  {| v_name := Some (fst kv); v_filename := None; v_ctype := None; v_body := snd kv |}.
Definition file_view (sniff : bytes -> bytes) (f : file_upload) : part_view :=
  {| v_name := Some (f_param f); v_filename := Some (f_name f);
     v_ctype := if is_blank (effective_ctype sniff f) then None
                else Some (effective_ctype sniff f);
     v_body := f_content f |}.

Fixpoint map_opt {A B} (f : A -> option B) (l : list A) : option (list B) :=
  match l with
  | [] => Some []
  | x :: r => match f x, map_opt f r with
              | Some y, Some ys => Some (y :: ys)
              | _, _ => None
              end
  end.

Definition parse_form_parts (b body : bytes) : option (list part_view) :=
  match parse_multipart b body with
  | Some ps => map_opt view_part ps
  | None => None
  end.

(* boundary parameter of the request's Content-Type, as mime.ParseMediaType returns it *)
Definition parse_boundary_param (ct : bytes) : option bytes :=
  let pre := bs "multipart/form-data; boundary=" in
  if has_prefix pre ct then
    match skipn (length pre) ct with
    | c :: r => if beqb c dquote then
                  match unquote r with Some (v, []) => Some v | _ => None end
                else Some (c :: r)
    | [] => None
    end
  else None.
