(* Model/Multipart.v - multipart/form-data bodies (C17).  Executable, no proofs.

   Go code modelled:
     /repo  middleware.go createMultipartHeader, writeMultipartFormFile, writeMultiPart,
            handleMultiPart; req.go ContentDisposition.string (fmt %q)
     stdlib mime/multipart Writer: SetBoundary, FormDataContentType, CreatePart, CreateFormField
            (escapeQuotes), WriteField, Close                                    (go1.23)
   and, specification level, the server side: a strict reader for what the writer produces
   (delimiter search, header block, Content-Disposition parameters as mime.ParseMediaType's
   consumeValue unquotes them). *)
From ReqV Require Export Lib.Bytes.
From ReqV Require Import Gen.SniffBuf.

Definition cr : byte := x0d.
Definition lf : byte := x0a.
Definition crlf : bytes := [cr; lf].
Definition dash2 : bytes := bs "--".
Definition dquote : byte := x22.
Definition bslash : byte := x5c.
Definition colon_sp : bytes := bs ": ".

(* ---- quoting of names ---- *)

(* mime/multipart escapeQuotes: strings.NewReplacer("\\", "\\\\", `"`, "\\\"") - used by
   Writer.WriteField for field names *)
Definition escq_byte (c : byte) : bytes :=
  if beqb c bslash then [bslash; bslash]
  else if beqb c dquote then [bslash; dquote]
  else [c].
Definition escape_quotes (s : bytes) : bytes := flat_map escq_byte s.

(* strconv.Quote as fmt's %q applies it (ContentDisposition.string).  ASCII bytes: quote_byte.
   Bytes >= 0x80 are decoded as utf8.DecodeRuneInString does (overlong forms, surrogates and
   values above U+10FFFF are invalid): an invalid byte becomes \xNN, a rune strconv.IsPrint
   accepts is copied, any other rune becomes \uXXXX / \UXXXXXXXX.  IsPrint's Unicode tables are
   stdlib: a Section variable in the proofs, a table supplied by the harness in C17Run. *)
Definition lowerhex : bytes := bs "0123456789abcdef".
Definition lhex (n : N) : byte := nth (N.to_nat n) lowerhex "0"%byte.
Definition is_ctl (c : byte) : bool := (bN c <? 32)%N || (bN c =? 127)%N.
Definition quote_byte (c : byte) : bytes :=
  if beqb c dquote then [bslash; dquote]
  else if beqb c bslash then [bslash; bslash]
  else if is_ctl c then
    match c with
    | x07 => bs "\a" | x08 => bs "\b" | x0c => bs "\f" | x0a => bs "\n"
    | x0d => bs "\r" | x09 => bs "\t" | x0b => bs "\v"
    | _ => [bslash; "x"%byte; lhex (bN c / 16); lhex (bN c mod 16)]
    end
  else [c].

Definition cont_byte (b : byte) : bool := (128 <=? bN b)%N && (bN b <=? 191)%N.
Definition in_range (lo hi : N) (b : byte) : bool := (lo <=? bN b)%N && (bN b <=? hi)%N.
Definition low6 (b : byte) : N := (bN b - 128)%N.

(* utf8.DecodeRuneInString on a string whose first byte is >= 0x80:
   Some (rune, width) or None (RuneError, width 1) *)
Definition decode_rune (s : bytes) : option (N * nat) :=
  match s with
  | [] => None
  | b0 :: rest =>
      let x := bN b0 in
      if (x <? 194)%N then None
      else if (x <=? 223)%N then
        match rest with
        | b1 :: _ => if cont_byte b1 then Some (((x - 192) * 64 + low6 b1)%N, 2) else None
        | _ => None
        end
      else if (x <=? 239)%N then
        match rest with
        | b1 :: b2 :: _ =>
            if in_range (if (x =? 224)%N then 160 else 128) (if (x =? 237)%N then 159 else 191) b1
               && cont_byte b2
            then Some ((((x - 224) * 64 + low6 b1) * 64 + low6 b2)%N, 3) else None
        | _ => None
        end
      else if (x <=? 244)%N then
        match rest with
        | b1 :: b2 :: b3 :: _ =>
            if in_range (if (x =? 240)%N then 144 else 128) (if (x =? 244)%N then 143 else 191) b1
               && cont_byte b2 && cont_byte b3
            then Some (((((x - 240) * 64 + low6 b1) * 64 + low6 b2) * 64 + low6 b3)%N, 4) else None
        | _ => None
        end
      else None
  end.

Definition hex4 (r : N) : bytes :=
  [lhex (r / 4096 mod 16); lhex (r / 256 mod 16); lhex (r / 16 mod 16); lhex (r mod 16)]%N.
(* a rune >= 0x80 that is not printable *)
Definition rune_escape (r : N) : bytes :=
  if (r <? 65536)%N then bslash :: "u"%byte :: hex4 r
  else bslash :: "U"%byte :: hex4 (r / 65536) ++ hex4 (r mod 65536).
Definition byte_escape (c : byte) : bytes :=
  [bslash; "x"%byte; lhex (bN c / 16); lhex (bN c mod 16)].

(* what the server's unquoting makes of an ASCII byte's quoted form *)
Definition image_byte (c : byte) : bytes := if is_ctl c then quote_byte c else [c].

(* ---- part headers ---- *)

Definition cd_key : bytes := bs "Content-Disposition".
Definition ct_key : bytes := bs "Content-Type".

(* Writer.CreateFormField *)
Definition field_cd (name : bytes) : bytes :=
  bs "form-data; name=""" ++ escape_quotes name ++ [dquote].

(* strings.TrimSpace(s) == "" for ASCII content *)
Definition is_space_byte (c : byte) : bool :=
  beqb c " "%byte || ((9 <=? bN c)%N && (bN c <=? 13)%N).
Definition is_blank (s : bytes) : bool := forallb is_space_byte s.

Record file_upload := {
  f_param : bytes;                   (* FileUpload.ParamName *)
  f_name : bytes;                    (* FileUpload.FileName *)
  f_ctype : bytes;                   (* FileUpload.ContentType, [] = not given *)
  f_extra : list (bytes * bytes);    (* ExtraContentDisposition *)
  f_content : bytes;                 (* everything GetFileContent's reader delivers *)
  f_first : nat                      (* what the first Read(cbuf[512]) returned *)
}.

(* the 512-byte sniffing buffer: cbuf := make([]byte, 512); content.Read(cbuf);
   http.DetectContentType(cbuf) - the whole buffer, zero tail included *)
Definition pad512 (s : bytes) : bytes :=
  firstn sniff_buf_len s ++ repeat x00 (sniff_buf_len - length (firstn sniff_buf_len s)).
(* buffer size and "whole buffer or cbuf[:size]" are regenerated from the source (Gen/SniffBuf.v) *)
Definition sniff_input (f : file_upload) : bytes :=
  let head := firstn (f_first f) (f_content f) in
  if sniff_whole_buffer then pad512 head else head.

Section Oracles.
  Variable is_print : N -> bool.    (* strconv.IsPrint, consulted for runes >= 0x80 *)
  Variable sniff : bytes -> bytes.  (* http.DetectContentType *)

  Fixpoint quote_body (fuel : nat) (s : bytes) : bytes :=
    match fuel with
    | O => []
    | S f =>
        match s with
        | [] => []
        | c :: r =>
            if (bN c <? 128)%N then quote_byte c ++ quote_body f r
            else match decode_rune s with
                 | Some (rn, w) =>
                     (if is_print rn then firstn w s else rune_escape rn) ++ quote_body f (skipn w s)
                 | None => byte_escape c ++ quote_body f r
                 end
        end
    end.
  Definition go_quote (s : bytes) : bytes := dquote :: quote_body (length s) s ++ [dquote].

  (* the name a server recovers from the quoted form (mime's quoted-string rule keeps a backslash
     that does not precede a tspecial) *)
  Fixpoint name_image (fuel : nat) (s : bytes) : bytes :=
    match fuel with
    | O => []
    | S f =>
        match s with
        | [] => []
        | c :: r =>
            if (bN c <? 128)%N then image_byte c ++ name_image f r
            else match decode_rune s with
                 | Some (rn, w) =>
                     (if is_print rn then firstn w s else rune_escape rn) ++ name_image f (skipn w s)
                 | None => byte_escape c ++ name_image f r
                 end
        end
    end.

  (* the names %q carries unchanged: no ASCII control byte, valid UTF-8, printable runes *)
  Fixpoint name_guard (fuel : nat) (s : bytes) : bool :=
    match fuel with
    | O => match s with [] => true | _ => false end
    | S f =>
        match s with
        | [] => true
        | c :: r =>
            if (bN c <? 128)%N then negb (is_ctl c) && name_guard f r
            else match decode_rune s with
                 | Some (rn, w) => is_print rn && name_guard f (skipn w s)
                 | None => false
                 end
        end
    end.
  Definition quotable (s : bytes) : bool := name_guard (length s) s.

  (* ContentDisposition.string: "; k=%q" per pair *)
  Definition cd_params (kv : list (bytes * bytes)) : bytes :=
    flat_map (fun p => bs "; " ++ fst p ++ bs "=" ++ go_quote (snd p)) kv.

  (* createMultipartHeader *)
  Definition file_cd (f : file_upload) : bytes :=
    bs "form-data" ++
    cd_params ((match f_param f with [] => [] | n => [(bs "name", n)] end) ++
               (match f_name f with [] => [] | n => [(bs "filename", n)] end) ++
               f_extra f).

  Definition effective_ctype (f : file_upload) : bytes :=
    match f_ctype f with [] => sniff (sniff_input f) | ct => ct end.

  (* CreatePart sorts the keys: Content-Disposition < Content-Type *)
  Definition file_headers (f : file_upload) : list (bytes * bytes) :=
    (cd_key, file_cd f) ::
    (if is_blank (effective_ctype f) then [] else [(ct_key, effective_ctype f)]).
End Oracles.

Definition field_headers (name : bytes) : list (bytes * bytes) := [(cd_key, field_cd name)].

(* ---- the writer ---- *)

Record mpart := { p_headers : list (bytes * bytes); p_body : bytes }.

Definition render_header (h : bytes * bytes) : bytes := fst h ++ colon_sp ++ snd h ++ crlf.

Definition render_part (first : bool) (b : bytes) (p : mpart) : bytes :=
  (if first then [] else crlf) ++ dash2 ++ b ++ crlf ++
  flat_map render_header (p_headers p) ++ crlf ++ p_body p.

Fixpoint render_parts (first : bool) (b : bytes) (ps : list mpart) : bytes :=
  match ps with
  | [] => []
  | p :: r => render_part first b p ++ render_parts false b r
  end.

(* all CreatePart calls followed by Writer.Close *)
Definition render_multipart (b : bytes) (ps : list mpart) : bytes :=
  render_parts true b ps ++ crlf ++ dash2 ++ b ++ dash2 ++ crlf.

Definition field_part (kv : bytes * bytes) : mpart :=
  {| p_headers := field_headers (fst kv); p_body := snd kv |}.
Definition file_part (is_print : N -> bool) (sniff : bytes -> bytes) (f : file_upload) : mpart :=
  {| p_headers := file_headers is_print sniff f; p_body := f_content f |}.

(* writeMultipartField (/repo): a field name with a control byte other than TAB is refused
   (exactly the bytes net/textproto's validHeaderValueByte rejects) *)
Definition field_name_ok (s : bytes) : bool :=
  forallb (fun c => negb (is_ctl c) || beqb c x09) s.

(* writeMultiPart: the fields, then the files in order *)
Definition multipart_body (is_print : N -> bool) (sniff : bytes -> bytes) (b : bytes)
           (fields : list (bytes * bytes)) (files : list file_upload) : bytes :=
  render_multipart b (map field_part fields ++ map (file_part is_print sniff) files).

(* ---- boundary ---- *)

(* Writer.SetBoundary's acceptance test *)
Definition boundary_char (c : byte) : bool :=
  is_alpha c || is_digit c || mem_byte c (bs "'()+_,-./:=?").
Fixpoint boundary_chars (b : bytes) : bool :=
  match b with
  | [] => true
  | [c] => boundary_char c                       (* a space is not allowed at the end *)
  | c :: r => (boundary_char c || beqb c " "%byte) && boundary_chars r
  end.
Definition valid_boundary (b : bytes) : bool :=
  (1 <=? length b) && (length b <=? 70) && boundary_chars b.

(* handleMultiPart: a custom boundary is used when non-empty and accepted by SetBoundary (its
   error is ignored); otherwise the writer's random one stays *)
Definition effective_boundary (custom random : bytes) : bytes :=
  match custom with
  | [] => random
  | _ => if valid_boundary custom then custom else random
  end.

(* Writer.FormDataContentType *)
Definition needs_quote (b : bytes) : bool :=
  existsb (fun c => mem_byte c (bs "()<>@,;:\""/[]?= ")) b.
Definition form_data_content_type (b : bytes) : bytes :=
  bs "multipart/form-data; boundary=" ++
  (if needs_quote b then dquote :: b ++ [dquote] else b).

(* ---- the server side (specification level) ---- *)

(* first occurrence of d in s: (before, after) *)
Fixpoint find_delim (d s : bytes) : option (bytes * bytes) :=
  if has_prefix d s then Some ([], skipn (length d) s)
  else match s with
       | [] => None
       | x :: r => match find_delim d r with
                   | Some (a, b) => Some (x :: a, b)
                   | None => None
                   end
       end.
Definition occurs (d s : bytes) : bool :=
  match find_delim d s with Some _ => true | None => false end.

(* net/textproto validHeaderValueByte *)
Definition valid_hv (c : byte) : bool := negb (is_ctl c) || beqb c x09.

Fixpoint parse_headers (fuel : nat) (s : bytes) : option (list (bytes * bytes) * bytes) :=
  match fuel with
  | O => None
  | S f =>
      match find_delim crlf s with
      | None => None
      | Some ([], rest) => Some ([], rest)
      | Some (line, rest) =>
          if forallb valid_hv line then
            match find_delim colon_sp line with
            | None => None
            | Some (k, v) =>
                match parse_headers f rest with
                | Some (hs, r) => Some ((k, v) :: hs, r)
                | None => None
                end
            end
          else None
      end
  end.

(* s follows a delimiter line start "\r\n--boundary" *)
Fixpoint parse_after (fuel : nat) (d s : bytes) : option (list mpart) :=
  match fuel with
  | O => None
  | S f =>
      if has_prefix dash2 s then Some []
      else if has_prefix crlf s then
        let s1 := skipn 2 s in
        match parse_headers (length s1) s1 with
        | None => None
        | Some (hs, s2) =>
            match find_delim d s2 with
            | None => None
            | Some (body, s3) =>
                match parse_after f d s3 with
                | Some ps => Some ({| p_headers := hs; p_body := body |} :: ps)
                | None => None
                end
            end
        end
      else None
  end.

Definition delimiter (b : bytes) : bytes := crlf ++ dash2 ++ b.

Definition parse_multipart (b body : bytes) : option (list mpart) :=
  match find_delim (delimiter b) (crlf ++ body) with
  | Some (_, s) => parse_after (S (length body)) (delimiter b) s
  | None => None
  end.

(* Content-Disposition parameters: `form-data` then `; key="quoted-string"` repeated;
   quoted-string as mime.consumeValue reads it *)
Definition is_tspecial (c : byte) : bool := mem_byte c (bs "()<>@,;:\""/[]?=").

Fixpoint unquote (s : bytes) : option (bytes * bytes) :=   (* s follows the opening quote *)
  match s with
  | [] => None
  | c :: r =>
      if beqb c dquote then Some ([], r)
      else if beqb c bslash then
        match r with
        | e :: r' =>
            if is_tspecial e then
              match unquote r' with Some (v, t) => Some (e :: v, t) | None => None end
            else
              match unquote r with Some (v, t) => Some (c :: v, t) | None => None end
        | [] => None
        end
      else if beqb c cr || beqb c lf then None
      else match unquote r with Some (v, t) => Some (c :: v, t) | None => None end
  end.

Fixpoint parse_params (fuel : nat) (s : bytes) : option (list (bytes * bytes)) :=
  match fuel with
  | O => None
  | S f =>
      match s with
      | [] => Some []
      | _ =>
          if has_prefix (bs "; ") s then
            match find_delim (bs "=""") (skipn 2 s) with
            | None => None
            | Some (k, r) =>
                match unquote r with
                | None => None
                | Some (v, t) =>
                    match parse_params f t with
                    | Some kv => Some ((k, v) :: kv)
                    | None => None
                    end
                end
            end
          else None
      end
  end.

Definition parse_cd (v : bytes) : option (list (bytes * bytes)) :=
  if has_prefix (bs "form-data") v then parse_params (S (length v)) (skipn 9 v) else None.

Fixpoint assoc (k : bytes) (l : list (bytes * bytes)) : option bytes :=
  match l with
  | [] => None
  | (k', v) :: r => if bytes_eqb k' k then Some v else assoc k r
  end.

(* what a handler reads off one part: form name, file name, Content-Type, bytes *)
Record part_view := {
  v_name : option bytes; v_filename : option bytes; v_ctype : option bytes; v_body : bytes }.

Definition view_part (p : mpart) : option part_view :=
  match assoc cd_key (p_headers p) with
  | None => None
  | Some cd =>
      match parse_cd cd with
      | None => None
      | Some ps => Some {| v_name := assoc (bs "name") ps; v_filename := assoc (bs "filename") ps;
                           v_ctype := assoc ct_key (p_headers p); v_body := p_body p |}
      end
  end.

(* the views of what the caller supplied *)
Definition field_view (kv : bytes * bytes) : part_view :=
  {| v_name := Some (fst kv); v_filename := None; v_ctype := None; v_body := snd kv |}.
Definition file_view (sniff : bytes -> bytes) (f : file_upload) : part_view :=
  {| v_name := Some (f_param f); v_filename := Some (f_name f);
     v_ctype := if is_blank (effective_ctype sniff f) then None
                else Some (effective_ctype sniff f);
     v_body := f_content f |}.

Fixpoint map_opt {A B} (f : A -> option B) (l : list A) : option (list B) :=
  match l with
  | [] => Some []
  | x :: r => match f x, map_opt f r with
              | Some y, Some ys => Some (y :: ys)
              | _, _ => None
              end
  end.

Definition parse_form_parts (b body : bytes) : option (list part_view) :=
  match parse_multipart b body with
  | Some ps => map_opt view_part ps
  | None => None
  end.

(* boundary parameter of the request's Content-Type, as mime.ParseMediaType returns it *)
Definition parse_boundary_param (ct : bytes) : option bytes :=
  let pre := bs "multipart/form-data; boundary=" in
  if has_prefix pre ct then
    match skipn (length pre) ct with
    | c :: r => if beqb c dquote then
                  match unquote r with Some (v, []) => Some v | _ => None end
                else Some (c :: r)
    | [] => None
    end
  else None.
