(* Model/RetryJar.v - C10: cookies carried from one attempt to the next (and from one request of
   a client to the next) by the client's cookie jar.

   Modelled: client.roundTrip adds the request's cookies (r.Cookies) with AddCookie; the
   underlying http.Client then adds the jar's cookies for the URL after them, and stores the
   cookies of every response it receives (http.Client.send; net/http/cookiejar: a cookie with
   the same name - same domain and path - replaces the old one and keeps its position, a new
   name is appended).  The harness's responses set cookies with Path=/ and no other attribute,
   so every jar cookie applies to every request to the host.  No proofs here. *)
From ReqV Require Export Lib.Bytes.

Definition cookie := (bytes * bytes)%type.
Definition jar := list cookie.

Fixpoint jar_set1 (j : jar) (c : cookie) : jar :=
  match j with
  | [] => [c]
  | (n, v) :: r => if bytes_eqb n (fst c) then (n, snd c) :: r else (n, v) :: jar_set1 r c
  end.
Definition jar_set (j : jar) (cs : list cookie) : jar := fold_left jar_set1 cs j.

(* the Cookie line of every attempt: the caller's cookies, then the jar; [resps] = what the
   response of each attempt sets (nothing for an attempt that ended in a transport error) *)
Fixpoint attempt_cookies (caller : list cookie) (j : jar) (resps : list (list cookie)) : list (list cookie) :=
  match resps with
  | [] => []
  | r :: rest => (caller ++ j) :: attempt_cookies caller (jar_set j r) rest
  end.

(* the jar after those attempts *)
Definition jar_after (j : jar) (resps : list (list cookie)) : jar := fold_left jar_set resps j.
