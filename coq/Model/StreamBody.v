(* Model/StreamBody.v - C03/C02: response bodies on multiplexed streams.

   HTTP/2 (internal/http2/transport.go): frames of one response stream after its HEADERS as
   events; clientStream.bufPipe collects DATA payloads (padding never enters the pipe) until
   the stream ends; transportResponseBody.Read accounts them against Content-Length
   (cs.bytesRemain).  HTTP/3 (internal/http3/http_stream.go stream.Read, body.go
   body.Read): DATA frames with their declared lengths, then FIN / reset / connection end;
   bytesRemainingInFrame and remainingContentLength accounting.
   Read-to-end semantics (io.ReadAll on Response.Body).  No proofs here. *)
From ReqV Require Export Lib.Bytes Model.BodyFraming.

(* ------------------------------- HTTP/2 ------------------------------- *)
Inductive h2ev :=
| H2Data (payload : bytes) (end_stream : bool)
| H2Trailers                 (* HEADERS with END_STREAM after the data *)
| H2Rst (code : N)           (* RST_STREAM before the stream ended *)
| H2GoAwayClose              (* GOAWAY covering the stream, then the connection ends *)
| H2ConnEnd.                 (* the connection ends: at a frame boundary or inside a frame
                                (the partial frame never reaches the stream) *)

Inductive h2err :=
| H2Clean            (* io.EOF *)
| H2UnexpectedEOF    (* io.ErrUnexpectedEOF: declared length not reached / connection lost *)
| H2TooMuch          (* "server replied with more than declared Content-Length; truncated" *)
| H2StreamErr        (* StreamError from RST_STREAM *)
| H2GoAwayErr        (* GoAwayError *)
| H2Pending.         (* no terminal event in the list: the read would block *)

Definition h2err_eqb (a b : h2err) : bool :=
  match a, b with
  | H2Clean, H2Clean | H2UnexpectedEOF, H2UnexpectedEOF | H2TooMuch, H2TooMuch
  | H2StreamErr, H2StreamErr | H2GoAwayErr, H2GoAwayErr | H2Pending, H2Pending => true
  | _, _ => false
  end.

(* what the pipe holds when the stream is over, and the error it was closed with
   (processData / endStream / processResetStream / cleanup + cleanupWriteRequest:
   CloseWithError keeps buffered data readable) *)
Fixpoint h2_pipe (evs : list h2ev) : bytes * h2err :=
  match evs with
  | [] => ([], H2Pending)
  | H2Data p true :: _ => (p, H2Clean)
  | H2Data p false :: r => let '(d, e) := h2_pipe r in (p ++ d, e)
  | H2Trailers :: _ => ([], H2Clean)
  | H2Rst _ :: _ => ([], H2StreamErr)
  | H2GoAwayClose :: _ => ([], H2GoAwayErr)
  | H2ConnEnd :: _ => ([], H2UnexpectedEOF)
  end.

(* transportResponseBody.Read to the end; [cl] = Some n when exactly one parsable
   Content-Length was received.  [hdr_end]: END_STREAM on the HEADERS frame (noBody, or
   missingBody{} when a positive length was declared). *)
Definition h2_read (cl : option N) (hdr_end : bool) (evs : list h2ev) : bytes * h2err :=
  if hdr_end then
    match cl with
    | Some n => if (0 <? n)%N then ([], H2UnexpectedEOF) else ([], H2Clean)
    | None => ([], H2Clean)
    end
  else
    let '(d, e) := h2_pipe evs in
    match cl with
    | None => (d, e)
    | Some n =>
        let '(t, rest, missing) := take_N n d in
        match rest with
        | _ :: _ => (t, H2TooMuch)                       (* int64(n) > cs.bytesRemain *)
        | [] => if (missing =? 0)%N then (d, e)
                else (d, match e with H2Clean => H2UnexpectedEOF | _ => e end)
        end
    end.

(* can the connection serve the next request?  Stream-level endings leave it usable
   (RST_STREAM PROTOCOL_ERROR marks it do-not-reuse); GOAWAY / connection end do not. *)
Fixpoint h2_conn_usable (evs : list h2ev) : bool :=
  match evs with
  | [] => true
  | H2Data _ true :: _ => true
  | H2Data _ false :: r => h2_conn_usable r
  | H2Trailers :: _ => true
  | H2Rst code :: _ => negb (code =? 1)%N
  | H2GoAwayClose :: _ => false
  | H2ConnEnd :: _ => false
  end.

(* ------------------------------- HTTP/3 ------------------------------- *)
Inductive h3ev :=
| H3Data (declared : N) (payload : bytes)  (* DATA frame header announcing [declared] bytes,
                                              [payload] = the part of them that arrived *)
| H3Fin
| H3Reset
| H3ConnClose.

Inductive h3err :=
| H3Clean
| H3UnexpectedEOF     (* FIN inside a DATA frame or before the declared Content-Length *)
| H3TooMuch           (* errTooMuchData *)
| H3ResetErr          (* stream reset by the peer *)
| H3ConnErr           (* connection closed *)
| H3Pending.

Definition h3err_eqb (a b : h3err) : bool :=
  match a, b with
  | H3Clean, H3Clean | H3UnexpectedEOF, H3UnexpectedEOF | H3TooMuch, H3TooMuch
  | H3ResetErr, H3ResetErr | H3ConnErr, H3ConnErr | H3Pending, H3Pending => true
  | _, _ => false
  end.

(* how the stream ends after a DATA frame was left incomplete (bytesRemainingInFrame > 0):
   [strict] = the repaired code, where a FIN at that point is io.ErrUnexpectedEOF (the
   pinned code reported a clean io.EOF) *)
Definition h3_end_incomplete (strict : bool) (r : list h3ev) : h3err :=
  match r with
  | H3Fin :: _ => if strict then H3UnexpectedEOF else H3Clean
  | H3Reset :: _ => H3ResetErr
  | H3ConnClose :: _ => H3ConnErr
  | _ => H3Pending
  end.

(* hijackableBody/body.Read over stream.Read, driven to the end.  [rem] = Some m: a
   Content-Length was declared and m bytes are still owed (remainingContentLength): reads
   are capped at m, and "m = 0 while the current frame announces more" is errTooMuchData;
   [strict]: a clean end of the stream with m > 0 is io.ErrUnexpectedEOF (pinned: io.EOF). *)
Fixpoint h3_read (strict : bool) (rem : option N) (evs : list h3ev) : bytes * h3err :=
  match evs with
  | [] => ([], H3Pending)
  | H3Data n p :: r =>
      let got := N.of_nat (length p) in
      match rem with
      | None =>
          if (got <? n)%N then (p, h3_end_incomplete strict r)
          else let '(d, e) := h3_read strict None r in (p ++ d, e)
      | Some m =>
          if (n =? 0)%N then h3_read strict rem r
          else if (m <? n)%N then
            if (m <=? got)%N then (firstn (N.to_nat m) p, H3TooMuch)
            else (p, h3_end_incomplete strict r)
          else if (got <? n)%N then (p, h3_end_incomplete strict r)
          else let '(d, e) := h3_read strict (Some (m - n)%N) r in (p ++ d, e)
      end
  | H3Fin :: _ =>
      ([], match rem with
           | Some m => if (0 <? m)%N && strict then H3UnexpectedEOF else H3Clean
           | None => H3Clean
           end)
  | H3Reset :: _ => ([], H3ResetErr)
  | H3ConnClose :: _ => ([], H3ConnErr)
  end.
