(* Model/Authority.v - C11: authorities as url.URL.Host holds them, net.SplitHostPort,
   and redirect.go's getHostname / getDomain (after the fix: commit, see DESIGN §9 #17).
   Executable definitions only. *)
From ReqV Require Export Lib.Bytes.

Definition colon : byte := ":"%byte.
Definition lbr : byte := "["%byte.
Definition rbr : byte := "]"%byte.
Definition dot : byte := "."%byte.

Inductive shp_result := ShpOk (host port : bytes) | ShpErr.

(* net.SplitHostPort (Go 1.23.5 net/ipsock.go), branch for branch; the error kinds are
   collapsed because redirect.go only looks at err == nil. *)
Definition starts_lbr (s : bytes) : bool :=
  match s with b :: _ => beqb b lbr | [] => false end.

Definition split_host_port (hp : bytes) : shp_result :=
  match last_index_byte colon hp with
  | None => ShpErr                                            (* missing port *)
  | Some i =>
      if starts_lbr hp then
          match index_byte rbr hp with
          | None => ShpErr                                    (* missing ']' *)
          | Some e =>
              if Nat.eqb (e + 1) (length hp) then ShpErr      (* missing port *)
              else if Nat.eqb (e + 1) i then
                if mem_byte lbr (skipn 1 hp) then ShpErr      (* unexpected '[' *)
                else if mem_byte rbr (skipn (e + 1) hp) then ShpErr
                else ShpOk (firstn (e - 1) (skipn 1 hp)) (skipn (i + 1) hp)
              else ShpErr                                     (* too many colons / missing port *)
          end
      else
          let host := firstn i hp in
          if mem_byte colon host then ShpErr                  (* too many colons *)
          else if mem_byte lbr hp then ShpErr
          else if mem_byte rbr hp then ShpErr
          else ShpOk host (skipn (i + 1) hp)
  end.

Definition strip_brackets (h : bytes) : option bytes :=
  if starts_lbr h then
    match rev (tl h) with
    | b :: m => if beqb b rbr then Some (rev m) else None
    | [] => None
    end
  else None.

(* redirect.go getHostname (repaired): host without port, IPv6 without brackets, lower-cased *)
Definition get_hostname (host : bytes) : bytes :=
  to_lower
    match split_host_port host with
    | ShpOk h _ => h
    | ShpErr => match strip_brackets host with Some h => h | None => host end
    end.

(* The code as pinned (before the fix), kept so that the refutation witness stays checked:
   `if strings.Index(host, ":") > 0 { host, _, _ = net.SplitHostPort(host) }` *)
Definition get_hostname_pinned (host : bytes) : bytes :=
  to_lower
    match index_byte colon host with
    | Some (S _) => match split_host_port host with ShpOk h _ => h | ShpErr => [] end
    | _ => host
    end.

(* dotted-quad test = netip.ParseAddr success for a string without ':' *)
Fixpoint all_digits (s : bytes) : bool :=
  match s with [] => true | c :: r => is_digit c && all_digits r end.
Fixpoint dec_value (acc : N) (s : bytes) : N :=
  match s with [] => acc | c :: r => dec_value (acc * 10 + (bN c - 48)) r end.
Definition is_octet (s : bytes) : bool :=
  match s with
  | [] => false
  | [_] => all_digits s
  | x30 :: _ => false                     (* leading zero *)
  | _ => all_digits s && (length s <=? 3)%nat && (dec_value 0 s <=? 255)%N
  end.
Definition is_ipv4 (h : bytes) : bool :=
  match split_byte dot h with
  | [a; b; c; d] => is_octet a && is_octet b && is_octet c && is_octet d
  | _ => false
  end.
(* After getHostname a ':' can only come from an IPv6 literal (reg-names and IPv4 have none) *)
Definition is_ip_literal (h : bytes) : bool := mem_byte colon h || is_ipv4 h.

(* redirect.go getDomain (repaired): IP literals whole; DNS names drop the first label
   when there are at least three *)
Definition get_domain (host : bytes) : bytes :=
  let h := get_hostname host in
  if is_ip_literal h then h
  else match split_byte dot h with
       | _ :: ((_ :: _ :: _) as rest) => join_with [dot] rest
       | _ => h
       end.

Definition get_domain_pinned (host : bytes) : bytes :=
  let h := get_hostname_pinned host in
  match split_byte dot h with
  | _ :: ((_ :: _ :: _) as rest) => join_with [dot] rest
  | _ => h
  end.

(* --- specification-level authority grammar (what url.Parse puts in URL.Host) --- *)
Inductive host_form :=
| HName (s : bytes)        (* reg-name or IPv4: no ':' '[' ']' *)
| HV6 (s : bytes).         (* IPv6 literal text incl. optional zone, rendered in brackets: no '[' ']' *)

Record authority := { a_host : host_form; a_port : option bytes }.

Definition host_text (h : host_form) : bytes := match h with HName s => s | HV6 s => s end.

Definition render_host (h : host_form) : bytes :=
  match h with HName s => s | HV6 s => lbr :: s ++ [rbr] end.

Definition render_authority (a : authority) : bytes :=
  render_host (a_host a) ++ match a_port a with None => [] | Some p => colon :: p end.

Definition no3 (s : bytes) : bool :=
  negb (mem_byte colon s) && negb (mem_byte lbr s) && negb (mem_byte rbr s).
Definition nobr (s : bytes) : bool := negb (mem_byte lbr s) && negb (mem_byte rbr s).

Definition wf_authority (a : authority) : bool :=
  match a_host a with
  | HName s => no3 s
  | HV6 s => nobr s && mem_byte colon s
  end &&
  match a_port a with None => true | Some p => no3 p end.
