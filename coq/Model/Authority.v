(* Model/Authority.v - C11: authorities as url.URL.Host holds them, net.SplitHostPort,
   and redirect.go's getHostname / getDomain (after the fix: commit, see DESIGN §9 #17).
   Executable definitions only. *)
From ReqV Require Export Lib.Bytes.

Definition colon : byte := ":"%byte.
Definition lbr : byte := "["%byte.
Definition rbr : byte := "]"%byte.
Definition dot : byte := "."%byte.

Inductive shp_result := ShpOk (host port : bytes) | ShpErr.

(* net.SplitHostPort (Go 1.23.5 net/ipsock.go), branch for branch; the error kinds are
   collapsed because redirect.go only looks at err == nil. *)
Definition starts_lbr (s : bytes) : bool :=
  match s with b :: _ => beqb b lbr | [] => false end.

Definition split_host_port (hp : bytes) : shp_result :=
  match last_index_byte colon hp with
  | None => ShpErr                                            (* missing port *)
  | Some i =>
      if starts_lbr hp then
          match index_byte rbr hp with
          | None => ShpErr                                    (* missing ']' *)
          | Some e =>
              if Nat.eqb (e + 1) (length hp) then ShpErr      (* missing port *)
              else if Nat.eqb (e + 1) i then
                if mem_byte lbr (skipn 1 hp) then ShpErr      (* unexpected '[' *)
                else if mem_byte rbr (skipn (e + 1) hp) then ShpErr
                else ShpOk (firstn (e - 1) (skipn 1 hp)) (skipn (i + 1) hp)
              else ShpErr                                     (* too many colons / missing port *)
          end
      else
          let host := firstn i hp in
          if mem_byte colon host then ShpErr                  (* too many colons *)
          else if mem_byte lbr hp then ShpErr
          else if mem_byte rbr hp then ShpErr
          else ShpOk host (skipn (i + 1) hp)
  end.

Definition strip_brackets (h : bytes) : option bytes :=
  if starts_lbr h then
    match rev (tl h) with
    | b :: m => if beqb b rbr then Some (rev m) else None
    | [] => None
    end
  else None.

(* redirect.go getHostname (repaired): host without port, IPv6 without brackets, lower-cased *)
Definition get_hostname (host : bytes) : bytes :=
  to_lower
    match split_host_port host with
    | ShpOk h _ => h
    | ShpErr => match strip_brackets host with Some h => h | None => host end
    end.

(* The code as pinned (before the fix), kept so that the refutation witness stays checked:
   `if strings.Index(host, ":") > 0 { host, _, _ = net.SplitHostPort(host) }` *)
Definition get_hostname_pinned (host : bytes) : bytes :=
  to_lower
    match index_byte colon host with
    | Some (S _) => match split_host_port host with ShpOk h _ => h | ShpErr => [] end
    | _ => host
    end.

(* dotted-quad test = netip.ParseAddr success for a string without ':' *)
Fixpoint all_digits (s : bytes) : bool :=
  match s with [] => true | c :: r => is_digit c && all_digits r end.
Fixpoint dec_value (acc : N) (s : bytes) : N :=
  match s with [] => acc | c :: r => dec_value (acc * 10 + (bN c - 48)) r end.
Definition is_octet (s : bytes) : bool :=
  match s with
  | [] => false
  | [_] => all_digits s
  | x30 :: _ => false                     (* leading zero *)
  | _ => all_digits s && (length s <=? 3)%nat && (dec_value 0 s <=? 255)%N
  end.
Definition is_ipv4 (h : bytes) : bool :=
  match split_byte dot h with
  | [a; b; c; d] => is_octet a && is_octet b && is_octet c && is_octet d
  | _ => false
  end.
(* --- netip.ParseAddr (Go 1.23.5 net/netip/netip.go), success or failure only --- *)
Definition pct : byte := "%"%byte.

Definition is_hex (c : byte) : bool :=
  is_digit c || ((97 <=? bN c)%N && (bN c <=? 102)%N) || ((65 <=? bN c)%N && (bN c <=? 70)%N).

(* length of the leading run of hex digits *)
Fixpoint span_hex (s : bytes) : nat :=
  match s with c :: r => if is_hex c then S (span_hex r) else 0 | [] => 0 end.

(* after the loop of parseIPv6: the whole string must be used; fewer than 16 bytes need an
   ellipsis, exactly 16 must not have one ("the :: must expand to at least one field of zeros") *)
Definition v6_finish (i : nat) (ell : bool) (s : bytes) : bool :=
  match s with
  | _ :: _ => false
  | [] => if i <? 16 then ell else negb ell
  end.

(* the loop `for i < 16`: [i] bytes of the address filled so far, [ell] an ellipsis was seen,
   [s] the unparsed rest *)
Fixpoint v6_groups (fuel i : nat) (ell : bool) (s : bytes) : bool :=
  match fuel with
  | O => false
  | S f =>
      if 16 <=? i then v6_finish i ell s else
      let off := span_hex s in
      if 5 <=? off then false                       (* more than 4 digits in a group *)
      else if off =? 0 then false                   (* a field needs at least one digit *)
      else
        match skipn off s with
        | [] => v6_finish (i + 2) ell []            (* end of string after a group *)
        | c :: after =>
            if beqb c dot then                      (* trailing embedded IPv4, parsed from the group's start *)
              if negb ell && negb (i =? 12) then false
              else if 16 <? i + 4 then false
              else if is_ipv4 s then v6_finish (i + 4) ell [] else false
            else if negb (beqb c colon) then false  (* unexpected character, want colon *)
            else
              match after with
              | [] => false                         (* colon must be followed by more characters *)
              | c2 :: r2 =>
                  if beqb c2 colon then
                    if ell then false               (* multiple :: *)
                    else match r2 with
                         | [] => v6_finish (i + 2) true []   (* :: can be at the end *)
                         | _ => v6_groups f (i + 2) true r2
                         end
                  else v6_groups f (i + 2) ell after
              end
        end
  end.

Definition parse_v6_ok (input : bytes) : bool :=
  match (match index_byte pct input with
         | Some i => if Nat.eqb (S i) (length input) then None   (* empty zone *)
                     else Some (firstn i input)
         | None => Some input
         end) with
  | None => false
  | Some s =>
      match s with
      | c1 :: c2 :: r =>
          if beqb c1 colon && beqb c2 colon then
            match r with [] => true | _ => v6_groups (S (length r)) 0 true r end
          else v6_groups (S (length s)) 0 false s
      | _ => v6_groups (S (length s)) 0 false s
      end
  end.

(* ParseAddr dispatches on the first '.', ':' or '%' *)
Fixpoint first_sep (s : bytes) : option byte :=
  match s with
  | [] => None
  | c :: r => if beqb c dot || beqb c colon || beqb c pct then Some c else first_sep r
  end.

Definition parse_addr_ok (s : bytes) : bool :=
  match first_sep s with
  | Some c => if beqb c dot then is_ipv4 s else if beqb c colon then parse_v6_ok s else false
  | None => false
  end.

(* `_, err := netip.ParseAddr(h); err == nil` *)
Definition is_ip_literal (h : bytes) : bool := parse_addr_ok h.

(* strings.TrimSuffix(s, string(c)) *)
Definition trim_suffix_byte (c : byte) (s : bytes) : bytes :=
  match rev s with
  | b :: r => if beqb b c then rev r else s
  | [] => s
  end.

(* redirect.go getDomain (repaired twice: a69a273 IP literals whole; round 7: the dot that ends a
   fully qualified name is not a label): DNS names drop the first label when there are at least three *)
Definition get_domain (host : bytes) : bytes :=
  let h := get_hostname host in
  if is_ip_literal h then h
  else let h := trim_suffix_byte dot h in
       match split_byte dot h with
       | _ :: ((_ :: _ :: _) as rest) => join_with [dot] rest
       | _ => h
       end.

(* getDomain before the round-7 repair: "example.com." -> "com." *)
Definition get_domain_dotted (host : bytes) : bytes :=
  let h := get_hostname host in
  if is_ip_literal h then h
  else match split_byte dot h with
       | _ :: ((_ :: _ :: _) as rest) => join_with [dot] rest
       | _ => h
       end.

Definition get_domain_pinned (host : bytes) : bytes :=
  let h := get_hostname_pinned host in
  match split_byte dot h with
  | _ :: ((_ :: _ :: _) as rest) => join_with [dot] rest
  | _ => h
  end.

(* --- specification-level authority grammar (what url.Parse puts in URL.Host) --- *)
Inductive host_form :=
| HName (s : bytes)        (* reg-name or IPv4: no ':' '[' ']' *)
| HV6 (s : bytes).         (* IPv6 literal text incl. optional zone, rendered in brackets: no '[' ']' *)

Record authority := { a_host : host_form; a_port : option bytes }.

Definition host_text (h : host_form) : bytes := match h with HName s => s | HV6 s => s end.

Definition render_host (h : host_form) : bytes :=
  match h with HName s => s | HV6 s => lbr :: s ++ [rbr] end.

Definition render_authority (a : authority) : bytes :=
  render_host (a_host a) ++ match a_port a with None => [] | Some p => colon :: p end.

Definition no3 (s : bytes) : bool :=
  negb (mem_byte colon s) && negb (mem_byte lbr s) && negb (mem_byte rbr s).
Definition nobr (s : bytes) : bool := negb (mem_byte lbr s) && negb (mem_byte rbr s).

Definition wf_authority (a : authority) : bool :=
  match a_host a with
  | HName s => no3 s
  | HV6 s => nobr s && mem_byte colon s
  end &&
  match a_port a with None => true | Some p => no3 p end.
