(* Model/H1Conn.v - C04: what the HTTP/1.1 CLIENT (transport.go persistConn.readResponse +
   the body/idle-pool decisions of persistConn.readLoop) makes of the bytes a server sends on
   one connection for one request.  The parser is Model/H1Resp.v; the connection's
   bufio.Reader has Transport.ReadBufferSize = 4096 bytes by default.

   readResponse: _readResponse in a loop; every informational response (1xx except 101) is
   skipped, at most 5 of them.  readLoop: hasBody := Method != HEAD && ContentLength != 0;
   without a body the caller gets NoBody; the connection goes back to the idle pool iff
   !resp.Close && code > 199 && the body was read to a clean EOF && no byte is buffered
   behind the message (fix 3c2fb34) && the peer has not closed.  101 (the body is the
   connection itself) is outside this model.  No proofs here. *)
From ReqV Require Export Lib.Bytes Model.H1Resp.

Definition conn_bufsize : nat := 4096.
Definition max_1xx_responses : nat := 5.

(* readLoop: `resp.StatusCode <= 199` ends the connection - a terminal response with such a
   status (101 that is not a protocol switch, 0xx) is never followed by reuse *)
Definition no_reuse_status_bound : Z := 199.

Definition is_1xx_nonterminal (code : Z) : bool :=
  (100 <=? code)%Z && (code <=? 199)%Z && negb (code =? 101)%Z.

Inductive final_head :=
| FhErr (e : herr)
| FhTooMany1xx
| FhOk (r : resp) (rest : bytes).

(* [n] informational responses already skipped; fuel 7 always suffices (at most 6 rounds) *)
Fixpoint read_final (fuel : nat) (meth : bytes) (n : nat) (s : bytes) : final_head :=
  match fuel with
  | O => FhErr HOutOfFuel
  | S f =>
      match read_response_head meth conn_bufsize s with
      | inl e => FhErr e
      | inr (r, rest) =>
          if is_1xx_nonterminal (r_code r) then
            if max_1xx_responses <? S n then FhTooMany1xx
            else read_final f meth (S n) rest
          else FhOk r rest
      end
  end.

Record client_view := {
  cv_resp : resp;
  cv_body : body_result;       (* what io.ReadAll(resp.Body) gives the caller *)
  cv_reusable : bool           (* connection returned to the idle pool (peer keeps it open) *)
}.

Definition client_read (meth : bytes) (s : bytes) : option client_view :=
  match read_final 7 meth 0 s with
  | FhOk r rest =>
      let b := read_body conn_bufsize r rest in
      Some {| cv_resp := r; cv_body := b;
              cv_reusable := negb (r_close r) && (no_reuse_status_bound <? r_code r)%Z &&
                             (match b_end b with BOk => true | _ => false end) &&
                             is_nil (b_rest b) |}
  | _ => None
  end.

(* ---------- several exchanges on one connection ----------

   The state carried from one exchange to the next is the connection's read buffer: the bytes
   the server sent that the previous exchange did not consume.  The server answers request i
   with the segment seg_i (all of it has arrived when the client finishes reading response i -
   the worst case for bytes sent behind a message).  A [policy] decides after each exchange
   whether the connection goes back to the idle pool and serves the next request.
   [reuse_real] is readLoop's decision (both branches, after fix 3c2fb34);
   [reuse_without_buffer_check] is the decision without `pc.br.Buffered() == 0`
   (the pinned fork, and net/http, which relies on its read loop noticing the bytes first). *)

Definition policy := resp -> body_result -> bool.

Definition reuse_without_buffer_check : policy := fun r b =>
  negb (r_close r) && (no_reuse_status_bound <? r_code r)%Z && (match b_end b with BOk => true | _ => false end).
Definition reuse_real : policy := fun r b =>
  reuse_without_buffer_check r b && is_nil (b_rest b).

(* one exchange on a connection whose buffer holds [buf] *)
Definition exchange (meth : bytes) (buf seg : bytes) : option (resp * body_result) :=
  match read_final 7 meth 0 (buf ++ seg) with
  | FhOk r rest => Some (r, read_body conn_bufsize r rest)
  | _ => None
  end.

(* the answers handed to the successive requests served by ONE connection (the list ends with
   the first exchange after which the connection is not reused) *)
Fixpoint conn_exchanges (pol : policy) (buf : bytes) (reqs : list (bytes * bytes))
  : list (option (resp * body_result)) :=
  match reqs with
  | [] => []
  | (m, seg) :: more =>
      match exchange m buf seg with
      | Some (r, b) => Some (r, b) :: (if pol r b then conn_exchanges pol (b_rest b) more else [])
      | None => [None]
      end
  end.

(* ---------- Expect: 100-continue (persistConn.readResponse's continueCh) ----------

   For a request sent with Expect: 100-continue the read side holds [continueCh], a channel of
   CAPACITY ONE to the request-body writer.  State carried through the loop over response
   heads: is the channel still armed.  A "100 Continue" head seen while armed signals the
   writer (send the body) and DISARMS (continueCh = nil); every further 100 head is an
   ordinary informational head.  After the loop, if still armed (terminal status without any
   100): send the body if the connection will be kept, close the channel (do not send)
   otherwise.  [disarm] = false is the seeded variant that forgets `continueCh = nil`. *)

Inductive cont_signal := SigSendBody | SigDontSend.

Fixpoint read_final_expect (disarm : bool) (fuel : nat) (meth : bytes) (n : nat) (armed : bool)
                           (s : bytes) : final_head * list cont_signal :=
  match fuel with
  | O => (FhErr HOutOfFuel, [])
  | S f =>
      match read_response_head meth conn_bufsize s with
      | inl e => (FhErr e, [])
      | inr (r, rest) =>
          let hit := armed && (r_code r =? 100)%Z in
          let sigs := if hit then [SigSendBody] else [] in
          let armed' := if disarm then armed && negb hit else armed in
          if is_1xx_nonterminal (r_code r) then
            if max_1xx_responses <? S n then (FhTooMany1xx, sigs)
            else let '(fh, more) := read_final_expect disarm f meth (S n) armed' rest in
                 (fh, sigs ++ more)
          else (FhOk r rest,
                sigs ++ (if armed' then [if r_close r then SigDontSend else SigSendBody] else []))
      end
  end.

Definition is_send (c : cont_signal) : bool := match c with SigSendBody => true | _ => false end.

(* ---------- bytes arriving on an IDLE connection ----------

   While a connection sits in the idle pool its read loop is blocked in Peek with
   numExpectedResponses = 0; any byte the server sends then is an unsolicited response and the
   connection is closed (readLoopPeekFailLocked) - it never serves another request.  [guard] =
   false is the variant in which that test no longer fires (seeded f-m1: the count of
   outstanding responses is not decremented after a bodiless response).  The state carried
   between events is the client's connection: None (no usable connection: the next request
   dials) or Some buf (an idle connection whose read buffer holds buf). *)

Inductive conn_event := EvReq (meth seg : bytes) | EvIdleBytes (s : bytes).

Fixpoint client_run (guard : bool) (conn : option bytes) (evs : list conn_event)
  : list (option (resp * body_result)) :=
  match evs with
  | [] => []
  | EvIdleBytes s :: more =>
      match conn with
      | Some buf => if guard && negb (is_nil s) then client_run guard None more
                    else client_run guard (Some (buf ++ s)) more
      | None => client_run guard None more
      end
  | EvReq m seg :: more =>
      let buf := match conn with Some b => b | None => [] end in
      match exchange m buf seg with
      | Some (r, b) =>
          Some (r, b) :: client_run guard (if reuse_real r b then Some (b_rest b) else None) more
      | None => None :: client_run guard None more
      end
  end.

(* the answers a fresh connection per request would give *)
Fixpoint answers_alone (evs : list conn_event) : list (option (resp * body_result)) :=
  match evs with
  | [] => []
  | EvIdleBytes _ :: more => answers_alone more
  | EvReq m seg :: more => exchange m [] seg :: answers_alone more
  end.

(* ---------- reading on after the end of a body ----------

   [body_again]: what the framing reader (transfer.go body) answers to a Read AFTER it has
   returned its terminal result: a length-delimited body cut short sets sawEOF before it
   notices the truncation, so it then answers a clean EOF; every other terminal state is
   repeated.  The client wraps it in bodyEOFSignal, whose first Read error is sticky. *)
Definition body_again (fr : framing) (first : berr) : berr :=
  match fr, first with
  | FrLength _, BUnexpectedEOF => BOk
  | _, e => e
  end.

Definition client_reads_again (sticky : bool) (fr : framing) (first : berr) (k : nat) : list berr :=
  if sticky then repeat first k else repeat (body_again fr first) k.

(* ---------- the connection reported EOF; interim heads over several exchanges ----------

   persistConn.Read records io.EOF from the connection (sawEOF) whatever came with it - also
   when the final bytes of a complete message and io.EOF arrive in the same Read; readLoop never
   offers such a connection to the idle pool. *)
Definition conn_reusable (saw_eof : bool) (cv : client_view) : bool :=
  negb saw_eof && cv_reusable cv.

(* readResponse counts the interim heads of ONE response (num1xx is a local of readResponse):
   [exchange_from n0] is the exchange with the count starting at n0; the real one starts at 0 on
   every exchange, a count carried on the connection (seeded g-m2) starts where the previous
   exchanges left off. *)
Definition exchange_from (n0 : nat) (meth : bytes) (seg : bytes) : option (resp * body_result) :=
  match read_final 7 meth n0 seg with
  | FhOk r rest => Some (r, read_body conn_bufsize r rest)
  | _ => None
  end.
