(* Model/C05Run.v - case type and checker evaluated on harness-generated cases (C05) *)
From ReqV Require Export Lib.Bytes Lib.BigEndian Model.QuicVarint.
Open Scope N_scope.

Inductive c05_case :=
| VarintEnc (v : N) (obs_len : option N) (obs_enc : option bytes)
| VarintEncLen (v len : N) (obs : option bytes)
| VarintDec (input : bytes) (obs_parse : vi_res) (obs_read : option (N * bytes)).

Definition optN_eqb (a b : option N) : bool :=
  match a, b with
  | None, None => true
  | Some x, Some y => x =? y
  | _, _ => false
  end.

Definition vi_res_eqb (a b : vi_res) : bool :=
  match a, b with
  | ViOk v n, ViOk v' n' => (v =? v') && (n =? n')
  | ViEOF, ViEOF => true
  | ViUnexpectedEOF, ViUnexpectedEOF => true
  | _, _ => false
  end.

Definition opt_read_eqb (a b : option (N * bytes)) : bool :=
  match a, b with
  | None, None => true
  | Some (v, r), Some (v', r') => (v =? v') && bytes_eqb r r'
  | _, _ => false
  end.

Definition c05_check (c : c05_case) : bool :=
  match c with
  | VarintEnc v l e => optN_eqb (vi_len v) l && opt_bytes_eqb (vi_append v) e
  | VarintEncLen v len e => opt_bytes_eqb (vi_append_with_len v len) e
  | VarintDec i p rd => vi_res_eqb (vi_parse i) p && opt_read_eqb (vi_read i) rd
  end.
