(* Model/C05Run.v - case type and checker evaluated on harness-generated cases (C05) *)
From ReqV Require Export Lib.Bytes Lib.BigEndian Model.QuicVarint Model.H2Frame Model.H3Frame Model.H2Meta Model.H3Writer Model.H2EncConn Model.H3RespConn.
Open Scope N_scope.


Inductive c05_case :=
| VarintEnc (v : N) (obs_len : option N) (obs_enc : option bytes)
| VarintEncLen (v len : N) (obs : option bytes)
| VarintDec (input : bytes) (obs_parse : vi_res) (obs_read : option (N * bytes))
| H2Read (max_read : N) (input : bytes) (obs : list (res frame))
| H2Write (c : wcall) (obs : wres)
(* ReadFrame with ReadMetaHeaders: limit, stream, per fragment (length, fields completed in it) *)
| H2Meta (max_list sid : N) (frags : list (N * list hfield)) (obs : meta_res)
(* HTTP/3: one ParseNext call on a reader holding input; the bytes left are compared on success *)
(* several header blocks through ONE Framer / hpack decoder *)
| H2MetaSeq (max_list : N) (blocks : list (N * list (N * list hfield))) (obs : list meta_res)
(* ... with, per block, whether it opens with a dynamic table size update / ends inside a field *)
| H2MetaSeq2 (max_list : N) (blocks : list (N * (bool * bool) * list (N * list hfield))) (obs : list meta_res)
(* ... and frames the frame parser refuses in between; per ReadFrame: result, ErrorDetail() non-nil *)
| H2MetaSeq3 (max_list : N) (evs : list fevent) (obs : list (meta_res * bool))
(* one connection's header encoder: the peer's limit and, per valid exchange, the field list and
   whether the client refused it *)
| H2EncSeq (limit : N) (xs : list (list hfield * bool))
| H3Next (body : bool) (input : bytes) (obs : h3res h3frame) (obs_rest : option bytes)
(* dataFrame/headersFrame.Append (t = 0 / 1) *)
| H3FrameHdr (t l : N) (obs : option bytes)
(* settingsFrame.Append: the map, the order the call iterated it in (read back from the bytes), the bytes *)
| H3SettingsAppend (d e : bool) (other order : list (N * N)) (obs : option bytes)
(* requestWriter.writeHeaders: the field section (as a writer used by nobody else encodes it) and the
   bytes handed to the stream *)
| H3WriteFrame (section obs : bytes)
(* two requests on one writer, A parked inside its k-th Write while B runs: both streams' bytes *)
| H3Writer (k : N) (sec_a sec_b obs_a obs_b : bytes)
(* responses read in sequence on one connection: class, (accepted, connection closed after) *)
| H3RespSeq (obs : list (rclass * (bool * bool)))
| H3Fields (is_request : bool) (fs : list field) (obs : hres h3header)
| H3Trailers (fs : list field) (obs : hres hmap)
| H3Response (fs : list field) (obs : hres (h3header * Z)).

Definition optN_eqb (a b : option N) : bool :=
  match a, b with
  | None, None => true
  | Some x, Some y => x =? y
  | _, _ => false
  end.

Definition vi_res_eqb (a b : vi_res) : bool :=
  match a, b with
  | ViOk v n, ViOk v' n' => (v =? v') && (n =? n')
  | ViEOF, ViEOF => true
  | ViUnexpectedEOF, ViUnexpectedEOF => true
  | _, _ => false
  end.

Definition opt_read_eqb (a b : option (N * bytes)) : bool :=
  match a, b with
  | None, None => true
  | Some (v, r), Some (v', r') => (v =? v') && bytes_eqb r r'
  | _, _ => false
  end.

Definition fhdr_eqb (a b : fhdr) : bool :=
  (fh_len a =? fh_len b) && (fh_type a =? fh_type b) && (fh_flags a =? fh_flags b) && (fh_sid a =? fh_sid b).
Definition prio_eqb (a b : prio) : bool :=
  (p_dep a =? p_dep b) && Bool.eqb (p_excl a) (p_excl b) && (p_weight a =? p_weight b).
Definition pairN_eqb (a b : N * N) : bool := (fst a =? fst b) && (snd a =? snd b).

Definition frame_eqb (a b : frame) : bool :=
  match a, b with
  | FData h d, FData h' d' => fhdr_eqb h h' && bytes_eqb d d'
  | FHeaders h p f, FHeaders h' p' f' => fhdr_eqb h h' && prio_eqb p p' && bytes_eqb f f'
  | FPriority h p, FPriority h' p' => fhdr_eqb h h' && prio_eqb p p'
  | FRst h c, FRst h' c' => fhdr_eqb h h' && (c =? c')
  | FSettings h l, FSettings h' l' => fhdr_eqb h h' && list_eqb pairN_eqb l l'
  | FPushPromise h p f, FPushPromise h' p' f' => fhdr_eqb h h' && (p =? p') && bytes_eqb f f'
  | FPing h d, FPing h' d' => fhdr_eqb h h' && bytes_eqb d d'
  | FGoAway h l c d, FGoAway h' l' c' d' => fhdr_eqb h h' && (l =? l') && (c =? c') && bytes_eqb d d'
  | FWindowUpdate h i, FWindowUpdate h' i' => fhdr_eqb h h' && (i =? i')
  | FContinuation h f, FContinuation h' f' => fhdr_eqb h h' && bytes_eqb f f'
  | FUnknown h p, FUnknown h' p' => fhdr_eqb h h' && bytes_eqb p p'
  | _, _ => false
  end.

Definition h2err_eqb (a b : h2err) : bool :=
  match a, b with
  | EConn c, EConn c' => c =? c'
  | EStream s c, EStream s' c' => (s =? s') && (c =? c')
  | EUnexpectedEOF, EUnexpectedEOF => true
  | EEOF, EEOF => true
  | EFrameTooLarge, EFrameTooLarge => true
  | _, _ => false
  end.

Definition res_eqb (a b : res frame) : bool :=
  match a, b with
  | Ok f, Ok f' => frame_eqb f f'
  | Err e, Err e' => h2err_eqb e e'
  | _, _ => false
  end.

Definition werr_eqb (a b : werr) : bool :=
  match a, b with
  | WStreamID, WStreamID | WDepStreamID, WDepStreamID | WPadLength, WPadLength
  | WPadBytes, WPadBytes | WWindowIncr, WWindowIncr | WFrameTooLarge, WFrameTooLarge => true
  | _, _ => false
  end.

Definition wres_eqb (a b : wres) : bool :=
  match a, b with
  | WOk x, WOk y => bytes_eqb x y
  | WErr e, WErr e' => werr_eqb e e'
  | _, _ => false
  end.

(* ---- HTTP/3 observables ---- *)
Definition pairs_sub (a b : list (N * N)) : bool :=
  forallb (fun p => match assocN (fst p) b with Some v => v =? snd p | None => false end) a.
(* equal as maps (the observed one is sorted by id, the model's is in insertion order) *)
Definition pairs_same_map (a b : list (N * N)) : bool :=
  (length a =? length b)%nat && pairs_sub a b && pairs_sub b a.
Definition h3settings_eqb (a b : h3settings) : bool :=
  Bool.eqb (sf_datagram a) (sf_datagram b) && Bool.eqb (sf_extconnect a) (sf_extconnect b) &&
  pairs_same_map (sf_other a) (sf_other b).
Definition h3frame_eqb (a b : h3frame) : bool :=
  match a, b with
  | H3Data l, H3Data l' | H3Headers l, H3Headers l' => l =? l'
  | H3Settings s, H3Settings s' => h3settings_eqb s s'
  | _, _ => false
  end.
Definition h3err_eqb (a b : h3err) : bool :=
  match a, b with
  | H3EOF, H3EOF => true
  | H3UnexpectedEOF, H3UnexpectedEOF => true
  | H3Reserved t, H3Reserved t' => t =? t'
  | H3SettingsTooLarge l, H3SettingsTooLarge l' => l =? l'
  | H3DupSetting i, H3DupSetting i' => i =? i'
  | H3BadSettingValue i v, H3BadSettingValue i' v' => (i =? i') && (v =? v')
  | _, _ => false
  end.
Definition h3res_frame_eqb (a b : h3res h3frame) : bool :=
  match a, b with
  | H3Ok x, H3Ok y => h3frame_eqb x y
  | H3Err x, H3Err y => h3err_eqb x y
  | _, _ => false
  end.
Definition hmap_sub (a b : hmap) : bool :=
  forallb (fun kv => match assoc_bytes (fst kv) b with Some vs => list_eqb bytes_eqb vs (snd kv) | None => false end) a.
Definition hmap_eqb (a b : hmap) : bool := (length a =? length b)%nat && hmap_sub a b && hmap_sub b a.
Definition mkhd (path method authority scheme status protocol : bytes) (cl : option N) (m : hmap) : h3header :=
  {| hd_path := path; hd_method := method; hd_authority := authority; hd_scheme := scheme; hd_status := status;
     hd_protocol := protocol; hd_cl := cl; hd_headers := m |}.
Definition h3header_eqb (a b : h3header) : bool :=
  bytes_eqb (hd_path a) (hd_path b) && bytes_eqb (hd_method a) (hd_method b) &&
  bytes_eqb (hd_authority a) (hd_authority b) && bytes_eqb (hd_scheme a) (hd_scheme b) &&
  bytes_eqb (hd_status a) (hd_status b) && bytes_eqb (hd_protocol a) (hd_protocol b) &&
  optN_eqb (hd_cl a) (hd_cl b) && hmap_eqb (hd_headers a) (hd_headers b).
(* model error vs observed error class; a non-ASCII name is refused by whichever check sees it first *)
Definition hderr_match (m o : hderr) : bool :=
  match m, o with
  | HNonAsciiName, (HNotLower | HBadValue | HPseudoAfterRegular | HUnknownPseudo | HBadName) => true
  | HNotLower, HNotLower | HBadValue, HBadValue | HPseudoAfterRegular, HPseudoAfterRegular
  | HUnknownPseudo, HUnknownPseudo | HWrongPseudo, HWrongPseudo | HBadName, HBadName | HBadTE, HBadTE
  | HContradictingCL, HContradictingCL | HInvalidCL, HInvalidCL | HMissingStatus, HMissingStatus
  | HInvalidStatus, HInvalidStatus | HPseudoInTrailer, HPseudoInTrailer => true
  | _, _ => false
  end.
Definition hres_eqb {A} (eq : A -> A -> bool) (m o : hres A) : bool :=
  match m, o with
  | HOk x, HOk y => eq x y
  | HErr x, HErr y => hderr_match x y
  | _, _ => false
  end.

Definition meta_res_eqb (a b : meta_res) : bool :=
  match a, b with
  | MOk f t, MOk f' t' => list_eqb (fun a b => bytes_eqb (fst a) (fst b) && bytes_eqb (snd a) (snd b)) f f' && Bool.eqb t t'
  | MErr e, MErr e' => h2err_eqb e e'
  | _, _ => false
  end.

Definition c05_check (c : c05_case) : bool :=
  match c with
  | VarintEnc v l e => optN_eqb (vi_len v) l && opt_bytes_eqb (vi_append v) e
  | VarintEncLen v len e => opt_bytes_eqb (vi_append_with_len v len) e
  | VarintDec i p rd => vi_res_eqb (vi_parse i) p && opt_read_eqb (vi_read i) rd
  | H2Read mx i obs =>
      list_eqb res_eqb (read_frames (length obs) {| rs_last := 0; rs_max := set_max_read mx |} i) obs
  | H2Write c obs => wres_eqb (run_wcall c) obs
  | H2Meta mx sid frags obs => meta_res_eqb (h2_meta mx sid frags) obs
  | H2MetaSeq mx blocks obs => list_eqb meta_res_eqb (h2_meta_seq true mx blocks) obs
  | H2MetaSeq2 mx blocks obs => list_eqb meta_res_eqb (h2_meta_seq2 true (true, false) mx blocks) obs
  | H2MetaSeq3 mx evs obs =>
      list_eqb (fun a b => meta_res_eqb (fst a) (fst b) && Bool.eqb (snd a) (snd b)) (read_events true (true, false) false mx evs) obs
  | H2EncSeq limit xs => forallb (fun x => Bool.eqb (over_limit limit (fst x)) (snd x)) xs
  | H3Next body i obs rest =>
      let '(r, lft) := h3_parse_next_b body i in
      h3res_frame_eqb r obs && match rest with Some x => bytes_eqb lft x | None => true end
  | H3FrameHdr t l obs => opt_bytes_eqb (h3_frame_header t l) obs
  | H3SettingsAppend d e other order obs =>
      pairs_same_map other order && opt_bytes_eqb (h3_settings_append d e order) obs
  | H3WriteFrame sec obs => bytes_eqb (wframe sec) obs
  | H3Writer k sa sb oa ob =>
      let st := wrun (fun t : bool => if t then sa else sb) true (park_schedule k) in
      match t_pc (w_a st), t_pc (w_b st) with
      | PDone, PDone => bytes_eqb (t_out (w_a st)) oa && bytes_eqb (t_out (w_b st)) ob
      | _, _ => false
      end
  | H3RespSeq obs =>
      list_eqb (fun a b => Bool.eqb (fst a) (fst b) && Bool.eqb (snd a) (snd b)) (resp_seq true rinit (map fst obs)) (map snd obs)
  | H3Fields q fs obs => hres_eqb h3header_eqb (h3_parse_headers q fs) obs
  | H3Trailers fs obs => hres_eqb hmap_eqb (h3_parse_trailers fs) obs
  | H3Response fs obs =>
      hres_eqb (fun a b => h3header_eqb (fst a) (fst b) && (snd a =? snd b)%Z) (h3_response fs) obs
  end.
