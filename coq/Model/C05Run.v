(* Model/C05Run.v - case type and checker evaluated on harness-generated cases (C05) *)
From ReqV Require Export Lib.Bytes Lib.BigEndian Model.QuicVarint Model.H2Frame.
Open Scope N_scope.


Inductive c05_case :=
| VarintEnc (v : N) (obs_len : option N) (obs_enc : option bytes)
| VarintEncLen (v len : N) (obs : option bytes)
| VarintDec (input : bytes) (obs_parse : vi_res) (obs_read : option (N * bytes))
| H2Read (max_read : N) (input : bytes) (obs : list (res frame))
| H2Write (c : wcall) (obs : wres).

Definition optN_eqb (a b : option N) : bool :=
  match a, b with
  | None, None => true
  | Some x, Some y => x =? y
  | _, _ => false
  end.

Definition vi_res_eqb (a b : vi_res) : bool :=
  match a, b with
  | ViOk v n, ViOk v' n' => (v =? v') && (n =? n')
  | ViEOF, ViEOF => true
  | ViUnexpectedEOF, ViUnexpectedEOF => true
  | _, _ => false
  end.

Definition opt_read_eqb (a b : option (N * bytes)) : bool :=
  match a, b with
  | None, None => true
  | Some (v, r), Some (v', r') => (v =? v') && bytes_eqb r r'
  | _, _ => false
  end.

Definition fhdr_eqb (a b : fhdr) : bool :=
  (fh_len a =? fh_len b) && (fh_type a =? fh_type b) && (fh_flags a =? fh_flags b) && (fh_sid a =? fh_sid b).
Definition prio_eqb (a b : prio) : bool :=
  (p_dep a =? p_dep b) && Bool.eqb (p_excl a) (p_excl b) && (p_weight a =? p_weight b).
Definition pairN_eqb (a b : N * N) : bool := (fst a =? fst b) && (snd a =? snd b).

Definition frame_eqb (a b : frame) : bool :=
  match a, b with
  | FData h d, FData h' d' => fhdr_eqb h h' && bytes_eqb d d'
  | FHeaders h p f, FHeaders h' p' f' => fhdr_eqb h h' && prio_eqb p p' && bytes_eqb f f'
  | FPriority h p, FPriority h' p' => fhdr_eqb h h' && prio_eqb p p'
  | FRst h c, FRst h' c' => fhdr_eqb h h' && (c =? c')
  | FSettings h l, FSettings h' l' => fhdr_eqb h h' && list_eqb pairN_eqb l l'
  | FPushPromise h p f, FPushPromise h' p' f' => fhdr_eqb h h' && (p =? p') && bytes_eqb f f'
  | FPing h d, FPing h' d' => fhdr_eqb h h' && bytes_eqb d d'
  | FGoAway h l c d, FGoAway h' l' c' d' => fhdr_eqb h h' && (l =? l') && (c =? c') && bytes_eqb d d'
  | FWindowUpdate h i, FWindowUpdate h' i' => fhdr_eqb h h' && (i =? i')
  | FContinuation h f, FContinuation h' f' => fhdr_eqb h h' && bytes_eqb f f'
  | FUnknown h p, FUnknown h' p' => fhdr_eqb h h' && bytes_eqb p p'
  | _, _ => false
  end.

Definition h2err_eqb (a b : h2err) : bool :=
  match a, b with
  | EConn c, EConn c' => c =? c'
  | EStream s c, EStream s' c' => (s =? s') && (c =? c')
  | EUnexpectedEOF, EUnexpectedEOF => true
  | EEOF, EEOF => true
  | EFrameTooLarge, EFrameTooLarge => true
  | _, _ => false
  end.

Definition res_eqb (a b : res frame) : bool :=
  match a, b with
  | Ok f, Ok f' => frame_eqb f f'
  | Err e, Err e' => h2err_eqb e e'
  | _, _ => false
  end.

Definition werr_eqb (a b : werr) : bool :=
  match a, b with
  | WStreamID, WStreamID | WDepStreamID, WDepStreamID | WPadLength, WPadLength
  | WPadBytes, WPadBytes | WWindowIncr, WWindowIncr | WFrameTooLarge, WFrameTooLarge => true
  | _, _ => false
  end.

Definition wres_eqb (a b : wres) : bool :=
  match a, b with
  | WOk x, WOk y => bytes_eqb x y
  | WErr e, WErr e' => werr_eqb e e'
  | _, _ => false
  end.

Definition c05_check (c : c05_case) : bool :=
  match c with
  | VarintEnc v l e => optN_eqb (vi_len v) l && opt_bytes_eqb (vi_append v) e
  | VarintEncLen v len e => opt_bytes_eqb (vi_append_with_len v len) e
  | VarintDec i p rd => vi_res_eqb (vi_parse i) p && opt_read_eqb (vi_read i) rd
  | H2Read mx i obs =>
      list_eqb res_eqb (read_frames (length obs) {| rs_last := 0; rs_max := set_max_read mx |} i) obs
  | H2Write c obs => wres_eqb (run_wcall c) obs
  end.
