(* Model/C09Run.v - case type and checker evaluated on harness-generated cases (C09).

   SnapCase   : a lock-consistent snapshot of the REAL pool (VerifPoolSnapshot) taken while
                concurrent callers run; the model's boolean invariants [snap_ok] (proved for
                every reachable model state: C09_reachable_snapshot_ok) are evaluated on it.
   ReplayCase : a deterministic single-threaded scenario.  Every API-level operation is expanded
                by [apply_op] into the model's lock-region events ([step]) following the model's
                own state, and after every operation the projection of the model state and the
                GotConn facts are compared with what the real Transport showed.
   DemuxCase  : frames written by the origin on one multiplexed connection in wire order, and
                what every caller received; [demux] must give each caller exactly its body.
   H2SnapCase : a lock-consistent snapshot of the REAL HTTP/2 pool (VerifH2PoolSnapshot) taken
                while callers run; [h2snap_ok] (proved for every reachable state of Model/H2Pool.v
                in which the peer never lowered MAX_CONCURRENT_STREAMS) is evaluated on it.
   H2ReplayCase : a deterministic forced-HTTP/2 scenario replayed through [h2_step]; after every
                operation the stream ids, reservations and nextStreamID of every pooled
                connection are compared with the real pool.
   H3SnapCase : useCounts of the REAL HTTP/3 client cache with the harness's upper bound on
                requests in flight ([h3snap_ok]).
   ExpectCase : one Expect: 100-continue exchange as a raw origin saw it ([expect_case_ok]).
   H2HdrCase  : a sequential forced-HTTP/2 scenario with response header lists around the
                client's MaxHeaderListSize, replayed through [hconn_step] ([hdr_replay]).
   AsyncDumpCase : the chunks a caller streamed through one buffer under a lagging asynchronous
                dumper, and what the dump received ([async_dump_ok]). *)
From Coq Require Import List Arith Bool ZArith.
From ReqV Require Export Lib.Bytes Model.Pool Model.Demux Model.H2Pool Model.H3Cache Model.Carried.
Import ListNotations.

Inductive op :=
| OStart (k : key)                  (* a request to host k enters getConn *)
| OFinish (w : want) (r : recycle)  (* the exchange of request w ends (readLoop's decision inputs) *)
| OCancel (w : want)                (* the context of a request waiting for a connection is cancelled *)
| OCloseIdle                        (* Transport.CloseIdleConnections *)
| OStartCI (k : key)                (* OStart with CloseIdleConnections called from the GotConn hook (the
                                       connection is already held by the request; a request that cannot get a
                                       connection yet fires no hook: then it is a plain OStart) *)
| OServerClose (k : key).           (* the origin closes every idle connection of host k *)

Definition got := (want * conn * bool * bool)%type.   (* request, conn, Reused, WasIdle *)

Fixpoint find_lt (p : nat -> bool) (n : nat) : option nat :=
  match n with
  | 0 => None
  | S m => match find_lt p m with
           | Some i => Some i
           | None => if p m then Some m else None
           end
  end.

(* the next lock region some goroutine can enter without a new API call (lowest id first) *)
Definition runnable (dial_fail : list key) (s : state) : option event :=
  match find_lt (fun w => match wres s w with Some _ => true | None => false end) (next_want s) with
  | Some w => Some (ERecv w)
  | None =>
  match find_lt (fun w => is_counted (wdial s w)) (next_want s) with
  | Some w => Some (match wdial s w with
                    | DPermitted => EDialBegin w
                    | DDialing => EDialEnd w (negb (memb (wk s w) dial_fail))
                    | _ => EDialDec w
                    end)
  | None =>
  match find_lt (fun c => match cloc s c with LLoose => true | _ => false end) (next_conn s) with
  | Some c => Some (EPutLoose c)
  | None =>
  match find_lt (fun c => match cloc s c with LDead => negb (closed s c) | _ => false end) (next_conn s) with
  | Some c => Some (EConnClose c)
  | None => None
  end end end end.

Definition got_of (s : state) (e : event) : list got :=
  match e with
  | ERecv w => match wres s w with
               | Some (c, wi) => [(w, c, reused s c, wi)]
               | None => []
               end
  | _ => []
  end.

Fixpoint settle (cfg : config) (df : list key) (fuel : nat) (s : state) (acc : list got) : state * list got :=
  match fuel with
  | 0 => (s, acc)
  | S f => match runnable df s with
           | None => (s, acc)
           | Some e => settle cfg df f (step cfg s e) (acc ++ got_of s e)
           end
  end.

Definition apply_basic (cfg : config) (df : list key) (s : state) (o : op) : state * list got :=
  let pre :=
    match o with
    | OStart k | OStartCI k =>
        let w := next_want s in
        let s1 := step cfg s (EGet k) in
        if wneed s1 w then step cfg s1 (EQueueDial w) else s1
    | OFinish w r => step cfg s (EFinish w r)
    | OCancel w => step cfg s (ECancel w)
    | OCloseIdle =>
        fold_left (fun s c => step cfg s (EConnClose c)) (lru s) (step cfg s ECloseIdle)
    | OServerClose k =>
        fold_left (fun s c => step cfg (step cfg s (EConnClose c)) (ERemoveIdle c)) (idle s k) s
    end in
  settle cfg df 64 pre [].

Definition apply_op (cfg : config) (df : list key) (s : state) (o : op) : state * list got :=
  match o with
  | OStartCI k =>
      let w := next_want s in
      let '(s1, g1) := apply_basic cfg df s (OStart k) in
      if existsb (fun g : got => let '(w', _, _, _) := g in Nat.eqb w' w) g1 then
        (* GotConn fired during this operation: the hook ran CloseIdleConnections *)
        let '(s2, g2) := apply_basic cfg df s1 OCloseIdle in (s2, g1 ++ g2)
      else (s1, g1)
  | _ => apply_basic cfg df s o
  end.

(* observed after an operation: GotConn facts since the previous one, and the pool projection
   (idle list lengths, LRU length, wait-queue lengths, per-host counts) *)
Record observed := mkObs {
  o_got : list got;
  o_idle : list nat; o_lru : nat; o_idle_wait : list nat; o_per_host : list nat; o_dial_wait : list nat }.

Definition got_eqb (a b : got) : bool :=
  let '(w1, c1, r1, i1) := a in let '(w2, c2, r2, i2) := b in
  Nat.eqb w1 w2 && Nat.eqb c1 c2 && Bool.eqb r1 r2 && Bool.eqb i1 i2.

Definition nats_eqb (a b : list nat) : bool := list_eqb Nat.eqb a b.

Definition obs_match (s : state) (ks : list key) (g : list got) (o : observed) : bool :=
  let sn := snapshot_of s ks in
  list_eqb got_eqb g (o_got o) &&
  nats_eqb (map (@length conn) (sn_idle sn)) (o_idle o) &&
  Nat.eqb (sn_lru_len sn) (o_lru o) &&
  nats_eqb (sn_idle_wait sn) (o_idle_wait o) &&
  nats_eqb (sn_per_host sn) (o_per_host o) &&
  nats_eqb (sn_dial_wait sn) (o_dial_wait o).

Fixpoint replay (cfg : config) (df ks : list key) (s : state) (steps : list (op * observed)) : bool :=
  match steps with
  | [] => negb (panicked s)
  | (o, ob) :: rest =>
      let '(s', g) := apply_op cfg df s o in
      obs_match s' ks g ob && snap_ok cfg (snapshot_of s' ks) && replay cfg df ks s' rest
  end.

(* run-length notation used by the harness for long runs of one byte (exact, see coqRLE) *)
Definition rep (n : N) (b : byte) : bytes := repeat b (N.to_nat n).

(* ---------- deterministic HTTP/2 scenarios (forced HTTP/2: GetClientConn with dialOnMiss) ---------- *)

Inductive h2op :=
| P2Start                 (* a request to the (single) authority enters RoundTrip and reaches the origin *)
| P2StartCI               (* the same, with Transport.CloseIdleConnections called by another goroutine at the
                             moment the connection has been picked (httptrace GotConn: after GetClientConn's
                             reservation, before writeRequest opens the stream) *)
| P2Finish (r : rid)      (* the origin answers request r and the caller reads the body to the end *)
| P2CloseIdle.            (* Transport.CloseIdleConnections *)

(* per pooled connection, in p.conns order: stream ids (any order), streamsReserved, nextStreamID *)
Definition h2obs := list (list nat * nat * nat).

(* the next lock region some goroutine can enter without a new API call; [m] is the
   MAX_CONCURRENT_STREAMS the origin announces in its first SETTINGS frame *)
Definition h2_runnable (m : nat) (s : h2state) : option h2event :=
  match find_lt (fun cl => match call_res s cl with None => true | Some _ => false end) (n_call s) with
  | Some cl => Some (H2DialDone cl true)
  | None =>
  match find_lt (fun c => negb (Nat.eqb (c_max s c) m)) (n_cid s) with
  | Some c => Some (H2Settings c m)
  | None =>
  match find_lt (fun r => match r_phase s r with RWaitDial _ _ => true | _ => false end) (n_rid s) with
  | Some r => Some (H2Wake r true)
  | None =>
  match find_lt (fun r => match r_phase s r with RScan _ => true | _ => false end) (n_rid s) with
  | Some r => Some (H2Rescan r)
  | None =>
  match find_lt (fun r => match r_phase s r with RReserved _ => true | _ => false end) (n_rid s) with
  | Some r => Some (H2Open r true)
  | None =>
  match find_lt (fun c => c_closed s c && in_pool s c) (n_cid s) with
  | Some c => Some (H2ConnLost c)
  | None => None
  end end end end end end.

Fixpoint h2_settle (m : nat) (fuel : nat) (s : h2state) : h2state :=
  match fuel with
  | 0 => s
  | S f => match h2_runnable m s with
           | None => s
           | Some e => h2_settle m f (h2_step s e)
           end
  end.

(* run what can run, but stop in front of the first H2Open (the request holds its reservation) *)
Fixpoint h2_settle_reserved (m : nat) (fuel : nat) (s : h2state) : h2state :=
  match fuel with
  | 0 => s
  | S f => match h2_runnable m s with
           | None => s
           | Some (H2Open _ _) => s
           | Some e => h2_settle_reserved m f (h2_step s e)
           end
  end.

Definition h2_apply (m : nat) (s : h2state) (o : h2op) : h2state :=
  h2_settle m 64
    (match o with
     | P2Start => h2_step s (H2Get 0)
     | P2StartCI => h2_step (h2_settle_reserved m 64 (h2_step s (H2Get 0))) H2CloseIdle
     | P2Finish r => h2_step s (H2End r true)
     | P2CloseIdle => h2_step s H2CloseIdle
     end).

Definition same_set (a b : list nat) : bool :=
  Nat.eqb (length a) (length b) && forallb (fun x => memb x b) a && forallb (fun x => memb x a) b.

Definition h2obs_match (s : h2state) (o : h2obs) : bool :=
  list_eqb (fun c (ob : list nat * nat * nat) =>
              let '(ids, res, nxt) := ob in
              same_set (map fst (c_streams s c)) ids && Nat.eqb (c_reserved s c) res &&
              Nat.eqb (c_next s c) nxt)
           (p_conns s 0) o.

Fixpoint h2_replay (m : nat) (s : h2state) (steps : list (h2op * h2obs)) : bool :=
  match steps with
  | [] => negb (h2_panicked s)
  | (o, ob) :: rest =>
      let s' := h2_apply m s o in
      h2obs_match s' ob && h2snap_ok (h2snap_of s' [0]) && h2_replay m s' rest
  end.

(* ---------- (round 5) a dial shared by several forced-HTTP/2 requests ---------- *)

Definition is_open (s : h2state) (r : rid) : bool :=
  match r_phase s r with ROpen _ _ => true | _ => false end.

(* request 0 starts the dial, requests 1..nw join it while it is pending; the dial ends with [e]
   (DErrNone: succeeds; DErrCanceled / DErrDeadline: the owner's context ended; DErrOther: the
   dial failed for a reason of its own).  Result: dials started, owner served, waiters served. *)
Definition share_dial_model (e : dial_err) (nw : nat) : nat * bool * list bool :=
  let s0 := fold_left h2_step (repeat (H2Get 0) (S nw)) h2_init in
  let s :=
    match e with
    | DErrNone => h2_settle 250 200 s0
    | _ =>
        let s1 := h2_step s0 (H2DialDone 0 false) in
        let s2 := h2_step s1 (H2Wake 0 (should_retry_dial true e true)) in
        let owner_done := match e with DErrOther => false | _ => true end in
        let s3 := fold_left (fun s r => h2_step s (H2Wake r (should_retry_dial false e owner_done))) (seq 1 nw) s2 in
        h2_settle 250 200 s3
    end in
  (n_call s, is_open s 0, map (is_open s) (seq 1 nw)).

Definition share_dial_ok (e : dial_err) (nw dials : nat) (owner_ok : bool) (waiters_ok : list bool) : bool :=
  let '(d, o, ws) := share_dial_model e nw in
  Nat.eqb d dials && Bool.eqb o owner_ok && list_eqb Bool.eqb ws waiters_ok.

(* ---------- (round 5) deterministic HTTP/3 cache scenarios (one authority) ---------- *)

Inductive h3op :=
| P3Start                  (* a request enters RoundTripOpt: getClient *)
| P3Cancel (q : nat)       (* the context of a request that waits for the pending dial ends (not the one that started the dial) *)
| P3CancelOwner (q : nat)  (* the context of the request that started the pending dial ends: the dial fails with it *)
| P3DialDone               (* the pending QUIC dial of the cached client completes *)
| P3Finish (q : nat)       (* the origin answers request q *)
| P3CloseIdle.

(* waiters whose dial has ended go on (dial error of another request's context: dial again) *)
Definition h3_runnable (s : h3state) : option h3event :=
  match find_lt (fun q => match q_phase s q with
                          | Q3Wait cl => match cl_dial s cl with DialRunning => false | _ => true end
                          | _ => false
                          end) (n_q s) with
  | Some q => Some (E3Proceed q true)
  | None =>
  match find_lt (fun q => match q_phase s q with Q3Again _ => true | _ => false end) (n_q s) with
  | Some q => Some (E3Reget q)
  | None => None
  end end.

Fixpoint h3_settle (fuel : nat) (s : h3state) : h3state :=
  match fuel with
  | 0 => s
  | S f => match h3_runnable s with
           | None => s
           | Some e => h3_settle f (h3_step s e)
           end
  end.

Definition h3_apply (s : h3state) (o : h3op) : h3state :=
  h3_settle 32
    (match o with
     | P3Start => h3_step s (E3Get 0)
     | P3Cancel q => h3_step s (E3Abandon q)
     | P3CancelOwner q =>
         match q_phase s q with
         | Q3Wait cl => h3_step (h3_step s (E3Abandon q)) (E3DialDone cl false)
         | _ => s
         end
     | P3DialDone => match clients s 0 with
                     | Some cl => h3_step s (E3DialDone cl true)
                     | None => s
                     end
     | P3Finish q => h3_step s (E3Finish q true false)
     | P3CloseIdle => h3_step s E3CloseIdle
     end).

(* observed after an operation: is a client cached for the authority, and its useCount *)
Definition h3obs := (bool * Z)%type.

Fixpoint h3_replay (s : h3state) (steps : list (h3op * h3obs)) : bool :=
  match steps with
  | [] => true
  | (o, (present, use)) :: rest =>
      let s' := h3_apply s o in
      match clients s' 0 with
      | Some cl =>
          if present then (cl_use s' cl =? use)%Z && h3_replay s' rest
          else
            (* admissible, not equal: when the request that started a dial is cancelled, its
               RoundTripOpt sees either its context (entry stays, with the failed dial) or the
               closed dial channel (dialErr: removeClientEntry) - both are ready, select picks
               one.  An unused entry with a failed dial may therefore be absent already. *)
            stale s' cl && (cl_use s' cl =? 0)%Z &&
            h3_replay (set3_clients (upd (clients s') 0 None) s') rest
      | None => negb present && h3_replay s' rest
      end
  end.

Inductive c09_case :=
| SnapCase (cfg : config) (sn : snapshot)
| ReplayCase (cfg : config) (ks dial_fail : list key) (steps : list (op * observed))
| DemuxCase (open : list sid) (wire : list (sid * bytes)) (received : list (sid * bytes))
| H2SnapCase (ks : list h2key_snap)
| H2ReplayCase (maxconc : nat) (steps : list (h2op * h2obs))
| H3SnapCase (inflight_upper : nat) (uses : list Z)
| ExpectCase (sent100 resp_close : bool) (announced received : nat) (reused : bool)
| H2HdrCase (limit : nat) (obs : list hdr_obs)
| AsyncDumpCase (chunks : list bytes) (dumped : bytes)
| ProxyCase (a b : cmethod) (same_conn : bool)
| ShareDialCase (e : dial_err) (waiters dials : nat) (owner_ok : bool) (waiters_ok : list bool)
| H3ReplayCase (steps : list (h3op * h3obs))
| H2ReqHdrCase (peer_max : nat) (obs : list (list nat * bool))
| GoAwayCase (open lasts : list nat) (on_first elsewhere : nat)
| PipeCase (w : write_report) (reused : bool)
| FlowCase (window : nat) (unread : list nat) (next : nat) (delivered : bool).

Definition c09_check (c : c09_case) : bool :=
  match c with
  | SnapCase cfg sn => snap_ok cfg sn
  | ReplayCase cfg ks df steps => replay cfg df ks init steps
  | DemuxCase open wire received =>
      forallb (fun r => bytes_eqb (concat (demux open wire (fst r))) (snd r)) received
  | H2SnapCase ks => h2snap_ok ks
  | H2ReplayCase m steps => h2_replay m h2_init steps
  | H3SnapCase n uses => h3snap_ok n uses
  | ExpectCase s100 rc ann rcv reused => expect_case_ok s100 rc ann rcv reused
  | H2HdrCase limit obs => hdr_replay limit hconn_init 0 obs
  | AsyncDumpCase chunks dumped => async_dump_ok chunks dumped
  | ProxyCase a b same => proxy_case_ok a b same
  | ShareDialCase e nw d o ws => share_dial_ok e nw d o ws
  | H3ReplayCase steps => h3_replay h3_init steps
  | H2ReqHdrCase pm obs => reqhdr_replay pm hsend_init obs
  | GoAwayCase open lasts a b => goaway_case_ok open lasts a b
  | PipeCase w reused => pipe_case_ok w reused
  | FlowCase w unread next d => flow_case_ok w unread next d
  end.
