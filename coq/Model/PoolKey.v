(* Model/PoolKey.v - C19: the proxy setting of a client changed after use, HTTP/1.1 pool.
   A plain-http request through an http proxy is sent on a pooled connection; the Proxy-Authorization
   header is fixed when the connection is dialled (dialConn: pconn.mutateHeaderFunc).  The pool is keyed
   by connectMethod.key(), whose proxy part is the proxy URL - with or without its password (k_pw_in_key,
   regenerated from the source: proxyURL.String() vs. Redacted()).  No proofs in this file. *)
From Coq Require Import List Arith Bool.
Import ListNotations.

(* host 0 = no proxy, user 0 = no credentials *)
Record psetting := { ps_host : nat; ps_user : nat; ps_pw : nat }.
Definition psetting0 : psetting := {| ps_host := 0; ps_user := 0; ps_pw := 0 |}.
Record ktbl := { k_pw_in_key : bool }.
Definition good_key : ktbl := {| k_pw_in_key := true |}.

Definition pkey (t : ktbl) (p : psetting) : nat * nat * nat :=
  if ps_host p =? 0 then (0, 0, 0)
  else if ps_user p =? 0 then (ps_host p, 0, 0)
  else (ps_host p, ps_user p, if k_pw_in_key t then ps_pw p else 0).
(* the credentials a connection dialled under p announces: (user, password), (0, 0) = none *)
Definition pauth (p : psetting) : nat * nat :=
  if (ps_host p =? 0) || (ps_user p =? 0) then (0, 0) else (ps_user p, ps_pw p).

Definition key_eqb (a b : nat * nat * nat) : bool :=
  (fst (fst a) =? fst (fst b)) && (snd (fst a) =? snd (fst b)) && (snd a =? snd b).

Record pclient := { pc_cur : psetting; pc_idle : list ((nat * nat * nat) * (nat * nat)) }.
Definition pclient0 : pclient := {| pc_cur := psetting0; pc_idle := [] |}.

(* one request: reuse the idle connection with the same key, else dial *)
Definition preq (t : ktbl) (c : pclient) : pclient * (nat * nat) :=
  let k := pkey t (pc_cur c) in
  match find (fun e => key_eqb (fst e) k) (pc_idle c) with
  | Some e => (c, snd e)
  | None => ({| pc_cur := pc_cur c; pc_idle := (k, pauth (pc_cur c)) :: pc_idle c |}, pauth (pc_cur c))
  end.

Inductive pstep :=
| PSet (c host user pw : nat)      (* SetProxyURL / SetProxy(nil) *)
| PClone (src dst : nat)           (* same setting, own (empty) pool *)
| PReq (c u p : nat).              (* a request; (u, p) = credentials the proxy received *)

Definition pget (c : nat) (l : list (nat * pclient)) : pclient :=
  match find (fun kv => fst kv =? c) l with Some kv => snd kv | None => pclient0 end.
Definition pset (c : nat) (x : pclient) (l : list (nat * pclient)) : list (nat * pclient) :=
  (c, x) :: filter (fun kv => negb (fst kv =? c)) l.

Fixpoint pool_run (t : ktbl) (st : list (nat * pclient)) (l : list pstep) : bool :=
  match l with
  | [] => true
  | PSet c h u p :: r =>
      pool_run t (pset c {| pc_cur := {| ps_host := h; ps_user := u; ps_pw := p |}; pc_idle := pc_idle (pget c st) |} st) r
  | PClone s d :: r => pool_run t (pset d {| pc_cur := pc_cur (pget s st); pc_idle := [] |} st) r
  | PReq c u p :: r =>
      let '(c', a) := preq t (pget c st) in
      (fst a =? u) && (snd a =? p) && pool_run t (pset c c' st) r
  end.
