(* Model/H1Limits.v - the limits around the HTTP/1.1 response reader (C07).

   Go code modelled:
     transport.go persistConn.Read          readLimit: at most [limit] bytes are read from the
                                            connection while a response head is being read
                  persistConn.readLoop      readLimit = maxHeaderResponseSize() before the head,
                                            maxInt64 for the body; any error when the limit is
                                            used up is reported as "headers exceeded N bytes"
                  persistConn.readResponse  loop over informational responses: num1xx++ ;
                                            num1xx > max1xxResponses (5) => error; 101 is final;
                                            the limit is reset for every head
   The head parser itself is Model/H1Resp.read_response_head (C04).  No proofs here. *)
From ReqV Require Export Lib.Bytes Model.H1Resp.

Definition max_1xx_responses : nat := 5.

Definition is_1xx_nonterminal (code : Z) : bool :=
  (100 <=? code)%Z && (code <=? 199)%Z && negb (code =? 101)%Z.

(* One head read under a budget: whatever the segmentation, the parser never gets to see more
   than the first [visible] bytes of what the server sent (persistConn.Read truncates p to
   readLimit and refuses once it is 0).  [visible] = limit + what was already buffered. *)
Definition limited_head (meth : bytes) (bufsize visible : nat) (s : bytes) : herr + (resp * bytes) :=
  match read_response_head meth bufsize (firstn visible s) with
  | inl e => inl e
  | inr (r, rest) => inr (r, rest ++ skipn visible s)
  end.

Inductive call_result :=
| CallErr (n1xx : nat) (e : herr)      (* _readResponse failed (incl. the header budget running out) *)
| CallTooMany1xx
| CallResp (n1xx : nat) (r : resp) (rest : bytes).

(* readResponse: [budget] = informational responses still tolerated *)
Fixpoint read_loop (budget : nat) (meth : bytes) (bufsize visible : nat) (n1xx : nat) (s : bytes)
  : call_result :=
  match limited_head meth bufsize visible s with
  | inl e => CallErr n1xx e
  | inr (r, rest) =>
      if is_1xx_nonterminal (r_code r) then
        match budget with
        | O => CallTooMany1xx
        | S b => read_loop b meth bufsize visible (S n1xx) rest
        end
      else CallResp n1xx r rest
  end.

Definition read_call (meth : bytes) (bufsize visible : nat) (s : bytes) : call_result :=
  read_loop max_1xx_responses meth bufsize visible 0 s.

(* The first head of a call is read with an empty read buffer: exactly [v1] bytes are visible.
   Later heads (behind informational responses) may also see what was buffered: [v].
   read_call2 m b v v = read_call m b v (H1LimitsProofs.read_call2_same). *)
Definition read_call2 (meth : bytes) (bufsize v1 v : nat) (s : bytes) : call_result :=
  match limited_head meth bufsize v1 s with
  | inl e => CallErr 0 e
  | inr (r, rest) =>
      if is_1xx_nonterminal (r_code r) then read_loop 4 meth bufsize v 1 rest
      else CallResp 0 r rest
  end.

(* the whole exchange as the caller sees it: final head, then the body drained without limit *)
Inductive exchange :=
| XErr                                   (* the call returns an error, no response *)
| XResp (code : Z) (n1xx : nat) (b : body_result).

Definition run_exchange2 (meth : bytes) (bufsize v1 v : nat) (s : bytes) : exchange :=
  match read_call2 meth bufsize v1 v s with
  | CallErr _ _ | CallTooMany1xx => XErr
  | CallResp n r rest => XResp (r_code r) n (read_body bufsize r rest)
  end.

Definition run_exchange (meth : bytes) (bufsize visible : nat) (s : bytes) : exchange :=
  match read_call meth bufsize visible s with
  | CallErr _ _ | CallTooMany1xx => XErr
  | CallResp n r rest => XResp (r_code r) n (read_body bufsize r rest)
  end.

(* bytes of the stream consumed up to and including the final head *)
Definition head_bytes (s : bytes) (c : call_result) : option nat :=
  match c with
  | CallResp _ _ rest => Some (length s - length rest)
  | _ => None
  end.
