(* Model/Lifecycle.v - the life-cycle of ONE request as a labelled transition system (C08).
   NO proofs here.

   HTTP/1.1 part.  Go code modelled (transport.go, as of the current tree):
     Transport.roundTrip   the retry loop around getConn / persistConn.roundTrip, closeBody on
                           every error path, cancel(err) on error, shouldRetryRequest
     Transport.getConn     select { w.result | treq.ctx.Done }, the "prefer the cancellation
                           error" re-check on a dial error, deferred wantConn.cancel
     wantConn.tryDeliver / wantConn.cancel / dialConnFor   (a conn nobody waits for any more is
                           put into the idle pool: the dial is detached from the request)
     persistConn.roundTrip the select loop: writeErrCh | pcClosed (+resc re-check) |
                           respHeaderTimer | resc | ctxDone (+resc re-check, cancelRequest)
     persistConn.mapRoundTripError   canceled() first, then the rest
     persistConn.cancelRequest / closeLocked
     persistConn.readLoop  Peek/readResponse, tryPutIdleConn before the send for bodiless
                           responses, send on rc.ch | callerGone, post-headers select
                           { waitForBodyRead | treq.ctx.Done | closech }, bodyEOFSignal fn
     persistConn.writeLoop write result to writeErrCh, close on error, exit on closech
   A label is either something the ENVIRONMENT does (peer, dialer, clock, the caller's use of
   the body, the caller's context) or a SCHEDULING choice: which ready case a select takes.
   [step] is deterministic on labels; all nondeterminism of Go's select is in the choice of
   the label sequence, over which the theorems quantify universally. *)
From Coq Require Import List Bool Arith.
Import ListNotations.

Inductive cause := CCanceled | CDeadline | CTimeout.
(* CCanceled: context.Canceled; CDeadline: context.DeadlineExceeded of the caller's context;
   CTimeout: http.Client.Timeout (ctx deadline + Request.Cancel set by net/http's
   setRequestCancel; surfaces as "Client.Timeout exceeded", net.Error Timeout() = true) *)

Inductive err :=
| ECause (c : cause)   (* the error identifies the cancellation / timeout *)
| EHdrTimeout          (* errTimeout: "timeout awaiting response headers" (Timeout() = true) *)
| EPeer                (* the peer closed / reset before a response: read-from-server, closed idle *)
| EOther.              (* dial error, write error, ... *)

Inductive callres := CResp (has_body : bool) | CErr (e : err).
Inductive rv := RvResp (has_body : bool) | RvErr.
Inductive tm := TOff | TArmed | TFired.
Inductive loc := LGetConn | LSelect | LDone.
Inductive ctxst := CtxLive | CtxUser (c : cause) | CtxDone.      (* CtxDone: errRequestDone / cancel(err) *)
Inductive dl := DNone | DRunning | DDone.
Inductive rls := RPeek | RSend (v : rv) | RWaitBody | RIdle | RExit.
Inductive wls := WIdle | WBusy | WExit.
Inductive bodyres := BNone | BOpen | BEofWait | BCloseWait | BEOF | BClosed | BErr (e : err).

Record cfg1 := mkCfg1 {
  c_idle : bool;         (* an idle connection is available: the request re-uses it *)
  c_hdr_timeout : bool;  (* ResponseHeaderTimeout > 0 *)
  c_replay : bool        (* the request may be replayed (idempotent, body rewindable) *)
}.

Record h1 := mkH1 {
  at_ : loc;                 (* where the caller of RoundTrip is *)
  ret : option callres;      (* what RoundTrip returned *)
  attempt : nat;             (* iteration of Transport.roundTrip's loop (0 or 1) *)
  dial : dl;                 (* the dial goroutine started for this request's wantConn *)
  w_done : bool;             (* wantConn.done *)
  w_res : option bool;       (* value in wantConn.result: Some true = a persistConn *)
  ctx : ctxst;               (* treq.ctx *)
  werr : option bool;        (* writeErrCh: Some true = nil error *)
  closed : bool;             (* pc.closed != nil: net.Conn closed by us, closech closed *)
  peer_closed : bool;        (* ... and the reason was the peer *)
  timer : tm;                (* respHeaderTimer *)
  cerr : option cause;       (* pc.canceledErr *)
  rl : rls;                  (* readLoop *)
  wl : wls;                  (* writeLoop *)
  wrote_any : bool;          (* pc.nwrite > startBytesWritten *)
  wrote_ok : bool;           (* the whole request was written *)
  in_pool : bool;            (* the connection of this exchange sits in the idle pool *)
  spare : bool;              (* a connection obtained for this request and never used by it was put (back) into the pool *)
  body_closed : bool;        (* Request.Body was closed *)
  bres : bodyres;            (* the response body as the caller sees it *)
  failed : bool              (* history: the environment made something fail (dial error, write
                                error, peer closed); no transition reads it *)
}.

Inductive label :=
(* environment *)
| XDialDone (ok : bool)   (* the dial (TCP + TLS handshake) finished *)
| XWroteSome              (* part of the request reached the wire *)
| XWrote                  (* the whole request reached the wire *)
| XWriteErr               (* a write failed *)
| XHeaders (b : bool)     (* the response head is complete; b: a body follows *)
| XPeerClose              (* the peer closed / reset the connection *)
| XBodyData               (* the caller read some body bytes *)
| XBodyEOF                (* the caller read the body to its end *)
| XBodyClose              (* the caller closed the body early *)
| XCancel (c : cause)     (* the caller's context ended *)
| XTimerFire              (* the response-header timer fired *)
(* scheduling *)
| IConnResult | IConnCtx                                  (* getConn's select *)
| ISelWrite | ISelClosed | ISelTimer | ISelResc | ISelCtx (* persistConn.roundTrip's select *)
| IRlBody | IRlCtx | IRlClosed | IRlGone.                 (* readLoop's selects *)

Definition init1 (c : cfg1) : h1 :=
  mkH1 LGetConn None 0 (if c_idle c then DNone else DRunning) (c_idle c)
       (if c_idle c then Some true else None)
       CtxLive None false false TOff None
       (if c_idle c then RIdle else RExit) (if c_idle c then WIdle else WExit)
       false false false false false BNone false.

Definition set_at (s : h1) (a : loc) : h1 :=
  mkH1 a (ret s) (attempt s) (dial s) (w_done s) (w_res s) (ctx s) (werr s) (closed s) (peer_closed s)
       (timer s) (cerr s) (rl s) (wl s) (wrote_any s) (wrote_ok s) (in_pool s) (spare s) (body_closed s) (bres s) (failed s).
Definition set_ret (s : h1) (r : callres) : h1 :=
  mkH1 LDone (Some r) (attempt s) (dial s) (w_done s) (w_res s) (ctx s) (werr s) (closed s) (peer_closed s)
       (timer s) (cerr s) (rl s) (wl s) (wrote_any s) (wrote_ok s) (in_pool s) (spare s) (body_closed s) (bres s) (failed s).
Definition set_want (s : h1) (d : dl) (wd : bool) (wr : option bool) (sp : bool) : h1 :=
  mkH1 (at_ s) (ret s) (attempt s) d wd wr (ctx s) (werr s) (closed s) (peer_closed s)
       (timer s) (cerr s) (rl s) (wl s) (wrote_any s) (wrote_ok s) (in_pool s) sp (body_closed s) (bres s) (failed s).
Definition set_ctx (s : h1) (c : ctxst) : h1 :=
  mkH1 (at_ s) (ret s) (attempt s) (dial s) (w_done s) (w_res s) c (werr s) (closed s) (peer_closed s)
       (timer s) (cerr s) (rl s) (wl s) (wrote_any s) (wrote_ok s) (in_pool s) (spare s) (body_closed s) (bres s) (failed s).
Definition set_werr (s : h1) (w : option bool) : h1 :=
  mkH1 (at_ s) (ret s) (attempt s) (dial s) (w_done s) (w_res s) (ctx s) w (closed s) (peer_closed s)
       (timer s) (cerr s) (rl s) (wl s) (wrote_any s) (wrote_ok s) (in_pool s) (spare s) (body_closed s) (bres s) (failed s).
Definition set_timer (s : h1) (t : tm) : h1 :=
  mkH1 (at_ s) (ret s) (attempt s) (dial s) (w_done s) (w_res s) (ctx s) (werr s) (closed s) (peer_closed s)
       t (cerr s) (rl s) (wl s) (wrote_any s) (wrote_ok s) (in_pool s) (spare s) (body_closed s) (bres s) (failed s).
Definition set_cerr (s : h1) (c : option cause) : h1 :=
  mkH1 (at_ s) (ret s) (attempt s) (dial s) (w_done s) (w_res s) (ctx s) (werr s) (closed s) (peer_closed s)
       (timer s) c (rl s) (wl s) (wrote_any s) (wrote_ok s) (in_pool s) (spare s) (body_closed s) (bres s) (failed s).
Definition set_rl (s : h1) (r : rls) : h1 :=
  mkH1 (at_ s) (ret s) (attempt s) (dial s) (w_done s) (w_res s) (ctx s) (werr s) (closed s) (peer_closed s)
       (timer s) (cerr s) r (wl s) (wrote_any s) (wrote_ok s) (in_pool s) (spare s) (body_closed s) (bres s) (failed s).
Definition set_wl (s : h1) (w : wls) (any ok : bool) : h1 :=
  mkH1 (at_ s) (ret s) (attempt s) (dial s) (w_done s) (w_res s) (ctx s) (werr s) (closed s) (peer_closed s)
       (timer s) (cerr s) (rl s) w any ok (in_pool s) (spare s) (body_closed s) (bres s) (failed s).
Definition set_pool (s : h1) (p : bool) : h1 :=
  mkH1 (at_ s) (ret s) (attempt s) (dial s) (w_done s) (w_res s) (ctx s) (werr s) (closed s) (peer_closed s)
       (timer s) (cerr s) (rl s) (wl s) (wrote_any s) (wrote_ok s) p (spare s) (body_closed s) (bres s) (failed s).
Definition set_bclosed (s : h1) : h1 :=
  mkH1 (at_ s) (ret s) (attempt s) (dial s) (w_done s) (w_res s) (ctx s) (werr s) (closed s) (peer_closed s)
       (timer s) (cerr s) (rl s) (wl s) (wrote_any s) (wrote_ok s) (in_pool s) (spare s) true (bres s) (failed s).
Definition set_bres (s : h1) (b : bodyres) : h1 :=
  mkH1 (at_ s) (ret s) (attempt s) (dial s) (w_done s) (w_res s) (ctx s) (werr s) (closed s) (peer_closed s)
       (timer s) (cerr s) (rl s) (wl s) (wrote_any s) (wrote_ok s) (in_pool s) (spare s) (body_closed s) b (failed s).

Definition set_failed (s : h1) : h1 :=
  mkH1 (at_ s) (ret s) (attempt s) (dial s) (w_done s) (w_res s) (ctx s) (werr s) (closed s) (peer_closed s)
       (timer s) (cerr s) (rl s) (wl s) (wrote_any s) (wrote_ok s) (in_pool s) (spare s) (body_closed s) (bres s) true.
(* readLoop returns: deferred pc.close (done by the callers through close_pc) and removeIdleConn *)
Definition rl_exit (s : h1) : h1 := set_pool (set_rl s RExit) false.

(* readLoop's deferred close(eofc): a caller blocked in bodyEOFSignal.fn / earlyCloseFn continues *)
Definition eofc_closed (s : h1) : h1 :=
  match bres s with
  | BEofWait => set_bres s BEOF
  | BCloseWait => set_bres s BClosed
  | _ => s
  end.

(* treq.cancel(x): the first cancellation wins *)
Definition ctx_done (s : h1) : h1 :=
  match ctx s with CtxLive => set_ctx s CtxDone | _ => s end.

(* mapRoundTripError: canceled() is consulted first *)
Definition map_err (s : h1) : err :=
  match cerr s with
  | Some c => ECause c
  | None => if peer_closed s then EPeer else EOther
  end.

(* persistConn.closeLocked and what the two loops and a pending body read do about it:
   the net.Conn is closed, closech is closed;
   writeLoop: a write in progress fails (writeRequest closes the request body, the error goes to
              writeErrCh), an idle writeLoop leaves through closech;
   readLoop : a blocked Peek/readResponse fails and the error is offered to the caller; an idle
              readLoop (nothing expected) returns and removes the conn from the pool;
   a body read in progress fails, bodyEOFSignal.fn maps the error through pc.canceled(). *)
Definition close_pc (byPeer : bool) (s : h1) : h1 :=
  if closed s then s else
  let werr' := match wl s with WBusy => match werr s with None => Some false | w => w end | _ => werr s end in
  let bc := match wl s with WBusy => true | _ => body_closed s end in
  let rl' := match rl s with RPeek => RSend RvErr | RIdle => RExit | r => r end in
  let pool' := match rl s with RIdle => false | _ => in_pool s end in
  let e := match cerr s with Some c => ECause c | None => if byPeer then EPeer else EOther end in
  let b' := match bres s with BOpen => BErr e | b => b end in
  mkH1 (at_ s) (ret s) (attempt s) (dial s) (w_done s) (w_res s) (ctx s) werr' true byPeer
       (timer s) (cerr s) rl' WExit (wrote_any s) (wrote_ok s) pool' (spare s) bc b' (failed s).

(* a Read of the response body on the closed net.Conn fails; bodyEOFSignal.fn maps the error
   through pc.canceled() *)
Definition fail_open (s : h1) : h1 :=
  match bres s with BOpen => set_bres s (BErr (map_err s)) | _ => s end.

(* persistConn.cancelRequest *)
Definition cancel_request (c : cause) (s : h1) : h1 := close_pc false (set_cerr s (Some c)).

(* readLoop after its send on rc.ch was accepted *)
Definition rl_after_send (v : rv) (s : h1) : h1 :=
  match v with
  | RvResp true => set_bres (set_rl s RWaitBody) BOpen
  | RvResp false => let s1 := ctx_done s in
                    if in_pool s1 then set_rl s1 RIdle else close_pc false (rl_exit s1)
  | RvErr => close_pc false (rl_exit s)
  end.

(* Transport.roundTrip's error epilogue: closeBody, cancel(err); on a re-used connection that the
   peer closed the request is retried once on a fresh connection (shouldRetryRequest), after the
   loop's own ctx.Done test *)
Definition fresh_attempt (s : h1) : h1 :=
  mkH1 LGetConn None 1 DRunning false None (ctx s) None false false TOff None RExit WExit
       false false false (spare s) (body_closed s) BNone (failed s).

Definition rt_error (c : cfg1) (e : err) (s : h1) : h1 :=
  let retry := c_idle c && Nat.eqb (attempt s) 0 &&
               match e with EPeer => true | _ => false end &&
               (negb (wrote_any s) || c_replay c) in
  if retry then
    match ctx s with
    | CtxUser cs => ctx_done (set_ret (set_bclosed s) (CErr (ECause cs)))
    | _ => fresh_attempt s
    end
  else ctx_done (set_ret (set_bclosed s) (CErr e)).

(* handleResponse *)
Definition handle_response (c : cfg1) (v : rv) (s : h1) : h1 :=
  match v with
  | RvResp b => rl_after_send v (set_ret s (CResp b))
  | RvErr => let s1 := rl_after_send v s in rt_error c (map_err s1) s1
  end.

Definition step1 (c : cfg1) (s : h1) (l : label) : option h1 :=
  match l with
  | XDialDone ok =>
      match dial s with
      | DRunning =>
          let s := if ok then s else set_failed s in
          if w_done s then Some (set_want s DDone true (w_res s) (spare s || ok))   (* putOrCloseIdleConn *)
          else Some (set_want s DDone true (Some ok) (spare s))                    (* tryDeliver *)
      | _ => None
      end
  | XWroteSome =>
      match wl s with WBusy => if closed s then None else Some (set_wl s WBusy true false) | _ => None end
  | XWrote =>
      match wl s with
      | WBusy => if closed s then None else Some (set_bclosed (set_werr (set_wl s WIdle true true) (Some true)))
      | _ => None
      end
  | XWriteErr =>
      match wl s with WBusy => if closed s then None else Some (set_failed (close_pc false s)) | _ => None end
  | XHeaders b =>
      match rl s with
      | RPeek => if closed s then None else
          if b then Some (set_rl s (RSend (RvResp true)))
          else Some (set_rl (set_pool s (wrote_ok s)) (RSend (RvResp false)))    (* tryPutIdleConn first *)
      | _ => None
      end
  | XPeerClose =>
      if closed s then None else
      match rl s with
      | RExit => None
      | RWaitBody => Some (eofc_closed (set_failed (ctx_done (close_pc true (rl_exit s)))))
      | _ => Some (set_failed (close_pc true s))
      end
  | XBodyData =>
      match rl s, bres s with RWaitBody, BOpen => if closed s then None else Some s | _, _ => None end
  | XBodyEOF =>
      match rl s, bres s with RWaitBody, BOpen => if closed s then None else Some (set_bres s BEofWait) | _, _ => None end
  | XBodyClose =>
      match rl s, bres s with RWaitBody, BOpen => Some (set_bres s BCloseWait) | _, _ => None end
  | XCancel cs =>
      match ctx s with CtxLive => Some (set_ctx s (CtxUser cs)) | _ => Some s end
  | XTimerFire =>
      match timer s with TArmed => Some (set_timer s TFired) | _ => None end
  (* ---- getConn ---- *)
  | IConnResult =>
      match at_ s, w_res s with
      | LGetConn, Some true =>
          (* persistConn.roundTrip starts: numExpectedResponses++, writech <- wr, reqch <- rc *)
          let s1 := set_want s (dial s) true None (spare s) in
          if closed s1 then Some (set_at s1 LSelect)
          else Some (set_at (set_rl (set_wl s1 WBusy false false) RPeek) LSelect)
      | LGetConn, Some false =>
          let s1 := set_want s (dial s) true None (spare s) in
          match ctx s with
          | CtxUser cs => Some (rt_error c (ECause cs) s1)     (* prefer the cancellation error *)
          | _ => Some (rt_error c EOther s1)
          end
      | _, _ => None
      end
  | IConnCtx =>
      match at_ s, ctx s with
      | LGetConn, CtxUser cs =>
          (* deferred wantConn.cancel: a delivered conn goes back to the pool *)
          let sp := match w_res s with Some true => true | _ => spare s end in
          Some (rt_error c (ECause cs) (set_want s (dial s) true None sp))
      | _, _ => None
      end
  (* ---- persistConn.roundTrip ---- *)
  | ISelWrite =>
      match at_ s, werr s with
      | LSelect, Some true =>
          Some (set_werr (if c_hdr_timeout c then set_timer s TArmed else s) None)
      | LSelect, Some false =>
          let s1 := close_pc false (set_werr s None) in Some (rt_error c (map_err s1) s1)
      | _, _ => None
      end
  | ISelClosed =>
      match at_ s, closed s, wl s with
      | LSelect, true, WExit =>
          match rl s with
          | RSend v => Some (handle_response c v s)
          | _ => Some (rt_error c (map_err s) s)
          end
      | _, _, _ => None
      end
  | ISelTimer =>
      match at_ s, timer s with
      | LSelect, TFired => Some (rt_error c EHdrTimeout (close_pc false s))
      | _, _ => None
      end
  | ISelResc =>
      match at_ s, rl s with
      | LSelect, RSend v => Some (handle_response c v s)
      | _, _ => None
      end
  | ISelCtx =>
      match at_ s, ctx s with
      | LSelect, CtxUser cs =>
          match rl s with
          | RSend v => Some (handle_response c v s)           (* a response raced the cancellation *)
          | _ => if closed s && match cerr s with Some _ => true | None => false end
                 then None                                    (* nothing changes: not a step *)
                 else Some (cancel_request cs s)
          end
      | _, _ => None
      end
  (* ---- readLoop ---- *)
  | IRlBody =>
      match rl s, bres s with
      | RWaitBody, BEofWait =>
          let ok := negb (closed s) && wrote_ok s in
          let s1 := ctx_done (set_bres (set_pool s ok) BEOF) in
          if ok then Some (set_rl s1 RIdle) else Some (close_pc false (rl_exit s1))
      | RWaitBody, BCloseWait =>
          Some (close_pc false (ctx_done (set_bres (rl_exit s) BClosed)))
      | _, _ => None
      end
  | IRlCtx =>
      match rl s, ctx s with
      | RWaitBody, CtxUser cs =>
          Some (fail_open (eofc_closed (cancel_request cs (rl_exit s))))
      | _, _ => None
      end
  | IRlClosed =>
      match rl s, closed s with
      | RWaitBody, true =>
          (* the caller's next Read hits the closed net.Conn; fn maps the error through pc.canceled() *)
          Some (fail_open (eofc_closed (ctx_done (rl_exit s))))
      | _, _ => None
      end
  | IRlGone =>
      match rl s, at_ s with
      | RSend _, LDone => Some (close_pc false (rl_exit s))
      | _, _ => None
      end
  end.

Definition internal (l : label) : bool :=
  match l with
  | IConnResult | IConnCtx | ISelWrite | ISelClosed | ISelTimer | ISelResc | ISelCtx
  | IRlBody | IRlCtx | IRlClosed | IRlGone => true
  | _ => false
  end.

Definition internals : list label :=
  [IConnResult; IConnCtx; ISelWrite; ISelClosed; ISelTimer; ISelResc; ISelCtx; IRlBody; IRlCtx; IRlClosed; IRlGone].

Fixpoint run1 (c : cfg1) (s : h1) (ls : list label) : option h1 :=
  match ls with
  | [] => Some s
  | l :: r => match step1 c s l with Some s' => run1 c s' r | None => None end
  end.

(* ---- exploration used by the correspondence check: all quiescent states reachable by
   scheduling steps alone (None = out of fuel) ---- *)
Definition succs (c : cfg1) (s : h1) : list h1 :=
  flat_map (fun l => match step1 c s l with Some s' => [s'] | None => [] end) internals.

Fixpoint quiesce (fuel : nat) (c : cfg1) (s : h1) : option (list h1) :=
  match fuel with
  | 0 => None
  | S f =>
      match succs c s with
      | [] => Some [s]
      | nx => fold_right (fun s' acc => match quiesce f c s', acc with
                                        | Some a, Some b => Some (a ++ b)
                                        | _, _ => None
                                        end) (Some []) nx
      end
  end.

(* the residue the property asks for once everything that was started has ended *)
Definition loops_gone (s : h1) : bool :=
  match rl s with RExit => true | RIdle => in_pool s || spare s | _ => false end &&
  match wl s with WExit => true | WIdle => in_pool s || spare s | WBusy => false end.
