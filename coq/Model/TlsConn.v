(* Model/TlsConn.v - C03: HTTP/1.1 over TLS, the TCP stream cut at a point of the record layer.

   crypto/tls (Conn.readRecordOrCCS): the TCP stream ending between two records is io.EOF
   (no close_notify needed), ending inside a record - header or payload - is
   io.ErrUnexpectedEOF; the plaintext of the records that arrived whole is delivered first.
   transport.go persistConn.Read passes either on unchanged (sawEOF only for io.EOF), so the
   body readers of Model/BodyFraming.v see "the bytes that arrived" plus HOW the connection
   ended.  Content-Length and chunked framing turn both endings into the same errors
   (body.readLocked / chunkedReader / readTrailer look at what is missing); a close-delimited
   body takes io.EOF for its end and hands io.ErrUnexpectedEOF to the caller.
   No proofs here. *)
From ReqV Require Export Lib.Bytes Model.BodyFraming.

(* plaintext delivered when [whole] records arrived completely *)
Definition tls_arrived (recs : list bytes) (whole : nat) : bytes := concat (firstn whole recs).

(* [mid]: the TCP stream ended inside the next record *)
Definition read_body_end (fr : framing) (s : bytes) (mid : bool) : rd :=
  match fr, mid with
  | FrClose, true => mkRd s UnexpectedEOF [] false []
  | _, _ => read_body fr s
  end.

Definition h1_read_conn (hlen : N) (fr : framing) (arrived : bytes) (mid : bool) : h1_outcome :=
  let '(_, rest, missing) := take_N hlen arrived in
  if (missing =? 0)%N then BodyRead (read_body_end fr rest mid) else CallError.

Definition h1_read_tls (hlen : N) (fr : framing) (recs : list bytes) (whole : nat) (mid : bool) : h1_outcome :=
  h1_read_conn hlen fr (tls_arrived recs whole) mid.

(* the seeded variant: io.ErrUnexpectedEOF from a TLS connection rewritten to io.EOF *)
Definition h1_read_tls_rewritten (hlen : N) (fr : framing) (recs : list bytes) (whole : nat) (mid : bool) : h1_outcome :=
  h1_read_conn hlen fr (tls_arrived recs whole) false.
