(* Model/Pool.v - executable model of the HTTP/1.1 connection pool of /repo/transport.go (C09).

   One event of [step] = one lock region of the Go code (idleMu, connsPerHostMu, wantConn.mu,
   persistConn.mu); goroutine-local progress between regions is kept in per-want / per-conn
   phase fields.  All interleavings of the Go program = all event lists.  Events that are not
   enabled in a state are no-ops, so [step] is total.

   Go function                          model
   ------------------------------------ -------------------------------------------
   getConn (new wantConn) +
     queueForIdleConn                   EGet k            -> get_idle
   queueForDial                         EQueueDial w      -> queue_dial
   dialConnFor: getCtxForDial           EDialBegin w
   dialConnFor: dialConn + tryDeliver   EDialEnd w ok
   dialConnFor: decConnsPerHost         EDialDec w        -> dec_conns
   getConn select <-w.result            ERecv w
   wantConn.cancel                      ECancel w
   putOrCloseIdleConn (dialConnFor,
     wantConn.cancel)                   EPutLoose c       -> try_put
   readLoop end of exchange: recycle
     decision + tryPutIdleConn          EFinish w r       -> recycle_ok, try_put
   persistConn.closeLocked              EConnClose c      -> close_conn (dec_conns)
   removeIdleConn                       ERemoveIdle c     -> remove_idle
   closeConnIfStillIdle                 EIdleTimeout c
   CloseIdleConnections (idleMu part)   ECloseIdle
   wantConn.tryDeliver                  deliver
   wantConnQueue.cleanFrontNotWaiting   drop_done
   connLRU add/removeOldest/remove      c :: lru / last+removelast / remove1

   Not modelled: IdleConnTimeout's tooOld test in queueForIdleConn (a timing decision; the
   harness runs with the default 90 s so it never fires), dialsInProgress (only used to cancel
   dial contexts), HTTP/2 conns in the h1 pool (pconn.alt != nil), proxies.  tryPutIdleConn's
   isBroken test (pc.mu) is merged with its idleMu region. *)
From Coq Require Import List Arith Bool ZArith Lia.
Import ListNotations.

Definition key := nat.
Definition conn := nat.
Definition want := nat.

(* ghost location of a connection: who may use it next *)
Inductive loc :=
| LIdle                (* in t.idleConn[key] *)
| LChan (w : want)     (* sitting in w.result (delivered, not yet received) *)
| LHeld (w : want)     (* in use by the request that owns wantConn w *)
| LLoose               (* held by a goroutine that will call putOrCloseIdleConn next *)
| LDead.               (* readLoop exiting / never to be used again *)

(* progress of the dial goroutine started for a wantConn *)
Inductive dphase := DNone | DWait | DPermitted | DDialing | DMustDec | DOver.

Record config := mkConfig {
  max_idle : Z;        (* Transport.MaxIdleConns, 0 = no limit *)
  max_idle_host : Z;   (* Transport.MaxIdleConnsPerHost, 0 = default 2, <0 = keep-alive off *)
  max_host : Z;        (* Transport.MaxConnsPerHost, <=0 = no limit *)
  no_keepalive : bool  (* Transport.DisableKeepAlives *) }.

Definition default_max_idle_per_host : nat := 2.

Definition idle_cap (cfg : config) : nat :=
  if (max_idle_host cfg =? 0)%Z then default_max_idle_per_host else Z.to_nat (max_idle_host cfg).
Definition keepalive_off (cfg : config) : bool := no_keepalive cfg || (max_idle_host cfg <? 0)%Z.
Definition host_limited (cfg : config) : bool := (0 <? max_host cfg)%Z.

Definition upd {A} (f : nat -> A) (i : nat) (v : A) : nat -> A :=
  fun j => if Nat.eqb j i then v else f j.

Fixpoint remove1 (c : nat) (l : list nat) : list nat :=
  match l with
  | [] => []
  | x :: r => if Nat.eqb x c then r else x :: remove1 c r
  end.
Definition memb (c : nat) (l : list nat) : bool := existsb (Nat.eqb c) l.

Record state := mkState {
  idle : key -> list conn;
  lru : list conn;
  close_idle : bool;
  idle_wait : key -> list want;
  per_host : key -> nat;
  dial_wait : key -> list want;
  ck : conn -> key;
  closed : conn -> bool;
  reused : conn -> bool;
  cloc : conn -> loc;
  wk : want -> key;
  wdone : want -> bool;
  wres : want -> option (conn * bool);
  wheld : want -> option conn;
  wneed : want -> bool;
  wdial : want -> dphase;
  next_conn : nat;
  next_want : nat;
  panicked : bool }.

Definition set_idle (v : key -> list conn) (s : state) : state :=
  mkState v (lru s) (close_idle s) (idle_wait s) (per_host s) (dial_wait s) (ck s) (closed s) (reused s) (cloc s) (wk s) (wdone s) (wres s) (wheld s) (wneed s) (wdial s) (next_conn s) (next_want s) (panicked s).
Definition set_lru (v : list conn) (s : state) : state :=
  mkState (idle s) v (close_idle s) (idle_wait s) (per_host s) (dial_wait s) (ck s) (closed s) (reused s) (cloc s) (wk s) (wdone s) (wres s) (wheld s) (wneed s) (wdial s) (next_conn s) (next_want s) (panicked s).
Definition set_close_idle (v : bool) (s : state) : state :=
  mkState (idle s) (lru s) v (idle_wait s) (per_host s) (dial_wait s) (ck s) (closed s) (reused s) (cloc s) (wk s) (wdone s) (wres s) (wheld s) (wneed s) (wdial s) (next_conn s) (next_want s) (panicked s).
Definition set_idle_wait (v : key -> list want) (s : state) : state :=
  mkState (idle s) (lru s) (close_idle s) v (per_host s) (dial_wait s) (ck s) (closed s) (reused s) (cloc s) (wk s) (wdone s) (wres s) (wheld s) (wneed s) (wdial s) (next_conn s) (next_want s) (panicked s).
Definition set_per_host (v : key -> nat) (s : state) : state :=
  mkState (idle s) (lru s) (close_idle s) (idle_wait s) v (dial_wait s) (ck s) (closed s) (reused s) (cloc s) (wk s) (wdone s) (wres s) (wheld s) (wneed s) (wdial s) (next_conn s) (next_want s) (panicked s).
Definition set_dial_wait (v : key -> list want) (s : state) : state :=
  mkState (idle s) (lru s) (close_idle s) (idle_wait s) (per_host s) v (ck s) (closed s) (reused s) (cloc s) (wk s) (wdone s) (wres s) (wheld s) (wneed s) (wdial s) (next_conn s) (next_want s) (panicked s).
Definition set_ck (v : conn -> key) (s : state) : state :=
  mkState (idle s) (lru s) (close_idle s) (idle_wait s) (per_host s) (dial_wait s) v (closed s) (reused s) (cloc s) (wk s) (wdone s) (wres s) (wheld s) (wneed s) (wdial s) (next_conn s) (next_want s) (panicked s).
Definition set_closed (v : conn -> bool) (s : state) : state :=
  mkState (idle s) (lru s) (close_idle s) (idle_wait s) (per_host s) (dial_wait s) (ck s) v (reused s) (cloc s) (wk s) (wdone s) (wres s) (wheld s) (wneed s) (wdial s) (next_conn s) (next_want s) (panicked s).
Definition set_reused (v : conn -> bool) (s : state) : state :=
  mkState (idle s) (lru s) (close_idle s) (idle_wait s) (per_host s) (dial_wait s) (ck s) (closed s) v (cloc s) (wk s) (wdone s) (wres s) (wheld s) (wneed s) (wdial s) (next_conn s) (next_want s) (panicked s).
Definition set_cloc (v : conn -> loc) (s : state) : state :=
  mkState (idle s) (lru s) (close_idle s) (idle_wait s) (per_host s) (dial_wait s) (ck s) (closed s) (reused s) v (wk s) (wdone s) (wres s) (wheld s) (wneed s) (wdial s) (next_conn s) (next_want s) (panicked s).
Definition set_wk (v : want -> key) (s : state) : state :=
  mkState (idle s) (lru s) (close_idle s) (idle_wait s) (per_host s) (dial_wait s) (ck s) (closed s) (reused s) (cloc s) v (wdone s) (wres s) (wheld s) (wneed s) (wdial s) (next_conn s) (next_want s) (panicked s).
Definition set_wdone (v : want -> bool) (s : state) : state :=
  mkState (idle s) (lru s) (close_idle s) (idle_wait s) (per_host s) (dial_wait s) (ck s) (closed s) (reused s) (cloc s) (wk s) v (wres s) (wheld s) (wneed s) (wdial s) (next_conn s) (next_want s) (panicked s).
Definition set_wres (v : want -> option (conn * bool)) (s : state) : state :=
  mkState (idle s) (lru s) (close_idle s) (idle_wait s) (per_host s) (dial_wait s) (ck s) (closed s) (reused s) (cloc s) (wk s) (wdone s) v (wheld s) (wneed s) (wdial s) (next_conn s) (next_want s) (panicked s).
Definition set_wheld (v : want -> option conn) (s : state) : state :=
  mkState (idle s) (lru s) (close_idle s) (idle_wait s) (per_host s) (dial_wait s) (ck s) (closed s) (reused s) (cloc s) (wk s) (wdone s) (wres s) v (wneed s) (wdial s) (next_conn s) (next_want s) (panicked s).
Definition set_wneed (v : want -> bool) (s : state) : state :=
  mkState (idle s) (lru s) (close_idle s) (idle_wait s) (per_host s) (dial_wait s) (ck s) (closed s) (reused s) (cloc s) (wk s) (wdone s) (wres s) (wheld s) v (wdial s) (next_conn s) (next_want s) (panicked s).
Definition set_wdial (v : want -> dphase) (s : state) : state :=
  mkState (idle s) (lru s) (close_idle s) (idle_wait s) (per_host s) (dial_wait s) (ck s) (closed s) (reused s) (cloc s) (wk s) (wdone s) (wres s) (wheld s) (wneed s) v (next_conn s) (next_want s) (panicked s).
Definition set_next_conn (v : nat) (s : state) : state :=
  mkState (idle s) (lru s) (close_idle s) (idle_wait s) (per_host s) (dial_wait s) (ck s) (closed s) (reused s) (cloc s) (wk s) (wdone s) (wres s) (wheld s) (wneed s) (wdial s) v (next_want s) (panicked s).
Definition set_next_want (v : nat) (s : state) : state :=
  mkState (idle s) (lru s) (close_idle s) (idle_wait s) (per_host s) (dial_wait s) (ck s) (closed s) (reused s) (cloc s) (wk s) (wdone s) (wres s) (wheld s) (wneed s) (wdial s) (next_conn s) v (panicked s).
Definition set_panicked (v : bool) (s : state) : state :=
  mkState (idle s) (lru s) (close_idle s) (idle_wait s) (per_host s) (dial_wait s) (ck s) (closed s) (reused s) (cloc s) (wk s) (wdone s) (wres s) (wheld s) (wneed s) (wdial s) (next_conn s) (next_want s) v.

Definition init : state :=
  mkState (fun _ => []) [] false (fun _ => []) (fun _ => 0) (fun _ => [])
          (fun _ => 0) (fun _ => false) (fun _ => false) (fun _ => LDead)
          (fun _ => 0) (fun _ => false) (fun _ => None) (fun _ => None) (fun _ => false) (fun _ => DNone)
          0 0 false.

(* wantConnQueue.cleanFrontNotWaiting: pop wantConns that are done from the front *)
Fixpoint drop_done (done : want -> bool) (q : list want) : list want :=
  match q with
  | [] => []
  | w :: q' => if done w then drop_done done q' else q
  end.

(* wantConn.tryDeliver(pc, nil, idleAt) *)
Definition deliver (s : state) (w : want) (c : conn) (was_idle : bool) : state * bool :=
  if wdone s w then (s, false)
  else (set_cloc (upd (cloc s) c (LChan w))
         (set_wres (upd (wres s) w (Some (c, was_idle)))
           (set_wdone (upd (wdone s) w true) s)), true).

(* decConnsPerHost *)
Definition dec_conns (cfg : config) (s : state) (k : key) : state :=
  if negb (host_limited cfg) then s else
  match per_host s k with
  | 0 => set_panicked true s                       (* "connCount underflow" *)
  | S n' =>
      match drop_done (wdone s) (dial_wait s k) with
      | w :: q' =>                                  (* hand the slot to a waiting dialer *)
          set_wdial (upd (wdial s) w DPermitted) (set_dial_wait (upd (dial_wait s) k q') s)
      | [] =>
          set_per_host (upd (per_host s) k n') (set_dial_wait (upd (dial_wait s) k []) s)
      end
  end.

(* persistConn.closeLocked *)
Definition close_conn (cfg : config) (s : state) (c : conn) : state :=
  if closed s c then s
  else dec_conns cfg (set_closed (upd (closed s) c true) s) (ck s c).

(* removeIdleConnLocked *)
Definition remove_idle (s : state) (c : conn) : state :=
  let k := ck s c in
  set_idle (upd (idle s) k (remove1 c (idle s k))) (set_lru (remove1 c (lru s)) s).

(* tryPutIdleConn; the bool is "err == nil" *)
Definition try_put (cfg : config) (s : state) (c : conn) : state * bool :=
  if keepalive_off cfg then (s, false)              (* errKeepAlivesDisabled *)
  else if closed s c then (s, false)                (* errConnBroken *)
  else
    let s := set_reused (upd (reused s) c true) s in  (* markReused *)
    let k := ck s c in
    match drop_done (wdone s) (idle_wait s k) with
    | w :: q' =>                                    (* late binding: hand to a waiting getConn *)
        (fst (deliver (set_idle_wait (upd (idle_wait s) k q') s) w c false), true)
    | [] =>
        let s := set_idle_wait (upd (idle_wait s) k []) s in
        if close_idle s then (s, false)             (* errCloseIdle *)
        else if idle_cap cfg <=? length (idle s k) then (s, false)   (* errTooManyIdleHost *)
        else
          let s := if memb c (idle s k) || memb c (lru s) then set_panicked true s else s in
          let s := set_cloc (upd (cloc s) c LIdle)
                     (set_lru (c :: lru s) (set_idle (upd (idle s) k (idle s k ++ [c])) s)) in
          if negb (max_idle cfg =? 0)%Z && (max_idle cfg <? Z.of_nat (length (lru s)))%Z then
            let o := last (lru s) 0 in               (* idleLRU.removeOldest *)
            let s := set_lru (removelast (lru s)) s in
            (remove_idle (close_conn cfg s o) o, true)
          else (s, true)
    end.

(* queueForIdleConn's scan from the most-recently-used end: skip broken conns *)
Fixpoint scan_idle (closed : conn -> bool) (rl : list conn) : option conn * list conn :=
  match rl with
  | [] => (None, [])
  | c :: r => if closed c then scan_idle closed r else (Some c, r)
  end.

(* queueForIdleConn *)
Definition get_idle (cfg : config) (s : state) (w : want) (k : key) : state :=
  if no_keepalive cfg then set_wneed (upd (wneed s) w true) s
  else
    let s := set_close_idle false s in
    match scan_idle (closed s) (rev (idle s k)) with
    | (Some c, rest) =>
        let '(s', ok) := deliver s w c true in
        if ok then set_lru (remove1 c (lru s')) (set_idle (upd (idle s') k (rev rest)) s')
        else set_wneed (upd (wneed s') w true) (set_idle (upd (idle s') k (rev (c :: rest))) s')
    | (None, _) =>
        set_wneed (upd (wneed s) w true)
          (set_idle_wait (upd (idle_wait s) k (drop_done (wdone s) (idle_wait s k) ++ [w]))
            (set_idle (upd (idle s) k []) s))
    end.

(* queueForDial *)
Definition queue_dial (cfg : config) (s : state) (w : want) : state :=
  let k := wk s w in
  if negb (host_limited cfg) then set_wdial (upd (wdial s) w DPermitted) s
  else if (Z.of_nat (per_host s k) <? max_host cfg)%Z then
    set_wdial (upd (wdial s) w DPermitted) (set_per_host (upd (per_host s) k (S (per_host s k))) s)
  else
    set_wdial (upd (wdial s) w DWait)
      (set_dial_wait (upd (dial_wait s) k (drop_done (wdone s) (dial_wait s k) ++ [w])) s).

(* what readLoop knows when an exchange ends *)
Record recycle := mkRecycle {
  r_alive : bool;      (* neither side asked for close, status > 199, body not writable *)
  r_has_body : bool;   (* method != HEAD && ContentLength != 0 *)
  r_body_eof : bool;   (* the caller read the body to EOF (false: early Close) *)
  r_saw_eof : bool;    (* pc.sawEOF *)
  r_wrote_req : bool   (* pc.wroteRequest() *) }.

(* readLoop: alive && (bodyEOF if there is a body) && !pc.sawEOF && pc.wroteRequest() *)
Definition recycle_ok (r : recycle) : bool :=
  r_alive r && (negb (r_has_body r) || r_body_eof r) && negb (r_saw_eof r) && r_wrote_req r.

Inductive event :=
| EGet (k : key)
| EQueueDial (w : want)
| EDialBegin (w : want)
| EDialEnd (w : want) (ok : bool)
| EDialDec (w : want)
| ERecv (w : want)
| ECancel (w : want)
| EPutLoose (c : conn)
| EFinish (w : want) (r : recycle)
| EConnClose (c : conn)
| ERemoveIdle (c : conn)
| EIdleTimeout (c : conn)
| ECloseIdle.

Definition new_want (s : state) (w : want) (k : key) : state :=
  set_next_want (S w)
   (set_wdial (upd (wdial s) w DNone)
    (set_wneed (upd (wneed s) w false)
     (set_wheld (upd (wheld s) w None)
      (set_wres (upd (wres s) w None)
       (set_wdone (upd (wdone s) w false)
        (set_wk (upd (wk s) w k) s)))))).

Definition new_conn (s : state) (c : conn) (k : key) : state :=
  set_next_conn (S c)
   (set_cloc (upd (cloc s) c LLoose)
    (set_reused (upd (reused s) c false)
     (set_closed (upd (closed s) c false)
      (set_ck (upd (ck s) c k) s)))).

Definition put_or_dead (cfg : config) (s : state) (c : conn) : state :=
  let '(s', ok) := try_put cfg s c in
  if ok then s' else set_cloc (upd (cloc s') c LDead) s'.

Definition step (cfg : config) (s : state) (e : event) : state :=
  match e with
  | EGet k => let w := next_want s in get_idle cfg (new_want s w k) w k
  | EQueueDial w =>
      if wneed s w then queue_dial cfg (set_wneed (upd (wneed s) w false) s) w else s
  | EDialBegin w =>
      match wdial s w with
      | DPermitted => set_wdial (upd (wdial s) w (if wdone s w then DMustDec else DDialing)) s
      | _ => s
      end
  | EDialEnd w ok =>
      match wdial s w with
      | DDialing =>
          if ok then
            let c := next_conn s in
            fst (deliver (set_wdial (upd (wdial s) w DOver) (new_conn s c (wk s w))) w c false)
          else
            set_wdone (upd (wdone s) w true) (set_wdial (upd (wdial s) w DMustDec) s)
      | _ => s
      end
  | EDialDec w =>
      match wdial s w with
      | DMustDec => dec_conns cfg (set_wdial (upd (wdial s) w DOver) s) (wk s w)
      | _ => s
      end
  | ERecv w =>
      match wres s w with
      | Some (c, _) =>
          set_cloc (upd (cloc s) c (LHeld w))
            (set_wheld (upd (wheld s) w (Some c)) (set_wres (upd (wres s) w None) s))
      | None => s
      end
  | ECancel w =>
      let s' := set_wdone (upd (wdone s) w true) s in
      match wres s w with
      | Some (c, _) => set_cloc (upd (cloc s') c LLoose) (set_wres (upd (wres s') w None) s')
      | None => s'
      end
  | EPutLoose c =>
      match cloc s c with
      | LLoose => put_or_dead cfg s c
      | _ => s
      end
  | EFinish w r =>
      match wheld s w with
      | Some c =>
          let s := set_wheld (upd (wheld s) w None) s in
          if recycle_ok r then put_or_dead cfg (set_cloc (upd (cloc s) c LLoose) s) c
          else set_cloc (upd (cloc s) c LDead) s
      | None => s
      end
  | EConnClose c => if c <? next_conn s then close_conn cfg s c else s
  | ERemoveIdle c => remove_idle s c
  | EIdleTimeout c => if memb c (lru s) then close_conn cfg (remove_idle s c) c else s
  | ECloseIdle => set_idle (fun _ => []) (set_lru [] (set_close_idle true s))
  end.

(* what httptrace.GotConn reports when getConn receives: (Reused, WasIdle) *)
Definition step_obs (s : state) (e : event) : option (bool * bool) :=
  match e with
  | ERecv w => match wres s w with Some (c, wi) => Some (reused s c, wi) | None => None end
  | _ => None
  end.

Definition run (cfg : config) (evs : list event) : state := fold_left (step cfg) evs init.

(* ---------- projection compared with VerifPoolSnapshot of the real Transport ---------- *)

Record snapshot := mkSnap {
  sn_idle : list (list conn);   (* per key of interest: idle list, MRU last *)
  sn_lru_len : nat;
  sn_idle_wait : list nat;      (* per key: len(idleConnWait[key]) *)
  sn_per_host : list nat;       (* per key: connsPerHost[key] *)
  sn_dial_wait : list nat;      (* per key: len(connsPerHostWait[key]) *)
  sn_close_idle : bool }.

Definition snapshot_of (s : state) (ks : list key) : snapshot :=
  mkSnap (map (idle s) ks) (length (lru s)) (map (fun k => length (idle_wait s k)) ks)
         (map (per_host s) ks) (map (fun k => length (dial_wait s k)) ks) (close_idle s).

Fixpoint nodupb (l : list nat) : bool :=
  match l with
  | [] => true
  | x :: r => negb (memb x r) && nodupb r
  end.

Fixpoint forallb2 {A B} (f : A -> B -> bool) (l : list A) (m : list B) : bool :=
  match l, m with
  | x :: l', y :: m' => f x y && forallb2 f l' m'
  | _, _ => true
  end.

(* boolean invariants of a pool snapshot (the theorems' invariants, projected) *)
Definition snap_ok (cfg : config) (sn : snapshot) : bool :=
  forallb (fun l => length l <=? idle_cap cfg) (sn_idle sn) &&
  nodupb (concat (sn_idle sn)) &&
  (length (concat (sn_idle sn)) <=? sn_lru_len sn) &&
  ((max_idle cfg <=? 0)%Z || (Z.of_nat (sn_lru_len sn) <=? max_idle cfg)%Z) &&
  (if host_limited cfg then
     forallb (fun n => (Z.of_nat n <=? max_host cfg)%Z) (sn_per_host sn) &&
     forallb2 (fun n q => (q =? 0) || (Z.of_nat n =? max_host cfg)%Z) (sn_per_host sn) (sn_dial_wait sn)
   else
     forallb (fun n => n =? 0) (sn_per_host sn) && forallb (fun n => n =? 0) (sn_dial_wait sn)).

(* ---------- per-host accounting: what connsPerHost[key] is supposed to count ---------- *)

Fixpoint countb (p : nat -> bool) (n : nat) : nat :=
  match n with
  | 0 => 0
  | S m => countb p m + (if p m then 1 else 0)
  end.

(* a dial goroutine that holds a per-host slot *)
Definition is_counted (d : dphase) : bool :=
  match d with DPermitted | DDialing | DMustDec => true | _ => false end.

Definition dialing_count (s : state) (k : key) : nat :=
  countb (fun w => Nat.eqb (wk s w) k && is_counted (wdial s w)) (next_want s).
Definition live_count (s : state) (k : key) : nat :=
  countb (fun c => Nat.eqb (ck s c) k && negb (closed s c)) (next_conn s).
