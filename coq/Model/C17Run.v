(* Model/C17Run.v - case type and checker evaluated on harness-generated cases (C17) *)
From ReqV Require Export Lib.Bytes Model.Form Model.ReqBody.

Inductive c17_case :=
| EscCase (s obs : bytes)                                   (* url.QueryEscape *)
| UnescCase (s : bytes) (obs : option bytes)                (* url.QueryUnescape *)
| ParseQueryCase (s : bytes) (obs : form) (obs_err : bool)  (* url.ParseQuery, keys sorted *)
| FormCase (rf cf : form) (ordered : list bytes)
           (arrived err : bool) (obs_ct obs_body : bytes).  (* end to end, at the origin *)

Definition entry_eqb (a b : bytes * list bytes) : bool :=
  bytes_eqb (fst a) (fst b) && list_eqb bytes_eqb (snd a) (snd b).
Definition form_eqb (a b : form) : bool := list_eqb entry_eqb a b.

Definition c17_check (c : c17_case) : bool :=
  match c with
  | EscCase s o => bytes_eqb (query_escape s) o
  | UnescCase s o => opt_bytes_eqb (query_unescape s) o
  | ParseQueryCase s f e =>
      let '(ps, e') := parse_query s in
      form_eqb (sort_form (group_pairs ps)) f && Bool.eqb e' e
  | FormCase rf cf ord arrived err ct body =>
      match form_plan_of rf cf ord with
      | FBody b => arrived && negb err && bytes_eqb ct form_ct && bytes_eqb body b
      | FBadOrdered => arrived && negb err && bytes_eqb ct form_ct && bytes_eqb body []
      | FNone => true
      end
  end.
