(* Model/C17Run.v - case type and checker evaluated on harness-generated cases (C17) *)
From ReqV Require Export Lib.Bytes Lib.PackedBytes Model.Form Model.Multipart Model.ReqBody Model.Progress Model.Session Model.BodySetters.

Record body_obs := {
  o_arrived : bool;                     (* the origin's handler ran *)
  o_err : bool;                         (* the client reported an error *)
  o_ct : bytes;                         (* Content-Type seen by the origin *)
  o_body : bytes;                       (* body bytes seen by the origin *)
  o_marshal : option marshaller;        (* body = reference xml / json marshalling of the value *)
  o_parts : option (list part_view)     (* what mime/multipart's Reader yields (bodies left out) *)
}.

Inductive c17_case :=
| EscCase (s obs : bytes)                                   (* url.QueryEscape *)
| UnescCase (s : bytes) (obs : option bytes)                (* url.QueryUnescape *)
| ParseQueryCase (s : bytes) (obs : form) (obs_err : bool)  (* url.ParseQuery, keys sorted *)
| QuoteCase (prn : list N) (s obs_q obs_e : bytes) (obs_back : option bytes)
    (* fmt %q ; multipart escapeQuotes ; the parameter mime.ParseMediaType recovers from the %q form *)
| BoundaryCase (b : bytes) (obs_valid : bool) (obs_ct : bytes) (obs_back : option bytes)
| BodyCase (q : breq) (prn : list N) (tbl : list (bytes * bytes)) (o : body_obs)   (* end to end, at the origin *)
| WriterCase (total interval t0 : Z) (evs : list (Z * Z)) (obs : list Z)
| ReaderCase (interval t0 : Z) (evs : list (Z * bool * Z)) (obs : list Z)
| CallCase (interval : Z) (bodies : list body_run) (obs : list Z)   (* redirect hops + saved body *)
| SessionCase (owners : list nat) (ops : list sop) (obs : list sout)
    (* requests of a client and of its clones, in sequence; owners: the client each request was made from *)
| SetterCase (setters : list bset) (sends : nat) (obs : list bout)   (* body setters in sequence, then executions *)
| WriterAnyClock (total : Z) (ns : list Z) (obs : list Z)
| ReaderAnyClock (ns : list Z) (obs : list Z).

Definition entry_eqb (a b : bytes * list bytes) : bool :=
  bytes_eqb (fst a) (fst b) && list_eqb bytes_eqb (snd a) (snd b).
Definition form_eqb (a b : form) : bool := list_eqb entry_eqb a b.

Definition tbl_sniff (tbl : list (bytes * bytes)) (s : bytes) : bytes :=
  match assoc s tbl with Some v => v | None => bs "?not-in-sniff-table" end.

(* strconv.IsPrint as a table: the printable runes >= 0x80 that occur in the case *)
Definition tbl_print (prn : list N) (r : N) : bool := existsb (N.eqb r) prn.

Definition view_eqb (a b : part_view) : bool :=
  opt_bytes_eqb (v_name a) (v_name b) && opt_bytes_eqb (v_filename a) (v_filename b) &&
  opt_bytes_eqb (v_ctype a) (v_ctype b) && bytes_eqb (v_body a) (v_body b).
Definition strip_body (v : part_view) : part_view :=
  {| v_name := v_name v; v_filename := v_filename v; v_ctype := v_ctype v; v_body := [] |}.

(* the view of a file with the names as the server recovers them (= the supplied names exactly
   when they are quotable, Proofs/MultipartProofs.file_name_recovered) *)
Definition image_view (ip : N -> bool) (sniff : bytes -> bytes) (f : file_upload) : part_view :=
  let v := file_view sniff f in
  {| v_name := Some (name_image ip (length (f_param f)) (f_param f));
     v_filename := Some (name_image ip (length (f_name f)) (f_name f));
     v_ctype := v_ctype v; v_body := v_body v |}.

Definition marshaller_eqb (a b : marshaller) : bool :=
  match a, b with MJson, MJson | MXml, MXml => true | _, _ => false end.

Definition preset_ct (q : breq) : bytes := match q_rct q with [] => q_cct q | c => c end.

Definition sout_eqb (a b : sout) : bool :=
  match a, b with
  | OutBody i x, OutBody j y => Nat.eqb i j && bytes_eqb x y
  | OutMarshal i x, OutMarshal j y => Nat.eqb i j && N.eqb x y
  | OutNone i, OutNone j => Nat.eqb i j
  | OutErr i, OutErr j => Nat.eqb i j
  | _, _ => false
  end.

Definition bout_eqb (a b : bout) : bool :=
  match a, b with
  | BoValue v x, BoValue w y => N.eqb v w && Bool.eqb x y
  | BoBytes p, BoBytes q => bytes_eqb p q
  | BoNone, BoNone => true
  | _, _ => false
  end.

Definition zlist_eqb (a b : list Z) : bool := list_eqb Z.eqb a b.

Definition last_is (l : list Z) (x : Z) : bool :=
  match rev l with y :: _ => Z.eqb y x | [] => false end.

Definition c17_check (c : c17_case) : bool :=
  match c with
  | EscCase s o => bytes_eqb (query_escape s) o
  | UnescCase s o => opt_bytes_eqb (query_unescape s) o
  | ParseQueryCase s f e =>
      let '(ps, e') := parse_query s in
      form_eqb (sort_form (group_pairs ps)) f && Bool.eqb e' e
  | QuoteCase prn s q e back =>
      let ip := tbl_print prn in
      bytes_eqb (go_quote ip s) q && bytes_eqb (escape_quotes s) e &&
      opt_bytes_eqb (Some (name_image ip (length s) s)) back &&
      Bool.eqb (quotable ip s) (opt_bytes_eqb (Some s) back)
  | BoundaryCase b v ct back =>
      Bool.eqb (valid_boundary b) v &&
      (if v then bytes_eqb (form_data_content_type b) ct &&
                 opt_bytes_eqb (parse_boundary_param ct) back else true)
  | BodyCase q prn tbl o =>
      let sniff := tbl_sniff tbl in
      let ip := tbl_print prn in
      match plan_of ip sniff q with
      | PNone => o_arrived o && negb (o_err o) && bytes_eqb (o_body o) []
      | PError => o_err o
      | PBody ct body =>
          o_arrived o && negb (o_err o) && bytes_eqb (o_ct o) ct && bytes_eqb (o_body o) body &&
          (if q_multipart q then
             key_order_ok q &&
             let b := effective_boundary (q_custom_boundary q) (q_random_boundary q) in
             match o_parts o with
             | None => true
             | Some ps =>
                 (* the specification-level reader agrees with mime/multipart on the part list
                    and returns the supplied fields and files *)
                 match parse_form_parts b (o_body o) with
                 | Some vs =>
                     list_eqb view_eqb (map strip_body vs) ps &&
                     list_eqb view_eqb vs
                       (map field_view (multipart_fields q) ++ map (image_view ip sniff) (q_files q))
                 | None => false
                 end
             end
           else true)
      | PMarshal m ct =>
          o_arrived o && negb (o_err o) &&
          match o_marshal o with Some m' => marshaller_eqb m m' | None => false end &&
          bytes_eqb (o_ct o) (match ct with Some c => c | None => preset_ct q end)
      | PRaw b detect =>
          o_arrived o && negb (o_err o) && bytes_eqb (o_body o) b &&
          (if detect then true else bytes_eqb (o_ct o) (preset_ct q))
      | PStream b => o_arrived o && negb (o_err o) && bytes_eqb (o_body o) b
      end
  | WriterCase total interval t0 evs obs =>
      zlist_eqb (run_writer total interval (w0 t0) evs) obs
  | ReaderCase interval t0 evs obs =>
      zlist_eqb (run_reader interval (r0 t0) evs) obs
  | CallCase interval bodies obs => zlist_eqb (call_reports interval bodies) obs
  | SessionCase owners ops obs => list_eqb sout_eqb (srun (sinit owners) ops) obs
  | SetterCase l n obs => list_eqb bout_eqb (run_setters l n) obs
  | WriterAnyClock total ns obs =>
      subseq obs (running 0 ns) &&
      (if existsb (Z.eqb total) (running 0 ns) then existsb (Z.eqb total) obs else true)
  | ReaderAnyClock ns obs =>
      subseq obs (running 0 ns) &&
      (match rev (running 0 ns) with t :: _ => last_is obs t | [] => match obs with [] => true | _ => false end end)
  end.
