(* Model/Pipeline.v - executable model of the request pipeline of imroc/req (C18):
     Request.Send / Do / do            request.go
     Client.roundTrip                  client.go
     parseResponseBody / unmarshalBody / defaultResultStateChecker   middleware.go
     Response.ResultState / ToBytes    response.go
     handleDigestAuthFunc (the re-send part)   digest.go
   Every user-supplied stage (request middleware, wrapping round-trippers, the transport,
   body reads, unmarshal functions, response middleware, custom state checker, retry
   condition) is an oracle value carried by the program; the control flow that connects
   them is the code's, branch for branch.  No proofs here.

   The model describes the code AFTER the fixes cf4fbf7 (request-level middleware returning
   nil keeps err) and the two C18 fixes (normalisation of what a wrapping round-tripper
   returns; re-binding of results after a digest re-send).  The pre-fix digest middleware is
   the [Pinned] flavour; the pre-fix first iteration of do() is [do_first_pinned]. *)
From ReqV Require Export Lib.Bytes.
From ReqV Require Export Gen.ResultState.
Open Scope Z_scope.

(* identity of an error value: harness-injected errors carry distinct positive tags,
   library errors are mapped to small negative classes by the harness *)
Definition err := Z.

Definition is_some {A} (o : option A) : bool := match o with Some _ => true | None => false end.

(* ---------- the outcome record (response.go:14-27) ---------- *)

Inductive ebind := ENone | EReq | ECommon.   (* Response.error: nil / Request.Error / new(commonErrorType) *)

Record response := mkResp {
  r_present : bool;        (* resp.Response != nil *)
  r_status  : Z;           (* resp.StatusCode (meaningful when present) *)
  r_chk     : option Z;    (* verdict of the custom resultStateCheckFunc on this response, if one is installed *)
  r_err     : option err;  (* resp.Err *)
  r_cached  : bool;        (* resp.body != nil *)
  r_result  : bool;        (* resp.result != nil *)
  r_error   : ebind        (* resp.error *)
}.

Definition fresh_resp : response := mkResp false 0 None None false false ENone.   (* &Response{Request: r} *)

Definition set_err (e : option err) (r : response) : response :=
  mkResp (r_present r) (r_status r) (r_chk r) e (r_cached r) (r_result r) (r_error r).
Definition set_cached (b : bool) (r : response) : response :=
  mkResp (r_present r) (r_status r) (r_chk r) (r_err r) b (r_result r) (r_error r).
Definition set_result (b : bool) (r : response) : response :=
  mkResp (r_present r) (r_status r) (r_chk r) (r_err r) (r_cached r) b (r_error r).
Definition set_error (b : ebind) (r : response) : response :=
  mkResp (r_present r) (r_status r) (r_chk r) (r_err r) (r_cached r) (r_result r) b.
(* resp.Response = <new http response or nil> *)
Definition set_http (present : bool) (status : Z) (chk : option Z) (r : response) : response :=
  mkResp present status chk (r_err r) (r_cached r) (r_result r) (r_error r).

(* ---------- classification (response.go ResultState, middleware.go defaultResultStateChecker) ---------- *)

Definition result_state (r : response) : Z :=
  if negb (r_present r) then UnknownState
  else match r_chk r with
       | Some s => s                              (* client.resultStateCheckFunc(resp) *)
       | None => default_result_state (r_status r)
       end.

(* ---------- body and unmarshal oracles ---------- *)

Record body_oracle := mkBody {
  b_read   : option err;   (* what io.ReadAll(resp.Body) returns *)
  b_tf     : option err;   (* what the client's responseBodyTransformer returns on the bytes read (None: none installed / ok) *)
  b_um_res : option err;   (* what the unmarshal function returns on the body for Request.Result *)
  b_um_req : option err;   (* ... for Request.Error *)
  b_um_com : option err;   (* ... for a new value of the client's common error type *)
  b_write  : option err;   (* what writing the body to the download target (SetOutput / SetOutputFile) returns *)
  b_close  : option err    (* what closing the download target returns, when it is an io.Closer (the output file; None: not a closer / ok) *)
}.

(* Response.ToBytes *)
Definition to_bytes (b : body_oracle) (r : response) : response * option err :=
  match r_err r with
  | Some e => (r, Some e)
  | None =>
    if r_cached r then (r, None)
    else if negb (r_present r) then (r, None)
    else match b_read b with
         | Some e => (set_cached true (set_err (Some e) r), Some e)   (* r.body = what was read so far (non-nil) *)
         | None =>
           match b_tf b with
           | Some e => (set_err (Some e) r, Some e)                   (* r.body = nil, the transformer's result *)
           | None => (set_cached true r, None)
           end
         end
  end.

(* unmarshalBody *)
Definition unmarshal_body (b : body_oracle) (um : option err) (r : response) : response * option err :=
  let '(r1, e) := to_bytes b r in
  match e with
  | Some x => (r1, Some x)
  | None => (r1, um)
  end.

Record targets := mkTargets {
  t_result : bool;   (* Request.Result != nil  (SetSuccessResult) *)
  t_error  : bool;   (* Request.Error != nil   (SetErrorResult) *)
  t_common : bool    (* Client.commonErrorType != nil (SetCommonErrorResult) *)
}.

Definition no_content : Z := 204.   (* http.StatusNoContent *)

(* parseResponseBody *)
Definition parse_response_body (tg : targets) (b : body_oracle) (r : response) : response * option err :=
  if negb (r_present r) then (r, None)
  else
    let st := result_state r in
    if st =? SuccessState then
      if t_result tg && negb (r_status r =? no_content) then
        let '(r1, e) := unmarshal_body b (b_um_res b) r in
        match e with
        | None => (set_result true r1, None)
        | Some x => (r1, Some x)
        end
      else (r, None)
    else if st =? ErrorState then
      if r_status r =? no_content then (r, None)
      else if t_error tg then
        let '(r1, e) := unmarshal_body b (b_um_req b) r in
        match e with
        | None => (set_error EReq r1, None)
        | Some x => (r1, Some x)
        end
      else if t_common tg then
        let '(r1, e) := unmarshal_body b (b_um_com b) r in
        match e with
        | None => (set_error ECommon r1, None)
        | Some x => (r1, Some x)
        end
      else (r, None)
    else (r, None).

(* ---------- stages ---------- *)

(* what the transport (http.Client.Do / Transport.RoundTrip) answers *)
Inductive tout :=
| TFail (e : err)
| TResp (status : Z) (chk : option Z) (b : body_oracle).

(* the digest middleware's oracles: failure while building the credentials / re-building the
   body, and the answer to the re-sent request *)
Record digest_oracle := mkDigest { d_pre : option err; d_resend : tout }.

(* a response middleware: a user function that may set resp.Err and may return an error,
   or the library's digest middleware *)
Inductive mw :=
| Mw (set ret : option err)
| MwDigest (d : digest_oracle).

(* a wrapping round-tripper (RoundTripWrapper) *)
Inductive wret :=
| RKeep                      (* return what the inner round-tripper returned *)
| RErr (e : err)             (* return (resp, e) *)
| RNil                       (* return (resp, nil) *)
| RDrop (e : option err).    (* return (nil, e) *)
Inductive wrap :=
| WPass
| WShort (nilresp : bool) (set ret : option err)   (* does not call the inner round-tripper *)
| WPost (set : option err) (ret : wret)            (* calls it, may set resp.Err, chooses what to return *)
| WFab (status : Z) (chk : option Z)               (* does not call it: returns a response it made up, (resp, nil) *)
| WTwice.                                          (* calls it twice and returns what the second call returned *)

Inductive event :=
| EvUd (i : nat)          (* user request middleware i invoked *)
| EvWIn (i : nat) | EvWOut (i : nat)   (* wrapper i entered / returned *)
| EvSend                  (* a request reached the transport *)
| EvCli (i : nat)         (* user client-level response middleware i invoked *)
| EvReq (i : nat)         (* request-level response middleware i invoked *)
| EvCond (i : nat) | EvHook (i : nat).   (* retry condition i evaluated / retry hook i run *)

(* the client's error hook is a user function too: it may assign resp.Err and it may panic *)
Record hookb := mkHook { h_set : option (option err); h_panic : option err }.

Record config := mkCfg {
  c_targets  : targets;
  c_autoread : bool;             (* !client.disableAutoReadResponse && !r.isSaveResponse && !r.disableAutoReadResponse *)
  c_onerror  : option hookb;     (* client.onError, if set: what the user's hook does *)
  c_retry    : option (Z * nat); (* retryOption: MaxRetries, number of RetryHooks *)
  c_reqerr   : option err;       (* Request.error collected by the setters *)
  c_unreplayable : bool;         (* Request.unReplayableBody != nil (SetBody(io.Reader)) *)
  c_save     : bool              (* Request.isSaveResponse (SetOutput / SetOutputFile); then c_autoread is false *)
}.

Record attempt := mkAttempt {
  a_ud      : list (option err);   (* client.udBeforeRequest, registration order *)
  a_bi      : option err;          (* first error of the built-in beforeRequest chain *)
  a_wraps   : list wrap;           (* client.roundTripWrappers, registration order *)
  a_getbody : option err;          (* r.GetBody() in Client.roundTrip *)
  a_transport : tout;
  a_transport2 : tout;             (* what the transport answers to any further call within the attempt (WTwice) *)
  a_cli     : list mw;             (* user part of client.afterResponse (after parseResponseBody, handleDownload) *)
  a_req     : list mw;             (* Request.afterResponse *)
  a_conds   : list bool;           (* verdicts of the custom RetryConditions (registration order) after this attempt; [] = none registered *)
  a_ctxdone : bool;                (* r.Context().Err() != nil when do() looks after the round trip *)
  a_sleep_cancel : bool            (* the context ends while do() waits for the next attempt *)
}.

Definition e_canceled : err := -10.   (* context.Canceled *)

(* two flavours of the digest middleware: the repaired code and the pinned snapshot *)
Inductive flavour := Fixed | Pinned.

(* ---------- Client.roundTrip ---------- *)

(* resp.Response = answer; auto-read (shared by roundTrip and the digest re-send) *)
Definition receive (t : tout) (r : response) : response * option err * body_oracle :=
  match t with
  | TFail e => (set_http false 0 None r, Some e, mkBody None None None None None None None)
  | TResp s chk b =>
    let r1 := set_http true s chk r in
    (r1, None, b)
  end.

Definition auto_read (autoread : bool) (guard : Z -> bool) (b : body_oracle) (r : response) : response :=
  if negb (is_some (r_err r)) && autoread && guard (r_status r) then fst (to_bytes b r) else r.

(* the digest middleware (digest.go handleDigestAuthFunc) *)
Definition digest_mw (fl : flavour) (cfg : config) (d : digest_oracle) (r : response)
  : response * option err * list event :=
  if is_some (r_err r) || negb (r_present r) || negb (r_status r =? 401) then (r, None, [])
  else match d_pre d with
  | Some e => (r, Some e, [])
  | None =>
    match fl with
    | Pinned =>
      (* resp.Response, err = RoundTrip(&req); if err != nil { return err }; resp.body = nil; auto-read; return resp.Err *)
      let '(r1, e, b) := receive (d_resend d) r in
      match e with
      | Some x => (r1, Some x, [EvSend])
      | None =>
        let r3 := auto_read (c_autoread cfg) digest_autoread_status_ok b (set_cached false r1) in
        (r3, r_err r3, [EvSend])
      end
    | Fixed =>
      (* everything derived from the 401 is dropped before the re-send; the new response is
         read and bound like any other *)
      let r0 := set_error ENone (set_result false (set_cached false r)) in
      let '(r1, e, b) := receive (d_resend d) r0 in
      match e with
      | Some x => (r1, Some x, [EvSend])
      | None =>
        let r3 := auto_read (c_autoread cfg) digest_autoread_status_ok b r1 in
        match r_err r3 with
        | Some x => (r3, Some x, [EvSend])
        | None => let '(r4, e4) := parse_response_body (c_targets cfg) b r3 in (r4, e4, [EvSend])
        end
      end
    end
  end.

(* one response middleware call: the function's effect on resp and its return value *)
Definition apply_mw (fl : flavour) (cfg : config) (m : mw) (r : response) : response * option err * list event :=
  match m with
  | Mw s t => (match s with Some e => set_err (Some e) r | None => r end, t, [])
  | MwDigest d => digest_mw fl cfg d r
  end.

(* only user functions are visible in the invocation log *)
Definition mw_event (ev : event) (m : mw) : list event :=
  match m with Mw _ _ => [ev] | MwDigest _ => [] end.

(* SetCommonDigestAuth PREPENDS its middleware to client.afterResponse (e430ccb): the digest
   middleware of the client run first - the later registered the earlier - before the built-in
   parseResponseBody / handleDownload and before every user function.  [digest_body] = whose
   body the response carries afterwards. *)
Definition digest_triggers (d : digest_oracle) (r : response) : bool :=
  negb (is_some (r_err r) || negb (r_present r) || negb (r_status r =? 401)) && negb (is_some (d_pre d)).

Definition digest_body (d : digest_oracle) (r : response) (b : body_oracle) : body_oracle :=
  if digest_triggers d r then match d_resend d with TResp _ _ b' => b' | TFail _ => b end else b.

Fixpoint run_cli_digests (fl : flavour) (cfg : config) (ms : list mw) (b : body_oracle) (r : response)
  : response * body_oracle * list event :=
  match ms with
  | [] => (r, b, [])
  | Mw _ _ :: rest => run_cli_digests fl cfg rest b r
  | MwDigest d :: rest =>
    let '(r1, b1, l1) := run_cli_digests fl cfg rest b r in
    let '(r2, e, l2) := digest_mw fl cfg d r1 in
    let r3 := match e with Some x => set_err (Some x) r2 | None => r2 end in
    (r3, digest_body d r1 b1, l1 ++ l2)
  end.

(* for _, f := range c.afterResponse { if e := f(c, resp); e != nil { resp.Err = e } } - the user
   functions, in registration order (digest entries of the list have run already) *)
Fixpoint run_cli (fl : flavour) (cfg : config) (ms : list mw) (i : nat) (r : response) : response * list event :=
  match ms with
  | [] => (r, [])
  | MwDigest _ :: rest => run_cli fl cfg rest (S i) r
  | Mw s t :: rest =>
    let '(r1, e, l1) := apply_mw fl cfg (Mw s t) r in
    let r2 := match e with Some x => set_err (Some x) r1 | None => r1 end in
    let '(r3, l3) := run_cli fl cfg rest (S i) r2 in
    (r3, [EvCli i] ++ l1 ++ l3)
  end.

(* Client.roundTrip: returns (resp, err) with err = resp.Err (deferred reconciliation: no path
   assigns err before the deferred function runs) *)
(* handleDownload: the body goes to the request's output - from the cache when it was read
   (a result target made parseResponseBody read it), else streamed from resp.Body *)
Definition copy_result (b : body_oracle) (r : response) : option err :=     (* io.Copy(output, body) *)
  if r_cached r then b_write b
  else match b_read b with Some e => Some e | None => b_write b end.

(* the output is closed afterwards; its close error is the download's error only when the copy
   itself succeeded - a copy error is never replaced by the outcome of Close *)
Definition handle_download (cfg : config) (b : body_oracle) (r : response) : option err :=
  if negb (r_present r) || negb (c_save cfg) then None
  else if negb (r_cached r) && is_some (r_err r) then None   (* 42fc3cf: an earlier stage failed and left no body:
                                                                nothing is opened, copied or closed *)
  else match copy_result b r with Some e => Some e | None => b_close b end.

Definition round_trip_with (fl : flavour) (cfg : config) (a : attempt) (t : tout) : option response * option err * list event :=
  let r0 := fresh_resp in
  match a_getbody a with
  | Some e => let r := set_err (Some e) r0 in (Some r, r_err r, [])
  | None =>
    let '(r1, e, b) := receive t r0 in
    let r2 := set_err e r1 in                                (* httpResponse, resp.Err = c.httpClient.Do(...) *)
    let r3 := auto_read (c_autoread cfg) autoread_status_ok b r2 in
    let '(r3d, bd, l_d) := run_cli_digests fl cfg (a_cli a) b r3 in
    (* built-in client.afterResponse: parseResponseBody, handleDownload (no output configured) *)
    let '(r4, e4) := parse_response_body (c_targets cfg) bd r3d in
    let r5 := match e4 with Some x => set_err (Some x) r4 | None => r4 end in
    let r5' := match handle_download cfg bd r5 with Some x => set_err (Some x) r5 | None => r5 end in
    let '(r6, l) := run_cli fl cfg (a_cli a) 0 r5' in
    (Some r6, r_err r6, EvSend :: l_d ++ l)
  end.

Definition round_trip (fl : flavour) (cfg : config) (a : attempt) := round_trip_with fl cfg a (a_transport a).

(* ---------- wrapping round-trippers: the last registered is the outermost ---------- *)

Definition rt_out := (option response * option err * list event)%type.

Definition opt_set (s : option err) (ro : option response) : option response :=
  match s, ro with
  | Some e, Some r => Some (set_err (Some e) r)
  | _, _ => ro
  end.

(* [ws] outermost first, [i] = index (registration order) of the head; [inner] = what the first
   call of Client.roundTrip in this attempt yields, [inner2] = what any further call yields *)
Fixpoint run_wraps (ws : list wrap) (i : nat) (inner inner2 : rt_out) : rt_out :=
  match ws with
  | [] => inner
  | w :: rest =>
    match w with
    | WPass =>
      let '(ro, e, l) := run_wraps rest (pred i) inner inner2 in
      (ro, e, EvWIn i :: l ++ [EvWOut i])
    | WShort nilresp s t =>
      ((if nilresp then None else Some (set_err s fresh_resp)), t, [EvWIn i; EvWOut i])
    | WFab st chk =>
      (Some (mkResp true st chk None false false ENone), None, [EvWIn i; EvWOut i])
    | WTwice =>
      let '(_, _, l1) := run_wraps rest (pred i) inner inner2 in
      let '(ro, e, l2) := run_wraps rest (pred i) inner2 inner2 in
      (ro, e, EvWIn i :: l1 ++ l2 ++ [EvWOut i])
    | WPost s t =>
      let '(ro, e, l) := run_wraps rest (pred i) inner inner2 in
      let ro1 := opt_set s ro in
      let l1 := EvWIn i :: l ++ [EvWOut i] in
      match t with
      | RKeep => (ro1, e, l1)
      | RErr x => (ro1, Some x, l1)
      | RNil => (ro1, None, l1)
      | RDrop x => (None, x, l1)
      end
    end
  end.

Definition wrapped_round_trip (fl : flavour) (cfg : config) (a : attempt) : rt_out :=
  run_wraps (rev (a_wraps a)) (pred (length (a_wraps a))) (round_trip fl cfg a) (round_trip_with fl cfg a (a_transport2 a)).

(* ---------- Request.do ---------- *)

(* for _, f := range middleware { if err = f(c, r); err != nil { return } } *)
Fixpoint run_before (ms : list (option err)) (i : nat) : option err * list event :=
  match ms with
  | [] => (None, [])
  | m :: rest =>
    match m with
    | Some e => (Some e, [EvUd i])
    | None => let '(e, l) := run_before rest (S i) in (e, EvUd i :: l)
    end
  end.

(* request-level response middleware: the first returned error ends do() *)
Fixpoint run_req (fl : flavour) (cfg : config) (ms : list mw) (i : nat) (r : response)
  : response * option err * list event :=
  match ms with
  | [] => (r, None, [])
  | m :: rest =>
    let '(r1, e, l1) := apply_mw fl cfg m r in
    match e with
    | Some x => (r1, Some x, mw_event (EvReq i) m ++ l1)
    | None => let '(r2, e2, l2) := run_req fl cfg rest (S i) r1 in (r2, e2, mw_event (EvReq i) m ++ l1 ++ l2)
    end
  end.

(* the deferred function of do() *)
Definition do_deferred (ro : option response) (e : option err) : option response * option err :=
  let r := match ro with Some r => r | None => fresh_resp end in
  (Some (match e, r_err r with Some x, None => set_err (Some x) r | _, _ => r end), e).

(* clean up before retry *)
Definition clear_for_retry (r : response) : response :=
  set_error ENone (set_result false (set_cached false r)).

(* right after the round trip (C18 fix): a wrapping round-tripper may have returned a nil
   response or an error it did not record *)
Definition normalise (ro : option response) (e : option err) : response :=
  let r0 := match ro with Some r => r | None => fresh_resp end in
  match e, r_err r0 with Some x, None => set_err (Some x) r0 | _, _ => r0 end.

(* RetryConditions are consulted from the last registered to the first until one says yes *)
Fixpoint eval_conds_rev (vs : list bool) (i : nat) : bool * list event :=
  match vs with
  | [] => (false, [])
  | v :: rest =>
    if v then (true, [EvCond i])
    else let '(b, l) := eval_conds_rev rest (pred i) in (b, EvCond i :: l)
  end.
Definition eval_conds (vs : list bool) : bool * list event := eval_conds_rev (rev vs) (pred (length vs)).

(* RetryHooks run in reverse registration order *)
Definition hook_events (nh : nat) : list event := map EvHook (rev (seq 0 nh)).

(* contextCanceled := errors.Is(err, context.Canceled) || r.Context().Err() != nil *)
Definition context_canceled (a : attempt) (e : option err) : bool :=
  (match e with Some x => x =? e_canceled | None => false end) || a_ctxdone a.

(* "absolutely cannot retry" / "no retry is needed": false = leave the loop.  Returns the
   events of evaluating the custom conditions and, on retry, of the hooks. *)
Definition retry_decision (cfg : config) (a : attempt) (n : Z) (e : option err) : bool * list event :=
  match c_retry cfg with
  | None => (false, [])
  | Some (mx, nh) =>
    if context_canceled a e || ((n >=? mx) && (mx >=? 0)) then (false, [])
    else
      let '(need, l_c) := match a_conds a with [] => (is_some e, []) | vs => eval_conds vs end in
      if need then (true, l_c ++ hook_events nh) else (false, l_c)
  end.

(* one iteration of the loop of do(): either a `return` (the values of the named results
   resp, err at that point) or the decision to go round again with resp = r *)
Inductive step :=
| Stop (ro : option response) (e : option err)
| Again (r : response).

(* [n] = r.RetryAttempt, [prev] = the named result resp on entry of the iteration *)
Definition do_attempt (fl : flavour) (cfg : config) (a : attempt) (n : Z) (prev : option response)
  : step * list event :=
  let '(e_ud, l_ud) := run_before (a_ud a) 0 in
  match e_ud with
  | Some e => (Stop prev (Some e), l_ud)
  | None =>
  match a_bi a with
  | Some e => (Stop prev (Some e), l_ud)
  | None =>
    let '(ro, e, l_rt) := wrapped_round_trip fl cfg a in
    let r1 := normalise ro e in
    let '(r2, e_mw, l_req) := run_req fl cfg (a_req a) 0 r1 in
    let l := l_ud ++ l_rt ++ l_req in
    match e_mw with
    | Some x => (Stop (Some r2) (Some x), l)
    | None =>
      (* cf4fbf7: err keeps the round trip's value *)
      let '(again, l_c) := retry_decision cfg a n e in
      if again then
        if a_sleep_cancel a
        then (* err = r.Context().Err(); resp.Err = err; return *)
             (Stop (Some (set_err (Some e_canceled) r2)) (Some e_canceled), l ++ l_c)
        else (Again (clear_for_retry r2), l ++ l_c)
      else (Stop (Some r2) e, l ++ l_c)
    end
  end
  end.

(* the result of do(): the response and error after the deferred function, and the
   invocation log of every iteration *)
Inductive do_result :=
| DoRet (resp : option response) (e : option err) (logs : list (list event))
| DoOutOfFuel.

Definition prepend (l : list event) (d : do_result) : do_result :=
  match d with
  | DoRet r e ls => DoRet r e (l :: ls)
  | DoOutOfFuel => DoOutOfFuel
  end.

Fixpoint do_loop (fl : flavour) (cfg : config) (attempts : list attempt) (n : Z) (prev : option response)
  : do_result :=
  match attempts with
  | [] => DoOutOfFuel
  | a :: rest =>
    match do_attempt fl cfg a n prev with
    | (Stop ro e, l) => let '(r, e') := do_deferred ro e in DoRet r e' [l]
    | (Again r, l) => prepend l (do_loop fl cfg rest (n + 1) (Some r))
    end
  end.

(* ---------- entry points ---------- *)

Inductive entry := EDo | ESend | EMust.

Record program := mkProg { p_entry : entry; p_cfg : config; p_attempts : list attempt }.

Inductive outcome :=
| Returned (resp : option response) (e : option err) (logs : list (list event)) (hooks : nat)
    (* e: the returned error (None for Do); hooks: how many times client.onError ran *)
| Panicked (e : err) (logs : list (list event)) (hooks : nat)      (* Must-style: panic(err) *)
| OutOfFuel.

Definition e_unreplayable : err := -8.   (* errRetryableWithUnReplayableBody *)

(* r.retryOption != nil && r.retryOption.MaxRetries != 0 && r.unReplayableBody != nil *)
Definition retryable_unreplayable (cfg : config) : bool :=
  match c_retry cfg with
  | Some (mx, _) => negb (mx =? 0) && c_unreplayable cfg
  | None => false
  end.

(* Request.Do *)
Definition do_call (fl : flavour) (cfg : config) (attempts : list attempt) : do_result :=
  match c_reqerr cfg with
  | Some e => DoRet (Some (set_err (Some e) fresh_resp)) None []      (* newErrorResponse(r.error) *)
  | None =>
    if retryable_unreplayable cfg
    then DoRet (Some (set_err (Some e_unreplayable) fresh_resp)) None []   (* newErrorResponse(errRetryableWithUnReplayableBody) *)
    else do_loop fl cfg attempts 0 None
  end.

Definition resp_err (ro : option response) : option err :=
  match ro with Some r => r_err r | None => None end.

(* Request.Send (and Get/Post/..., which only fix the method), Must-style wrappers:
     resp := r.Do(); if resp.Err != nil && onError != nil { onError(..., resp, resp.Err) }; return resp, resp.Err
   - the returned error is read AFTER the hook ran *)
Definition finish (en : entry) (ro : option response) (ls : list (list event)) (h : nat) : outcome :=
  match en, resp_err ro with
  | EMust, Some x => Panicked x ls h
  | _, e => Returned ro e ls h
  end.

Definition run (fl : flavour) (p : program) : outcome :=
  match do_call fl (p_cfg p) (p_attempts p) with
  | DoOutOfFuel => OutOfFuel
  | DoRet ro _ ls =>
    match p_entry p with
    | EDo => Returned ro None ls 0
    | en =>
      match resp_err ro, c_onerror (p_cfg p) with
      | Some _, Some hb =>
        let ro' := match h_set hb, ro with Some v, Some r => Some (set_err v r) | _, _ => ro end in
        match h_panic hb with
        | Some x => Panicked x ls 1
        | None => finish en ro' ls 1
        end
      | _, _ => finish en ro ls 0
      end
    end
  end.

(* ---------- the pinned do() on the path the C18 fix repairs ----------
   First iteration, no request-level middleware (a_req ignored): no normalisation, so a nil
   response reaches the retry clean-up `resp.body = nil`. *)
Inductive pinned_result := PRet (resp : option response) (e : option err) | PNilDeref | PContinue.

Definition do_first_pinned (fl : flavour) (cfg : config) (a : attempt) : pinned_result :=
  match fst (run_before (a_ud a) 0), a_bi a with
  | Some e, _ | None, Some e => let '(r, e') := do_deferred None (Some e) in PRet r e'
  | None, None =>
    let '(ro, e, _) := wrapped_round_trip fl cfg a in
    let '(again, _) := retry_decision cfg a 0 e in
    if again then match ro with None => PNilDeref | Some _ => PContinue end
    else let '(r, e') := do_deferred ro e in PRet r e'
  end.
