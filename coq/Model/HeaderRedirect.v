(* Model/HeaderRedirect.v - C16: the header map of a hop after a redirect.
   net/http Client.do (makeHeadersCopier): every key of the initial request's header is copied
   verbatim to the next hop, except Authorization / Www-Authenticate / Cookie / Cookie2 (by canonical
   name) once the chain has left the initial domain; then CheckRedirect runs -
   redirect.go AlwaysCopyHeaderRedirectPolicy(names...): for each name, if the hop has no value under
   the CANONICAL form of the name (Header.Values), the initial request's values under the canonical
   form are added under the canonical form (Header.Add). *)
From ReqV Require Export Model.HeaderCollect Model.HeaderMerge.

Definition sensitive_names : list bytes := [bs "Authorization"; bs "Www-Authenticate"; bs "Cookie"; bs "Cookie2"].
Definition sensitive (k : bytes) : bool := mem_bytes (mime_key k) sensitive_names.

Definition copy_headers (strip : bool) (h : list kv) : list kv :=
  filter (fun x => negb (strip && sensitive (fst x))) h.

Definition policy_step (initial hop : list kv) (name : bytes) : list kv :=
  let k := mime_key name in
  if negb (is_nil (hvals hop k)) then hop
  else match hvals initial k with
       | [] => hop
       | vs => hset hop k vs
       end.

(* the variant that looks for the value under the name exactly as the policy spells it *)
Definition policy_step_exact (initial hop : list kv) (name : bytes) : list kv :=
  let k := mime_key name in
  if negb (is_nil (hvals hop name)) then hop
  else match hvals initial k with
       | [] => hop
       | vs => hset hop k (hvals hop k ++ vs)
       end.

Definition always_copy (initial : list kv) (names : list bytes) (hop : list kv) : list kv :=
  fold_left (policy_step initial) names hop.

Definition hop_hdr (initial : list kv) (names : list bytes) (strip : bool) : list kv :=
  always_copy initial names (copy_headers strip initial).
