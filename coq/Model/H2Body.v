(* Model/H2Body.v - C01: how the HTTP/2 writer frames a request body
   (internal/http2/transport.go clientStream.writeRequestBody, no trailers): the body is read piece
   by piece; every piece is cut into DATA frames of the sizes awaitFlowControl allows at that moment
   (1 <= allowed <= what remains, the peer's window and MAX_FRAME_SIZE permitting); END_STREAM goes on
   the last fragment of the read that reported io.EOF, or - when that read was empty - on an empty
   DATA frame of its own.  No proofs here. *)
From ReqV Require Export Lib.Bytes.

Definition frame := (bytes * bool)%type.       (* payload, END_STREAM *)
Definition body_read := (bytes * bool)%type.   (* bytes of one Read, io.EOF reported with them *)

Definition nil_b {A} (l : list A) : bool := match l with [] => true | _ => false end.

(* the inner loop: [alw] are the successive answers of awaitFlowControl (clamped to what is legal;
   when the list is exhausted the whole remainder is allowed) *)
Fixpoint split_remain (fuel : nat) (remain : bytes) (eof : bool) (alw : list nat)
  : list frame * list nat :=
  match fuel with
  | O => ([], alw)
  | S f =>
      match remain with
      | [] => ([], alw)
      | _ :: _ =>
          let '(a, alw') := match alw with
                            | [] => (length remain, [])
                            | x :: t => (Nat.max 1 (Nat.min x (length remain)), t)
                            end in
          let data := firstn a remain in
          let rest := skipn a remain in
          let '(fs, alw'') := split_remain f rest eof alw' in
          ((data, eof && nil_b rest) :: fs, alw'')
      end
  end.

(* the outer loop, up to the read that reports EOF; second component = sentEnd *)
Fixpoint frames_loop (reads : list body_read) (alw : list nat) : list frame * bool :=
  match reads with
  | [] => ([], false)
  | (d, eof) :: rs =>
      let '(fs, alw') := split_remain (length d) d eof alw in
      if eof then (fs, negb (nil_b d))
      else let '(gs, se) := frames_loop rs alw' in (fs ++ gs, se)
  end.

Definition h2_body_frames (reads : list body_read) (alw : list nat) : list frame :=
  let '(fs, se) := frames_loop reads alw in
  if se then fs else fs ++ [([], true)].

(* the reads that are consumed: up to and including the first one that reports EOF *)
Fixpoint upto_eof (reads : list body_read) : list body_read :=
  match reads with
  | [] => []
  | (d, eof) :: rs => if eof then [(d, eof)] else (d, eof) :: upto_eof rs
  end.

(* ---------- a body source that may fail ---------- *)
Inductive rstatus := ROk | REof | RErr.    (* nil error / io.EOF / any other error, reported with the bytes *)

(* writeRequestBody with a failing source: a read that reports an error other than io.EOF ends the
   upload at once (its bytes are not written, the caller resets the stream); second component:
   the body was completed (END_STREAM sent) *)
Fixpoint h2_upload (reads : list (bytes * rstatus)) (alw : list nat) : list frame * bool :=
  match reads with
  | [] => ([([], true)], true)
  | (d, RErr) :: _ => ([], false)
  | (d, REof) :: _ => (h2_body_frames [(d, true)] alw, true)
  | (d, ROk) :: rs =>
      let '(fs, alw') := split_remain (length d) d false alw in
      let '(gs, done) := h2_upload rs alw' in (fs ++ gs, done)
  end.

(* the bytes of the reads before the first one that is not ROk *)
Fixpoint ok_prefix (reads : list (bytes * rstatus)) : bytes :=
  match reads with
  | (d, ROk) :: rs => d ++ ok_prefix rs
  | _ => []
  end.
