(* Model/CloneMw.v - which middleware a client carries (C18): Client.OnAfterResponse /
   OnBeforeRequest append to the client's own list, Client.Clone gives the new client a COPY of the
   lists (client.go Clone: cloneSlice).  Clients are numbered in creation order, 0 = C(). *)
From ReqV Require Export Lib.Bytes.

Inductive cop :=
| CReg (c : nat) (resp : bool) (m : nat)   (* client c: OnAfterResponse (resp = true) / OnBeforeRequest of user middleware m *)
| CClone (src : nat).                      (* a new client = clients[src].Clone() *)

(* per client: (response middleware ids, request middleware ids), registration order *)
Definition store := list (list nat * list nat).

Fixpoint update {A} (n : nat) (f : A -> A) (l : list A) : list A :=
  match l, n with
  | [], _ => []
  | x :: r, O => f x :: r
  | x :: r, S n' => x :: update n' f r
  end.

Definition step (s : store) (o : cop) : store :=
  match o with
  | CReg c true m => update c (fun p => (fst p ++ [m], snd p)) s
  | CReg c false m => update c (fun p => (fst p, snd p ++ [m])) s
  | CClone src => s ++ [nth src s ([], [])]
  end.

Definition run_ops (ops : list cop) : store := fold_left step ops [([], [])].
