(* Model/CloneMw.v - what a client carries (C18): Client.OnAfterResponse / OnBeforeRequest /
   WrapRoundTripFunc append to the client's own lists, SetCommonErrorResult sets its own error type,
   Client.Clone gives the new client a COPY of all of it - and a wrapped round-trip chain of its
   own that ends in the CLONE's roundTrip (client.go Clone).  Clients are numbered in creation
   order, 0 = C(). *)
From ReqV Require Export Lib.Bytes.

Inductive ckind := KResp | KReq | KWrap.   (* OnAfterResponse | OnBeforeRequest | WrapRoundTripFunc *)

Inductive cop :=
| CReg (c : nat) (k : ckind) (m : nat)     (* client c registers user function m of kind k *)
| CErrType (c : nat) (t : nat)             (* client c: SetCommonErrorResult(value of type t) *)
| CClone (src : nat).                      (* a new client = clients[src].Clone() *)

(* what one client carries: response middleware, request middleware, round-trip wrappers
   (registration order), common error type (0 = none) *)
Record cl := mkCl { cl_resp : list nat; cl_req : list nat; cl_wraps : list nat; cl_et : nat }.
Definition cl0 : cl := mkCl [] [] [] 0.

Definition store := list cl.

Fixpoint update {A} (n : nat) (f : A -> A) (l : list A) : list A :=
  match l, n with
  | [], _ => []
  | x :: r, O => f x :: r
  | x :: r, S n' => x :: update n' f r
  end.

Definition reg (k : ckind) (m : nat) (x : cl) : cl :=
  match k with
  | KResp => mkCl (cl_resp x ++ [m]) (cl_req x) (cl_wraps x) (cl_et x)
  | KReq => mkCl (cl_resp x) (cl_req x ++ [m]) (cl_wraps x) (cl_et x)
  | KWrap => mkCl (cl_resp x) (cl_req x) (cl_wraps x ++ [m]) (cl_et x)
  end.

Definition step (s : store) (o : cop) : store :=
  match o with
  | CReg c k m => update c (reg k m) s
  | CErrType c t => update c (fun x => mkCl (cl_resp x) (cl_req x) (cl_wraps x) t) s
  | CClone src => s ++ [nth src s cl0]
  end.

Definition run_ops (ops : list cop) : store := fold_left step ops [cl0].

(* what a request fired from a client runs / binds: its own response middleware in order, its own
   request middleware in order, its own wrappers from the last registered (outermost) inwards, and
   an error-state body is bound to its own common error type *)
Definition observed (x : cl) : list nat * list nat * list nat * nat :=
  (cl_resp x, cl_req x, rev (cl_wraps x), cl_et x).
