(* Model/H1Fast.v - C02: the HTTP/1.1 header reader of Model/H1Resp.v with a linear-time trim.

   Model/H1Resp.v trims header lines with Lib/Bytes.v [trim] = rev . drop_while . rev, and
   List.rev is quadratic: a 9 000-byte header line costs seconds under vm_compute.  The
   functions below are copies of cont_lines / mime_loop / read_mime_header / read_trailer /
   read_body / read_response_head / parse_response and of Model/H1Client.v read_final /
   h1_exchange that differ ONLY in using [rev_append] (List.rev').  Proofs/H1FastProofs.v
   proves each copy equal to the original for all inputs, so the checker may evaluate the
   copies while the theorems speak about the originals.  No proofs here. *)
From ReqV Require Export Lib.Bytes Model.H1Resp Model.RespAPI Model.H1Client.

Definition frev (l : bytes) : bytes := rev_append l [].
Definition ftrim_right (f : byte -> bool) (s : bytes) : bytes := frev (drop_while f (frev s)).
Definition ftrim (f : byte -> bool) (s : bytes) : bytes := ftrim_right f (trim_left f s).
Definition ftrim_sp_tab (s : bytes) : bytes := ftrim is_sp_tab s.

Fixpoint cont_lines_f (fuel bufsize : nat) (buf s : bytes) : fres (bytes * bytes) :=
  match fuel with
  | O => FFuel
  | S f =>
      match s with
      | x :: _ =>
          if is_sp_tab x then
            let s' := drop_while is_sp_tab s in
            match read_line bufsize s' with
            | None => FOk (buf ++ [SP], [])
            | Some (l, r) => cont_lines_f f bufsize (buf ++ SP :: ftrim_sp_tab l) r
            end
          else FOk (buf, s)
      | [] => FOk (buf, s)
      end
  end.

Fixpoint mime_loop_f (fuel bufsize : nat) (m : hmap) (s : bytes) : herr + (hmap * bytes) :=
  match fuel with
  | O => inl HOutOfFuel
  | S f =>
      match read_line bufsize s with
      | None => inl HUnexpectedEOF
      | Some (line, r) =>
          if is_nil line then inr (m, r)
          else if negb (mem_byte COLON line) then inl HMalformedHeader
          else
            match cont_lines_f (S (length r)) bufsize (ftrim_sp_tab line) r with
            | FFuel => inl HOutOfFuel
            | FOk (kv, r') =>
                match cut_byte COLON kv with
                | None => inl HMalformedHeader
                | Some (k, v) =>
                    match canonical_key k with
                    | None => inl HMalformedHeader
                    | Some key =>
                        if forallb valid_value_byte v
                        then mime_loop_f f bufsize (hadd key (trim_left is_sp_tab v) m) r'
                        else inl HMalformedHeader
                    end
                end
            end
      end
  end.

Definition read_mime_header_f (bufsize : nat) (s : bytes) : herr + (hmap * bytes) :=
  match s with
  | x :: _ =>
      if is_sp_tab x then
        match read_line bufsize s with
        | None => if length s <=? 80 then inl HUnexpectedEOF else inl HMalformedHeader
        | Some _ => inl HMalformedHeader
        end
      else mime_loop_f (S (length s)) bufsize [] s
  | [] => mime_loop_f (S (length s)) bufsize [] s
  end.

Definition read_trailer_f (bufsize : nat) (s : bytes) : berr + (hmap * bytes) :=
  match s with
  | c1 :: c2 :: rest =>
      if beqb c1 CR && beqb c2 LF then inr ([], rest)
      else if negb (see_upcoming_double_crlf bufsize s) then inl BTrailerTooLong
      else match read_mime_header_f bufsize s with
           | inl HUnexpectedEOF => inl BTrailerEOF
           | inl HOutOfFuel => inl BOutOfFuel
           | inl _ => inl BTrailerMalformed
           | inr (h, rest') => inr (h, rest')
           end
  | _ => inl BTrailerEOF
  end.

Definition read_body_f (bufsize : nat) (r : resp) (s : bytes) : body_result :=
  match r_framing r with
  | FrChunked =>
      match dechunk_all bufsize s with
      | (d, CErr e) => {| b_data := d; b_end := e; b_trailer := r_trailer_declared r; b_rest := [] |}
      | (d, CEof rest) =>
          match read_trailer_f bufsize rest with
          | inl e => {| b_data := d; b_end := e; b_trailer := r_trailer_declared r; b_rest := [] |}
          | inr (t, rest') =>
              {| b_data := d; b_end := BOk;
                 b_trailer := merge_set_header (r_trailer_declared r) t; b_rest := rest' |}
          end
      end
  | _ => read_body bufsize r s
  end.

Definition read_response_head_f (meth : bytes) (bufsize : nat) (s : bytes) : herr + (resp * bytes) :=
  match read_line bufsize s with
  | None => inl HUnexpectedEOF
  | Some (line, s1) =>
      match parse_status_line line with
      | inl e => inl e
      | inr sl =>
          match read_mime_header_f bufsize s1 with
          | inl e => inl e
          | inr (h, s2) =>
              match read_transfer meth sl (fix_pragma_cache_control h) with
              | inl e => inl e
              | inr r => inr (r, s2)
              end
          end
      end
  end.

Fixpoint read_final_f (fuel : nat) (meth : bytes) (bufsize : nat) (num1xx : nat) (s : bytes) : final_res :=
  match fuel with
  | O => FinFuel
  | S f =>
      match read_response_head_f meth bufsize s with
      | inl e => FinErr e
      | inr (r, rest) =>
          if is_1xx_nonterminal (r_code r) then
            if max_1xx <? S num1xx then FinTooMany1xx
            else read_final_f f meth bufsize (S num1xx) rest
          else FinOk r rest
      end
  end.

Definition h1_exchange_f (meth : bytes) (m : mode) (sizes : list nat) (s : bytes) : option h1_delivery :=
  match read_final_f (S (S max_1xx)) meth br_size 0 s with
  | FinOk r rest =>
      let b := if is_switch r then switch_body r rest else read_body_f br_size r rest in
      Some {| d_resp := r; d_body := b; d_api := run_mode m (r_code r) sizes (body_reader b) |}
  | _ => None
  end.

Fixpoint interim_heads_f (fuel : nat) (meth : bytes) (bufsize : nat) (s : bytes) : list (Z * hmap) :=
  match fuel with
  | O => []
  | S f =>
      match read_response_head_f meth bufsize s with
      | inl _ => []
      | inr (r, rest) =>
          if is_1xx_nonterminal (r_code r) then (r_code r, r_header r) :: interim_heads_f f meth bufsize rest
          else []
      end
  end.

Fixpoint heads_fit_f (fuel : nat) (meth : bytes) (bufsize lim : nat) (s : bytes) : bool :=
  match fuel with
  | O => true
  | S f =>
      match read_response_head_f meth bufsize s with
      | inl _ => true
      | inr (r, rest) =>
          (length s - length rest <=? lim) &&
          (if is_1xx_nonterminal (r_code r) then heads_fit_f f meth bufsize lim rest else true)
      end
  end.
