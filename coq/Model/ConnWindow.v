(* Model/ConnWindow.v - C02 (round 5): the connection-level receive window of one HTTP/2
   ClientConn, as state carried across the exchanges of the connection.

   internal/http2/flow.go inflow.add / take (inflowMinRefresh), transport.go processData (the
   whole frame length is taken from the window; padding is returned at once; the payload goes
   into the stream's pipe), transportResponseBody.Read (what the caller consumed is returned),
   transportResponseBody.Close (what is still buffered unread is returned), DATA for a stream
   that is already gone (returned at once).  [cw_buf] = bytes sitting unread in the pipes of
   all streams.  What the peer may still send on the connection is [cw_avail].  No proofs here. *)
From Coq Require Import ZArith Bool List.
Import ListNotations.
Local Open Scope Z_scope.

Record cwin := { cw_avail : Z; cw_unsent : Z; cw_buf : Z }.

Definition min_refresh : Z := 4096.      (* inflowMinRefresh *)

(* inflow.add: credit is announced (WINDOW_UPDATE) once at least min_refresh bytes are pending or
   the pending amount would at least double the window *)
Definition cw_add (s : cwin) (n : Z) : cwin * Z :=
  let u := cw_unsent s + n in
  if (u <? min_refresh) && (u <? cw_avail s)
  then ({| cw_avail := cw_avail s; cw_unsent := u; cw_buf := cw_buf s |}, 0)
  else ({| cw_avail := cw_avail s + u; cw_unsent := 0; cw_buf := cw_buf s |}, u).

Inductive cop :=
| CData (n pad : Z)      (* a DATA frame with n payload bytes and pad bytes of padding (incl. the length byte) *)
| CRead (k : Z)          (* a caller's Read took k bytes out of a stream's pipe *)
| CClose (u : Z)         (* a caller closed a body with u bytes still unread in its pipe *)
| CDrop (n : Z).         (* DATA for a stream that is gone: dropped, credit returned *)

(* None: the step is impossible (flow-control violation by the peer / more read than buffered) *)
Definition cw_step (s : cwin) (o : cop) : option (cwin * Z) :=
  match o with
  | CData n pad =>
      if (n <? 0) || (pad <? 0) || (cw_avail s <? n + pad) then None
      else Some (cw_add {| cw_avail := cw_avail s - (n + pad); cw_unsent := cw_unsent s; cw_buf := cw_buf s + n |} pad)
  | CRead k =>
      if (k <? 0) || (cw_buf s <? k) then None
      else Some (cw_add {| cw_avail := cw_avail s; cw_unsent := cw_unsent s; cw_buf := cw_buf s - k |} k)
  | CClose u =>
      if (u <? 0) || (cw_buf s <? u) then None
      else Some (cw_add {| cw_avail := cw_avail s; cw_unsent := cw_unsent s; cw_buf := cw_buf s - u |} u)
  | CDrop n =>
      if (n <? 0) || (cw_avail s <? n) then None
      else Some (cw_add {| cw_avail := cw_avail s - n; cw_unsent := cw_unsent s; cw_buf := cw_buf s |} n)
  end.

(* run a sequence; the second component is the total credit announced to the peer *)
Fixpoint cw_run (s : cwin) (ops : list cop) : option (cwin * Z) :=
  match ops with
  | [] => Some (s, 0)
  | o :: r =>
      match cw_step s o with
      | None => None
      | Some (s', a) => match cw_run s' r with Some (s'', b) => Some (s'', a + b) | None => None end
      end
  end.

Definition cw_init (w : Z) : cwin := {| cw_avail := w; cw_unsent := 0; cw_buf := 0 |}.

(* the peer's view at a quiescent point (every response read to its end or closed): how much
   of the initial window W is missing *)
Definition quiescent_ok (w peer_view : Z) : bool := (0 <=? w - peer_view) && (w - peer_view <? min_refresh).
