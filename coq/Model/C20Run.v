(* Model/C20Run.v - case type and checker evaluated on harness-generated cases (C20) *)
From ReqV Require Export Lib.Bytes Lib.PackedBytes Model.Base64 Model.Digest Model.ProxyAuth Model.AuthReexec Model.FormResend.

(* hash oracle table supplied by the harness: (function, input, hex digest) computed with the
   Go standard library for every input the RFC 7616 computation hashes in that case *)
Definition hash_table := list (hashfn * bytes * bytes).

Definition H_tab (t : hash_table) (f : hashfn) (data : bytes) : bytes :=
  match find (fun e => hashfn_eqb f (fst (fst e)) && bytes_eqb data (snd (fst e))) t with
  | Some e => snd e
  | None => bs "?no-such-hash-in-table?"
  end.

(* observed error class: None = no error *)
Inductive obs_err := ONone | ODigest (e : derr) | OOther.

Definition res_matches (m : bytes + derr) (obs_auth : bytes) (e : obs_err) : bool :=
  match m, e with
  | inl a, ONone => bytes_eqb a obs_auth
  | inr x, ODigest y => derr_eqb x y
  | _, _ => false
  end.

Definition wire_eqb (a b : wire_request) : bool :=
  bytes_eqb (w_method a) (w_method b) && bytes_eqb (w_uri a) (w_uri b) &&
  opt_bytes_eqb (w_auth a) (w_auth b) && bytes_eqb (w_ctype a) (w_ctype b) &&
  bytes_eqb (w_body a) (w_body b).

Inductive c20_case :=
(* util.BasicAuthHeaderValue on (user, pass); header received by the origin (or the direct
   value), and what net/http's Request.BasicAuth() recovered from it *)
| BasicCase (user pass obs_header : bytes) (obs_ok : bool) (obs_user obs_pass : bytes)
| BearerCase (token obs_header : bytes)
(* encoding/base64 directly, both directions *)
| B64Case (data obs_enc : bytes)
| B64DecCase (text : bytes) (obs_dec : option bytes)
(* createDigestAuth through the hook *)
| DigestCase (t : hash_table) (chal uri method user pass cnonce obs_auth : bytes) (e : obs_err)
| ParseCase (chal : bytes) (obs : option (list bytes)) (e : obs_err)
(* a challenge text together with the way the harness built it (white space, parameter list,
   token / quoted form): the text IS render_challenge of that structure, the structure satisfies
   the hypotheses of theorem C20_challenge_text_parsed, and the real parseChallenge returned the
   meaning of the parameter list (apply_fields) *)
| ChalTextCase (pre mid post : bytes) (xs : list padded) (text : bytes) (obs : option (list bytes)) (e : obs_err)
(* digest.go escapeQuoted / unquoteParam through the hook *)
| QuoteCase (s obs_escaped : bytes) (v obs_unquoted : bytes)
(* a (possibly damaged) Authorization header given to the harness's RFC 7616 verifier (Go,
   independent of /repo) and to the model's rfc7616_accepts: same verdict; [strict_only]:
   the Go verifier tolerates a deviation the exact-match verifier of the model does not
   (then only "model accepts => Go accepts" is required) *)
| VerifyCase (t : hash_table) (chal uri method user pass hint hdr : bytes) (go_accepts strict_only : bool)
(* net/url on userinfo: url.User/UserPassword(u).String() and the userinfo url.Parse recovers
   from a raw (valid) userinfo text *)
| UserinfoCase (u : userinfo) (obs_string raw : bytes) (obs_parse : option userinfo)
(* one client, keep-alive, a sequence of (proxy URL, https target?, target address) requests
   through the recording proxy; [texts]: the proxy URL text handed to SetProxyURL where it was
   rendered by net/url from the credentials ([] where it was written by hand); [obs]: per
   request the Proxy-Authorization values the proxy received (None = header absent); [static]:
   the Proxy-Authorization the caller put into Transport.ProxyConnectHeader, if any *)
| ProxySeqCase (static : option bytes) (rs : list proxy_req) (texts : list bytes) (obs : list (list (option bytes)))
(* one Request object executed several times, credential setters on client and request in
   between; [obs]: the Authorization header the origin received per execution *)
| ReexecCase (ops : list auth_op) (obs : list (option bytes))
(* clients and their clones: credential setters on either, requests from either; clients are
   numbered in order of creation *)
| CloneCase (ops : list cl_op) (obs : list (option bytes))
(* a url-encoded form answered with a digest challenge: client-level and request-level fields,
   and the fields read from the body of the first and of the re-sent request *)
| FormResendCase (client req first resend : list ffield)
(* one call through a real client against the scripted origin *)
| ExchangeCase (t : hash_table) (replayable : bool) (fault : option bool) (first : wire_request) (status : N) (chals : list bytes) (rbody user pass cnonce : bytes)
               (obs_wire : list wire_request) (e : obs_err).

Definition opt_ui_eqb (a b : option userinfo) : bool :=
  match a, b with
  | Some (u, p), Some (v, q) => bytes_eqb u v && match p, q with
                                                 | Some x, Some y => bytes_eqb x y
                                                 | None, None => true
                                                 | _, _ => false
                                                 end
  | None, None => true
  | _, _ => false
  end.

(* a step's observation against the pool model: plain http - exactly the model's list; https - a
   re-used tunnel shows the proxy nothing, a new one shows one CONNECT; when the model re-uses
   but the transport happened to dial (the idle connection was not back in the pool yet) the one
   CONNECT must still carry the current credential *)
Definition proxy_obs_ok (static : option bytes) (r : proxy_req) (m o : list (option bytes)) : bool :=
  let cur := sent_auth static (snd (fst r)) (fst (fst r)) in
  if snd (fst r)
  then match m with
       | [] => match o with [] => true | [h] => opt_bytes_eqb h cur | _ => false end
       | _ => list_eqb opt_bytes_eqb m o
       end
  else list_eqb opt_bytes_eqb m o.

Fixpoint all3 {A B C} (f : A -> B -> C -> bool) (a : list A) (b : list B) (c : list C) : bool :=
  match a, b, c with
  | [], [], [] => true
  | x :: a', y :: b', z :: c' => f x y z && all3 f a' b' c'
  | _, _, _ => false
  end.

Definition chal_fields (c : challenge) : list bytes :=
  [c_realm c; c_domain c; c_nonce c; c_opaque c; c_stale c; c_algorithm c; c_qop c; c_userhash c].

Definition c20_check (c : c20_case) : bool :=
  match c with
  | BasicCase u p hdr ok ou op =>
      bytes_eqb (basic_header u p) hdr &&
      match parse_basic hdr with
      | Some (a, b) => ok && bytes_eqb a ou && bytes_eqb b op
      | None => negb ok
      end
  | BearerCase t hdr =>
      bytes_eqb (bearer_header t) hdr && opt_bytes_eqb (parse_bearer hdr) (Some t)
  | B64Case d e => bytes_eqb (b64_encode d) e && opt_bytes_eqb (b64_decode e) (Some d)
  | B64DecCase t o => opt_bytes_eqb (b64_decode t) o
  | DigestCase t chal uri method user pass cnonce obs e =>
      res_matches (create_digest_auth (H_tab t) chal uri method user pass cnonce) obs e
  | ParseCase chal obs e =>
      match parse_challenge chal, obs, e with
      | inl c, Some fs, ONone => list_eqb bytes_eqb (chal_fields c) fs
      | inr x, None, ODigest y => derr_eqb x y
      | _, _, _ => false
      end
  | ChalTextCase pre mid post xs text obs e =>
      bytes_eqb (render_challenge pre mid post xs) text &&
      forallb is_chal_ws pre && forallb is_chal_ws mid && forallb is_chal_ws post &&
      forallb piece_ok xs && ends_tightb xs &&
      match apply_fields empty_chal (map padded_sem xs), obs, e with
      | inl c, Some fs, ONone => list_eqb bytes_eqb (chal_fields c) fs
      | inr x, None, ODigest y => derr_eqb x y
      | _, _, _ => false
      end
  | QuoteCase s e v u => bytes_eqb (escape_quoted s) e && bytes_eqb (unquote_param v) u
  | VerifyCase t chal uri method user pass hint hdr go strict_only =>
      match parse_challenge chal with
      | inl c =>
          let m := rfc7616_accepts (H_tab t) c uri method user pass hint hdr in
          if strict_only then implb m go else Bool.eqb m go
      | inr _ => false
      end
  | CloneCase ops obs => ops_ok 1 ops && list_eqb opt_bytes_eqb (cl_run cl_init ops) obs
  | FormResendCase client req first resend =>
      same_fields first (form_first client req) && same_fields resend (form_resend client req) &&
      list_eqb ffield_eqb first resend
  | ReexecCase ops obs => list_eqb opt_bytes_eqb (rq_run rq_init ops) obs
  | UserinfoCase u s raw op =>
      bytes_eqb (ui_string u) s && opt_ui_eqb (ui_parse s) (Some u) && opt_ui_eqb (ui_parse raw) op
  | ProxySeqCase static rs texts obs =>
      all3 (fun (r : proxy_req) t (_ : list (option bytes)) =>
              match t with [] => true | _ => bytes_eqb (pu_string (fst (fst r))) t end) rs texts obs &&
      all3 (proxy_obs_ok static) rs (proxy_run static [] rs) obs
  | ExchangeCase t rp fault first status chals rbody user pass cnonce obs e =>
      let rsp := mkResp false status (select_challenge chals) rbody in
      list_eqb wire_eqb (digest_exchange_f (H_tab t) fault rp first rsp user pass cnonce) obs &&
      match digest_middleware (H_tab t) rp first rsp user pass cnonce, fault, e with
      | MwErr x, _, ODigest y => derr_eqb x y
      | MwErr _, _, _ => false
      | Resent _, Some false, OOther => true      (* the transport's error reaches the caller *)
      | Resent _, Some false, _ => false
      | _, _, ONone => true
      | _, _, _ => false
      end
  end.
