(* Model/C20Run.v - case type and checker evaluated on harness-generated cases (C20) *)
From ReqV Require Export Lib.Bytes Lib.PackedBytes Model.Base64 Model.Digest.

(* hash oracle table supplied by the harness: (function, input, hex digest) computed with the
   Go standard library for every input the RFC 7616 computation hashes in that case *)
Definition hash_table := list (hashfn * bytes * bytes).

Definition H_tab (t : hash_table) (f : hashfn) (data : bytes) : bytes :=
  match find (fun e => hashfn_eqb f (fst (fst e)) && bytes_eqb data (snd (fst e))) t with
  | Some e => snd e
  | None => bs "?no-such-hash-in-table?"
  end.

(* observed error class: None = no error *)
Inductive obs_err := ONone | ODigest (e : derr) | OOther.

Definition res_matches (m : bytes + derr) (obs_auth : bytes) (e : obs_err) : bool :=
  match m, e with
  | inl a, ONone => bytes_eqb a obs_auth
  | inr x, ODigest y => derr_eqb x y
  | _, _ => false
  end.

Definition wire_eqb (a b : wire_request) : bool :=
  bytes_eqb (w_method a) (w_method b) && bytes_eqb (w_uri a) (w_uri b) &&
  opt_bytes_eqb (w_auth a) (w_auth b) && bytes_eqb (w_ctype a) (w_ctype b) &&
  bytes_eqb (w_body a) (w_body b).

Inductive c20_case :=
(* util.BasicAuthHeaderValue on (user, pass); header received by the origin (or the direct
   value), and what net/http's Request.BasicAuth() recovered from it *)
| BasicCase (user pass obs_header : bytes) (obs_ok : bool) (obs_user obs_pass : bytes)
| BearerCase (token obs_header : bytes)
(* encoding/base64 directly, both directions *)
| B64Case (data obs_enc : bytes)
| B64DecCase (text : bytes) (obs_dec : option bytes)
(* createDigestAuth through the hook *)
| DigestCase (t : hash_table) (chal uri method user pass cnonce obs_auth : bytes) (e : obs_err)
| ParseCase (chal : bytes) (obs : option (list bytes)) (e : obs_err)
(* a challenge text together with the way the harness built it (white space, parameter list,
   token / quoted form): the text IS render_challenge of that structure, the structure satisfies
   the hypotheses of theorem C20_challenge_text_parsed, and the real parseChallenge returned the
   meaning of the parameter list (apply_fields) *)
| ChalTextCase (pre mid post : bytes) (xs : list padded) (text : bytes) (obs : option (list bytes)) (e : obs_err)
(* digest.go escapeQuoted / unquoteParam through the hook *)
| QuoteCase (s obs_escaped : bytes) (v obs_unquoted : bytes)
(* a (possibly damaged) Authorization header given to the harness's RFC 7616 verifier (Go,
   independent of /repo) and to the model's rfc7616_accepts: same verdict; [strict_only]:
   the Go verifier tolerates a deviation the exact-match verifier of the model does not
   (then only "model accepts => Go accepts" is required) *)
| VerifyCase (t : hash_table) (chal uri method user pass hint hdr : bytes) (go_accepts strict_only : bool)
(* one call through a real client against the scripted origin *)
| ExchangeCase (t : hash_table) (replayable : bool) (fault : option bool) (first : wire_request) (status : N) (chal rbody user pass cnonce : bytes)
               (obs_wire : list wire_request) (e : obs_err).

Definition chal_fields (c : challenge) : list bytes :=
  [c_realm c; c_domain c; c_nonce c; c_opaque c; c_stale c; c_algorithm c; c_qop c; c_userhash c].

Definition c20_check (c : c20_case) : bool :=
  match c with
  | BasicCase u p hdr ok ou op =>
      bytes_eqb (basic_header u p) hdr &&
      match parse_basic hdr with
      | Some (a, b) => ok && bytes_eqb a ou && bytes_eqb b op
      | None => negb ok
      end
  | BearerCase t hdr =>
      bytes_eqb (bearer_header t) hdr && opt_bytes_eqb (parse_bearer hdr) (Some t)
  | B64Case d e => bytes_eqb (b64_encode d) e && opt_bytes_eqb (b64_decode e) (Some d)
  | B64DecCase t o => opt_bytes_eqb (b64_decode t) o
  | DigestCase t chal uri method user pass cnonce obs e =>
      res_matches (create_digest_auth (H_tab t) chal uri method user pass cnonce) obs e
  | ParseCase chal obs e =>
      match parse_challenge chal, obs, e with
      | inl c, Some fs, ONone => list_eqb bytes_eqb (chal_fields c) fs
      | inr x, None, ODigest y => derr_eqb x y
      | _, _, _ => false
      end
  | ChalTextCase pre mid post xs text obs e =>
      bytes_eqb (render_challenge pre mid post xs) text &&
      forallb is_chal_ws pre && forallb is_chal_ws mid && forallb is_chal_ws post &&
      forallb piece_ok xs && ends_tightb xs &&
      match apply_fields empty_chal (map padded_sem xs), obs, e with
      | inl c, Some fs, ONone => list_eqb bytes_eqb (chal_fields c) fs
      | inr x, None, ODigest y => derr_eqb x y
      | _, _, _ => false
      end
  | QuoteCase s e v u => bytes_eqb (escape_quoted s) e && bytes_eqb (unquote_param v) u
  | VerifyCase t chal uri method user pass hint hdr go strict_only =>
      match parse_challenge chal with
      | inl c =>
          let m := rfc7616_accepts (H_tab t) c uri method user pass hint hdr in
          if strict_only then implb m go else Bool.eqb m go
      | inr _ => false
      end
  | ExchangeCase t rp fault first status chal rbody user pass cnonce obs e =>
      let rsp := mkResp false status chal rbody in
      list_eqb wire_eqb (digest_exchange_f (H_tab t) fault rp first rsp user pass cnonce) obs &&
      match digest_middleware (H_tab t) rp first rsp user pass cnonce, fault, e with
      | MwErr x, _, ODigest y => derr_eqb x y
      | MwErr _, _, _ => false
      | Resent _, Some false, OOther => true      (* the transport's error reaches the caller *)
      | Resent _, Some false, _ => false
      | _, _, ONone => true
      | _, _, _ => false
      end
  end.
