(* Model/Dump.v - C13: dump options, writer resolution, the dumper list, the hooks through which
   the three protocol stacks hand bytes to the dumpers, and the asynchronous delivery queue.

   Go: dump.go (DumpOptions, dumpOptions accessors, newDumper), internal/dump/dump.go
   (Dumper.DumpTo / DumpDefault / DumpRequestHeader ..., GetDumpers, the wrappers, Start/Stop),
   client.go SetCommonDumpOptions, request.go SetDumpOptions / EnableDump.

   A Go io.Writer is identified by a number ([writer]); two distinguished numbers stand for
   os.Stdout and os.Stderr.  No proofs here. *)
From ReqV Require Export Lib.Bytes.

Definition writer := N.
Definition w_stdout : writer := 0%N.
Definition w_stderr : writer := 1%N.

(* req.DumpOptions *)
Record options := mkOpts {
  o_out : option writer;      (* Output *)
  o_req : option writer;      (* RequestOutput *)
  o_resp : option writer;     (* ResponseOutput *)
  o_reqh : option writer;     (* RequestHeaderOutput *)
  o_reqb : option writer;     (* RequestBodyOutput *)
  o_resph : option writer;    (* ResponseHeaderOutput *)
  o_respb : option writer;    (* ResponseBodyOutput *)
  on_reqh : bool; on_reqb : bool; on_resph : bool; on_respb : bool;
  o_async : bool }.

Inductive part := PReqH | PReqB | PRespH | PRespB.

Definition part_eqb (a b : part) : bool :=
  match a, b with
  | PReqH, PReqH | PReqB, PReqB | PRespH, PRespH | PRespB, PRespB => true
  | _, _ => false
  end.

Definition or_else (a : option writer) (b : writer) : writer :=
  match a with Some w => w | None => b end.

(* dumpOptions.Output(): nil -> os.Stdout *)
Definition output (o : options) : writer := or_else (o_out o) w_stdout.

Definition part_field (o : options) (p : part) : option writer :=
  match p with PReqH => o_reqh o | PReqB => o_reqb o | PRespH => o_resph o | PRespB => o_respb o end.
Definition side_field (o : options) (p : part) : option writer :=
  match p with PReqH | PReqB => o_req o | PRespH | PRespB => o_resp o end.

(* dumpOptions.RequestHeaderOutput() etc.: part-specific writer, else request/response writer,
   else Output() *)
Definition resolve (o : options) (p : part) : writer :=
  or_else (part_field o p) (or_else (side_field o p) (output o)).

Definition enabled (o : options) (p : part) : bool :=
  match p with PReqH => on_reqh o | PReqB => on_reqb o | PRespH => on_resph o | PRespB => on_respb o end.

Definition set_out (o : options) (w : option writer) : options :=
  mkOpts w (o_req o) (o_resp o) (o_reqh o) (o_reqb o) (o_resph o) (o_respb o)
         (on_reqh o) (on_reqb o) (on_resph o) (on_respb o) (o_async o).

(* newDumper: a nil Output becomes os.Stderr *)
Definition new_dumper (o : options) : options :=
  match o_out o with Some _ => o | None => set_out o (Some w_stderr) end.

(* Client.SetCommonDumpOptions: a nil Output is inherited from the client's previous options,
   else os.Stdout *)
Definition client_set_options (prev : option options) (o : options) : options :=
  match o_out o with
  | Some _ => o
  | None => set_out o (Some (match prev with Some p => output p | None => w_stdout end))
  end.

(* Request.SetDumpOptions: a nil Output becomes the request's own dump buffer *)
Definition request_set_options (buf : writer) (o : options) : options :=
  match o_out o with Some _ => o | None => set_out o (Some buf) end.

(* dump.GetDumpers: the client-level dumper (Transport.Options.Dump) first, then the
   request-level one found in the context.  A dumper is (index, options): index 0 = client
   level, 1 = request level. *)
Definition dumper := (nat * options)%type.
Definition get_dumpers (client request : option options) : list dumper :=
  (match client with Some o => [(0, new_dumper o)] | None => [] end) ++
  (match request with Some o => [(1, new_dumper o)] | None => [] end).

(* one delivery: dumper index, destination writer, bytes *)
Definition emission := (nat * writer * bytes)%type.

(* Dumper.DumpTo (synchronous view; see the queue below): nothing for an empty slice *)
Definition dump_to (i : nat) (w : writer) (p : bytes) : list emission :=
  match p with [] => [] | _ => [(i, w, p)] end.

Definition crlf : bytes := [x0d; x0a].

(* What the stacks hand to the dumpers, in program order. *)
Inductive hook :=
| HReqHeader (p : bytes)     (* request header bytes (h1: a Write on the header writer; h2/h3: a field line) *)
| HReqBody (p : bytes)       (* request body bytes before any framing *)
| HReqBodyEnd (sep : bytes)  (* DumpDefault separator after a body: h1 CRLF, h2/h3 CRLF CRLF *)
| HRespHeader (p : bytes)    (* response header bytes (h1: as read; h2/h3: a field line) *)
| HRespBody (p : bytes)      (* response body bytes as delivered to the caller *)
| HRespBodyEOF.              (* DumpDefault CRLF when the body reader reports io.EOF *)

(* the wrappers call d.DumpRequestHeader etc. without looking at the flag; the flag is looked
   at when the wrapper is installed (transport.go / transfer.go / http2 / http3) *)
Definition raw_emit (d : dumper) (h : hook) : list emission :=
  let '(i, o) := d in
  match h with
  | HReqHeader p => dump_to i (resolve o PReqH) p
  | HReqBody p => dump_to i (resolve o PReqB) p
  | HReqBodyEnd sep => dump_to i (output o) sep
  | HRespHeader p => dump_to i (resolve o PRespH) p
  | HRespBody p => dump_to i (resolve o PRespB) p
  | HRespBodyEOF => dump_to i (output o) crlf
  end.

Definition hook_part (h : hook) : part :=
  match h with
  | HReqHeader _ => PReqH
  | HReqBody _ | HReqBodyEnd _ => PReqB
  | HRespHeader _ => PRespH
  | HRespBody _ | HRespBodyEOF => PRespB
  end.

Definition hook_emit (d : dumper) (h : hook) : list emission :=
  if enabled (snd d) (hook_part h) then raw_emit d h else [].

(* every dumper of the list sees every hook, dumpers in list order *)
Definition hook_emit_all (ds : list dumper) (h : hook) : list emission :=
  flat_map (fun d => hook_emit d h) ds.
Definition run_hooks (ds : list dumper) (hs : list hook) : list emission :=
  flat_map (hook_emit_all ds) hs.

(* bytes that reached writer w through dumper i, in order *)
Fixpoint content (i : nat) (w : writer) (es : list emission) : bytes :=
  match es with
  | [] => []
  | (j, v, p) :: r => if Nat.eqb i j && N.eqb w v then p ++ content i w r else content i w r
  end.

(* the bytes of hook h that dumper options o sends to writer w *)
Definition hook_bytes_for (o : options) (w : writer) (h : hook) : bytes :=
  if negb (enabled o (hook_part h)) then [] else
  match h with
  | HReqHeader p => if N.eqb w (resolve o PReqH) then p else []
  | HReqBody p => if N.eqb w (resolve o PReqB) then p else []
  | HReqBodyEnd sep => if N.eqb w (output o) then sep else []
  | HRespHeader p => if N.eqb w (resolve o PRespH) then p else []
  | HRespBody p => if N.eqb w (resolve o PRespB) then p else []
  | HRespBodyEOF => if N.eqb w (output o) then crlf else []
  end.

(* payload of the hooks of part p, separators excluded *)
Definition hook_payload (p : part) (h : hook) : bytes :=
  match h, p with
  | HReqHeader b, PReqH => b
  | HReqBody b, PReqB => b
  | HRespHeader b, PRespH => b
  | HRespBody b, PRespB => b
  | _, _ => []
  end.
Definition is_separator (h : hook) : bool :=
  match h with HReqBodyEnd _ | HRespBodyEOF => true | _ => false end.

(* ---------- h2 / h3 emission rule: "name: value CRLF" per field, then CRLF ---------- *)
Definition field := (bytes * bytes)%type.
Definition field_line (f : field) : bytes := fst f ++ bs ": " ++ snd f ++ crlf.
Definition field_hooks (mk : bytes -> hook) (fs : list field) : list hook :=
  map (fun f => mk (field_line f)) fs ++ [mk crlf].

(* ---------- asynchronous delivery (Dumper.ch, Start) ----------
   DumpTo with Async() enqueues (writer, copy of bytes) on a FIFO channel of capacity 20;
   Start (one goroutine per started dumper) drains it in order.  A schedule says how many
   queued tasks the drainer takes before each enqueue; whatever remains is drained at the end
   (the caller waits for the queue to empty).  Capacity only matters when nobody drains. *)
Definition task := (writer * bytes)%type.

Fixpoint run_async (queue : list task) (prog : list task) (sched : list nat) : list task :=
  match prog with
  | [] => queue
  | t :: r =>
      let k := hd 0 sched in
      firstn k queue ++ run_async (skipn k queue ++ [t]) r (tl sched)
  end.

(* a dumper whose Start was never called (pinned request-level dumper with Async): tasks pile
   up; the (capacity+1)-th DumpTo blocks forever *)
Definition chan_capacity : nat := 20.
Inductive unstarted_outcome := AllQueued (n : nat) | BlockedForever.
Definition run_unstarted (prog : list task) : unstarted_outcome :=
  if Nat.leb (length prog) chan_capacity then AllQueued (length prog) else BlockedForever.

(* Dumper.DumpTo as repaired (fix 0354844): a chunk is queued only when Async() AND Start is
   draining the channel (atomic flag `running`, set by Start, cleared when Start returns);
   otherwise it is written at once.  Operations on one dumper, as the goroutines may interleave:
     ADump t    a DumpTo call of the stacks (program order)
     ADrain     the Start goroutine takes one task from the channel and writes it
     AStart     Start begins draining (go dump.Start() of Transport.EnableDump; never for a
                request-level dumper)
     AStopped   Start returns; it does so after having received the nil that Stop sent, i.e.
                after it has written everything queued before (enabled only on an empty queue)
   State: running flag, queue, tasks written so far. *)
Inductive aop := ADump (t : task) | ADrain | AStart | AStopped.

Record dstate := mkD { d_running : bool; d_queue : list task; d_out : list task }.

Definition step_op (async : bool) (st : dstate) (op : aop) : dstate :=
  match op with
  | ADump t =>
      if async && d_running st then mkD (d_running st) (d_queue st ++ [t]) (d_out st)
      else mkD (d_running st) (d_queue st) (d_out st ++ [t])
  | ADrain =>
      match d_queue st with
      | t :: q => if d_running st then mkD true q (d_out st ++ [t]) else st
      | [] => st
      end
  | AStart => mkD true (d_queue st) (d_out st)
  | AStopped =>
      match d_queue st with
      | [] => mkD false [] (d_out st)
      | _ => st
      end
  end.

Definition run_ops (async : bool) (ops : list aop) : dstate :=
  fold_left (step_op async) ops (mkD false [] []).

Definition dumped_tasks (ops : list aop) : list task :=
  flat_map (fun op => match op with ADump t => [t] | _ => [] end) ops.

(* pinned DumpTo: queues whenever Async(), whether or not anybody drains *)
Definition step_op_pinned (async : bool) (st : dstate) (op : aop) : dstate :=
  match op with
  | ADump t =>
      if async then mkD (d_running st) (d_queue st ++ [t]) (d_out st)
      else mkD (d_running st) (d_queue st) (d_out st ++ [t])
  | _ => step_op async st op
  end.
Definition run_ops_pinned (async : bool) (ops : list aop) : dstate :=
  fold_left (step_op_pinned async) ops (mkD false [] []).

(* several exchanges on one client / connection: every exchange looks its dumpers up afresh
   (dump.GetDumpers on the request's context; newTextprotoReader per response head), so a run is
   the concatenation of the exchanges' own hook runs *)
Definition run_sequence (xs : list (list dumper * list hook)) : list emission :=
  flat_map (fun x => run_hooks (fst x) (snd x)) xs.

(* ---------- request-level setters, in the order the caller makes them ----------
   request.go: getDumpOptions (default: the four parts on, Output = the request's dump buffer),
   SetDumpOptions (nil Output -> the buffer; the value is copied INTO the existing struct, or the
   struct is adopted when there is none yet), EnableDump (builds the request-level Dumper around
   the struct - a pointer, so later changes of the struct are seen by the Dumper), EnableDumpTo,
   EnableDumpWithoutXxx (change fields of the struct, then EnableDump).
   State: the struct (if any) and whether a Dumper has been put into the request's context. *)
Inductive rop :=
| RSet (o : options) | REnable | RTo (w : writer)
| RNoBody | RNoHeader | RNoResponse | RNoRequest | RNoReqBody | RNoRespBody.

Definition default_req_options (buf : writer) : options :=
  mkOpts (Some buf) None None None None None None true true true true false.

Definition set_flags (o : options) (f : part -> bool -> bool) : options :=
  mkOpts (o_out o) (o_req o) (o_resp o) (o_reqh o) (o_reqb o) (o_resph o) (o_respb o)
         (f PReqH (on_reqh o)) (f PReqB (on_reqb o)) (f PRespH (on_resph o)) (f PRespB (on_respb o))
         (o_async o).

Definition switch_off (ps : list part) (o : options) : options :=
  set_flags o (fun p b => if existsb (part_eqb p) ps then false else b).

Definition rstate := (option options * bool)%type.

Definition rstep (buf : writer) (st : rstate) (op : rop) : rstate :=
  let cur := match fst st with Some o => o | None => default_req_options buf end in
  match op with
  | RSet o => (Some (request_set_options buf o), snd st)
  | REnable => (Some cur, true)
  | RTo w => (Some (set_out cur (Some w)), true)
  | RNoBody => (Some (switch_off [PReqB; PRespB] cur), true)
  | RNoHeader => (Some (switch_off [PReqH; PRespH] cur), true)
  | RNoResponse => (Some (switch_off [PRespH; PRespB] cur), true)
  | RNoRequest => (Some (switch_off [PReqH; PReqB] cur), true)
  | RNoReqBody => (Some (switch_off [PReqB] cur), true)
  | RNoRespBody => (Some (switch_off [PRespB] cur), true)
  end.

(* the options the request-level dumper works with when the request is sent; None: no dumper *)
Definition run_rops (buf : writer) (ops : list rop) : option options :=
  let st := fold_left (rstep buf) ops (None, false) in
  if snd st then fst st else None.

(* a SetDumpOptions that keeps the caller's pointer: the Dumper built earlier still looks at the
   OLD struct.  State: struct the setters see, struct the Dumper looks at (if built). *)
Definition rstep_keep (buf : writer) (st : option options * option options) (op : rop)
  : option options * option options :=
  match op with
  | RSet o => (Some (request_set_options buf o), snd st)
  | _ => let '(o', _) := rstep buf (fst st, true) op in (o', o')
  end.
Definition run_rops_keep (buf : writer) (ops : list rop) : option options :=
  snd (fold_left (rstep_keep buf) ops (None, None)).

(* ---------- several drainers on one queue ----------
   Start takes a task from the channel and then writes it; with one Start goroutine per channel
   (Dumper.Clone makes a fresh channel, Options.Clone starts one goroutine for it) take and write
   of consecutive tasks cannot overlap.  Drainers are numbered; each holds at most one task. *)
Inductive qop := QDump (t : task) | QTake (d : nat) | QWrite (d : nat).

Record qstate := mkQ { q_queue : list task; q_held : list (nat * task); q_out : list task }.

Fixpoint held_of (d : nat) (h : list (nat * task)) : option task :=
  match h with
  | [] => None
  | (e, t) :: r => if Nat.eqb d e then Some t else held_of d r
  end.
Fixpoint drop_held (d : nat) (h : list (nat * task)) : list (nat * task) :=
  match h with
  | [] => []
  | (e, t) :: r => if Nat.eqb d e then r else (e, t) :: drop_held d r
  end.

Definition qstep (st : qstate) (op : qop) : qstate :=
  match op with
  | QDump t => mkQ (q_queue st ++ [t]) (q_held st) (q_out st)
  | QTake d =>
      match held_of d (q_held st), q_queue st with
      | None, t :: q => mkQ q (q_held st ++ [(d, t)]) (q_out st)
      | _, _ => st
      end
  | QWrite d =>
      match held_of d (q_held st) with
      | Some t => mkQ (q_queue st) (drop_held d (q_held st)) (q_out st ++ [t])
      | None => st
      end
  end.
Definition run_qops (ops : list qop) : qstate := fold_left qstep ops (mkQ [] [] []).
Definition qdumped (ops : list qop) : list task :=
  flat_map (fun op => match op with QDump t => [t] | _ => [] end) ops.
Definition drainer_of (op : qop) : option nat :=
  match op with QDump _ => None | QTake d | QWrite d => Some d end.

(* ---------- Stop while exchanges are still in flight (fix 417df38) ----------
   The queue now shows the stop mark (nil task).  Repaired code: DumpTo queues only under the
   lock qmu and only when running && !stopped; Stop takes the same lock, sets stopped, sends
   the mark and - if a drainer is running - waits until it has written everything queued and
   has returned (so it is one atomic step here).  Before the fix Stop only sent the mark, and
   DumpTo queued while running was still 1: behind the mark. *)
Inductive sop := SDump (t : task) | SDrain | SStart | SStop.

Record sstate := mkS { s_running : bool; s_stopped : bool; s_q : list (option task); s_out : list task }.

Definition tasks_of (q : list (option task)) : list task :=
  flat_map (fun x => match x with Some t => [t] | None => [] end) q.

Definition sdrain (st : sstate) : sstate :=
  if s_running st then
    match s_q st with
    | Some t :: q => mkS true (s_stopped st) q (s_out st ++ [t])
    | None :: q => mkS false (s_stopped st) q (s_out st)        (* Start returns *)
    | [] => st
    end
  else st.

Definition sstep (async : bool) (st : sstate) (op : sop) : sstate :=
  match op with
  | SDump t =>
      if async && s_running st && negb (s_stopped st)
      then mkS (s_running st) (s_stopped st) (s_q st ++ [Some t]) (s_out st)
      else mkS (s_running st) (s_stopped st) (s_q st) (s_out st ++ [t])
  | SDrain => sdrain st
  | SStart => mkS true (s_stopped st) (s_q st) (s_out st)
  | SStop =>
      if s_running st then mkS false true [] (s_out st ++ tasks_of (s_q st))
      else mkS false true (s_q st ++ [None]) (s_out st)
  end.

Definition sstep_old (async : bool) (st : sstate) (op : sop) : sstate :=
  match op with
  | SDump t =>
      if async && s_running st
      then mkS (s_running st) (s_stopped st) (s_q st ++ [Some t]) (s_out st)
      else mkS (s_running st) (s_stopped st) (s_q st) (s_out st ++ [t])
  | SStop => mkS (s_running st) true (s_q st ++ [None]) (s_out st)
  | _ => sstep async st op
  end.

Definition s0 : sstate := mkS false false [] [].
Definition run_sops (async : bool) (ops : list sop) : sstate := fold_left (sstep async) ops s0.
Definition run_sops_old (async : bool) (ops : list sop) : sstate := fold_left (sstep_old async) ops s0.
Definition sdumped (ops : list sop) : list task :=
  flat_map (fun op => match op with SDump t => [t] | _ => [] end) ops.

(* ---------- the request's own dump buffer across retries ----------
   Request.do: before every further attempt r.dumpBuffer.Reset() - whether or not the failed
   attempt had a response.  A buffer is written to and reset. *)
Inductive bop := BWrite (p : bytes) | BReset.
Definition bstep (buf : bytes) (op : bop) : bytes :=
  match op with BWrite p => buf ++ p | BReset => [] end.
Definition run_bops (ops : list bop) : bytes := fold_left bstep ops [].

(* ---------- client-level configuration history and Clone ----------
   client.go: Client.dumpOptions (a struct, by pointer), the running Dumper (Transport.Dump) and
   whether that Dumper reads Client.dumpOptions itself ("linked") or a struct of its own
   (Transport-level EnableDump(opts)).
     CSetCommon o       SetCommonDumpOptions(o): nil Output inherited; the struct is replaced and a
                        running Dumper is re-pointed at it
     CEnableAll         EnableDumpAll: nothing if a Dumper runs, else a Dumper on the (default) struct
     CEnableAllTo w     EnableDumpAllTo(w): Output of the struct := w, then EnableDumpAll
     CDisableAll        DisableDumpAll
     CTransportEnable o Client.EnableDump(o) = Transport.EnableDump: a new Dumper on o's own struct *)
Inductive cop :=
| CSetCommon (o : options) | CEnableAll | CEnableAllTo (w : writer) | CDisableAll
| CTransportEnable (o : options)
| CWithout (ps : list part).   (* EnableDumpAllWithoutXxx: parts of the struct off, then EnableDumpAll *)

Record cstate := mkC { c_opts : option options; c_has : bool; c_linked : bool; c_own : option options }.

Definition default_client_options : options :=
  mkOpts (Some w_stdout) None None None None None None true true true true false.

Definition cstep (st : cstate) (op : cop) : cstate :=
  let cur := match c_opts st with Some o => o | None => default_client_options end in
  let enable_all (o : options) :=
    if c_has st then mkC (Some o) true (c_linked st) (c_own st)
    else mkC (Some (new_dumper o)) true true (c_own st) in
  match op with
  | CSetCommon o =>
      let o' := client_set_options (c_opts st) o in
      mkC (Some o') (c_has st) (if c_has st then true else c_linked st) (c_own st)
  | CEnableAll => enable_all cur
  | CEnableAllTo w => enable_all (set_out cur (Some w))
  | CDisableAll => mkC (c_opts st) false (c_linked st) (c_own st)
  | CTransportEnable o => mkC (c_opts st) true false (Some (new_dumper o))
  | CWithout ps => enable_all (switch_off ps cur)
  end.

Definition c0 : cstate := mkC None false false None.
Definition run_cops (ops : list cop) : cstate := fold_left cstep ops c0.

(* the options the client-level Dumper works with; None: no client-level dump *)
Definition in_force (st : cstate) : option options :=
  if c_has st then (if c_linked st then c_opts st else c_own st) else None.

(* Client.Clone: the struct is copied; the Dumper is cloned with a copy of what it reads; it is
   re-pointed at the clone's struct only when the original's Dumper reads the original's struct *)
Definition cclone (st : cstate) : cstate :=
  mkC (c_opts st) (c_has st) (c_linked st) (if c_linked st then c_own st else in_force st).

(* the guard reduced to "both exist": the clone's Dumper always gets the copy of the struct *)
Definition cclone_unguarded (st : cstate) : cstate :=
  match c_opts st with
  | Some _ => mkC (c_opts st) (c_has st) true (c_own st)
  | None => cclone st
  end.

(* ---------- Stop in two steps: the order of one exchange's bytes across Stop ----------
   Stop is not atomic: it takes qmu, marks the queue (stopped, nil task) and, when a drainer is
   running, keeps qmu until the drainer has written everything queued and returned.  DumpTo needs
   qmu: while Stop waits a DumpTo of an exchange still in flight is blocked (here: the op does not
   execute).  [t_lock]: qmu is held by a waiting Stop.  run_tops also returns the DumpTo calls that
   did execute, in order. *)
Inductive top := TDump (t : task) | TDrain | TStart | TMark.

Record tstate := mkT { t_running : bool; t_stopped : bool; t_lock : bool;
                       t_q : list (option task); t_out : list task }.

Definition tdrain (st : tstate) : tstate :=
  if t_running st then
    match t_q st with
    | Some t :: q => mkT true (t_stopped st) (t_lock st) q (t_out st ++ [t])
    | None :: q => mkT false (t_stopped st) false q (t_out st)   (* Start returns; the waiting Stop returns *)
    | [] => st
    end
  else st.

(* [keep]: does Stop keep qmu while it waits for the drain?  true = the code; false = a Stop that
   unlocks right after marking the queue *)
Definition tstep (keep async : bool) (x : tstate * list task) (op : top) : tstate * list task :=
  let '(st, ex) := x in
  match op with
  | TDump t =>
      if t_lock st then (st, ex) else
      if async && t_running st && negb (t_stopped st)
      then (mkT (t_running st) (t_stopped st) false (t_q st ++ [Some t]) (t_out st), ex ++ [t])
      else (mkT (t_running st) (t_stopped st) false (t_q st) (t_out st ++ [t]), ex ++ [t])
  | TDrain => (tdrain st, ex)
  | TStart => (mkT true (t_stopped st) (t_lock st) (t_q st) (t_out st), ex)
  | TMark => (mkT (t_running st) true (keep && t_running st) (t_q st ++ [None]) (t_out st), ex)
  end.

Definition t0 : tstate := mkT false false false [] [].
Definition run_tops (keep async : bool) (ops : list top) : tstate * list task :=
  fold_left (tstep keep async) ops (t0, []).

Fixpoint no_task_after_mark (q : list (option task)) : bool :=
  match q with
  | [] => true
  | None :: r => match tasks_of r with [] => no_task_after_mark r | _ => false end
  | Some _ :: r => no_task_after_mark r
  end.
