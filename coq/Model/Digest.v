(* Model/Digest.v - C20: digest.go (parseChallenge, newCredentials, authorize, validateQop,
   resp, ha1, ha2, kd, h, handleDigestAuthFunc) as executable Gallina, the hash function being
   a Section variable; plus an independent transcription of RFC 7616 section 3.4 and of its
   algorithm registry.  No proofs here.

   The model follows the REPAIRED code (see findings.d/C20.json): quoted-string aware
   parameter split, "auth" selected from a qop list, no empty "algorithm=" parameter,
   quoted-pairs resolved in challenge values and written again on output (escapeQuoted /
   unquoteParam, Model/AuthParam.v), a body that cannot be replayed is an error; the
   pre-fix functions are kept as *_pinned. *)
From ReqV Require Export Lib.Bytes.
From ReqV Require Export Model.AuthParam.
From ReqV Require Export Gen.DigestTables.   (* hash_funcs, challenge_keys: regenerated from digest.go *)
From ReqV Require Export Gen.DigestKernels.  (* sprintf_calls, string_tests: regenerated from digest.go *)

(* ---------- hash functions ---------- *)

(* the constructors digest.go can name; HOther = anything else the table might contain *)
Inductive hashfn := HMd5 | HSha1 | HSha256 | HSha512 | HSha512_256 | HOther.

Definition hashfn_eqb (a b : hashfn) : bool :=
  match a, b with
  | HMd5, HMd5 | HSha1, HSha1 | HSha256, HSha256 | HSha512, HSha512
  | HSha512_256, HSha512_256 | HOther, HOther => true
  | _, _ => false
  end.

(* Go constructor identifier (as written in the hashFuncs map literal) -> hash function *)
Definition ctor_hash (id : bytes) : hashfn :=
  if bytes_eqb id (bs "md5.New") then HMd5
  else if bytes_eqb id (bs "sha1.New") then HSha1
  else if bytes_eqb id (bs "sha256.New") then HSha256
  else if bytes_eqb id (bs "sha512.New") then HSha512
  else if bytes_eqb id (bs "sha512.New512_256") then HSha512_256
  else HOther.

(* hashFuncs[alg] *)
Definition lookup_alg (alg : bytes) : option hashfn :=
  match assoc_bytes alg hash_funcs with
  | Some id => Some (ctor_hash id)
  | None => None
  end.

(* ---------- small string helpers ---------- *)

Definition colon_d : byte := ":"%byte.

(* const ws = " \n\r\t" *)
Definition is_chal_ws (b : byte) : bool :=
  beqb b " "%byte || beqb b x0a || beqb b x0d || beqb b x09.
(* the ASCII white space of strings.TrimSpace: \t \n \v \f \r space *)
Definition is_space (b : byte) : bool :=
  beqb b " "%byte || beqb b x09 || beqb b x0a || beqb b x0b || beqb b x0c || beqb b x0d.
(* strings.TrimSpace = TrimFunc(unicode.IsSpace): besides the ASCII ones, the UTF-8 encodings of
   U+0085, U+00A0, U+1680, U+2000-U+200A, U+2028, U+2029, U+202F, U+205F, U+3000 are stripped from
   both ends (a byte sequence that is not one of these encodings decodes to a rune that is not a
   space - RuneError included - and stops the scan) *)
Definition uni_spaces : list bytes :=
  [[xc2; x85]; [xc2; xa0]; [xe1; x9a; x80];
   [xe2; x80; x80]; [xe2; x80; x81]; [xe2; x80; x82]; [xe2; x80; x83]; [xe2; x80; x84]; [xe2; x80; x85];
   [xe2; x80; x86]; [xe2; x80; x87]; [xe2; x80; x88]; [xe2; x80; x89]; [xe2; x80; x8a];
   [xe2; x80; xa8]; [xe2; x80; xa9]; [xe2; x80; xaf]; [xe2; x81; x9f]; [xe3; x80; x80]].
(* width of the space rune at the head of s / at the head of the REVERSED text r; 0 if none *)
Definition space_head (s : bytes) : nat :=
  match s with
  | [] => 0
  | b :: _ => if is_space b then 1
              else match find (fun q => has_prefix q s) uni_spaces with Some q => length q | None => 0 end
  end.
Definition space_tail (r : bytes) : nat :=
  match r with
  | [] => 0
  | b :: _ => if is_space b then 1
              else match find (fun q => has_prefix (rev q) r) uni_spaces with Some q => length q | None => 0 end
  end.
Fixpoint strip_spaces (heads : bytes -> nat) (fuel : nat) (s : bytes) : bytes :=
  match fuel with
  | O => s
  | S f => match heads s with
           | O => s
           | S _ as n => strip_spaces heads f (skipn n s)
           end
  end.
Definition trim_space (s : bytes) : bytes :=
  let s1 := strip_spaces space_head (length s) s in
  rev (strip_spaces space_tail (length s1) (rev s1)).
Definition trim_quotes (s : bytes) : bytes := trim (beqb dquote) s.

(* strings.SplitN(s, "=", 2) *)
Definition cut_eq (s : bytes) : option (bytes * bytes) :=
  match index_byte equals s with
  | Some i => Some (firstn i s, skipn (S i) s)
  | None => None
  end.

(* splitChallengeParams (repaired code): split at commas outside quoted strings; inside a
   quoted string a backslash protects the next byte.  [cur] is the current field reversed. *)
Fixpoint split_params_go (inq esc : bool) (cur : bytes) (s : bytes) : list bytes :=
  match s with
  | [] => [rev cur]
  | b :: r =>
      if esc then split_params_go inq false (b :: cur) r
      else if inq && beqb b bslash then split_params_go inq true (b :: cur) r
      else if beqb b dquote then split_params_go (negb inq) false (b :: cur) r
      else if beqb b comma && negb inq then rev cur :: split_params_go inq false [] r
      else split_params_go inq false (b :: cur) r
  end.
Definition split_params (s : bytes) : list bytes := split_params_go false false [] s.
(* pinned code: strings.Split(s, ",") *)
Definition split_params_pinned (s : bytes) : list bytes := split_byte comma s.

(* ---------- parseChallenge ---------- *)

Record challenge := mkChal {
  c_realm : bytes; c_domain : bytes; c_nonce : bytes; c_opaque : bytes; c_stale : bytes;
  c_algorithm : bytes; c_qop : bytes; c_userhash : bytes }.

Definition empty_chal : challenge := mkChal [] [] [] [] [] [] [] [].

Inductive derr := EBadChallenge | ECharset | EAlgNotSupported | EQopNotSupported | EUnreplayable.

Definition derr_eqb (a b : derr) : bool :=
  match a, b with
  | EBadChallenge, EBadChallenge | ECharset, ECharset
  | EAlgNotSupported, EAlgNotSupported | EQopNotSupported, EQopNotSupported
  | EUnreplayable, EUnreplayable => true
  | _, _ => false
  end.

(* the switch in parseChallenge; [unq] = unquoteParam (pinned code: strings.Trim with the double quote) *)
Definition set_param_with (unq : bytes -> bytes) (c : challenge) (k raw : bytes) : challenge + derr :=
  let v := unq raw in
  let '(mkChal realm domain nonce opaque stale alg qop uh) := c in
  if bytes_eqb k (bs "realm") then inl (mkChal v domain nonce opaque stale alg qop uh)
  else if bytes_eqb k (bs "domain") then inl (mkChal realm v nonce opaque stale alg qop uh)
  else if bytes_eqb k (bs "nonce") then inl (mkChal realm domain v opaque stale alg qop uh)
  else if bytes_eqb k (bs "opaque") then inl (mkChal realm domain nonce v stale alg qop uh)
  else if bytes_eqb k (bs "stale") then inl (mkChal realm domain nonce opaque v alg qop uh)
  else if bytes_eqb k (bs "algorithm") then inl (mkChal realm domain nonce opaque stale v qop uh)
  else if bytes_eqb k (bs "qop") then inl (mkChal realm domain nonce opaque stale alg v uh)
  else if bytes_eqb k (bs "charset") then
    if bytes_eqb (to_upper v) (bs "UTF-8") then inl c else inr ECharset
  else if bytes_eqb k (bs "userhash") then inl (mkChal realm domain nonce opaque stale alg qop v)
  else inr EBadChallenge.
Definition set_param := set_param_with unquote_param.
Definition set_param_pinned := set_param_with trim_quotes.

(* one loop iteration: TrimSpace, SplitN "=", switch *)
Definition parse_param (c : challenge) (p : bytes) : challenge + derr :=
  match cut_eq (trim_space p) with
  | Some (k, v) => set_param c k v
  | None => inr EBadChallenge
  end.

Fixpoint parse_params (c : challenge) (ps : list bytes) : challenge + derr :=
  match ps with
  | [] => inl c
  | p :: r => match parse_param c p with
              | inl c' => parse_params c' r
              | inr e => inr e
              end
  end.

Definition parse_challenge_with (split : bytes -> list bytes) (input : bytes) : challenge + derr :=
  let s := trim is_chal_ws input in
  if has_prefix (bs "Digest ") s then
    parse_params empty_chal (split (trim is_chal_ws (skipn 7 s)))
  else inr EBadChallenge.

Definition parse_challenge : bytes -> challenge + derr := parse_challenge_with split_params.
Definition parse_challenge_pinned : bytes -> challenge + derr := parse_challenge_with split_params_pinned.

(* ---------- credentials / authorize ---------- *)

(* validateQop (repaired): "" is fine; otherwise the comma separated list must offer "auth",
   and "auth" becomes the message qop *)
Definition validate_qop (q : bytes) : bytes + derr :=
  match q with
  | [] => inl []
  | _ => if existsb (fun x => bytes_eqb (trim_space x) (bs "auth")) (split_byte comma q)
         then inl (bs "auth") else inr EQopNotSupported
  end.

(* pinned: strings.Split(q, ", "), the whole list text stays the message qop *)
Fixpoint split_comma_space (cur : bytes) (s : bytes) : list bytes :=
  match s with
  | [] => [rev cur]
  | a :: r =>
      match r with
      | b :: r' => if beqb a comma && beqb b " "%byte then rev cur :: split_comma_space [] r'
                   else split_comma_space (a :: cur) r
      | [] => [rev (a :: cur)]
      end
  end.
Definition validate_qop_pinned (q : bytes) : bytes + derr :=
  match q with
  | [] => inl []
  | _ => if existsb (fun x => bytes_eqb x (bs "auth")) (split_comma_space [] q)
         then inl q else inr EQopNotSupported
  end.

Definition hex_digit (n : N) : byte := nth (N.to_nat n) (bs "0123456789abcdef") "0"%byte.
Fixpoint hex_fixed (digits : nat) (n : N) : bytes :=
  match digits with
  | O => []
  | S d => hex_fixed d (n / 16)%N ++ [hex_digit (n mod 16)%N]
  end.
(* fmt.Sprintf("%08x", nc) for 0 <= nc < 2^32 *)
Definition hex8 (n : N) : bytes := hex_fixed 8 n.

Definition lookup_field (k : bytes) (fs : list field) : option fval := assoc_bytes k fs.

(* ---------- fmt.Sprintf, for the verbs digest.go uses, run on the format strings and argument
   lists regenerated from the source (Gen/DigestKernels.v sprintf_calls) ---------- *)

Inductive farg := FS (s : bytes) | FN (n : N).

Definition fmt_bad : bytes := bs "%!(BAD)".

Fixpoint sprintf (fmt : bytes) (args : list farg) : bytes :=
  match fmt with
  | [] => []
  | b :: r =>
      if beqb b "%"%byte then
        match r with
        | c :: r1 =>
            if beqb c "s"%byte then
              match args with
              | FS s :: a => s ++ sprintf r1 a
              | _ => fmt_bad
              end
            else if beqb c "0"%byte then
              match r1 with
              | d :: e :: r2 =>
                  if beqb d "8"%byte && beqb e "x"%byte then
                    match args with
                    | FN n :: a => hex8 n ++ sprintf r2 a
                    | _ => fmt_bad
                    end
                  else fmt_bad
              | _ => fmt_bad
              end
            else fmt_bad
        | [] => fmt_bad
        end
      else b :: sprintf r args
  end.

(* the value of an argument expression (as the source spells it) *)
Definition env_arg (env : list (bytes * farg)) (name : bytes) : farg :=
  match assoc_bytes name env with
  | Some a => a
  | None => FS (bs "%!(UNKNOWN " ++ name ++ bs ")")
  end.

(* the string the source's Sprintf call [name] produces under [env] *)
Definition hash_input (name : bytes) (env : list (bytes * farg)) : bytes :=
  match assoc_bytes name sprintf_calls with
  | Some (f, names) => sprintf f (map (env_arg env) names)
  | None => bs "%!(NOCALL)"
  end.

(* name and kind of the parameter an `sl = append(sl, fmt.Sprintf(...))` line of authorize()
   writes: 0 = quoted and escaped, 1 = quoted verbatim, 2 = bare *)
Definition call_field (c : bytes * list bytes) : option (bytes * N) :=
  match cut_eq (fst c) with
  | Some (k, r) =>
      if bytes_eqb r (dquote :: bs "%s" ++ [dquote]) then
        Some (k, if has_prefix (bs "escapeQuoted(") (hd [] (snd c)) then 0%N else 1%N)
      else if bytes_eqb r (bs "%s") || bytes_eqb r (bs "%08x") then Some (k, 2%N)
      else None
  | None => None
  end.
Definition fval_kind (v : fval) : N := match v with Quoted _ => 0%N | QuotedRaw _ => 1%N | Bare _ => 2%N end.

Definition sep3 (a b c : bytes) : bytes := a ++ colon_d :: b ++ colon_d :: c.
Definition sep2 (a b : bytes) : bytes := a ++ colon_d :: b.

Section WithHash.
  (* hex digest of [data] under hash function [f]: crypto/md5, sha256, sha512 (stdlib) *)
  Variable H : hashfn -> bytes -> bytes.

  (* credentials.h: hashFuncs[c.algorithm]() ... %x *)
  Definition h (alg data : bytes) : bytes :=
    match lookup_alg alg with
    | Some f => H f data
    | None => []     (* unreachable: authorize checks the table first *)
    end.

  (* the list of auth-params authorize() appends, in order, given the computed values *)
  Definition build_fields (userhash : bool) (username realm nonce uri response : bytes)
             (alg : option bytes) (opaque qop nc cnonce : bytes) : list field :=
    (if userhash then [(bs "userhash", Bare (bs "true"))] else []) ++
    [(bs "username", Quoted username); (bs "realm", Quoted realm); (bs "nonce", Quoted nonce);
     (bs "uri", Quoted uri); (bs "response", QuotedRaw response)] ++
    (match alg with None => [] | Some a => [(bs "algorithm", Bare a)] end) ++
    (match opaque with [] => [] | _ => [(bs "opaque", Quoted opaque)] end) ++
    (match qop with
     | [] => []
     | _ => [(bs "qop", Bare qop); (bs "nc", Bare nc); (bs "cnonce", QuotedRaw cnonce)]
     end).

  (* newCredentials + authorize (+ resp, ha1, ha2, kd).  [cnonce] is the 32 hex digits drawn
     from crypto/rand (an input of the model; observed by the harness).  [emit_empty_alg]:
     the pinned code writes "algorithm=" even when the challenge named no algorithm. *)
  Definition authorize_with (vq : bytes -> bytes + derr) (emit_empty_alg : bool)
             (c : challenge) (uri method user pass cnonce : bytes) : list field + derr :=
    let alg := c_algorithm c in
    match lookup_alg alg with
    | None => inr EAlgNotSupported
    | Some _ =>
        match vq (c_qop c) with
        | inr e => inr e
        | inl qop =>
            let sess := has_suffix (bs "-sess") alg in
            let nc := hex8 1 in                                      (* c.nc++ from 0 *)
            let env0 := [(bs "c.username", FS user); (bs "c.realm", FS (c_realm c)); (bs "c.password", FS pass);
                         (bs "c.nonce", FS (c_nonce c)); (bs "c.cNonce", FS cnonce); (bs "c.nc", FN 1);
                         (bs "c.messageQop", FS qop); (bs "c.method", FS method); (bs "c.digestURI", FS uri)] in
            let ha1_0 := h alg (hash_input (bs "ha1#0") env0) in
            let ha1 := if sess then h alg (hash_input (bs "ha1#1") ((bs "ret", FS ha1_0) :: env0)) else ha1_0 in
            let ha2 := h alg (hash_input (bs "ha2#0") env0) in
            let env1 := (bs "ha1", FS ha1) :: (bs "ha2", FS ha2) :: env0 in
            let response :=
              match qop with
              | [] => h alg (hash_input (bs "resp#1") env1)
              | _ => h alg (hash_input (bs "kd#0")
                              [(bs "secret", FS ha1); (bs "data", FS (hash_input (bs "resp#2") env1))])
              end in
            let uh := bytes_eqb (c_userhash c) (bs "true") in
            let username := if uh then h alg (hash_input (bs "authorize#0") env0) else user in
            let algf := match alg with
                        | [] => if emit_empty_alg then Some [] else None
                        | _ => Some alg
                        end in
            inl (build_fields uh username (c_realm c) (c_nonce c) uri response algf (c_opaque c) qop nc cnonce)
        end
    end.

  Definition authorize := authorize_with validate_qop false.
  Definition authorize_pinned := authorize_with validate_qop_pinned true.

  (* the WWW-Authenticate line createDigestAuth works on: the first line that is a Digest
     challenge, otherwise the first line (Header.Get), [] when there is none *)
  Definition is_digest_line (l : bytes) : bool := has_prefix (bs "Digest ") (trim is_chal_ws l).
  Definition select_challenge (lines : list bytes) : bytes :=
    match find is_digest_line lines with
    | Some l => l
    | None => hd [] lines
    end.
  (* pinned code: resp.Header.Get - the first line whatever its scheme *)
  Definition select_challenge_pinned (lines : list bytes) : bytes := hd [] lines.

  (* createDigestAuth on the selected line: header value or error *)
  Definition create_digest_auth (chal uri method user pass cnonce : bytes) : bytes + derr :=
    match chal with
    | [] => inr EBadChallenge
    | _ => match parse_challenge chal with
           | inr e => inr e
           | inl c => match authorize c uri method user pass cnonce with
                      | inr e => inr e
                      | inl fs => inl (render_fields fs)
                      end
           end
    end.

  Definition create_digest_auth_pinned (chal uri method user pass cnonce : bytes) : bytes + derr :=
    match chal with
    | [] => inr EBadChallenge
    | _ => match parse_challenge_pinned chal with
           | inr e => inr e
           | inl c => match authorize_pinned c uri method user pass cnonce with
                      | inr e => inr e
                      | inl fs => inl (render_fields fs)
                      end
           end
    end.

  (* ---------- handleDigestAuthFunc ---------- *)

  (* what the origin answered to the first request *)
  Record first_response := mkResp {
    r_err : bool;            (* resp.Err != nil (transport error) *)
    r_status : N;
    r_chal : bytes;          (* first WWW-Authenticate value, [] if none *)
    r_body : bytes }.

  (* a request as the origin sees it (projection).  Content-Type and body of a multipart
     request are canonicalised by the harness: the boundary named in the request's OWN
     Content-Type is replaced by a fixed word in both (the boundary is drawn afresh for the
     re-send; what must not happen is a Content-Type naming another boundary than the body). *)
  Record wire_request := mkWire {
    w_method : bytes; w_uri : bytes; w_auth : option bytes; w_ctype : bytes; w_body : bytes }.

  Inductive mw_result :=
  | Untouched                          (* middleware returns nil, resp unchanged *)
  | MwErr (e : derr)                   (* error returned, nothing sent *)
  | Resent (q : wire_request).         (* exactly one more round trip, resp replaced *)

  (* [replayable]: Request.GetBody re-obtains the same bytes (SetBodyBytes/String, form data,
     marshalled bodies, GetBody functions, multipart from bytes).  A body given as a plain
     io.Reader is not (Request.unReplayableBody: the first attempt has drained it): the
     repaired code returns an error after the header was computed and sends nothing (the
     pinned code sent the request again with an empty body, digest_middleware_pinned). *)
  Definition digest_middleware (replayable : bool) (first : wire_request) (rsp : first_response)
             (user pass cnonce : bytes) : mw_result :=
    if r_err rsp || negb (N.eqb (r_status rsp) 401) then Untouched
    else match create_digest_auth (r_chal rsp) (w_uri first) (w_method first) user pass cnonce with
         | inr e => MwErr e
         | inl auth => if replayable
                       then Resent (mkWire (w_method first) (w_uri first) (Some auth) (w_ctype first) (w_body first))
                       else MwErr EUnreplayable
         end.

  Definition digest_middleware_pinned (replayable : bool) (first : wire_request) (rsp : first_response)
             (user pass cnonce : bytes) : mw_result :=
    if r_err rsp || negb (N.eqb (r_status rsp) 401) then Untouched
    else match create_digest_auth (r_chal rsp) (w_uri first) (w_method first) user pass cnonce with
         | inr e => MwErr e
         | inl auth => Resent (mkWire (w_method first) (w_uri first) (Some auth) (w_ctype first)
                                      (if replayable then w_body first else []))
         end.

  (* all requests one call puts on the wire, whatever the origin answers to the second one
     (the middleware runs once per call: no loop) *)
  Definition digest_exchange (replayable : bool) (first : wire_request) (rsp : first_response)
             (user pass cnonce : bytes) : list wire_request :=
    first :: match digest_middleware replayable first rsp user pass cnonce with
             | Resent q => [q]
             | _ => []
             end.

  (* A connection fault at the re-send: the origin drops the (kept-alive) connection after it has
     read the authenticated request and before answering.  [Some true]: the transport replays
     the request on a new connection (idempotent method or Idempotency-Key; the body is rewound
     through the GetBody the middleware installed on the copy) - the origin sees it twice;
     [Some false]: not replayable, the transport error goes to the caller; [None]: no fault. *)
  Definition digest_exchange_f (fault : option bool) (replayable : bool) (first : wire_request)
             (rsp : first_response) (user pass cnonce : bytes) : list wire_request :=
    first :: match digest_middleware replayable first rsp user pass cnonce with
             | Resent q => match fault with Some true => [q; q] | _ => [q] end
             | _ => []
             end.

  (* One middleware (client-level SetCommonDigestAuth, or a re-used Request) serving a sequence
     of calls: the code keeps NO state between them - every call is answered from its own
     challenge alone.  [x] = (replayable, first request, origin's answer, client nonce). *)
  Definition session_step := (bool * wire_request * first_response * bytes)%type.
  Definition digest_session (user pass : bytes) (xs : list session_step) : list (list wire_request) :=
    map (fun x : session_step =>
           let '(rp, first, rsp, cnonce) := x in digest_exchange rp first rsp user pass cnonce) xs.

  (* Retry attempts of one execution (Request.do's loop): every attempt sends the request without
     credentials, so every attempt is challenged and runs the middleware afresh - the attempts
     are the steps of a session with the same first request ([x] = origin's answer, client nonce). *)
  Definition retry_attempts (user pass : bytes) (first : wire_request) (xs : list (first_response * bytes))
    : list (list wire_request) :=
    digest_session user pass (map (fun x : first_response * bytes => (true, first, fst x, snd x)) xs).

  (* Whose transport carries the re-send: the middleware is called with the client of the request
     being executed (Request.do passes r.client) and uses THAT client - not the one it was
     installed on, which differs for a middleware inherited through Client.Clone. *)
  Definition resend_route (installed_on calling : nat) : nat := calling.
  Definition resend_route_bound (installed_on calling : nat) : nat := installed_on.   (* a seeded change *)

  (* Per-host connection accounting around the re-send (Transport.MaxConnsPerHost = [limit] > 0).
     [others]: connections of this host busy with other calls; [unread_401]: the challenge
     response's body was not read to its end (auto-read off, download), so it still occupies its
     connection.  The middleware closes that body BEFORE the re-send ([release_first]); a read
     or closed body leaves a free slot (an idle connection or room to dial). *)
  Definition resend_gets_connection (limit others : nat) (unread_401 release_first : bool) : bool :=
    Nat.ltb (others + (if unread_401 && negb release_first then 1 else 0)) limit.

  (* ---------- RFC 7616, transcribed independently of the code above ---------- *)

  (* section 6.1 registry + section 3.3: name -> (hash function, session variant);
     a missing algorithm parameter means MD5 *)
  Definition rfc_registry (alg : bytes) : option (hashfn * bool) :=
    if bytes_eqb alg (bs "") then Some (HMd5, false)
    else if bytes_eqb alg (bs "MD5") then Some (HMd5, false)
    else if bytes_eqb alg (bs "MD5-sess") then Some (HMd5, true)
    else if bytes_eqb alg (bs "SHA-256") then Some (HSha256, false)
    else if bytes_eqb alg (bs "SHA-256-sess") then Some (HSha256, true)
    else if bytes_eqb alg (bs "SHA-512-256") then Some (HSha512_256, false)
    else if bytes_eqb alg (bs "SHA-512-256-sess") then Some (HSha512_256, true)
    else None.

  (* qop-options = 1#qop-value: does the (unquoted) list offer "auth"? *)
  Definition qop_offers_auth (q : bytes) : bool :=
    existsb (fun x => bytes_eqb (trim_space x) (bs "auth")) (split_byte comma q).

  (* 3.4.1 / 3.4.2 / 3.4.3 for qop = auth or absent (RFC 2069 compatibility form) *)
  Definition rfc7616_response (f : hashfn) (sess : bool) (qop_present : bool)
             (user realm pass nonce cnonce method uri : bytes) : bytes :=
    let HH := H f in
    let KD secret data := HH (secret ++ bs ":" ++ data) in
    let A1 :=
      if sess
      then HH (user ++ bs ":" ++ realm ++ bs ":" ++ pass) ++ bs ":" ++ nonce ++ bs ":" ++ cnonce
      else user ++ bs ":" ++ realm ++ bs ":" ++ pass in
    let A2 := method ++ bs ":" ++ uri in
    if qop_present
    then KD (HH A1) (nonce ++ bs ":" ++ bs "00000001" ++ bs ":" ++ cnonce ++ bs ":" ++ bs "auth" ++ bs ":" ++ HH A2)
    else KD (HH A1) (nonce ++ bs ":" ++ HH A2).

  (* 3.4: the parameters of the Authorization header field, by name *)
  Definition rfc7616_field (c : challenge) (uri method user pass cnonce : bytes) (k : bytes) : option fval :=
    match rfc_registry (c_algorithm c) with
    | None => None
    | Some (f, sess) =>
        let qop_present := negb (bytes_eqb (c_qop c) []) in
        let uh := bytes_eqb (c_userhash c) (bs "true") in
        if bytes_eqb k (bs "username") then
          Some (Quoted (if uh then H f (user ++ bs ":" ++ c_realm c) else user))   (* 3.4.4 *)
        else if bytes_eqb k (bs "userhash") then (if uh then Some (Bare (bs "true")) else None)
        else if bytes_eqb k (bs "realm") then Some (Quoted (c_realm c))
        else if bytes_eqb k (bs "nonce") then Some (Quoted (c_nonce c))
        else if bytes_eqb k (bs "uri") then Some (Quoted uri)
        else if bytes_eqb k (bs "response") then
          Some (Quoted (rfc7616_response f sess qop_present user (c_realm c) pass (c_nonce c) cnonce method uri))
        else if bytes_eqb k (bs "algorithm") then
          (if bytes_eqb (c_algorithm c) [] then None else Some (Bare (c_algorithm c)))
        else if bytes_eqb k (bs "opaque") then
          (if bytes_eqb (c_opaque c) [] then None else Some (Quoted (c_opaque c)))
        else if bytes_eqb k (bs "qop") then (if qop_present then Some (Bare (bs "auth")) else None)
        else if bytes_eqb k (bs "nc") then (if qop_present then Some (Bare (bs "00000001")) else None)
        else if bytes_eqb k (bs "cnonce") then (if qop_present then Some (Quoted cnonce) else None)
        else None
    end.

  (* a challenge this client is required to answer *)
  Definition supported (c : challenge) : bool :=
    match rfc_registry (c_algorithm c) with
    | Some _ => bytes_eqb (c_qop c) [] || qop_offers_auth (c_qop c)
    | None => false
    end.

  (* ---------- an RFC 7616 verifier (server side), from the RFC text ---------- *)

  (* the parameters of the Authorization header field, section 3.4 *)
  Definition rfc_auth_params : list bytes :=
    [bs "username"; bs "userhash"; bs "realm"; bs "nonce"; bs "uri"; bs "response"; bs "algorithm";
     bs "opaque"; bs "qop"; bs "nc"; bs "cnonce"].

  Definition opt_fval_eqb (a b : option fval) : bool :=
    match a, b with
    | Some x, Some y => fval_eqb x y
    | None, None => true
    | _, _ => false
    end.

  (* The server holds the challenge [c] it sent and (user, pass); it parses the header by
     RFC 7235 (Model/AuthParam.v parse_credentials: quoted-pairs resolved, names
     case-insensitive, duplicates rejected), takes the client nonce from it ([hint] stands in
     when the header carries none: qop absent) and accepts iff every parameter of section 3.4
     is present or absent as prescribed with exactly the prescribed value - quoted where the
     RFC says quoted-string, a token where it says token - and nothing else was sent.  This
     is stricter than a conformant server needs to be. *)
  Definition rfc7616_accepts (c : challenge) (uri method user pass hint hdr : bytes) : bool :=
    match parse_credentials hdr with
    | None => false
    | Some (scheme, ps) =>
        let cnonce := match assoc_bytes (bs "cnonce") ps with
                      | Some (Quoted x) => x
                      | _ => hint
                      end in
        bytes_eqb (to_lower scheme) (bs "digest") &&
        forallb (fun k => opt_fval_eqb (assoc_bytes k ps)
                                       (rfc7616_field c uri method user pass cnonce k)) rfc_auth_params &&
        forallb (fun f => existsb (bytes_eqb (fst f)) rfc_auth_params) ps
    end.
End WithHash.

(* ---------- a challenge as a server writes it (RFC 7235 2.1 / RFC 7616 3.3) ---------- *)

(* parameter value already unquoted: what the switch of parseChallenge stores *)
Definition set_value : challenge -> bytes -> bytes -> challenge + derr := set_param_with (fun v => v).

(* the meaning of a parameter list: the parameters applied in order, a repeated name overrides *)
Fixpoint apply_fields (c : challenge) (fs : list (bytes * bytes)) : challenge + derr :=
  match fs with
  | [] => inl c
  | (k, v) :: r => match set_value c k v with
                   | inl c' => apply_fields c' r
                   | inr e => inr e
                   end
  end.

Definition fval_bytes (v : fval) : bytes := match v with Quoted x | QuotedRaw x | Bare x => x end.

(* one list element: white space, name=value (quoted-string with quoted-pairs, or token), white space *)
Definition padded := (bytes * field * bytes)%type.
Definition render_piece (x : padded) : bytes := fst (fst x) ++ render_field (snd (fst x)) ++ snd x.
Definition padded_sem (x : padded) : bytes * bytes := (fst (snd (fst x)), fval_bytes (snd (snd (fst x)))).

(* a well-formed challenge parameter: token name; value a token, or any bytes as a quoted-string *)
Definition cfield_ok (f : field) : bool :=
  tokenb (fst f) &&
  match snd f with
  | Quoted _ => true
  | QuotedRaw v => negb (mem_byte dquote v) && negb (mem_byte bslash v)
  | Bare v => tokenb v
  end.

Definition piece_ok (x : padded) : bool :=
  forallb is_space (fst (fst x)) && forallb is_space (snd x) && cfield_ok (snd (fst x)).

(* [pre], [mid], [post]: white space before the scheme, between "Digest " and the first parameter,
   and at the end of the field value *)
Definition render_challenge (pre mid post : bytes) (xs : list padded) : bytes :=
  pre ++ bs "Digest " ++ mid ++ join_with [comma] (map render_piece xs) ++ post.

(* no white space before the first and after the last parameter (it belongs to mid / post) *)
Definition is_nil (s : bytes) : bool := match s with [] => true | _ => false end.
Definition ends_tightb (xs : list padded) : bool :=
  match xs with [] => false | x :: _ => is_nil (fst (fst x)) end &&
  match rev xs with [] => false | y :: _ => is_nil (snd y) end.

(* the parameter names of a challenge, RFC 7616 section 3.3 *)
Definition rfc_challenge_params : list bytes :=
  [bs "realm"; bs "domain"; bs "nonce"; bs "opaque"; bs "stale"; bs "algorithm"; bs "qop";
   bs "charset"; bs "userhash"].

Definition known_key (k : bytes) : bool :=
  match set_param empty_chal k (bs "UTF-8") with inl _ => true | inr _ => false end.
