(* Model/H3Control.v - "only a single control stream is allowed": the guard in
   internal/http3/conn.go HandleUnidirectionalStreams as a state machine over the events of several
   unidirectional streams, each served by its own goroutine (C07).

   Go code modelled, per stream of type 0x00:
       if isFirst := rcvdControlStr.CompareAndSwap(false, true); !isFirst {
           conn.CloseWithError(H3_STREAM_CREATION_ERROR, "duplicate control stream"); return }
       f := ParseNext(); ... SETTINGS ...; close(c.receivedSettings)
   Events: the stream's type byte has been read (the guard runs), its SETTINGS frame has been parsed
   (close(c.receivedSettings) runs).  Events of different streams interleave in any order; a
   stream's own events keep their order.  [atomic] = true is the code (test-and-set at the guard);
   false is the check-then-act variant (Load at the guard, Store after the SETTINGS frame), kept
   for the refutation.  Closing a closed channel is the Go runtime's panic.  No proofs here. *)
From ReqV Require Export Lib.Bytes.

Inductive cev := CType (i : nat) | CSettings (i : nat).

Record cstate := {
  c_flag : bool;            (* rcvdControlStr *)
  c_passed : list nat;      (* streams that passed the guard and have not parsed their SETTINGS yet *)
  c_closes : nat;           (* how often close(c.receivedSettings) ran *)
  c_dup : bool              (* the connection was closed with "duplicate control stream" *)
}.

Definition cstate0 : cstate := {| c_flag := false; c_passed := []; c_closes := 0; c_dup := false |}.

Fixpoint mem_nat (x : nat) (l : list nat) : bool :=
  match l with [] => false | y :: r => Nat.eqb x y || mem_nat x r end.
Fixpoint remove_nat (x : nat) (l : list nat) : list nat :=
  match l with [] => [] | y :: r => if Nat.eqb x y then r else y :: remove_nat x r end.

Definition cstep (atomic : bool) (s : cstate) (ev : cev) : cstate :=
  match ev with
  | CType i =>
      if c_flag s then {| c_flag := true; c_passed := c_passed s; c_closes := c_closes s; c_dup := true |}
      else {| c_flag := atomic; c_passed := i :: c_passed s; c_closes := c_closes s; c_dup := c_dup s |}
  | CSettings i =>
      if mem_nat i (c_passed s)
      then {| c_flag := true; c_passed := remove_nat i (c_passed s); c_closes := S (c_closes s); c_dup := c_dup s |}
      else s       (* a stream that was turned away at the guard, or an event out of order: nothing runs *)
  end.

Definition crun (atomic : bool) (evs : list cev) : cstate := fold_left (cstep atomic) evs cstate0.
