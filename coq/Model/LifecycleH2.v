(* Model/LifecycleH2.v - one HTTP/2 request: ClientConn.roundTrip's select loop, waitDone,
   cancelRequest, abortStream, and the doRequest goroutine (writeRequest's four blocking
   points + cleanupWriteRequest) of internal/http2/transport.go.  NO proofs here.
   Labels: Y* = environment (connection, peer frames, the caller's use of the body, the
   context), J* = which ready case the caller's select takes, K* = the same for doRequest.
   cleanupWriteRequest runs atomically with the return of writeRequest. *)
From Coq Require Import List Bool Arith.
From ReqV Require Import Model.Lifecycle.
Import ListNotations.

Inductive cst2 := CSel | CWaitDone | CAbortWait (e : err) | CRet (r : callres).
Inductive dst2 := DAcquire | DHdr | DExpect | DBody | DWait | DExit.
Inductive rstk := RstCancel | RstNoError.

Record h2 := mkH2 {
  c2 : cst2;              (* the caller of RoundTrip *)
  d2 : dst2;              (* the doRequest goroutine *)
  ctx2 : option cause;    (* req.Context() ended *)
  abort2 : option err;    (* cs.abort closed, cs.abortErr *)
  sent_hdr : bool;        (* cs.sentHeaders *)
  sent_end : bool;        (* cs.sentEndStream *)
  resp2 : option bool;    (* cs.respHeaderRecv closed; Some b: the response has a body *)
  peer_end : bool;        (* cs.peerClosed *)
  rst2 : option rstk;     (* RST_STREAM written by us *)
  bclosed2 : bool;        (* request body closed *)
  donec2 : bool;          (* cs.donec closed *)
  pipe2 : bodyres;        (* the response body as the caller sees it *)
  failed2 : bool;         (* history: the peer reset the stream *)
  rstall : bool           (* the request body's Read is blocked in the caller's reader and Close does not wake
                             it (a plain io.Reader behind io.NopCloser): doRequest cannot react to an abort *)
}.

Inductive label2 :=
| YAcquired | YHdrWritten | YHdrExpect | Y100 | YReadStall | YReadResume | YBodyWritten | YResp (b : bool) | YData | YEnd | YReadEOF | YPeerRst
| YCancel (c : cause)
| JResp | JAbort | JCtx | JDone | JDoneCtx
| KCtx | KAbort | KPeerEnd | KPipe | KCtxAbort.

(* has_body: the request has a body (actualContentLength != 0) *)
Definition init2 : h2 := mkH2 CSel DAcquire None None false false None false None false false BNone false false.

Definition upd_c (s : h2) (c : cst2) : h2 :=
  mkH2 c (d2 s) (ctx2 s) (abort2 s) (sent_hdr s) (sent_end s) (resp2 s) (peer_end s) (rst2 s) (bclosed2 s) (donec2 s) (pipe2 s) (failed2 s) (rstall s).
Definition upd_d (s : h2) (d : dst2) (sh se : bool) : h2 :=
  mkH2 (c2 s) d (ctx2 s) (abort2 s) sh se (resp2 s) (peer_end s) (rst2 s) (bclosed2 s) (donec2 s) (pipe2 s) (failed2 s) (rstall s).
Definition upd_pipe (s : h2) (p : bodyres) : h2 :=
  mkH2 (c2 s) (d2 s) (ctx2 s) (abort2 s) (sent_hdr s) (sent_end s) (resp2 s) (peer_end s) (rst2 s) (bclosed2 s) (donec2 s) p (failed2 s) (rstall s).

(* abortStreamLocked: the first abort wins; the request body is closed (by a goroutine we wait for) *)
Definition abort_stream (has_body : bool) (e : err) (s : h2) : h2 :=
  mkH2 (c2 s) (d2 s) (ctx2 s) (match abort2 s with None => Some e | a => a end) (sent_hdr s) (sent_end s)
       (resp2 s) (peer_end s) (rst2 s) (bclosed2 s || has_body) (donec2 s) (pipe2 s) (failed2 s) (rstall s).

(* cleanupWriteRequest(err).  Its last act, bufPipe.CloseWithError, is a step of its own (KPipe):
   the connection's read loop may still deliver END_STREAM (closing the pipe with io.EOF) between
   the RST_STREAM and it *)
Definition cleanup (has_body : bool) (fromPeer : bool) (e : option err) (s : h2) : h2 :=
  let e := match e with Some x => if sent_end s && peer_end s then None else Some x | None => None end in
  match e with
  | Some x =>
      let s1 := abort_stream has_body x s in
      mkH2 (c2 s1) DExit (ctx2 s1) (abort2 s1) (sent_hdr s1) (sent_end s1) (resp2 s1) (peer_end s1)
           (if sent_hdr s1 && negb fromPeer then Some RstCancel else rst2 s1)
           (bclosed2 s1 || has_body) true (pipe2 s1) (failed2 s1) (rstall s1)
  | None =>
      mkH2 (c2 s) DExit (ctx2 s) (abort2 s) (sent_hdr s) (sent_end s) (resp2 s) (peer_end s)
           (if sent_hdr s && negb (sent_end s) then Some RstNoError else rst2 s)
           (bclosed2 s || has_body) true (pipe2 s) (failed2 s) (rstall s)
  end.

(* handleResponseHeaders *)
Definition handle_hdrs (has_body : bool) (b : bool) (s : h2) : h2 :=
  if negb b && negb has_body then upd_c s CWaitDone
  else upd_pipe (upd_c s (CRet (CResp b))) (if b then BOpen else BNone).

Definition step2 (has_body : bool) (s : h2) (l : label2) : option h2 :=
  match l with
  | YAcquired => match d2 s with DAcquire => Some (upd_d s DHdr false false) | _ => None end
  | YHdrWritten =>
      match d2 s, ctx2 s, abort2 s with
      | DHdr, None, None => Some (if has_body then upd_d s DBody true false else upd_d s DWait true true)
      | _, _, _ => None
      end
  | YHdrExpect =>      (* HEADERS with Expect: 100-continue written: wait for 100 / the timer / abort / ctx *)
      match d2 s, ctx2 s, abort2 s with
      | DHdr, None, None => if has_body then Some (upd_d s DExpect true false) else None
      | _, _, _ => None
      end
  | Y100 =>            (* 100 Continue (or the ExpectContinueTimeout) : the body is sent *)
      match d2 s, abort2 s with DExpect, None => Some (upd_d s DBody true false) | _, _ => None end
  | YReadStall =>
      match d2 s, rstall s with
      | DBody, false => Some (mkH2 (c2 s) (d2 s) (ctx2 s) (abort2 s) (sent_hdr s) (sent_end s) (resp2 s) (peer_end s)
                                   (rst2 s) (bclosed2 s) (donec2 s) (pipe2 s) (failed2 s) true)
      | _, _ => None
      end
  | YReadResume =>
      if rstall s then Some (mkH2 (c2 s) (d2 s) (ctx2 s) (abort2 s) (sent_hdr s) (sent_end s) (resp2 s) (peer_end s)
                                  (rst2 s) (bclosed2 s) (donec2 s) (pipe2 s) (failed2 s) false)
      else None
  | YBodyWritten =>
      match d2 s, abort2 s, rstall s with DBody, None, false => Some (upd_d s DWait true true) | _, _, _ => None end
  | YResp b =>
      match resp2 s, sent_hdr s, donec2 s with
      | None, true, false =>
          (* END_STREAM on the HEADERS frame is a step of its own (YEnd): the read loop closes
             respHeaderRecv first and peerClosed afterwards *)
          Some (mkH2 (c2 s) (d2 s) (ctx2 s) (abort2 s) (sent_hdr s) (sent_end s) (Some b) (peer_end s)
                     (rst2 s) (bclosed2 s) (donec2 s) (pipe2 s) (failed2 s) (rstall s))
      | _, _, _ => None
      end
  | YData => match pipe2 s, peer_end s with BOpen, false => Some s | _, _ => None end
  | YEnd =>
      match resp2 s, peer_end s, pipe2 s with
      | Some _, false, (BOpen | BNone) =>
          Some (mkH2 (c2 s) (d2 s) (ctx2 s) (abort2 s) (sent_hdr s) (sent_end s) (resp2 s) true
                     (rst2 s) (bclosed2 s) (donec2 s) (pipe2 s) (failed2 s) (rstall s))
      | _, _, _ => None
      end
  | YReadEOF => match pipe2 s, peer_end s with BOpen, true => Some (upd_pipe s BEOF) | _, _ => None end
  | YPeerRst =>
      if sent_hdr s && negb (donec2 s) && negb (peer_end s) then
        let s1 := abort_stream has_body EPeer s in
        Some (mkH2 (c2 s1) (d2 s1) (ctx2 s1) (abort2 s1) (sent_hdr s1) (sent_end s1) (resp2 s1) (peer_end s1)
                   (rst2 s1) (bclosed2 s1) (donec2 s1) (match pipe2 s1 with BOpen => BErr EPeer | p => p end) true (rstall s1))
      else None
  | YCancel c =>
      Some (match ctx2 s with
            | None => mkH2 (c2 s) (d2 s) (Some c) (abort2 s) (sent_hdr s) (sent_end s) (resp2 s) (peer_end s)
                           (rst2 s) (bclosed2 s) (donec2 s) (pipe2 s) (failed2 s) (rstall s)
            | _ => s end)
  (* ---- ClientConn.roundTrip ---- *)
  | JResp =>
      match c2 s, resp2 s with CSel, Some b => Some (handle_hdrs has_body b s) | _, _ => None end
  | JAbort =>
      match c2 s, abort2 s with
      | CSel, Some e =>
          match resp2 s with
          | Some b => Some (handle_hdrs has_body b s)     (* respHeaderRecv is preferred *)
          | None => Some (upd_c s (CAbortWait e))          (* waitDone(); return cs.abortErr *)
          end
      | _, _ => None
      end
  | JCtx =>
      match c2 s, ctx2 s with
      | CSel, Some c => Some (upd_c (abort_stream has_body (ECause c) s) (CRet (CErr (ECause c))))
      | _, _ => None
      end
  | JDone =>
      match c2 s, donec2 s with
      | CWaitDone, true => Some (upd_c s (CRet (CResp false)))
      | CAbortWait e, true => Some (upd_c s (CRet (CErr e)))
      | _, _ => None
      end
  | JDoneCtx =>
      match c2 s, ctx2 s with
      | CWaitDone, Some c => Some (upd_c s (CRet (CErr (ECause c))))
      | CAbortWait e, Some _ => Some (upd_c s (CRet (CErr e)))
      | _, _ => None
      end
  (* ---- doRequest ---- *)
  | KCtx =>
      match ctx2 s with
      | Some c =>
          match d2 s with
          | DAcquire | DHdr | DExpect | DWait => Some (cleanup has_body false (Some (ECause c)) s)
          | DBody =>
              (* writeRequestBody is woken by an abort only (KCtxAbort); once the stream is aborted the body
                 is closed, the write loop ends with errStopReqBodyWrite and writeRequest's final select
                 may take ctx.Done as well as cs.abort *)
              match abort2 s, rstall s with
              | Some _, false => Some (cleanup has_body false (Some (ECause c)) s)
              | _, _ => None
              end
          | _ => None
          end
      | None => None
      end
  | KAbort =>
      match abort2 s with
      | Some e =>
          match d2 s with
          (* DAcquire: awaitOpenSlotForStream is woken by abortStream's broadcast *)
          | DBody => if rstall s then None      (* blocked inside Request.Body.Read *)
                     else Some (cleanup has_body (failed2 s) (Some e) s)
          | DAcquire | DHdr | DExpect | DWait => Some (cleanup has_body (failed2 s) (Some e) s)
          | _ => None
          end
      | None => None
      end
  | KPeerEnd =>
      match d2 s, peer_end s with DWait, true => Some (cleanup has_body false None s) | _, _ => None end
  | KCtxAbort =>
      (* context.AfterFunc around writeRequestBody: the end of the context aborts the stream, which
         wakes the wait for flow-control credit *)
      match d2 s, ctx2 s, abort2 s with
      | DBody, Some c, None => Some (abort_stream has_body (ECause c) s)
      | _, _, _ => None
      end
  | KPipe =>
      match d2 s, pipe2 s, abort2 s, peer_end s with
      | DExit, BOpen, Some e, false => Some (upd_pipe s (BErr e))
      | _, _, _, _ => None
      end
  end.

Definition internals2 : list label2 := [JResp; JAbort; JCtx; JDone; JDoneCtx; KCtx; KAbort; KPeerEnd; KPipe; KCtxAbort].

Fixpoint run2 (hb : bool) (s : h2) (ls : list label2) : option h2 :=
  match ls with
  | [] => Some s
  | l :: r => match step2 hb s l with Some s' => run2 hb s' r | None => None end
  end.

Fixpoint quiesce2 (fuel : nat) (hb : bool) (s : h2) : option (list h2) :=
  match fuel with
  | 0 => None
  | S f =>
      match flat_map (fun l => match step2 hb s l with Some s' => [s'] | None => [] end) internals2 with
      | [] => Some [s]
      | nx => fold_right (fun s' acc => match quiesce2 f hb s', acc with
                                        | Some a, Some b => Some (a ++ b)
                                        | _, _ => None
                                        end) (Some []) nx
      end
  end.
