(* Model/BackoffLife.v - the HTTP/2 transport's own re-send loop (internal/http2 Transport.RoundTripOpt)
   as far as the request's context is concerned (C08).  NO proofs here.

     for retry := 0; ; retry++ {
       cc := GetClientConn ... ; res, err := cc.RoundTrip(req)
       if err != nil && retry <= 6 {
         if shouldRetryRequest(req, err) ok {          (REFUSED_STREAM, GOAWAY, unusable conn)
           if retry == 0 { continue }                   (the first re-send at once)
           select { case <-timer(2^(retry-1) s +10%): continue
                    case <-req.Context().Done(): err = ctx.Err() }
         }
       }
       if err != nil { return err } ; return res
     }
   [intr] = false: the seeded variant that tests ctx.Err() once and then waits on the timer alone. *)
From Coq Require Import List Bool Arith.
From ReqV Require Import Model.Lifecycle.
Import ListNotations.

Inductive bphase := PbAttempt | PbBackoff | PbRet (e : option err).

Record bst := mkB {
  b_phase : bphase;
  b_retry : nat;          (* the loop variable *)
  b_net : nat;            (* round trips started while the context was live *)
  b_ctx : option cause
}.

Inductive blabel :=
| TRefused        (* the round trip ended with a retryable error *)
| TOk             (* ... with a response *)
| TCtxErr         (* ... with the context's error (not retryable) *)
| TTimer          (* the back-off select takes the timer *)
| TCtxWake        (* the back-off select takes ctx.Done *)
| TCancel (c : cause).

Definition binit : bst := mkB PbAttempt 0 1 None.

Definition next_attempt (s : bst) : bst :=
  mkB PbAttempt (S (b_retry s)) (match b_ctx s with None => S (b_net s) | _ => b_net s end) (b_ctx s).

Definition bstep (intr : bool) (s : bst) (l : blabel) : option bst :=
  match l, b_phase s with
  | TCancel c, _ => Some (match b_ctx s with None => mkB (b_phase s) (b_retry s) (b_net s) (Some c) | _ => s end)
  | TOk, PbAttempt => Some (mkB (PbRet None) (b_retry s) (b_net s) (b_ctx s))
  | TCtxErr, PbAttempt =>
      match b_ctx s with
      | Some c => Some (mkB (PbRet (Some (ECause c))) (b_retry s) (b_net s) (b_ctx s))
      | None => None
      end
  | TRefused, PbAttempt =>
      if b_retry s <=? 6 then
        if b_retry s =? 0 then Some (next_attempt s)
        else
          (* the seeded variant looks at the context once, before the sleep *)
          match intr, b_ctx s with
          | false, Some c => Some (mkB (PbRet (Some (ECause c))) (b_retry s) (b_net s) (b_ctx s))
          | _, _ => Some (mkB PbBackoff (b_retry s) (b_net s) (b_ctx s))
          end
      else Some (mkB (PbRet (Some EOther)) (b_retry s) (b_net s) (b_ctx s))
  | TTimer, PbBackoff => Some (next_attempt s)
  | TCtxWake, PbBackoff =>
      if intr then
        match b_ctx s with
        | Some c => Some (mkB (PbRet (Some (ECause c))) (b_retry s) (b_net s) (b_ctx s))
        | None => None
        end
      else None
  | _, _ => None
  end.

Fixpoint brun (intr : bool) (s : bst) (ls : list blabel) : option bst :=
  match ls with
  | [] => Some s
  | l :: r => match bstep intr s l with Some s' => brun intr s' r | None => None end
  end.

(* what can still happen by itself once the context has ended *)
Fixpoint bfinish (fuel : nat) (intr : bool) (s : bst) : list bst :=
  match fuel with
  | 0 => []
  | S f =>
      match b_phase s with
      | PbRet _ => [s]
      | _ => flat_map (fun l => match bstep intr s l with
                                | Some s' => bfinish f intr s'
                                | None => []
                                end) [TCtxWake; TTimer; TCtxErr]
      end
  end.
