(* Model/C19Run.v - case type and checker evaluated on harness-generated programs (C19).
   The model (Model/Settings.v: step / exec / probe over the reference heap, Go's append growth,
   the Clone table regenerated from the source) is run on the same API program the harness ran on
   the real library; after every step the description of what each live client emits must equal
   what the recording origin captured. *)
From Coq Require Import List Arith Bool.
From ReqV Require Export Model.Settings Gen.CloneTable.
Import ListNotations.

Record c19_step := Step {
  s_op : op;
  s_exec : option (list (list val));            (* for OExec r: what the origin captured *)
  s_probes : list (nat * list (list val)) }.    (* after the step: (client, captured probe) for every live client
                                                   whose probe differs from its previous one; the others emitted
                                                   exactly what they emitted before *)

Definition c19_case := list c19_step.

Fixpoint leqb (a b : list nat) : bool :=
  match a, b with
  | [], [] => true
  | x :: a', y :: b' => (x =? y) && leqb a' b'
  | _, _ => false
  end.
Fixpoint lleqb (a b : list (list nat)) : bool :=
  match a, b with
  | [], [] => true
  | x :: a', y :: b' => leqb x y && lleqb a' b'
  | _, _ => false
  end.
Definition odesc_eqb (a b : option (list (list nat))) : bool :=
  match a, b with
  | None, None => true
  | Some x, Some y => lleqb x y
  | _, _ => false
  end.

(* obs: the latest captured probe of every live client *)
Fixpoint c19_run (st : state) (obs : list (nat * list (list val))) (l : c19_case) : bool :=
  match l with
  | [] => true
  | s :: t =>
      let st' := step go_grow8 gen_tbl st (s_op s) in
      let obs' := fold_left (fun acc cd => nset (fst cd) (snd cd) acc) (s_probes s) obs in
      (match s_op s with
       | OExec r => odesc_eqb (exec st' r) (s_exec s)
       | _ => true
       end)
      && forallb (fun cd => odesc_eqb (probe st' (fst cd)) (Some (snd cd))) obs'
      && c19_run st' obs' t
  end.

Definition c19_check (c : c19_case) : bool := c19_run init_state [] c.
