(* Model/C19Run.v - case type and checker evaluated on harness-generated programs (C19).
   The model (Model/Settings.v: step / exec / probe over the reference heap, Go's append growth,
   the Clone table regenerated from the source) is run on the same API program the harness ran on
   the real library; after every step the description of what each live client emits must equal
   what the recording origin captured. *)
From Coq Require Import List Arith Bool.
From ReqV Require Export Model.Settings Model.ReExec Model.LiveSel Model.Handshake Model.PoolKey Model.DumpCtx Model.ConnectHdr Gen.CloneTable.
Import ListNotations.

Record c19_step := Step {
  s_op : op;
  s_exec : option (list (list val));            (* for OExec r: what the origin captured *)
  s_probes : list (nat * list (list val)) }.    (* after the step: (client, captured probe) for every live client
                                                   whose probe differs from its previous one; the others emitted
                                                   exactly what they emitted before *)

(* a history of ONE Request object (Model/ReExec.v): request-level setters and executions; an execution
   carries the client's settings of that moment, the request's retry budget, how many attempts the origin
   failed, and what the origin received at every attempt: (headers, cookies, form), maps flattened by key *)
Inductive rx_step :=
| RSet (u : uop)
| RExec (c : cl) (budget fails : nat) (obs : list (list nat * list nat * list nat)).

Inductive c19_case :=
| CProg (l : list c19_step)
| CReexec (l : list rx_step)
| CLive (l : list lstep)
| CHandshake (l : list hsstep)
| CPool (l : list pstep)          (* proxy setting changed after use: HTTP/1.1 pool key *)
| CDump (l : list dstep)
| CConnect (l : list chstep).     (* ProxyConnectHeader and CONNECT credentials across proxy changes and Clone *)         (* request-level dump with inherited contexts *)   (* TLS handshake option: setter order x Clone *)         (* settings changed after use, live TLS origin: protocol selection *)

Fixpoint leqb (a b : list nat) : bool :=
  match a, b with
  | [], [] => true
  | x :: a', y :: b' => (x =? y) && leqb a' b'
  | _, _ => false
  end.
Fixpoint lleqb (a b : list (list nat)) : bool :=
  match a, b with
  | [], [] => true
  | x :: a', y :: b' => leqb x y && lleqb a' b'
  | _, _ => false
  end.
Definition odesc_eqb (a b : option (list (list nat))) : bool :=
  match a, b with
  | None, None => true
  | Some x, Some y => lleqb x y
  | _, _ => false
  end.

(* obs: the latest captured probe of every live client *)
Fixpoint c19_run (st : state) (obs : list (nat * list (list val))) (l : list c19_step) : bool :=
  match l with
  | [] => true
  | s :: t =>
      let st' := step go_grow8 gen_tbl st (s_op s) in
      let obs' := fold_left (fun acc cd => nset (fst cd) (snd cd) acc) (s_probes s) obs in
      (match s_op s with
       | OExec r => odesc_eqb (exec st' r) (s_exec s)
       | _ => true
       end)
      && forallb (fun cd => odesc_eqb (probe st' (fst cd)) (Some (snd cd))) obs'
      && c19_run st' obs' t
  end.

Definition obs_eqb (a b : list nat * list nat * list nat) : bool :=
  leqb (fst (fst a)) (fst (fst b)) && leqb (snd (fst a)) (snd (fst b)) && leqb (snd a) (snd b).
Fixpoint obsl_eqb (a b : list (list nat * list nat * list nat)) : bool :=
  match a, b with
  | [], [] => true
  | x :: a', y :: b' => obs_eqb x y && obsl_eqb a' b'
  | _, _ => false
  end.
Definition flat_sent (s : list (nat * list rval) * list nat * list (nat * list rval)) : list nat * list nat * list nat :=
  (flat_kv (fst (fst s)), snd (fst s), flat_kv (snd s)).

Fixpoint rx_run (r : rq) (l : list rx_step) : bool :=
  match l with
  | [] => true
  | RSet u :: t => rx_run (uapply r u) t
  | RExec c b f obs :: t =>
      let '(r', sents) := rexec gen_prologue c b f r in
      obsl_eqb (map flat_sent sents) obs && rx_run r' t
  end.

Definition c19_check (c : c19_case) : bool :=
  match c with
  | CProg l => c19_run init_state [] l
  | CReexec l => rx_run rq0 l
  | CLive l => live_run gen_guard [] l
  | CHandshake l => hs_run gen_hs [] l
  | CPool l => pool_run gen_key [] l
  | CDump l => dump_run gen_dump [] l
  | CConnect l => ch_run gen_ch [] l
  end.
