(* Model/Charset.v - executable model of the charset auto-decoding of imroc/req (C15).
   Go sources: decode.go (autoDecodeContentTypeFunc, decodeReaderCloser, autoDecodeReadCloser:
   peekRead / peekDrain / Read), transport.go (autoDecodeResponseBody).  No proofs here.

   What is modelled exactly: the decision of Transport.autoDecodeResponseBody (disable flag, the
   still-content-encoded guard, content-type selector, Content-Type charset -> leave /
   whole-body streaming decoder / leave) and the state machine of autoDecodeReadCloser
   (detected, decodeReader, peek) driven by a list of network read chunks and a list of caller
   buffer sizes, AFTER the repair of peekRead (fix: commit, see design.d/C15.md); the pinned
   peekRead is kept as [peek_read_pinned].
   What is abstract (Section variables; an oracle table of the real libraries' answers in
   Model/C15Run.v, hypotheses in Proofs/CharsetProofs.v): the x/text decoders ([dec_all] one-shot on a
   whole input = Decoder.Bytes, [dec_stream] = everything a transform.Reader delivers when fed
   the given read chunks), charsets.FindEncoding ([find_encoding]), mime.ParseMediaType
   ([parse_ct]) and htmlcharset.Lookup / ianaindex.MIME.Encoding ([lookup_charset]).  How many
   bytes a transform.Reader hands out per call is a schedule [takes] (any schedule in the
   theorems, the real reader's in the run). *)
From ReqV Require Export Lib.Bytes.
From ReqV Require Import Gen.TextContentTypes.

Definition is_empty (s : bytes) : bool := match s with [] => true | _ => false end.

(* ---------- decode.go: content-type selection ---------- *)

Inductive selector :=
| SelDefault                 (* t.autoDecodeContentType == nil -> autoDecodeText *)
| SelList (l : list bytes)   (* SetAutoDecodeContentType(l...) *)
| SelAll                     (* SetAutoDecodeAllContentType *)
| SelFn (ans : bool).        (* SetAutoDecodeContentTypeFunc(fn): fn's answer on this Content-Type *)

(* autoDecodeContentTypeFunc: strings.Contains(contentType, ct) for some ct (case-sensitive, on the
   whole header value) *)
Definition contains_any (l : list bytes) (ct : bytes) : bool :=
  existsb (fun f => contains_sub f ct) l.

Definition selected (sel : selector) (ct : bytes) : bool :=
  match sel with
  | SelDefault => contains_any text_content_types ct
  | SelList l => contains_any l ct
  | SelAll => true
  | SelFn a => a
  end.

(* transport.go autoDecodeResponseBody, first two tests (after fix: the guard looks at the RESPONSE
   header Content-Encoding).  [resp_ce] = res.Header.Get("Content-Encoding") when the response reaches
   the charset stage: the decompression branches delete the header when they decode, so a non-empty
   value means the body is still content-encoded (unsupported coding, decompression off) - not text in
   any charset yet, left alone. *)
Definition should_decode (disable : bool) (sel : selector) (resp_ce ct : bytes) : bool :=
  negb disable && is_empty resp_ce && selected sel ct.

(* the PINNED guard tested the RESPONSE header Accept-Encoding (sic) instead: a response may carry one
   (RFC 9110 12.5.3, e.g. a 415) and then a declared charset was not applied, while a still-encoded
   body was transcoded *)
Definition should_decode_pinned (disable : bool) (sel : selector) (resp_ae ct : bytes) : bool :=
  negb disable && is_empty resp_ae && selected sel ct.

(* The decompression stage in front of the charset stage (transport.go readLoop, internal/http2
   handleResponse, internal/http3 ReadResponse): whenever it decodes the body it deletes Content-Encoding
   (all three stacks, both branches: transparent gzip and AutoDecompression - pinned by gosync), otherwise
   the header stays.  [resp_ce] of [should_decode] is this value. *)
Inductive proto := PH1 | PH2 | PH3.
Definition ce_at_charset_stage (p : proto) (decompressed : bool) (ce : bytes) : bytes :=
  if decompressed then [] else ce.

Inductive ct_parse := PErr | PNoCharset | PCharset (v : bytes).

(* result of one Read: nil, io.EOF, or any other error (a network failure in mid-body) *)
Inductive rerr := ENone | EEOF | EFail.
Definition rerr_eqb (a b : rerr) : bool :=
  match a, b with ENone, ENone | EEOF, EEOF | EFail, EFail => true | _, _ => false end.

(* ---------- the response body as the transport hands it over: scripted network reads ---------- *)

(* One element of [n_chunks] = what one Read of the underlying body returns when the buffer is large
   enough (a shorter buffer takes a prefix and leaves the rest); [n_eof_last]: the last chunk comes
   together with io.EOF (as net/http's length-delimited body does) instead of a separate (0, EOF). *)
Record net := { n_chunks : list bytes; n_eof_last : bool; n_fail : bool }.

(* how the body ends: io.EOF, or - [n_fail] - a read error after the listed chunks (connection reset in
   mid-body; the chunks are then what arrived before it) *)
Definition net_end (s : net) : rerr := if n_fail s then EFail else EEOF.

Definition net_read (k : nat) (s : net) : bytes * rerr * net :=
  match n_chunks s with
  | [] => ([], net_end s, s)
  | c :: r =>
      if length c <=? k then
        (c, match r with [] => if n_eof_last s && negb (n_fail s) then EEOF else ENone | _ => ENone end,
         {| n_chunks := r; n_eof_last := n_eof_last s; n_fail := n_fail s |})
      else (firstn k c, ENone, {| n_chunks := skipn k c :: r; n_eof_last := n_eof_last s; n_fail := n_fail s |})
  end.

(* ---------- x/text transform.Reader: decoded bytes still to be delivered + its hand-out schedule ---------- *)

Record sreader := { sr_pending : bytes; sr_takes : list (nat * bool); sr_end : rerr }.

(* hands out at least one and at most k bytes; a schedule entry (t, fl): at most t bytes, the terminal
   error (io.EOF, or the network's) together with the last bytes iff fl *)
Definition take_n (k len t : nat) : nat := Nat.min k (Nat.min len (Nat.max 1 t)).

Definition sr_read (k : nat) (s : sreader) : bytes * rerr * sreader :=
  match sr_pending s with
  | [] => ([], sr_end s, s)
  | _ :: _ =>
      let '(t, fl) := match sr_takes s with [] => (k, false) | x :: _ => x end in
      let n := take_n k (length (sr_pending s)) t in
      let rest := skipn n (sr_pending s) in
      (firstn n (sr_pending s), if fl && is_empty rest then sr_end s else ENone,
       {| sr_pending := rest; sr_takes := tl (sr_takes s); sr_end := sr_end s |})
  end.

(* ---------- decode.go autoDecodeReadCloser: state ---------- *)

Record adrc := {
  a_net : net;                       (* embedded io.ReadCloser *)
  a_detected : bool;
  a_dec : option sreader;            (* decodeReader (nil = None) *)
  a_peek : option bytes;             (* peek (nil = None) *)
  a_takes : list (nat * bool)        (* not Go state: schedule given to the transform.Reader once created *)
}.

Definition drained (n : net) : net := {| n_chunks := []; n_eof_last := n_eof_last n; n_fail := n_fail n |}.


Inductive breader := BRaw (n : net) | BHeader (s : sreader) | BSniff (a : adrc).


Definition fresh_net (chunks : list bytes) (eof_last fail : bool) : net :=
  {| n_chunks := chunks; n_eof_last := eof_last; n_fail := fail |}.

Definition fresh_adrc (chunks : list bytes) (eof_last fail : bool) (takes : list (nat * bool)) : adrc :=
  {| a_net := fresh_net chunks eof_last fail; a_detected := false; a_dec := None; a_peek := None;
     a_takes := takes |}.

Section Machine.
  Variable enc : Type.
  Variable dec_all : enc -> bytes -> bytes.             (* Decoder.Bytes on a complete input *)
  Variable dec_stream : enc -> list bytes -> bytes.     (* transform.Reader over these read chunks, drained *)
  Variable dec_partial : enc -> list bytes -> bytes.    (* ... when the source fails after these chunks: what it
                                                           delivers before surfacing the error (no at-EOF flush) *)
  Variable find_encoding : bytes -> option enc.         (* charsets.FindEncoding (nil for utf-8 / nothing found) *)
  Variable parse_ct : bytes -> ct_parse.                (* mime.ParseMediaType(ct) -> params["charset"] *)
  Variable lookup_charset : bytes -> option enc.        (* htmlcharset.Lookup, then ianaindex.MIME.Encoding *)

  (* ---------- transport.go autoDecodeResponseBody: which reader is installed ---------- *)

  Inductive install := IRaw | IHeader (e : enc) | ISniff.

  Definition is_utf8_label (v : bytes) : bool :=
    existsb (fun l => contains_sub l v) utf8_label_literals.   (* "utf-8", "utf8" (gosync) *)

  Definition charset_from_content_type (ct : bytes) : install :=
    match parse_ct ct with
    | PCharset v =>
        let v' := to_lower v in
        if is_utf8_label v' then IRaw                      (* do not decode utf-8 *)
        else match lookup_charset v' with
             | Some e => IHeader e                          (* decodeReaderCloser over the whole body *)
             | None => IRaw                                 (* unsupported label: left alone, NOT sniffed *)
             end
    | PErr | PNoCharset => ISniff                           (* newAutoDecodeReadCloser *)
    end.

  Definition decide (disable : bool) (sel : selector) (resp_ce ct : bytes) : install :=
    if should_decode disable sel resp_ce ct then charset_from_content_type ct else IRaw.

  (* the response status and a Location header play no part in it: the page that comes with a redirect
     is a body like any other (it reaches the caller whenever the redirect is not followed) *)
  Definition decide_resp (status : N) (location : bytes)
             (disable : bool) (sel : selector) (resp_ce ct : bytes) : install :=
    decide disable sel resp_ce ct.

  Definition decide_pinned (disable : bool) (sel : selector) (resp_ae ct : bytes) : install :=
    if should_decode_pinned disable sel resp_ae ct then charset_from_content_type ct else IRaw.

  (* ---------- decode.go autoDecodeReadCloser ---------- *)

  (* peekRead after the repair: detection on p[:n]; the first chunk and the rest of the body go
     through ONE streaming decoder; what is returned is what that decoder delivers *)
  (* the transform.Reader created over chunks [cs] of a network ending like [n] *)
  Definition mk_sreader (en : enc) (cs : list bytes) (n : net) (takes : list (nat * bool)) : sreader :=
    {| sr_pending := if n_fail n then dec_partial en cs else dec_stream en cs;
       sr_takes := takes; sr_end := net_end n |}.

  Definition peek_read (k : nat) (a : adrc) : bytes * rerr * adrc :=
    let '(b, e, net') := net_read k (a_net a) in
    if is_empty b then
      (b, e, {| a_net := net'; a_detected := a_detected a; a_dec := a_dec a; a_peek := a_peek a; a_takes := a_takes a |})
    else
      match find_encoding b with
      | None =>
          (b, e, {| a_net := net'; a_detected := true; a_dec := a_dec a; a_peek := a_peek a; a_takes := a_takes a |})
      | Some en =>
          let sr := mk_sreader en (b :: n_chunks net') net' (a_takes a) in
          let '(o, e2, sr') := sr_read k sr in
          (o, e2, {| a_net := drained net'; a_detected := true; a_dec := Some sr'; a_peek := a_peek a;
                     a_takes := a_takes a |})
      end.

  (* peekDrain (unchanged by the repair; unreachable after it: peek is never set) *)
  Definition peek_drain (k : nat) (pk : bytes) (a : adrc) : bytes * rerr * adrc :=
    if k <? length pk then
      (firstn k pk, ENone, {| a_net := a_net a; a_detected := a_detected a; a_dec := a_dec a;
                              a_peek := Some (skipn k pk); a_takes := a_takes a |})
    else if length pk =? k then
      (pk, ENone, {| a_net := a_net a; a_detected := a_detected a; a_dec := a_dec a;
                     a_peek := None; a_takes := a_takes a |})
    else
      match a_dec a with
      | Some sr =>
          let '(o, e, sr') := sr_read (k - length pk) sr in
          (pk ++ o, e, {| a_net := a_net a; a_detected := a_detected a; a_dec := Some sr';
                          a_peek := None; a_takes := a_takes a |})
      | None => (pk, ENone, {| a_net := a_net a; a_detected := a_detected a; a_dec := None;
                               a_peek := None; a_takes := a_takes a |})   (* Go: nil dereference *)
      end.

  (* Read once detection has happened *)
  Definition a_read_detected (k : nat) (a : adrc) : bytes * rerr * adrc :=
    match a_peek a with
    | Some pk => peek_drain k pk a
    | None =>
        match a_dec a with
        | Some sr =>
            let '(o, e, sr') := sr_read k sr in
            (o, e, {| a_net := a_net a; a_detected := a_detected a; a_dec := Some sr';
                      a_peek := None; a_takes := a_takes a |})
        | None =>
            let '(o, e, net') := net_read k (a_net a) in     (* can not determine charset, not decode *)
            (o, e, {| a_net := net'; a_detected := a_detected a; a_dec := None; a_peek := None;
                      a_takes := a_takes a |})
        end
    end.

  Definition a_read (k : nat) (a : adrc) : bytes * rerr * adrc :=
    if a_detected a then a_read_detected k a else peek_read k a.

  (* ---------- the body reader installed by autoDecodeResponseBody ---------- *)

  Definition open_body (i : install) (chunks : list bytes) (eof_last fail : bool)
             (takes : list (nat * bool)) : breader :=
    match i with
    | IRaw => BRaw (fresh_net chunks eof_last fail)
    | IHeader e => BHeader (mk_sreader e chunks (fresh_net chunks eof_last fail) takes)
    | ISniff => BSniff (fresh_adrc chunks eof_last fail takes)
    end.

  Definition b_read (k : nat) (b : breader) : bytes * rerr * breader :=
    match b with
    | BRaw n => let '(o, e, n') := net_read k n in (o, e, BRaw n')
    | BHeader s => let '(o, e, s') := sr_read k s in (o, e, BHeader s')
    | BSniff a => let '(o, e, a') := a_read k a in (o, e, BSniff a')
    end.

  (* the caller reads with the given buffer sizes until io.EOF: per-call trace ... *)
  Fixpoint run (sizes : list nat) (b : breader) : list (bytes * rerr * breader) :=
    match sizes with
    | [] => []
    | k :: r =>
        let '(o, e, b') := b_read k b in
        (o, e, b') :: match e with ENone => run r b' | _ => [] end
    end.

  (* ... and the delivered body with the error that ended the reading (io.EOF, a network error; ENone = the
     given calls were used up before either) *)
  Fixpoint read_all (sizes : list nat) (b : breader) : bytes * rerr :=
    match sizes with
    | [] => ([], ENone)
    | k :: r =>
        let '(o, e, b') := b_read k b in
        match e with
        | ENone => let '(o', f) := read_all r b' in (o ++ o', f)
        | _ => (o, e)
        end
    end.

  (* whole pipeline: configuration + response headers + body split + caller sizes -> delivered body *)
  Definition respond (disable : bool) (sel : selector) (resp_ce ct : bytes)
             (chunks : list bytes) (eof_last fail : bool) (takes : list (nat * bool))
             (sizes : list nat) : bytes * rerr :=
    read_all sizes (open_body (decide disable sel resp_ce ct) chunks eof_last fail takes).

  (* the first non-empty read of the sniffing reader (the only bytes detection ever looks at) *)
  Fixpoint first_read (sizes : list nat) (n : net) : option bytes :=
    match sizes with
    | [] => None
    | k :: r =>
        let '(b, e, n') := net_read k n in
        if is_empty b then match e with ENone => first_read r n' | _ => None end
        else Some b
    end.

  (* which encoding the sniffing reader settles on: FindEncoding of the first non-empty read *)
  Definition sniffed (sizes : list nat) (n : net) : option enc :=
    match first_read sizes n with Some b => find_encoding b | None => None end.

  (* the two permitted results *)
  Definition result_of (s : option enc) (body : bytes) : bytes :=
    match s with Some e => dec_all e body | None => body end.

  (* ---------- the PINNED peekRead (before the repair), on caller buffers with content ---------- *)

  (* [p] = the caller's buffer as passed in (length = size, content = whatever it held before) *)
  Definition peek_read_pinned (p : bytes) (a : adrc) : bytes * rerr * adrc :=
    let k := length p in
    let '(b, e, net') := net_read k (a_net a) in
    if is_empty b then
      (b, e, {| a_net := net'; a_detected := a_detected a; a_dec := a_dec a; a_peek := a_peek a; a_takes := a_takes a |})
    else
      let p1 := b ++ skipn (length b) p in                 (* the buffer after the read *)
      match find_encoding p1 with                          (* FindEncoding(p): the WHOLE buffer *)
      | None =>
          (b, e, {| a_net := net'; a_detected := true; a_dec := a_dec a; a_peek := a_peek a; a_takes := a_takes a |})
      | Some en =>
          let sr := mk_sreader en (n_chunks net') net' (a_takes a) in
          let pp := dec_all en b in                        (* dc.Bytes(p[:n]): one-shot, at-EOF semantics *)
          if k <? length pp then
            (firstn k pp, ENone,
             {| a_net := drained net'; a_detected := true; a_dec := Some sr; a_peek := Some (skipn k pp);
                a_takes := a_takes a |})
          else                                             (* copy(p, pp); n = len(p) *)
            (pp ++ skipn (length pp) p1, ENone,
             {| a_net := drained net'; a_detected := true; a_dec := Some sr; a_peek := a_peek a;
                a_takes := a_takes a |})
      end.

  Definition a_read_pinned (p : bytes) (a : adrc) : bytes * rerr * adrc :=
    if a_detected a then a_read_detected (length p) a else peek_read_pinned p a.

  Fixpoint read_all_pinned (bufs : list bytes) (a : adrc) : bytes * rerr :=
    match bufs with
    | [] => ([], ENone)
    | p :: r =>
        let '(o, e, a') := a_read_pinned p a in
        match e with
        | ENone => let '(o', f) := read_all_pinned r a' in (o ++ o', f)
        | _ => (o, e)
        end
    end.

End Machine.

Arguments IRaw {enc}.
Arguments IHeader {enc} e.
Arguments ISniff {enc}.
Arguments charset_from_content_type {enc}.
Arguments decide {enc}.
Arguments decide_pinned {enc}.
Arguments decide_resp {enc}.
Arguments peek_read {enc}.
Arguments a_read {enc}.
Arguments open_body {enc}.
Arguments mk_sreader {enc}.
Arguments b_read {enc}.
Arguments run {enc}.
Arguments read_all {enc}.
Arguments respond {enc}.
Arguments peek_read_pinned {enc}.
Arguments a_read_pinned {enc}.
Arguments read_all_pinned {enc}.
Arguments sniffed {enc}.
Arguments result_of {enc}.
