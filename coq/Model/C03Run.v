(* Model/C03Run.v - case types and checker evaluated on harness-generated cases (C03) *)
From ReqV Require Export Lib.Bytes Lib.PackedBytes Model.BodyFraming Model.StreamBody Model.StreamWire Model.Interim Model.TlsConn Model.RespRead Model.DupLength Model.Download.

(* what the harness saw for one exchange: error from the call, or the call succeeded and
   io.ReadAll(resp.Body) ended with [e] after [dlen] bytes; [prefix_ok]: the Go side
   verified that those bytes are exactly the first [dlen] bytes of the origin's body. *)
Inductive h1_seen :=
| SeenCallErr
| SeenRead (e : rerr) (dlen : N) (prefix_ok : bool).

Definition firstn_N (k : N) (s : bytes) : bytes := fst (fst (take_N k s)).

Definition seen_matches (body : bytes) (o : h1_outcome) (s : h1_seen) : bool :=
  match o, s with
  | CallError, SeenCallErr => true
  | BodyRead r, SeenRead e dlen pok =>
      rerr_eqb (rd_err r) e && (N.of_nat (length (rd_data r)) =? dlen)%N && pok
      && bytes_eqb (rd_data r) (firstn_N dlen body)
  | _, _ => false
  end.

(* gzip on top of the framing: the gzip reader is not modelled; for the one-member stream
   [z] the harness generated, success is expected exactly when the framing ends cleanly
   after all of z, or after none of it (Go treats an empty coded body as an empty body).
   The observation is (succeeded, bytes delivered on success). *)
Definition gz_expect_ok (z : bytes) (r : rd) : bool :=
  is_clean (rd_err r) && (bytes_eqb (rd_data r) z || match rd_data r with [] => true | _ => false end).

Definition gz_matches (z : bytes) (plain_len : N) (o : h1_outcome) (s : option (bool * N)) : bool :=
  match o, s with
  | CallError, None => true
  | BodyRead r, Some (ok, dlen) =>
      Bool.eqb (gz_expect_ok z r) ok &&
      (negb ok || (dlen =? (if bytes_eqb (rd_data r) z then plain_len else 0))%N)
  | _, _ => false
  end.

Inductive h2_seen :=
| H2SeenCallErr
| H2SeenRead (e : h2err) (dlen : N) (prefix_ok : bool).

Inductive h3_seen :=
| H3SeenCallErr
| H3SeenRead (e : h3wres) (dlen : N) (prefix_ok : bool).

(* a DATA frame: minimal-length header (quicvarint.Append) announcing [declared], followed by
   the next [got] payload bytes; or raw bytes *)
Inductive h3seg := SegData (declared got : N) | SegRaw (b : bytes).

Definition opt_bytes (o : option bytes) : bytes := match o with Some b => b | None => [] end.

(* (wire bytes, the same script as StreamBody events, "the script has DATA frames only") *)
Fixpoint h3_render_segs (segs : list h3seg) (sent : bytes) : bytes * list h3ev * bool :=
  match segs with
  | [] => ([], [], true)
  | SegData n g :: r =>
      let '(p, rest, _) := take_N g sent in
      let '(w, evs, ok) := h3_render_segs r rest in
      (opt_bytes (vi_append 0) ++ opt_bytes (vi_append n) ++ p ++ w, H3Data n p :: evs, ok)
  | SegRaw b :: r =>
      let '(w, evs, _) := h3_render_segs r sent in (b ++ w, evs, false)
  end.

Definition h3_term_event (e : h3end) : h3ev :=
  match e with EndFin => H3Fin | EndReset => H3Reset | EndConnClose => H3ConnClose end.

Inductive c03_case :=
(* HTTP/3: declared length, "the stream ended before the response HEADERS frame was
   complete", what the peer wrote behind that frame as segments (DATA frames take their
   payload bytes, in order, from [sent]; anything else is given raw), how the stream ended,
   all DATA payload bytes written, the number of bytes written (cross-check of the
   rendering), what the caller saw, whether the follow-up was served by the same connection *)
| H3Case (blocks : list hblock)      (* interim header blocks, then the final one: (status, declared length) *)
         (no_headers : bool) (segs : list h3seg) (e : h3end)
         (coded : option (coding * N * N))  (* the DATA carries a content-coding the client decodes:
                                         (coding, length of the whole coded stream, length of the plain body) *)
         (sent : bytes) (wire_len : N) (seen : h3_seen) (next_on_same_conn : bool)
(* HTTP/2: declared length, END_STREAM on HEADERS, "connection ended before any response
   HEADERS", the stream's events, all DATA bytes sent, what the caller saw, and whether the
   follow-up request was served by the same connection *)
| H2Case (blocks : list hblock) (hdr_end no_headers : bool) (evs : list h2ev)
         (wire : option (N * bytes))   (* stream id, every byte the peer wrote on the connection
                                          behind the response HEADERS frame *)
         (coded : option (coding * N * N))
         (sent : bytes) (seen : h2_seen) (next_on_same_conn : bool)
| H1GzCuts (hlen : N) (fr : framing) (wire z : bytes) (plain_len : N) (obs : list (N * option (bool * N)))
(* HTTP/3: one whole response stream (the bytes behind the response HEADERS frame, its body)
   cut at the listed offsets: (offset, how the stream ended, what the caller saw, follow-up on
   the same connection) *)
| H3Cuts (blocks : list hblock) (full body : bytes) (obs : list (N * h3end * h3_seen * bool))
(* downloads of one response stream cut at the listed offsets: (offset, does the output's Close
   succeed, did the call succeed, bytes that reached the output) *)
| H1Downloads (hlen : N) (fr : framing) (wire body : bytes) (obs : list (N * bool * bool * N))
(* one complete HTTP/1.1 exchange whose head carries the Content-Length lines [vals] (peer keeps
   the connection open) *)
| H1ClLines (hlen : N) (vals : list N) (wire body : bytes) (seen : h1_seen) (next_on_same_conn : bool)
(* the body read through the Response API repeatedly: whether the first read (auto-read or
   first ToBytes) ended without error, how many bytes it left in the Response, and for each
   later ToBytes/ToString: (nil error?, length returned) *)
| RespReads (first_ok : bool) (first_len : N) (later : list (bool * N))
(* HTTP/1.1 over TLS: the response as the plaintext of its TLS records; per observation: how
   many records arrived whole, whether the TCP stream ended inside the next one, what the
   caller saw *)
| H1TlsCuts (hlen : N) (fr : framing) (recs : list bytes) (body : bytes) (obs : list (N * bool * h1_seen))
(* one response stream cut at the listed offsets (the peer closes after k bytes) *)
| H1Cuts (hlen : N) (fr : framing) (wire body : bytes) (obs : list (N * h1_seen))
(* one complete exchange, possibly with extra bytes after the message, peer keeps the
   connection open: what was read and whether the follow-up request was served by the
   same connection *)
| H1Full (hlen : N) (fr : framing) (cf : conn_flags) (wire body : bytes)
         (seen : h1_seen) (next_on_same_conn : bool).

Definition c03_check (c : c03_case) : bool :=
  match c with
  | H3Case blocks no_headers segs e coded sent wire_len seen same =>
      if no_headers then
        (* a failed round trip also evicts the connection from the round tripper's cache *)
        match seen with H3SeenCallErr => negb same | _ => false end
      else
        let '(wire, evs, evs_ok) := h3_render_segs segs sent in
        match h3_exchange blocks wire e, seen with
        | None, H3SeenCallErr => negb same
        | Some (d, r), H3SeenRead r' dlen pok =>
            (N.of_nat (length wire) =? wire_len)%N
            && Bool.eqb (h3_conn_usable e r) same
            && (if evs_ok then
                  match final_block max_1xx blocks with
                  | Final b => let '(d', e') := h3_read true (accounting_cl b) (evs ++ [h3_term_event e]) in
                               bytes_eqb d' d && h3wres_eqb (W3 e') r
                  | _ => false
                  end
                else true)
            && match coded with
               | None =>
                   h3wres_eqb r r' && (N.of_nat (length d) =? dlen)%N && pok
                   && bytes_eqb d (firstn_N dlen sent)
               | Some (c, zlen, plen) =>
                   match coded_read (dec_by_len c zlen plen) h3w_clean (d, r) with
                   | Some p => h3w_clean r' && (N.of_nat (length p) =? dlen)%N && pok
                   | None => negb (h3w_clean r') || (h3w_clean r && prefix_verdict_unknown c zlen d && pok)
                   end
               end
        | _, _ => false
        end
  | H2Case blocks hdr_end no_headers evs wire coded sent seen same =>
      if no_headers then
        match seen with H2SeenCallErr => negb same | _ => false end
      else
        match h2_exchange blocks hdr_end evs, seen with
        | None, H2SeenCallErr => true     (* too many interim responses: the call fails *)
        | Some (d, e), H2SeenRead e' dlen pok =>
            (* RST_STREAM(PROTOCOL_ERROR) marks the connection do-not-reuse only while the stream
               is still known to the client; when the reader has already aborted the stream on its
               own (more DATA than declared) the peer's reset may or may not still find it - a
               race between the read loop and the caller's Read, not compared *)
            ((h2err_eqb e H2TooMuch && existsb (fun ev => match ev with H2Rst 1 => true | _ => false end) evs)
             || Bool.eqb (if hdr_end then true else h2_conn_usable evs) same)
            && match wire, final_block max_1xx blocks with
               | None, _ => true
               | Some (sid, w), Final b =>
                   (* the same exchange from the bytes on the connection: frames parsed by
                      Model/H2Frame.v read_frames, padding stripped, cut frames dropped *)
                   let '(d', e2) := h2_read (accounting_cl b) hdr_end (h2_wire_events sid 16777215 w) in
                   bytes_eqb d' d && h2err_eqb e2 e
               | _, _ => false
               end
            && match coded with
               | None =>
                   h2err_eqb e e' && (N.of_nat (length d) =? dlen)%N && pok
                   && bytes_eqb d (firstn_N dlen sent)
               | Some (c, zlen, plen) =>
                   match coded_read (dec_by_len c zlen plen) h2_clean (d, e) with
                   | Some p => h2_clean e' && (N.of_nat (length p) =? dlen)%N && pok
                   | None => negb (h2_clean e') || (h2_clean e && prefix_verdict_unknown c zlen d && pok)
                   end
               end
        | _, _ => false
        end
  | H3Cuts blocks full body obs =>
      forallb (fun o =>
        let '(k, e, seen, same) := o in
        match h3_exchange blocks (firstn_N k full) e, seen with
        | Some (d, r), H3SeenRead r' dlen pok =>
            h3wres_eqb r r' && (N.of_nat (length d) =? dlen)%N && pok
            && bytes_eqb d (firstn_N dlen body) && Bool.eqb (h3_conn_usable e r) same
        | _, _ => false
        end) obs
  | H1Downloads hlen fr wire body obs =>
      forallb (fun o =>
        let '(k, close_ok, ok, saved) := o in
        match h1_download hlen fr (firstn_N k wire) (Some (negb close_ok)) with
        | Some d => ok && (N.of_nat (length d) =? saved)%N && bytes_eqb d (firstn_N saved body)
        | None => negb ok
        end) obs
  | H1ClLines hlen vals wire body seen same =>
      let o := h1_read_cl_lines hlen vals wire in
      seen_matches body o seen &&
      match o with
      | BodyRead r => Bool.eqb (conn_serves_next (mkCf false false false true true) r) same
      | CallError => negb same
      end
  | RespReads first_ok first_len later =>
      let under := (repeat x00 (N.to_nat first_len), first_ok) in
      match reads to_bytes under (S (length later)) rs_init with
      | r0 :: rest =>
          Bool.eqb (match r0 with Some _ => true | None => false end) first_ok
          && (fix cmp (ms : list (option bytes)) (os : list (bool * N)) : bool :=
                match ms, os with
                | [], [] => true
                | Some b :: ms', (true, n) :: os' => (N.of_nat (length b) =? n)%N && cmp ms' os'
                | None :: ms', (false, _) :: os' => cmp ms' os'
                | _, _ => false
                end) rest later
      | [] => false
      end
  | H1TlsCuts hlen fr recs body obs =>
      forallb (fun o => let '(whole, mid, seen) := o in
                        seen_matches body (h1_read_tls hlen fr recs (N.to_nat whole) mid) seen) obs
  | H1GzCuts hlen fr wire z plen obs =>
      forallb (fun ko => gz_matches z plen (h1_read hlen fr (firstn_N (fst ko) wire)) (snd ko)) obs
  | H1Cuts hlen fr wire body obs =>
      forallb (fun ko => seen_matches body (h1_read hlen fr (firstn_N (fst ko) wire)) (snd ko)) obs
  | H1Full hlen fr cf wire body seen same =>
      let o := h1_read hlen fr wire in
      seen_matches body o seen &&
      match o with
      | BodyRead r => Bool.eqb (conn_serves_next cf r) same
      | CallError => negb same
      end
  end.
