(* Model/Entry.v - the verb-style entry points (C18): how each function of the generated table
   (Gen/EntryPoints.v, regenerated from request.go / request_wrapper.go) resolves to one of the
   two ways of calling the pipeline: through Request.Send (ESend) or through Send + panic (EMust). *)
From ReqV Require Export Lib.Bytes Model.Pipeline.
From ReqV Require Export Gen.EntryPoints.

Definition find_entry (tbl : list (bytes * bool * eshape)) (name : bytes) (pkg : bool) : option eshape :=
  match find (fun e => bytes_eqb (fst (fst e)) name && Bool.eqb (snd (fst e)) pkg) tbl with
  | Some e => Some (snd e)
  | None => None
  end.

(* a method of *Request *)
Definition kind_of_method (tbl : list (bytes * bool * eshape)) (sh : eshape) : option entry :=
  match sh with
  | ShSend _ => Some ESend                     (* return r.Send(M, url) *)
  | ShMustSend _ => Some EMust                 (* resp, err := r.Send(M, url); if err != nil { panic(err) }; return resp *)
  | ShMust v =>                                (* resp, err := r.V(url); if err != nil { panic(err) }; return resp *)
    match find_entry tbl v false with
    | Some (ShSend _) => Some EMust
    | _ => None
    end
  | ShPkg _ => None
  end.

Definition kind_of (tbl : list (bytes * bool * eshape)) (name : bytes) (pkg : bool) : option entry :=
  match find_entry tbl name pkg with
  | None => None
  | Some sh =>
    if pkg then
      match sh with
      | ShPkg m =>                               (* return defaultClient.R().M(url) *)
        match find_entry tbl m false with
        | Some shm => kind_of_method tbl shm
        | None => None
        end
      | _ => None
      end
    else kind_of_method tbl sh
  end.

(* the seven verbs, each as method and as Must-method, each also at package level *)
Definition verbs : list bytes := [bs "Get"; bs "Post"; bs "Put"; bs "Patch"; bs "Delete"; bs "Head"; bs "Options"].
Definition must_name (v : bytes) : bytes := bs "Must" ++ v.

Definition table_complete (tbl : list (bytes * bool * eshape)) : bool :=
  forallb (fun v =>
    forallb (fun pkg =>
      match kind_of tbl v pkg, kind_of tbl (must_name v) pkg with
      | Some ESend, Some EMust => true
      | _, _ => false
      end) [false; true]) verbs.

Definition table_resolves (tbl : list (bytes * bool * eshape)) : bool :=
  forallb (fun e => match kind_of tbl (fst (fst e)) (snd (fst e)) with Some ESend | Some EMust => true | _ => false end) tbl.
