(* Model/Retry.v - C10: the retry machinery of imroc/req.

   Modelled Go code (repaired tree; the pinned variants are kept as [..._pinned]):
     request.go    Request.Do (up-front checks), Request.do (the attempt loop), the
                   Set/Add retry setters, SetFormDataFromValues, SetBodyBytes/SetBody
     client.go     R() (clone of the client retry option), the SetCommon/AddCommon retry
                   setters, isPayloadForbid, the part of roundTrip that turns the request
                   state into the outgoing http.Request (headers, cookies, GetBody)
     retry.go      retryOption, backoffInterval
     middleware.go parseRequestHeader, parseRequestCookie, parseRequestURL (query merge
                   and path parameters), parseRequestBody (payload-forbid, client form merge,
                   ordered + plain form encoding, marshal bodies, content-type detection) - run
                   again on EVERY attempt
   Abstracted: the transport (an explicit per-attempt outcome list), http.DetectContentType
   (a function argument), the JSON/XML marshal functions (the two renderings are data),
   url.QueryEscape / url.PathEscape (identity on the harness alphabet), multipart bodies
   (Model/RetryUpload.v), time.Sleep.  No proofs in this file. *)
From ReqV Require Export Lib.Bytes.
From Coq Require Import Lia.

(* ---------- Go maps with []string values: http.Header, url.Values ---------- *)

Definition amap := list (bytes * list bytes).

Fixpoint hget (k : bytes) (m : amap) : list bytes :=
  match m with
  | [] => []
  | (k', vs) :: r => if bytes_eqb k k' then vs else hget k r
  end.

Fixpoint hset (k : bytes) (vs : list bytes) (m : amap) : amap :=
  match m with
  | [] => [(k, vs)]
  | (k', vs') :: r => if bytes_eqb k k' then (k, vs) :: r else (k', vs') :: hset k vs r
  end.

Fixpoint hhas (k : bytes) (m : amap) : bool :=
  match m with
  | [] => false
  | (k', _) :: r => bytes_eqb k k' || hhas k r
  end.

(* Values.Add / Header.Add *)
Definition hadd (k v : bytes) (m : amap) : amap := hset k (hget k m ++ [v]) m.

(* Header.Get: first value or "" *)
Definition hfirst (k : bytes) (m : amap) : bytes :=
  match hget k m with v :: _ => v | [] => [] end.

Definition nonempty {A} (l : list A) : bool := match l with [] => false | _ => true end.

(* ---------- lexicographic order on byte strings, insertion sort (Values.Encode sorts keys) ---------- *)

Fixpoint bytes_leb (a b : bytes) : bool :=
  match a, b with
  | [], _ => true
  | _ :: _, [] => false
  | x :: a', y :: b' => if (bN x <? bN y)%N then true else if (bN y <? bN x)%N then false else bytes_leb a' b'
  end.

Fixpoint insert_key (k : bytes) (l : list bytes) : list bytes :=
  match l with
  | [] => [k]
  | x :: r => if bytes_leb k x then k :: l else x :: insert_key k r
  end.
Definition sort_keys (l : list bytes) : list bytes := fold_right insert_key [] l.

Definition amp : byte := "&"%byte.
Definition eqs : byte := "="%byte.

(* url.Values.Encode for keys/values on which QueryEscape is the identity *)
Definition encode_values (m : amap) : bytes :=
  join_with [amp]
    (flat_map (fun k => map (fun v => k ++ [eqs] ++ v) (hget k m)) (sort_keys (map fst m))).

(* ---------- client-level configuration, request state ---------- *)

Record client := mkClient {
  c_headers : amap;
  c_cookies : list (bytes * bytes);
  c_form : amap;
  c_query : amap;
  c_allow_get_payload : bool;
  c_pparams : list (bytes * bytes)     (* client-level path parameters *)
}.

(* r.GetBody *)
Inductive getbody :=
| GBNil
| GBStatic (b : bytes)     (* a fresh reader over b on every call *)
| GBReader.                (* returns r.unReplayableBody: the same reader every time *)

Record rstate := mkR {
  r_method : bytes;
  r_rawquery : bytes;                 (* query already present in RawURL *)
  r_headers : amap;
  r_cookies : list (bytes * bytes);
  r_form : amap;
  r_query : amap;
  r_body : option bytes;              (* r.Body, None = nil *)
  r_getbody : getbody;
  r_reader : bytes;                   (* what is left in r.unReplayableBody *)
  r_unreplayable : bool;              (* r.unReplayableBody != nil *)
  r_attempt : Z;                      (* r.RetryAttempt *)
  r_path : bytes;                     (* path of RawURL, with {name} placeholders *)
  r_pparams : list (bytes * bytes);   (* r.PathParams *)
  r_ordered : list (bytes * bytes);   (* r.OrderedFormData, as pairs *)
  r_marshal : option (bytes * bytes); (* r.marshalBody (SetBody with a struct / map / slice): its JSON
                                         and its XML rendering *)
  r_close : bool                      (* r.close (EnableCloseConnection): http.Request.Close of every attempt *)
}.

Definition set_headers (s : rstate) (h : amap) : rstate :=
  mkR (r_method s) (r_rawquery s) h (r_cookies s) (r_form s) (r_query s) (r_body s) (r_getbody s) (r_reader s) (r_unreplayable s) (r_attempt s) (r_path s) (r_pparams s) (r_ordered s) (r_marshal s) (r_close s).
Definition set_cookies (s : rstate) (c : list (bytes * bytes)) : rstate :=
  mkR (r_method s) (r_rawquery s) (r_headers s) c (r_form s) (r_query s) (r_body s) (r_getbody s) (r_reader s) (r_unreplayable s) (r_attempt s) (r_path s) (r_pparams s) (r_ordered s) (r_marshal s) (r_close s).
Definition set_form (s : rstate) (f : amap) : rstate :=
  mkR (r_method s) (r_rawquery s) (r_headers s) (r_cookies s) f (r_query s) (r_body s) (r_getbody s) (r_reader s) (r_unreplayable s) (r_attempt s) (r_path s) (r_pparams s) (r_ordered s) (r_marshal s) (r_close s).
Definition set_body (s : rstate) (b : option bytes) (g : getbody) : rstate :=
  mkR (r_method s) (r_rawquery s) (r_headers s) (r_cookies s) (r_form s) (r_query s) b g (r_reader s) (r_unreplayable s) (r_attempt s) (r_path s) (r_pparams s) (r_ordered s) (r_marshal s) (r_close s).
Definition set_reader (s : rstate) (rd : bytes) : rstate :=
  mkR (r_method s) (r_rawquery s) (r_headers s) (r_cookies s) (r_form s) (r_query s) (r_body s) (r_getbody s) rd (r_unreplayable s) (r_attempt s) (r_path s) (r_pparams s) (r_ordered s) (r_marshal s) (r_close s).
Definition set_attempt (s : rstate) (a : Z) : rstate :=
  mkR (r_method s) (r_rawquery s) (r_headers s) (r_cookies s) (r_form s) (r_query s) (r_body s) (r_getbody s) (r_reader s) (r_unreplayable s) a (r_path s) (r_pparams s) (r_ordered s) (r_marshal s) (r_close s).

Definition set_marshal (s : rstate) (m : option (bytes * bytes)) : rstate :=
  mkR (r_method s) (r_rawquery s) (r_headers s) (r_cookies s) (r_form s) (r_query s) (r_body s) (r_getbody s) (r_reader s) (r_unreplayable s) (r_attempt s) (r_path s) (r_pparams s) (r_ordered s) m (r_close s).

Definition content_type : bytes := bs "Content-Type".
Definition form_content_type : bytes := bs "application/x-www-form-urlencoded".
Definition json_content_type : bytes := bs "application/json; charset=utf-8".
Definition m_get : bytes := bs "GET".
Definition m_head : bytes := bs "HEAD".
Definition m_options : bytes := bs "OPTIONS".

(* ---------- the four built-in request middlewares (client.beforeRequest) ---------- *)

(* parseRequestHeader: a client header is copied when the request has no value for the key *)
Definition merge_header_step (h : amap) (e : bytes * list bytes) : amap :=
  if (length (hget (fst e) h) =? 0)%nat then hset (fst e) (snd e) h else h.
Definition merge_headers (ch rh : amap) : amap := fold_left merge_header_step ch rh.
(* ... once per execution (df72f46): a retry attempt does not merge again *)
Definition prep_header (c : client) (s : rstate) : rstate :=
  if (r_attempt s <=? 0)%Z then set_headers s (merge_headers (c_headers c) (r_headers s)) else s.

(* parseRequestCookie (repaired: && ; pinned: ||) *)
Definition prep_cookie (c : client) (s : rstate) : rstate :=
  if nonempty (c_cookies c) && (r_attempt s <=? 0)%Z
  then set_cookies s (r_cookies s ++ c_cookies c) else s.
Definition prep_cookie_pinned (c : client) (s : rstate) : rstate :=
  if nonempty (c_cookies c) || (r_attempt s <=? 0)%Z
  then set_cookies s (r_cookies s ++ c_cookies c) else s.

(* Request.SetFormDataFromValues *)
Definition add_values (data f : amap) : amap :=
  fold_left (fun f e => fold_left (fun f v => hadd (fst e) v f) (snd e) f) data f.

(* Client.isPayloadForbid *)
Definition payload_forbid (c : client) (m : bytes) : bool :=
  (bytes_eqb m m_get && negb (c_allow_get_payload c)) || bytes_eqb m m_head || bytes_eqb m m_options.

(* strings.Contains *)
Fixpoint contains (pat s : bytes) : bool :=
  bytes_eqb (firstn (length pat) s) pat ||
  match s with [] => false | _ :: s' => contains pat s' end.
(* util.IsXMLType *)
Definition is_xml_type (ct : bytes) : bool := contains (bs "xml") ct.

Section Body.
Variable detect : bytes -> bytes.   (* http.DetectContentType *)

(* parseRequestBody without multipart / marshal bodies; [merge_always] = pinned behaviour
   (client form data re-added on every attempt).  The code's guard is the request flag
   clientFormDataMerged (b34ec9c; before: r.RetryAttempt <= 0), set by the first pass that
   reaches the merge; it is represented here by [r_attempt s <= 0]: for a fresh request
   (RetryAttempt = 0, flag false) whose hooks leave RetryAttempt alone both are true on the
   first pass and false on every later one (a payload-forbidden pass returns before the merge
   in the code and in the model alike). *)
(* handleOrderedFormData: the ordered pairs in order, then the plain form data (86187ab) *)
Definition ordered_encode (od : list (bytes * bytes)) (form : amap) : bytes :=
  let o := join_with [amp] (map (fun kv => fst kv ++ [eqs] ++ snd kv) od) in
  let f := encode_values form in
  if nonempty f then (if nonempty o then o ++ [amp] ++ f else f) else o.

(* handleMarshalBody: the content type of the request, else of the client, decides between the
   XML and the JSON rendering; without any, JSON with Content-Type set (SetBodyJsonBytes) *)
Definition marshal_ct (c : client) (s : rstate) : bytes :=
  if nonempty (hfirst content_type (r_headers s)) then hfirst content_type (r_headers s)
  else hfirst content_type (c_headers c).
Definition marshal_stage (c : client) (s : rstate) : rstate :=
  match r_marshal s with
  | None => s
  | Some m =>
      if nonempty (marshal_ct c s) then
        (if is_xml_type (marshal_ct c s) then set_body s (Some (snd m)) (GBStatic (snd m))
         else set_body s (Some (fst m)) (GBStatic (fst m)))
      else set_body (set_headers s (hset content_type [json_content_type] (r_headers s)))
                    (Some (fst m)) (GBStatic (fst m))
  end.

(* the tail of parseRequestBody: guess the content type of an in-memory body *)
Definition detect_stage (c : client) (s : rstate) : rstate :=
  match r_body s with
  | None => s
  | Some b =>
      if nonempty (hfirst content_type (c_headers c)) then s
      else if nonempty (hfirst content_type (r_headers s)) then s
      else set_headers s (hset content_type [detect b] (r_headers s))
  end.

Definition prep_body_gen (merge_always : bool) (c : client) (s : rstate) : rstate :=
  if payload_forbid c (r_method s) then set_marshal (set_body s None GBNil) None
  else
    let s1 := if nonempty (c_form c) && (merge_always || (r_attempt s <=? 0)%Z)
              then set_form s (add_values (c_form c) (r_form s)) else s in
    if nonempty (r_ordered s1) then
      let enc := ordered_encode (r_ordered s1) (r_form s1) in
      set_body (set_headers s1 (hset content_type [form_content_type] (r_headers s1))) (Some enc) (GBStatic enc)
    else if nonempty (r_form s1) then
      let enc := encode_values (r_form s1) in
      set_body (set_headers s1 (hset content_type [form_content_type] (r_headers s1))) (Some enc) (GBStatic enc)
    else detect_stage c (marshal_stage c s1).
Definition prep_body := prep_body_gen false.

(* one pass of client.beforeRequest: header, cookie, (url), body *)
Definition prepare (c : client) (s : rstate) : rstate :=
  prep_body c (prep_cookie c (prep_header c s)).
Definition prepare_pinned (c : client) (s : rstate) : rstate :=
  prep_body_gen true c (prep_cookie_pinned c (prep_header c s)).
End Body.

(* ---------- what roundTrip hands to the transport ---------- *)

(* parseRequestURL's query: client values, a request key replaces the client's *)
Definition merge_query (cq rq : amap) : amap :=
  filter (fun e => negb (hhas (fst e) rq)) cq ++ rq.
Definition wire_query (c : client) (s : rstate) : bytes :=
  let q := merge_query (c_query c) (r_query s) in
  if nonempty q then
    (if nonempty (r_rawquery s) then r_rawquery s ++ [amp] ++ encode_values q else encode_values q)
  else r_rawquery s.

(* strings.Replace(s, pat, rep, -1) for a non-empty pattern *)
Fixpoint replace_fuel (fuel : nat) (pat rep s : bytes) : bytes :=
  match fuel with
  | O => s
  | S f =>
      match s with
      | [] => []
      | b :: s' =>
          if nonempty pat && bytes_eqb (firstn (length pat) s) pat
          then rep ++ replace_fuel f pat rep (skipn (length pat) s)
          else b :: replace_fuel f pat rep s'
      end
  end.
Definition replace_all (pat rep s : bytes) : bytes := replace_fuel (S (length s)) pat rep s.

(* parseRequestURL's path parameters: "{name}" replaced by the value, the request's first, then
   the client's (url.PathEscape is the identity on the harness alphabet) *)
Definition subst_params (ps : list (bytes * bytes)) (t : bytes) : bytes :=
  fold_left (fun t kv => replace_all ([x7b] ++ fst kv ++ [x7d]) (snd kv) t) ps t.
Definition wire_path (c : client) (s : rstate) : bytes :=
  subst_params (c_pparams c) (subst_params (r_pparams s) (r_path s)).

Record wire := mkWire {
  w_method : bytes;
  w_path : bytes;
  w_query : bytes;
  w_headers : amap;
  w_cookies : list (bytes * bytes);
  w_body : option bytes;
  w_close : bool                      (* http.Request.Close *)
}.

Definition body_now (s : rstate) : option bytes :=
  match r_getbody s with
  | GBNil => None
  | GBStatic b => Some b
  | GBReader => Some (r_reader s)
  end.

Definition wire_of (c : client) (s : rstate) : wire :=
  mkWire (r_method s) (wire_path c s) (wire_query c s) (r_headers s) (r_cookies s) (body_now s) (r_close s).

(* the transport reads the body to the end *)
Definition after_send (s : rstate) : rstate :=
  match r_getbody s with GBReader => set_reader s [] | _ => s end.

(* two outgoing requests are the same request: headers compared as maps *)
Definition wire_same (a b : wire) : Prop :=
  w_method a = w_method b /\ w_path a = w_path b /\ w_query a = w_query b /\ w_cookies a = w_cookies b /\
  w_body a = w_body b /\ w_close a = w_close b /\ forall k, hget k (w_headers a) = hget k (w_headers b).

(* ---------- retry option and its setters ---------- *)

(* what a condition / hook / interval function is shown: (resp, err) *)
Record view := mkView { v_status : option Z; v_err : option Z }.

Record cond := mkCond { cd_id : Z; cd_fn : view -> bool }.
Record hook := mkHook { hk_id : Z; hk_mut : rstate -> rstate }.

Record ropt := mkRopt {
  ro_max : Z;
  ro_interval : Z;            (* identity of GetRetryInterval; 0 = defaultGetRetryInterval *)
  ro_conds : list cond;
  ro_hooks : list hook
}.
Definition default_ropt : ropt := mkRopt 0 0 [] [].

Inductive rop :=
| SetCount (n : Z)
| SetInterval (i : Z)
| SetCond (c : cond) | AddCond (c : cond)
| SetHook (h : hook) | AddHook (h : hook).

(* getRetryOption creates the default option on first use *)
Definition apply_rop (o : option ropt) (op : rop) : option ropt :=
  let r := match o with Some r => r | None => default_ropt end in
  Some match op with
       | SetCount n => mkRopt n (ro_interval r) (ro_conds r) (ro_hooks r)
       | SetInterval i => mkRopt (ro_max r) i (ro_conds r) (ro_hooks r)
       | SetCond c => mkRopt (ro_max r) (ro_interval r) [c] (ro_hooks r)
       | AddCond c => mkRopt (ro_max r) (ro_interval r) (ro_conds r ++ [c]) (ro_hooks r)
       | SetHook h => mkRopt (ro_max r) (ro_interval r) (ro_conds r) [h]
       | AddHook h => mkRopt (ro_max r) (ro_interval r) (ro_conds r) (ro_hooks r ++ [h])
       end.
Definition apply_rops (o : option ropt) (ops : list rop) : option ropt := fold_left apply_rop ops o.

(* client setters, then R() clones, then request setters *)
Definition effective_ropt (client_ops request_ops : list rop) : option ropt :=
  apply_rops (apply_rops None client_ops) request_ops.

(* ---------- per-attempt outcomes ---------- *)

Inductive outcome :=
| OErr (e : Z) (cancelled : bool)     (* transport error; cancelled = errors.Is(err, context.Canceled)
                                         || r.Context().Err() != nil (cancelled, or past its deadline) *)
| OStatus (s : Z)
| OStatusEnded (s : Z)               (* the response arrived without error, but r.Context().Err() != nil
                                         when the loop looks at it (context cancelled / past its deadline
                                         after the response came in, e.g. from a response middleware) *)
| OStatusErr (s e : Z).               (* a wrapping round tripper (WrapRoundTrip) hands back the response AND
                                         an error the response does not record: do() stores it in resp.Err.
                                         (A wrapper returning (nil, err) is OErr: do() makes a fresh
                                         placeholder response for that attempt.) *)

Definition view_of (o : outcome) : view :=
  match o with
  | OErr e _ => mkView None (Some e)
  | OStatus s => mkView (Some s) None
  | OStatusEnded s => mkView (Some s) None
  | OStatusErr s e => mkView (Some s) (Some e)
  end.
Definition is_cancelled (o : outcome) : bool :=
  match o with OErr _ c => c | OStatus _ => false | OStatusEnded _ => true | OStatusErr _ _ => false end.
Definition is_err (o : outcome) : bool :=
  match o with OErr _ _ => true | OStatus _ => false | OStatusEnded _ => false | OStatusErr _ _ => true end.

(* one attempt's inputs: transport outcome and what each request-level after-response
   middleware returns on this attempt (registration order) *)
Record ain := mkAin {
  a_out : outcome;
  a_after : list (option Z);
  a_wait_cancel : bool    (* the request's context ends while the retry after this attempt is being
                             prepared (retry hooks, interval function, the wait itself) *)
}.

Fixpoint first_some (l : list (option Z)) : option Z :=
  match l with
  | [] => None
  | Some e :: _ => Some e
  | None :: r => first_some r
  end.

(* conditions are consulted from the last registered to the first, stopping at the first
   that asks for a retry; returns the decision and the calls made *)
Fixpoint eval_conds_rev (cs : list cond) (v : view) : bool * list Z :=
  match cs with
  | [] => (false, [])
  | c :: r => if cd_fn c v then (true, [cd_id c])
              else let '(b, l) := eval_conds_rev r v in (b, cd_id c :: l)
  end.
Definition need_retry (cs : list cond) (v : view) : bool * list Z :=
  match cs with
  | [] => (match v_err v with Some _ => true | None => false end, [])
  | _ => eval_conds_rev (rev cs) v
  end.

Record call := mkCall { k_id : Z; k_attempt : Z; k_view : view }.

Inductive ending :=
| EndUpFront                  (* Do refused: unreplayable body on a retryable request *)
| EndNormal                   (* loop returned *)
| EndScript.                  (* the outcome list ran out (never on harness cases) *)

Record result := mkResult {
  res_wires : list wire;
  res_conds : list call;       (* k_attempt = 0-based index of the attempt being judged *)
  res_hooks : list call;       (* k_attempt = r.RetryAttempt when the hook ran *)
  res_intervals : list call;   (* k_id = interval identity, k_attempt = attempt argument *)
  res_final : view;            (* (resp status, resp.Err) returned by Do *)
  res_attempt : Z;             (* r.RetryAttempt on return *)
  res_end : ending
}.

Definition cons_wire (w : wire) (r : result) : result :=
  mkResult (w :: res_wires r) (res_conds r) (res_hooks r) (res_intervals r) (res_final r) (res_attempt r) (res_end r).
Definition add_calls (cs hs is_ : list call) (r : result) : result :=
  mkResult (res_wires r) (cs ++ res_conds r) (hs ++ res_hooks r) (is_ ++ res_intervals r) (res_final r) (res_attempt r) (res_end r).

Definition run_hooks (hs : list hook) (s : rstate) : rstate :=
  fold_left (fun s h => hk_mut h s) (rev hs) s.

Section Loop.
Variable detect : bytes -> bytes.
Variable c : client.

(* [err_reset]: the pinned code lets a request-level after-response middleware that returns
   nil overwrite the local err; the repaired code keeps it. *)
Definition judged_view (err_reset : bool) (n_after : nat) (v : view) : view :=
  if err_reset && negb (n_after =? 0)%nat then mkView (v_status v) None else v.

(* Request.do.  [k] = 0-based index of the attempt. *)
Fixpoint do_loop_gen (pinned : bool) (ro : option ropt) (k : Z) (s : rstate) (ins : list ain) : result :=
  match ins with
  | [] => mkResult [] [] [] [] (mkView None None) (r_attempt s) EndScript
  | a :: rest =>
      let s1 := (if pinned then prepare_pinned detect c s else prepare detect c s) in
      let w := wire_of c s1 in
      let s2 := after_send s1 in
      let v := view_of (a_out a) in
      match first_some (a_after a) with
      | Some e =>
          (* err = e; return.  The deferred function keeps an earlier resp.Err. *)
          let fe := match v_err v with Some e0 => Some e0 | None => Some e end in
          mkResult [w] [] [] [] (mkView (v_status v) fe) (r_attempt s2) EndNormal
      | None =>
          let stop := mkResult [w] [] [] [] v (r_attempt s2) EndNormal in
          match ro with
          | None => stop
          | Some o =>
              if is_cancelled (a_out a) || ((ro_max o <=? r_attempt s2)%Z && (0 <=? ro_max o)%Z) then stop
              else
                let jv := judged_view pinned (length (a_after a)) v in
                let '(need, called) := need_retry (ro_conds o) jv in
                let ccalls := map (fun id => mkCall id k jv) called in
                if negb need then add_calls ccalls [] [] stop
                else
                  let s3 := set_attempt s2 (r_attempt s2 + 1) in
                  let att := r_attempt s3 in
                  let hcalls := map (fun h => mkCall (hk_id h) att jv) (rev (ro_hooks o)) in
                  let s4 := run_hooks (ro_hooks o) s3 in
                  let icall := mkCall (ro_interval o) (r_attempt s4) jv in
                  if a_wait_cancel a then
                    (* sleepContext reports the ended context (also for a zero interval): err =
                       ctx.Err(), resp.Err = err, return - no further attempt *)
                    add_calls ccalls hcalls [icall]
                      (mkResult [w] [] [] [] (mkView (v_status v) (Some 3%Z)) (r_attempt s4) EndNormal)
                  else
                  cons_wire w (add_calls ccalls hcalls [icall] (do_loop_gen pinned ro (k + 1) s4 rest))
          end
      end
  end.

Definition do_loop := do_loop_gen false.

(* Request.Do *)
Definition run_gen (pinned : bool) (ro : option ropt) (s : rstate) (ins : list ain) : result :=
  match ro with
  | Some o =>
      if negb (ro_max o =? 0)%Z && r_unreplayable s
      then mkResult [] [] [] [] (mkView None (Some (-1)%Z)) (r_attempt s) EndUpFront
      else do_loop_gen pinned ro 0 s ins
  | None => do_loop_gen pinned ro 0 s ins
  end.
Definition run := run_gen false.

(* executing the SAME Request object again: Request.do starts with unmergeClientSettings, which
   (among other things: builder-C19's Model/ReExec.v models what it takes back from the headers,
   cookies and form data) restarts RetryAttempt at 0 - for every entry point, Send-based verbs
   and Do alike.  [resets] = whether the source does that (regenerated by gosync). *)
Definition exec_start (resets : bool) (s : rstate) : rstate := if resets then set_attempt s 0 else s.
Definition run_exec (resets : bool) (ro : option ropt) (s : rstate) (ins : list ain) : result :=
  run ro (exec_start resets s) ins.
End Loop.

(* ---------- retry.go backoffInterval ---------- *)

(* temp = min(cap, base * 2^attempt); exact for |min|,|max| < 2^53 and attempt >= 0 *)
Definition backoff_temp (mn mx attempt : Z) : Z := Z.min mx (mn * 2 ^ attempt).
(* int64(temp / 2): conversion truncates towards zero *)
Definition backoff_half (mn mx attempt : Z) : Z := Z.quot (backoff_temp mn mx attempt) 2.

(* pinned: halfTemp + rand.Int63n(halfTemp); Int63n panics for n <= 0.  [u] is the draw. *)
Definition backoff_pinned (mn mx attempt u : Z) : option Z :=
  let h := backoff_half mn mx attempt in
  if (h <=? 0)%Z then None else Some (h + u mod h)%Z.

(* repaired: no jitter when the interval is too small to halve *)
Definition backoff (mn mx attempt u : Z) : Z :=
  let h := backoff_half mn mx attempt in
  if (h <=? 0)%Z then backoff_temp mn mx attempt else (h + u mod h)%Z.
