(* Model/H2TraceSpec.v - stand-alone trace predicates of property C06, written directly from the
   property text (independent of the monitor's bookkeeping).  Executable; no proofs here.
   A trace is a list of `ev` (Model/H2Monitor.v): C f = frame written by the client, P f = frame
   of the peer. *)
From Coq Require Import ZArith Bool List.
From ReqV Require Import Model.H2Monitor.
Import ListNotations.
Open Scope Z_scope.

(* header blocks are contiguous: while a block is open on stream `open` (0 = none) the next
   client frame is a CONTINUATION on that stream.  Result: the block left open at the end,
   None = violation. *)
Fixpoint hb_run (open : Z) (tr : list ev) : option Z :=
  match tr with
  | [] => Some open
  | P _ :: r => hb_run open r
  | C f :: r =>
      if negb (open =? 0) && negb (is_continuation_on f open) then None
      else match f with
           | FHeaders sid _ eh _ => hb_run (if eh then open else sid) r
           | FContinuation _ _ eh => if open =? 0 then None else hb_run (if eh then 0 else open) r
           | _ => hb_run open r
           end
  end.

Fixpoint zmem (x : Z) (l : list Z) : bool :=
  match l with [] => false | y :: r => (y =? x) || zmem x r end.

(* after END_STREAM or RST_STREAM on a stream the client sends nothing on it but RST_STREAM,
   WINDOW_UPDATE and PRIORITY (a CONTINUATION belongs to the block of the HEADERS frame that
   carried END_STREAM and is governed by hb_run) *)
Fixpoint css_ok (closed : list Z) (tr : list ev) : bool :=
  match tr with
  | [] => true
  | P _ :: r => css_ok closed r
  | C f :: r =>
      match f with
      | FData sid _ es => negb (zmem sid closed) && css_ok (if es then sid :: closed else closed) r
      | FHeaders sid _ _ es => negb (zmem sid closed) && css_ok (if es then sid :: closed else closed) r
      | FRst sid => css_ok (sid :: closed) r
      | FOther _ sid _ => negb (zmem sid closed) && css_ok closed r
      | _ => css_ok closed r
      end
  end.

(* in the order in which the client processes and writes: every SETTINGS frame of the peer is
   followed at once by the client's acknowledgement, and there is no other acknowledgement *)
Fixpoint sa_ok (tr : list ev) : bool :=
  match tr with
  | [] => true
  | P (FSettings _) :: r => match r with C FSettingsAck :: r' => sa_ok r' | _ => false end
  | C FSettingsAck :: _ => false
  | _ :: r => sa_ok r
  end.

(* number of SETTINGS frames of the peer / acknowledgements of the client *)
Fixpoint count_psettings (tr : list ev) : Z :=
  match tr with [] => 0 | P (FSettings _) :: r => 1 + count_psettings r | _ :: r => count_psettings r end.
Fixpoint count_acks (tr : list ev) : Z :=
  match tr with [] => 0 | C FSettingsAck :: r => 1 + count_acks r | _ :: r => count_acks r end.
