(* Model/H3Cache.v - executable model of the HTTP/3 connection cache of
   /repo/internal/http3/roundtrip.go: RoundTripper.clients (hostname -> roundTripperWithCount)
   and the useCount that protects a cached connection from CloseIdleConnections (C09).

   One event = one region under RoundTripper.mutex, or one atomic useCount operation.

   Go (internal/http3/roundtrip.go)                        model
   ------------------------------------------------------  ---------------------------
   RoundTripOpt -> getClient (lookup / create + dial
     goroutine, delete on a finished failed dial,
     useCount.Add(1))                                      E3Get h
   AddConn -> getClient; useCount.Add(-1)                  E3AddConn h
   the dial goroutine: cl.dialErr / cl.conn, close(dialing) E3DialDone cl ok
   RoundTripOpt: <-cl.dialing; dialErr -> removeClient;
     else defer useCount.Add(-1)                           E3Proceed q
   RoundTripOpt: <-req.Context().Done() while dialling     E3Abandon q
   cl.rt.RoundTrip returned; removeClient on error;
     deferred useCount.Add(-1)                             E3Finish q ok remove
   CloseIdleConnections                                    E3CloseIdle

   As in the Go code, the two early returns of RoundTripOpt (context done while the dial is in
   progress, and dialErr != nil) do NOT give the useCount back: the model counts them in the
   ghost field cl_leak (see h3_abandon_leaks in Proofs/H3CacheProofs.v).  AddConn's
   Add(1)/Add(-1) pair is one event (the intermediate value is never read by AddConn's caller).
   Not modelled: RoundTripper.Close, the 0-RTT / isReused retry, OnlyCachedConn. *)
From Coq Require Import List Arith Bool ZArith.
From ReqV Require Import Model.Pool.
Import ListNotations.

Notation host := nat (only parsing).
Notation clid := nat (only parsing).
Notation qid := nat (only parsing).

Inductive dstat := DialRunning | DialOk | DialErr.

Inductive h3phase :=
| Q3None
| Q3Wait (cl : clid)      (* holds a useCount of cl, waiting for <-cl.dialing *)
| Q3Run (cl : clid)       (* inside cl.rt.RoundTrip *)
| Q3Done (ok : bool).

Record h3state := mkH3 {
  clients : host -> option clid;
  cl_host : clid -> host;
  cl_dial : clid -> dstat;
  cl_use : clid -> Z;
  cl_users : clid -> list qid;
  cl_leak : clid -> nat;
  cl_closed : clid -> bool;
  q_phase : qid -> h3phase;
  n_cl : nat;
  n_q : nat }.

Definition set3_clients (v : host -> option clid) (s : h3state) : h3state :=
  mkH3 v (cl_host s) (cl_dial s) (cl_use s) (cl_users s) (cl_leak s) (cl_closed s) (q_phase s) (n_cl s) (n_q s).
Definition set3_cl_host (v : clid -> host) (s : h3state) : h3state :=
  mkH3 (clients s) v (cl_dial s) (cl_use s) (cl_users s) (cl_leak s) (cl_closed s) (q_phase s) (n_cl s) (n_q s).
Definition set3_cl_dial (v : clid -> dstat) (s : h3state) : h3state :=
  mkH3 (clients s) (cl_host s) v (cl_use s) (cl_users s) (cl_leak s) (cl_closed s) (q_phase s) (n_cl s) (n_q s).
Definition set3_cl_use (v : clid -> Z) (s : h3state) : h3state :=
  mkH3 (clients s) (cl_host s) (cl_dial s) v (cl_users s) (cl_leak s) (cl_closed s) (q_phase s) (n_cl s) (n_q s).
Definition set3_cl_users (v : clid -> list qid) (s : h3state) : h3state :=
  mkH3 (clients s) (cl_host s) (cl_dial s) (cl_use s) v (cl_leak s) (cl_closed s) (q_phase s) (n_cl s) (n_q s).
Definition set3_cl_leak (v : clid -> nat) (s : h3state) : h3state :=
  mkH3 (clients s) (cl_host s) (cl_dial s) (cl_use s) (cl_users s) v (cl_closed s) (q_phase s) (n_cl s) (n_q s).
Definition set3_cl_closed (v : clid -> bool) (s : h3state) : h3state :=
  mkH3 (clients s) (cl_host s) (cl_dial s) (cl_use s) (cl_users s) (cl_leak s) v (q_phase s) (n_cl s) (n_q s).
Definition set3_q_phase (v : qid -> h3phase) (s : h3state) : h3state :=
  mkH3 (clients s) (cl_host s) (cl_dial s) (cl_use s) (cl_users s) (cl_leak s) (cl_closed s) v (n_cl s) (n_q s).
Definition set3_n_cl (v : nat) (s : h3state) : h3state :=
  mkH3 (clients s) (cl_host s) (cl_dial s) (cl_use s) (cl_users s) (cl_leak s) (cl_closed s) (q_phase s) v (n_q s).
Definition set3_n_q (v : nat) (s : h3state) : h3state :=
  mkH3 (clients s) (cl_host s) (cl_dial s) (cl_use s) (cl_users s) (cl_leak s) (cl_closed s) (q_phase s) (n_cl s) v.

Definition h3_init : h3state :=
  mkH3 (fun _ => None) (fun _ => 0) (fun _ => DialRunning) (fun _ => 0%Z) (fun _ => []) (fun _ => 0)
       (fun _ => false) (fun _ => Q3None) 0 0.

Definition new_client (s : h3state) (cl : clid) (h : host) (use : Z) (users : list qid) : h3state :=
  set3_n_cl (S cl)
   (set3_clients (upd (clients s) h (Some cl))
    (set3_cl_closed (upd (cl_closed s) cl false)
     (set3_cl_leak (upd (cl_leak s) cl 0)
      (set3_cl_users (upd (cl_users s) cl users)
       (set3_cl_use (upd (cl_use s) cl use)
        (set3_cl_dial (upd (cl_dial s) cl DialRunning)
         (set3_cl_host (upd (cl_host s) cl h) s))))))).

(* the caller q stops using cl; [give_back]: whether useCount.Add(-1) is executed *)
Definition release (s : h3state) (cl : clid) (q : qid) (give_back : bool) : h3state :=
  let s := set3_cl_users (upd (cl_users s) cl (remove1 q (cl_users s cl))) s in
  if give_back then set3_cl_use (upd (cl_use s) cl (cl_use s cl - 1)%Z) s
  else set3_cl_leak (upd (cl_leak s) cl (S (cl_leak s cl))) s.

Definition is_current (s : h3state) (cl : clid) : bool :=
  match clients s (cl_host s cl) with
  | Some c => Nat.eqb c cl
  | None => false
  end.

Inductive h3event :=
| E3Get (h : host)
| E3AddConn (h : host)
| E3DialDone (cl : clid) (ok : bool)
| E3Proceed (q : qid)
| E3Abandon (q : qid)
| E3Finish (q : qid) (ok remove : bool)
| E3CloseIdle.

Definition h3_step (s : h3state) (e : h3event) : h3state :=
  match e with
  | E3Get h =>
      let q := n_q s in
      let s := set3_n_q (S q) s in
      match clients s h with
      | None =>
          set3_q_phase (upd (q_phase s) q (Q3Wait (n_cl s))) (new_client s (n_cl s) h 1%Z [q])
      | Some cl =>
          match cl_dial s cl with
          | DialErr =>                                       (* delete(r.clients, hostname); return dialErr *)
              set3_q_phase (upd (q_phase s) q (Q3Done false)) (set3_clients (upd (clients s) h None) s)
          | _ =>
              set3_q_phase (upd (q_phase s) q (Q3Wait cl))
               (set3_cl_users (upd (cl_users s) cl (q :: cl_users s cl))
                (set3_cl_use (upd (cl_use s) cl (cl_use s cl + 1)%Z) s))
          end
      end
  | E3AddConn h =>
      match clients s h with
      | None => new_client s (n_cl s) h 0%Z []
      | Some cl =>
          match cl_dial s cl with
          | DialErr => set3_clients (upd (clients s) h None) s
          | _ => s
          end
      end
  | E3DialDone cl ok =>
      if cl <? n_cl s then
        match cl_dial s cl with
        | DialRunning => set3_cl_dial (upd (cl_dial s) cl (if ok then DialOk else DialErr)) s
        | _ => s
        end
      else s
  | E3Proceed q =>
      match q_phase s q with
      | Q3Wait cl =>
          match cl_dial s cl with
          | DialRunning => s                                    (* still blocked *)
          | DialErr =>                                          (* removeClient(hostname); no Add(-1) *)
              set3_q_phase (upd (q_phase s) q (Q3Done false))
               (set3_clients (upd (clients s) (cl_host s cl) None) (release s cl q false))
          | DialOk => set3_q_phase (upd (q_phase s) q (Q3Run cl)) s
          end
      | _ => s
      end
  | E3Abandon q =>
      match q_phase s q with
      | Q3Wait cl =>
          match cl_dial s cl with
          | DialRunning => set3_q_phase (upd (q_phase s) q (Q3Done false)) (release s cl q false)
          | _ => s
          end
      | _ => s
      end
  | E3Finish q ok remove =>
      match q_phase s q with
      | Q3Run cl =>
          let s1 := if negb ok && remove then set3_clients (upd (clients s) (cl_host s cl) None) s else s in
          set3_q_phase (upd (q_phase s1) q (Q3Done ok)) (release s1 cl q true)
      | _ => s
      end
  | E3CloseIdle =>
      set3_clients (fun h => match clients s h with
                             | Some cl => if (cl_use s cl =? 0)%Z then None else Some cl
                             | None => None
                             end)
       (set3_cl_closed (fun cl => cl_closed s cl || (is_current s cl && (cl_use s cl =? 0)%Z)) s)
  end.

Definition h3_run (evs : list h3event) : h3state := fold_left h3_step evs h3_init.

(* what VerifH3Clients shows of one cached client: useCount; the harness adds an upper bound on
   the number of its own requests that can hold a count at that moment *)
Definition h3snap_ok (inflight_upper : nat) (uses : list Z) : bool :=
  forallb (fun u => (0 <=? u)%Z && (u <=? Z.of_nat inflight_upper)%Z) uses.
