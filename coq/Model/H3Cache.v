(* Model/H3Cache.v - executable model of the HTTP/3 connection cache of
   /repo/internal/http3/roundtrip.go: RoundTripper.clients (hostname -> roundTripperWithCount)
   and the useCount that protects a cached connection from CloseIdleConnections (C09).
   Describes the code after the repairs 5efe32e / 47c9d8e (a waiter gives its use count back,
   a failed or closed cached entry is replaced by a new dial, removeClientEntry).

   One event = one region under RoundTripper.mutex, or one atomic useCount operation.

   Go (internal/http3/roundtrip.go)                        model
   ------------------------------------------------------  ---------------------------
   RoundTripOpt -> getClient (lookup; an entry whose dial
     failed or whose connection is closed is dropped and
     dialled again; create + dial goroutine;
     useCount.Add(1))                                      E3Get h / E3Reget q  -> get_client
   AddConn -> getClient; useCount.Add(-1)                  E3AddConn h
   the dial goroutine: cl.dialErr / cl.conn, close(dialing) E3DialDone cl ok
   the peer / idle timeout closes the QUIC connection      E3ConnGone cl
   RoundTripOpt: <-cl.dialing; dialErr -> Add(-1),
     removeClientEntry, (dial again | return dialErr);
     else defer useCount.Add(-1)                           E3Proceed q retry
   RoundTripOpt: <-req.Context().Done() while dialling:
     Add(-1), return                                       E3Abandon q
   cl.rt.RoundTrip returned; removeClient on error;
     deferred useCount.Add(-1)                             E3Finish q ok remove
   CloseIdleConnections                                    E3CloseIdle

   AddConn's Add(1)/Add(-1) pair is one event (the intermediate value is never read by AddConn's
   caller).  Not modelled: RoundTripper.Close, OnlyCachedConn, the re-send of a request on a
   new connection after a Timeout / closed-connection error of a reused one (the recursive
   RoundTripOpt runs while the deferred Add(-1) of the old client is still pending), and
   getClient's second look at a dial that failed between creation and the select. *)
From Coq Require Import List Arith Bool ZArith.
From ReqV Require Import Model.Pool.
Import ListNotations.

Notation host := nat (only parsing).
Notation clid := nat (only parsing).
Notation qid := nat (only parsing).

Inductive dstat := DialRunning | DialOk | DialErr.

Inductive h3phase :=
| Q3None
| Q3Wait (cl : clid)      (* holds a useCount of cl, waiting for <-cl.dialing *)
| Q3Run (cl : clid)       (* inside cl.rt.RoundTrip *)
| Q3Again (h : host)      (* about to call getClient again (dial error of another request's context) *)
| Q3Done (ok : bool).

Record h3state := mkH3 {
  clients : host -> option clid;
  cl_host : clid -> host;
  cl_dial : clid -> dstat;
  cl_gone : clid -> bool;
  cl_use : clid -> Z;
  cl_users : clid -> list qid;
  cl_closed : clid -> bool;
  q_phase : qid -> h3phase;
  n_cl : nat;
  n_q : nat }.

Definition set3_clients (v : host -> option clid) (s : h3state) : h3state :=
  mkH3 v (cl_host s) (cl_dial s) (cl_gone s) (cl_use s) (cl_users s) (cl_closed s) (q_phase s) (n_cl s) (n_q s).
Definition set3_cl_host (v : clid -> host) (s : h3state) : h3state :=
  mkH3 (clients s) v (cl_dial s) (cl_gone s) (cl_use s) (cl_users s) (cl_closed s) (q_phase s) (n_cl s) (n_q s).
Definition set3_cl_dial (v : clid -> dstat) (s : h3state) : h3state :=
  mkH3 (clients s) (cl_host s) v (cl_gone s) (cl_use s) (cl_users s) (cl_closed s) (q_phase s) (n_cl s) (n_q s).
Definition set3_cl_gone (v : clid -> bool) (s : h3state) : h3state :=
  mkH3 (clients s) (cl_host s) (cl_dial s) v (cl_use s) (cl_users s) (cl_closed s) (q_phase s) (n_cl s) (n_q s).
Definition set3_cl_use (v : clid -> Z) (s : h3state) : h3state :=
  mkH3 (clients s) (cl_host s) (cl_dial s) (cl_gone s) v (cl_users s) (cl_closed s) (q_phase s) (n_cl s) (n_q s).
Definition set3_cl_users (v : clid -> list qid) (s : h3state) : h3state :=
  mkH3 (clients s) (cl_host s) (cl_dial s) (cl_gone s) (cl_use s) v (cl_closed s) (q_phase s) (n_cl s) (n_q s).
Definition set3_cl_closed (v : clid -> bool) (s : h3state) : h3state :=
  mkH3 (clients s) (cl_host s) (cl_dial s) (cl_gone s) (cl_use s) (cl_users s) v (q_phase s) (n_cl s) (n_q s).
Definition set3_q_phase (v : qid -> h3phase) (s : h3state) : h3state :=
  mkH3 (clients s) (cl_host s) (cl_dial s) (cl_gone s) (cl_use s) (cl_users s) (cl_closed s) v (n_cl s) (n_q s).
Definition set3_n_cl (v : nat) (s : h3state) : h3state :=
  mkH3 (clients s) (cl_host s) (cl_dial s) (cl_gone s) (cl_use s) (cl_users s) (cl_closed s) (q_phase s) v (n_q s).
Definition set3_n_q (v : nat) (s : h3state) : h3state :=
  mkH3 (clients s) (cl_host s) (cl_dial s) (cl_gone s) (cl_use s) (cl_users s) (cl_closed s) (q_phase s) (n_cl s) v.

Definition h3_init : h3state :=
  mkH3 (fun _ => None) (fun _ => 0) (fun _ => DialRunning) (fun _ => false) (fun _ => 0%Z) (fun _ => [])
       (fun _ => false) (fun _ => Q3None) 0 0.

Definition new_client (s : h3state) (cl : clid) (h : host) (use : Z) (users : list qid) : h3state :=
  set3_n_cl (S cl)
   (set3_clients (upd (clients s) h (Some cl))
    (set3_cl_closed (upd (cl_closed s) cl false)
     (set3_cl_users (upd (cl_users s) cl users)
      (set3_cl_use (upd (cl_use s) cl use)
       (set3_cl_gone (upd (cl_gone s) cl false)
        (set3_cl_dial (upd (cl_dial s) cl DialRunning)
         (set3_cl_host (upd (cl_host s) cl h) s))))))).

(* getClient's test for an entry that cannot serve another request *)
Definition stale (s : h3state) (cl : clid) : bool :=
  match cl_dial s cl with
  | DialErr => true
  | DialOk => cl_gone s cl
  | DialRunning => false
  end.

(* getClient on behalf of request q *)
Definition get_client (s : h3state) (q : qid) (h : host) : h3state :=
  let fresh := set3_q_phase (upd (q_phase s) q (Q3Wait (n_cl s))) (new_client s (n_cl s) h 1%Z [q]) in
  match clients s h with
  | None => fresh
  | Some cl =>
      if stale s cl then fresh
      else set3_q_phase (upd (q_phase s) q (Q3Wait cl))
            (set3_cl_users (upd (cl_users s) cl (q :: cl_users s cl))
             (set3_cl_use (upd (cl_use s) cl (cl_use s cl + 1)%Z) s))
  end.

(* q stops using cl: useCount.Add(-1) *)
Definition release (s : h3state) (cl : clid) (q : qid) : h3state :=
  set3_cl_use (upd (cl_use s) cl (cl_use s cl - 1)%Z)
   (set3_cl_users (upd (cl_users s) cl (remove1 q (cl_users s cl))) s).

Definition is_current (s : h3state) (cl : clid) : bool :=
  match clients s (cl_host s cl) with
  | Some c => Nat.eqb c cl
  | None => false
  end.

Inductive h3event :=
| E3Get (h : host)
| E3Reget (q : qid)
| E3AddConn (h : host)
| E3DialDone (cl : clid) (ok : bool)
| E3ConnGone (cl : clid)
| E3Proceed (q : qid) (retry : bool)
| E3Abandon (q : qid)
| E3Finish (q : qid) (ok remove : bool)
| E3CloseIdle.

Definition h3_step (s : h3state) (e : h3event) : h3state :=
  match e with
  | E3Get h => let q := n_q s in get_client (set3_n_q (S q) s) q h
  | E3Reget q =>
      match q_phase s q with
      | Q3Again h => get_client s q h
      | _ => s
      end
  | E3AddConn h =>
      match clients s h with
      | None => new_client s (n_cl s) h 0%Z []
      | Some cl => if stale s cl then new_client s (n_cl s) h 0%Z [] else s
      end
  | E3DialDone cl ok =>
      if cl <? n_cl s then
        match cl_dial s cl with
        | DialRunning => set3_cl_dial (upd (cl_dial s) cl (if ok then DialOk else DialErr)) s
        | _ => s
        end
      else s
  | E3ConnGone cl =>
      if cl <? n_cl s then
        match cl_dial s cl with
        | DialOk => set3_cl_gone (upd (cl_gone s) cl true) s
        | _ => s
        end
      else s
  | E3Proceed q retry =>
      match q_phase s q with
      | Q3Wait cl =>
          match cl_dial s cl with
          | DialRunning => s                                    (* still blocked *)
          | DialErr =>                                          (* Add(-1); removeClientEntry; again | err *)
              let s1 := release s cl q in
              let s2 := if is_current s1 cl
                        then set3_clients (upd (clients s1) (cl_host s1 cl) None) s1 else s1 in
              set3_q_phase (upd (q_phase s2) q (if retry then Q3Again (cl_host s cl) else Q3Done false)) s2
          | DialOk => set3_q_phase (upd (q_phase s) q (Q3Run cl)) s
          end
      | _ => s
      end
  | E3Abandon q =>
      match q_phase s q with
      | Q3Wait cl =>
          match cl_dial s cl with
          | DialRunning => set3_q_phase (upd (q_phase s) q (Q3Done false)) (release s cl q)
          | _ => s
          end
      | _ => s
      end
  | E3Finish q ok remove =>
      match q_phase s q with
      | Q3Run cl =>
          let s1 := if negb ok && remove then set3_clients (upd (clients s) (cl_host s cl) None) s else s in
          set3_q_phase (upd (q_phase s1) q (Q3Done ok)) (release s1 cl q)
      | _ => s
      end
  | E3CloseIdle =>
      set3_clients (fun h => match clients s h with
                             | Some cl => if (cl_use s cl =? 0)%Z then None else Some cl
                             | None => None
                             end)
       (set3_cl_closed (fun cl => cl_closed s cl || (is_current s cl && (cl_use s cl =? 0)%Z)) s)
  end.

Definition h3_run (evs : list h3event) : h3state := fold_left h3_step evs h3_init.

(* what VerifH3Clients shows of one cached client: useCount; the harness adds an upper bound on
   the number of its own requests that can hold a count at that moment *)
Definition h3snap_ok (inflight_upper : nat) (uses : list Z) : bool :=
  forallb (fun u => (0 <=? u)%Z && (u <=? Z.of_nat inflight_upper)%Z) uses.
