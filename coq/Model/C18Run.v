(* Model/C18Run.v - case type and checker evaluated on harness-generated cases (C18) *)
From ReqV Require Export Lib.Bytes Model.Pipeline Model.Entry Model.CloneMw.
Open Scope Z_scope.

(* what the harness records from the real code after one call *)
Record observation := mkObs {
  o_panic    : bool;          (* the call panicked (a Must-style entry point) with the error in o_ret_err *)
  o_resp_nil : bool;          (* returned *Response == nil *)
  o_present  : bool;          (* resp.Response != nil *)
  o_status   : Z;
  o_resp_err : option err;    (* resp.Err *)
  o_ret_err  : option err;    (* returned error / panic value (None for Do) *)
  o_cached   : bool;          (* resp.Bytes() != nil *)
  o_result   : bool;          (* resp.SuccessResult() != nil *)
  o_error    : ebind;         (* resp.ErrorResult(): nil / the request's target / an instance of the common type *)
  o_logs     : list (list event);   (* invocation log, grouped by Request.RetryAttempt at the time of the call *)
  o_hooks    : nat                  (* invocations of the client's error hook *)
}.

Inductive c18_case :=
| ClassCase (status : Z) (obs_state : Z)            (* Response.ResultState() with the default checker *)
| ProgCase (p : program) (obs : observation)
| EntryCase (name : bytes) (pkg : bool) (p : program) (obs : observation)
| CloneCase (ops : list cop) (obs : list (list nat * list nat * list nat * nat)).
    (* per client, from one request: ids of the response middleware, request middleware, wrappers (as entered) it ran; type of ErrorResult() *)   (* called through the named function of the generated table *)

Definition opt_z_eqb (a b : option Z) : bool :=
  match a, b with
  | None, None => true
  | Some x, Some y => x =? y
  | _, _ => false
  end.

Definition ebind_eqb (a b : ebind) : bool :=
  match a, b with
  | ENone, ENone | EReq, EReq | ECommon, ECommon => true
  | _, _ => false
  end.

Definition event_eqb (a b : event) : bool :=
  match a, b with
  | EvUd i, EvUd j | EvWIn i, EvWIn j | EvWOut i, EvWOut j | EvCli i, EvCli j | EvReq i, EvReq j
  | EvCond i, EvCond j | EvHook i, EvHook j => Nat.eqb i j
  | EvSend, EvSend => true
  | _, _ => false
  end.

(* compare the fields of a response that are observable from outside *)
Definition resp_matches (r : response) (present : bool) (status : Z) (e : option err) (cached result : bool) (eb : ebind) : bool :=
  Bool.eqb (r_present r) present &&
  (if present then r_status r =? status else true) &&
  opt_z_eqb (r_err r) e &&
  Bool.eqb (r_cached r) cached &&
  Bool.eqb (r_result r) result &&
  ebind_eqb (r_error r) eb.

(* iterations that logged nothing (possible only for a last iteration that failed in the built-in
   request chain with no user middleware registered) are not observable: dropped on both sides *)
Definition nonempty (l : list event) : bool := match l with [] => false | _ => true end.
Definition logs_eqb (a b : list (list event)) : bool :=
  list_eqb (list_eqb event_eqb) (filter nonempty a) (filter nonempty b).

Definition prog_check (p : program) (o : observation) : bool :=
      match run Fixed p with
      | OutOfFuel => false
      | Panicked e ls h =>
          o_panic o && opt_z_eqb (Some e) (o_ret_err o) && logs_eqb ls (o_logs o) && Nat.eqb h (o_hooks o)
      | Returned ro e ls h =>
          negb (o_panic o) &&
          match ro with
          | None => o_resp_nil o
          | Some r =>
              negb (o_resp_nil o) &&
              resp_matches r (o_present o) (o_status o) (o_resp_err o) (o_cached o) (o_result o) (o_error o)
          end &&
          opt_z_eqb e (o_ret_err o) &&
          logs_eqb ls (o_logs o) && Nat.eqb h (o_hooks o)
      end.

Definition c18_check (c : c18_case) : bool :=
  match c with
  | ClassCase s st => default_result_state s =? st
  | ProgCase p o => prog_check p o
  | CloneCase ops obs =>
      list_eqb (fun a b =>
        match a, b with
        | (r1, q1, w1, t1), (r2, q2, w2, t2) =>
          list_eqb Nat.eqb r1 r2 && list_eqb Nat.eqb q1 q2 && list_eqb Nat.eqb w1 w2 && Nat.eqb t1 t2
        end) (map observed (run_ops ops)) obs
  | EntryCase name pkg p o =>
      match kind_of entry_table name pkg with
      | Some k => prog_check (mkProg k (p_cfg p) (p_attempts p)) o
      | None => false
      end
  end.
