(* Model/Handshake.v - C19: the TLS handshake option of a transport and Clone.
   Options.TLSHandshakeContext is a function value (copied by Options.Clone); a fingerprint handshake
   (Client.SetTLSFingerprint -> Transport.setTLSFingerprint) is bound to its transport, so it also leaves a
   hook (Transport.reinstallTLSFingerprint) that Transport.Clone runs to install the handshake anew on the
   clone; Transport.SetTLSHandshake installs a caller's function and clears the hook.  How the two setters
   are written is regenerated from the source (hs_tbl).  No proofs in this file. *)
From Coq Require Import List Arith Bool.
Import ListNotations.

(* what a transport handshakes with: nothing special, a caller's function, a utls fingerprint *)
Inductive hkind := HNone | HCustom (id : nat) | HFinger (id : nat).
Record hstate := { hs_fn : hkind; hs_hook : option nat }.
Definition hstate0 : hstate := {| hs_fn := HNone; hs_hook := None |}.

Record hs_tbl := {
  h_custom_clears_hook : bool;     (* SetTLSHandshake: t.reinstallTLSFingerprint = nil *)
  h_finger_sets_hook : bool;       (* setTLSFingerprint: t.reinstallTLSFingerprint = func(tt) { tt.setTLSFingerprint(id) } *)
  h_clone_runs_hook : bool }.      (* Transport.Clone: if t.reinstallTLSFingerprint != nil { t.reinstallTLSFingerprint(tt) } *)
Definition good_hs : hs_tbl := {| h_custom_clears_hook := true; h_finger_sets_hook := true; h_clone_runs_hook := true |}.

Inductive hop :=
| HSetFinger (id : nat)            (* SetTLSFingerprint(id) and its named variants *)
| HSetCustom (id : nat).           (* SetTLSHandshake(fn) at client or transport level *)

Definition happly (t : hs_tbl) (s : hstate) (o : hop) : hstate :=
  match o with
  | HSetFinger id => {| hs_fn := HFinger id; hs_hook := if h_finger_sets_hook t then Some id else hs_hook s |}
  | HSetCustom id => {| hs_fn := HCustom id; hs_hook := if h_custom_clears_hook t then None else hs_hook s |}
  end.

(* Transport.Clone: Options value copy (same function), hook not copied (a new Transport literal), then the
   original's hook installs the fingerprint handshake - and its hook - on the clone *)
Definition hclone (t : hs_tbl) (s : hstate) : hstate :=
  match hs_hook s with
  | Some id => if h_clone_runs_hook t then happly t {| hs_fn := hs_fn s; hs_hook := None |} (HSetFinger id)
               else {| hs_fn := hs_fn s; hs_hook := None |}
  | None => {| hs_fn := hs_fn s; hs_hook := None |}
  end.

(* observable kind: 0 none, 1 a caller's function (with its identity), 2 a fingerprint handshake *)
Definition hobs (s : hstate) : nat * nat :=
  match hs_fn s with HNone => (0, 0) | HCustom id => (1, id) | HFinger _ => (2, 0) end.

(* programs over several clients *)
Inductive hsstep :=
| HsSet (c : nat) (o : hop)
| HsClone (src dst : nat)
| HsObs (c : nat) (kind id : nat).      (* what client c's transport handshakes with, as observed *)

Definition hsget (c : nat) (l : list (nat * hstate)) : hstate :=
  match find (fun kv => fst kv =? c) l with Some kv => snd kv | None => hstate0 end.
Definition hsset (c : nat) (x : hstate) (l : list (nat * hstate)) : list (nat * hstate) :=
  (c, x) :: filter (fun kv => negb (fst kv =? c)) l.

Fixpoint hs_run (t : hs_tbl) (st : list (nat * hstate)) (l : list hsstep) : bool :=
  match l with
  | [] => true
  | HsSet c o :: r => hs_run t (hsset c (happly t (hsget c st) o) st) r
  | HsClone s d :: r => hs_run t (hsset d (hclone t (hsget s st)) st) r
  | HsObs c k id :: r =>
      let '(k', id') := hobs (hsget c st) in (k' =? k) && (id' =? id) && hs_run t st r
  end.
